(* Model of the memoisation in Rule.Inflected (internal/rule.go:48-53):

     inflected, _ := r.cache.LoadOrStore(s, sync.OnceValue(func() string { return r.inflected(s) }))
     return inflected.(func() string)()

   as a small-step transition system over an unbounded set of concurrent calls.  Call number t
   has the argument [keys t].  Every call allocates its own OnceValue closure (cell number t, it
   captures [keys t]); LoadOrStore and the steps of sync.Once are the atomic actions, as their
   documentation states them: LoadOrStore returns the existing value for the key if present,
   otherwise stores and returns the given one; Once.Do runs the function in exactly one caller
   and every other caller blocks until that run has finished.  Definitions only. *)
Require Import Gengo.Base.Bytes.

Section Cache.
  Variables key val : Type.
  Variable key_eqb : key -> key -> bool.
  Variable f : key -> val.            (* r.inflected; a panic is a value of [val] *)
  Variable keys : nat -> key.         (* argument of call t *)

  (* the OnceValue closure created by call c: not entered, f running in some call, finished *)
  Inductive cell := Fresh | Running | Finished (v : val).

  Inductive phase :=
  | Start                 (* before LoadOrStore *)
  | Loaded (c : nat)      (* holds closure c, about to call it / waiting inside once.Do *)
  | InOnce (c : nat)      (* this call is the one running f inside once.Do of closure c *)
  | Done (v : val).       (* returned v *)

  Record state := mk_state {
    cache : list (key * nat);      (* sync.Map: key -> closure *)
    cells : nat -> cell;
    phases : nat -> phase
  }.

  Definition init : state := mk_state [] (fun _ => Fresh) (fun _ => Start).

  Fixpoint find (k : key) (m : list (key * nat)) : option nat :=
    match m with
    | [] => None
    | (k', c) :: r => if key_eqb k k' then Some c else find k r
    end.

  Definition upd {A} (g : nat -> A) (i : nat) (a : A) : nat -> A :=
    fun j => if Nat.eqb j i then a else g j.

  (* one atomic action of call t *)
  Definition step (st : state) (t : nat) : state :=
    match phases st t with
    | Start =>                                     (* LoadOrStore(keys t, closure t) *)
        match find (keys t) (cache st) with
        | Some c => mk_state (cache st) (cells st) (upd (phases st) t (Loaded c))
        | None => mk_state ((keys t, t) :: cache st) (cells st) (upd (phases st) t (Loaded t))
        end
    | Loaded c =>                                  (* closure c (): once.Do *)
        match cells st c with
        | Fresh => mk_state (cache st) (upd (cells st) c Running) (upd (phases st) t (InOnce c))
        | Running => st                            (* blocked until the running call finishes *)
        | Finished v => mk_state (cache st) (cells st) (upd (phases st) t (Done v))
        end
    | InOnce c =>                                  (* f returns: closure c computed r.inflected(keys c) *)
        mk_state (cache st) (upd (cells st) c (Finished (f (keys c)))) (upd (phases st) t (Loaded c))
    | Done _ => st
    end.

  (* a schedule is any finite sequence of call numbers *)
  Definition run (sched : list nat) (st : state) : state := fold_left step sched st.
End Cache.

Arguments Fresh {val}.
Arguments Running {val}.
Arguments Finished {val} v.
Arguments Start {val}.
Arguments Loaded {val} c.
Arguments InOnce {val} c.
Arguments Done {val} v.
