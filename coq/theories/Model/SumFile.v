(* Model of pkg/sumfile/file.go at byte level: Load (13-32), Bytes (50-59), Sum (61-66), and of the two
   standard-library scanners Load is written with: bytes.Lines and bytes.Fields.  Definitions only.

   A Go  map[string]string  is an association list with distinct keys; the order of the list is the
   (arbitrary) iteration order and is never observable because Bytes sorts the keys. *)
Require Import Gengo.Base.Bytes.

Definition nl : ascii := ascii_of_N 10.
Definition sp : ascii := ascii_of_N 32.

(* ---- bytes.Lines: every yielded line keeps its terminating newline; a last line without one is
        yielded as it is; the empty input yields nothing ---- *)
Fixpoint lines (s : bytes) : list bytes :=
  match s with
  | [] => []
  | c :: r =>
      if byte_eqb c nl then [c] :: lines r
      else match lines r with
           | [] => [[c]]
           | l :: ls => (c :: l) :: ls
           end
  end.

(* ---- bytes.Fields: split around runs of white space as unicode.IsSpace defines it.
   '\t' '\n' '\v' '\f' '\r' ' ' and, UTF-8 encoded, U+0085 U+00A0 U+1680 U+2000..U+200A U+2028 U+2029
   U+202F U+205F U+3000.  (Fields decodes runes only when the slice has a byte >= 0x80; an invalid
   sequence is one non-space byte.  Every white-space encoding starts with a lead byte and lead bytes
   never occur inside a valid sequence, so matching the encodings at byte positions is the same scan.) *)
Definition ascii_space (c : ascii) : bool :=
  let n := N_of_ascii c in ((9 <=? n) && (n <=? 13))%N || (n =? 32)%N.

(* number of bytes of the white-space rune at the head of [s]; 0 when [s] does not start with one *)
Definition space_width (s : bytes) : nat :=
  match s with
  | [] => 0
  | c :: r =>
      if ascii_space c then 1 else
      match N_of_ascii c, map N_of_ascii (firstn 2 r) with
      | 194%N, (133%N :: _) => 2                                   (* C2 85     U+0085 *)
      | 194%N, (160%N :: _) => 2                                   (* C2 A0     U+00A0 *)
      | 225%N, [154%N; 128%N] => 3                                 (* E1 9A 80  U+1680 *)
      | 226%N, [128%N; x] =>
          if ((128 <=? x) && (x <=? 138))%N || (x =? 168)%N || (x =? 169)%N || (x =? 175)%N
          then 3 else 0                                            (* E2 80 80..8A / A8 / A9 / AF *)
      | 226%N, [129%N; 159%N] => 3                                 (* E2 81 9F  U+205F *)
      | 227%N, [128%N; 128%N] => 3                                 (* E3 80 80  U+3000 *)
      | _, _ => 0
      end
  end.

(* the bytes of import paths and of h1: hashes: ASCII, not white space.  A [token] is a non-empty run of them. *)
Definition plain (c : ascii) : bool := negb (ascii_space c) && (N_of_ascii c <? 128)%N.
Definition token_ok (s : bytes) : bool := negb (is_nil s) && forallb plain s.

Definition flush (cur : bytes) (acc : list bytes) : list bytes :=
  match cur with [] => acc | _ => rev cur :: acc end.

(* [skip] = bytes of the current white-space rune still to be passed over; [cur] = the field being
   collected, newest byte first; [acc] = finished fields, newest first *)
Fixpoint fields_go (s : bytes) (skip : nat) (cur : bytes) (acc : list bytes) : list bytes :=
  match s with
  | [] => rev (flush cur acc)
  | c :: r =>
      match skip with
      | S k => fields_go r k cur acc
      | O =>
          match space_width s with
          | O => fields_go r 0 (c :: cur) acc
          | S k => fields_go r k [] (flush cur acc)
          end
      end
  end.
Definition fields (s : bytes) : list bytes := fields_go s 0 [] [].

(* ---- the map ---- *)
Definition sum := list (bytes * bytes).

Fixpoint sum_get (m : sum) (k : bytes) : option bytes :=
  match m with
  | [] => None
  | (k', v) :: r => if bytes_eqb k' k then Some v else sum_get r k
  end.

(* m[k] = v *)
Fixpoint sum_set (m : sum) (k v : bytes) : sum :=
  match m with
  | [] => [(k, v)]
  | (k', v') :: r => if bytes_eqb k' k then (k, v) :: r else (k', v') :: sum_set r k v
  end.

(* File.Sum (file.go:61-66): the zero value for a missing key (and for a nil map) *)
Definition sum_sum (m : sum) (k : bytes) : bytes :=
  match sum_get m k with Some v => v | None => [] end.

(* ---- Load (file.go:24-29): only lines with at least two fields count; later lines overwrite ---- *)
Definition load_line (m : sum) (line : bytes) : sum :=
  match fields line with
  | k :: v :: _ => sum_set m k v
  | _ => m
  end.
Definition sumfile_load (data : bytes) : sum := fold_left load_line (lines data) [].

(* ---- byte-wise string order (Go's < on strings) and slices.Sorted ---- *)
Fixpoint bytes_leb (a b : bytes) : bool :=
  match a, b with
  | [], _ => true
  | _ :: _, [] => false
  | x :: a', y :: b' =>
      if (N_of_ascii x <? N_of_ascii y)%N then true
      else if (N_of_ascii y <? N_of_ascii x)%N then false
      else bytes_leb a' b'
  end.

Section Sort.
  Context {A : Type} (key : A -> bytes).
  Fixpoint insert_by (x : A) (l : list A) : list A :=
    match l with
    | [] => [x]
    | y :: r => if bytes_leb (key x) (key y) then x :: l else y :: insert_by x r
    end.
  Fixpoint sort_by (l : list A) : list A :=
    match l with
    | [] => []
    | x :: r => insert_by x (sort_by r)
    end.
End Sort.
Definition sort_keys : list bytes -> list bytes := sort_by (fun k => k).

(* ---- Bytes (file.go:50-59): one "path hash\n" line per key, keys sorted ---- *)
Definition sum_line (m : sum) (k : bytes) : bytes := k ++ sp :: sum_sum m k ++ [nl].
Definition sumfile_bytes (m : sum) : bytes := flat_map (sum_line m) (sort_keys (map fst m)).
