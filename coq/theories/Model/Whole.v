(* ONE system.  The pipeline model (Model/Pipeline.v: Execute / pkgExecute / doGenerate / WriteToFile on a file
   system) instantiated with the component models that were written separately for the other properties:

     e_sum_load / e_sum_bytes   the byte-level gengo.sum of Model/SumFile.v (C08): bytes.Lines, bytes.Fields, sorted keys
     e_enabled                  IsGeneratorEnabled on merge(Globals, package tags, declaration tags) of Model/Dispatch.v (C06)
     e_fmt                      still a parameter (the Go formatter stack; C01 describes it as fmt1 + settle fmt2)
     e_order, e_rm_rank         still parameters (iteration orders of the sync.Map of retained genfiles and of the
                                Go map of stale files)
     e_fixed                    true: the code as it is now

   plus the ADAPTERS that let a second model of the same Go code be run on the same input, so that
   Proofs/Whole*.v can state that the two readings coincide:

     SumCache.run   (C08)  with tree := fs, gen := the pipeline's package step, locals / hashes := the loaded world
     Dispatch.execute (C06) from one description of the packages (wpkg) that yields both Dispatch's package
                           and the pipeline's pkginfo, and the recording generator as a pipeline state machine
     GenFile.write_file (C01) a pipeline genfile (name, body) as a GenFile.genfile with an empty import table
     Determinism.run (C04)  see Model/WholeDet.v

   Definitions only. *)
Require Import Gengo.Base.Bytes Gengo.Model.Pipeline.
Require Gengo.Model.SumFile Gengo.Model.SumCache Gengo.Model.Dispatch Gengo.Model.GenFile.

(* ---------- the composed environment ---------- *)

(* Context.Doc: merge(c.args.Globals, c.pkgTags, tags of the declaration), then IsGeneratorEnabled *)
Definition whole_enabled (G : tags) (g : bytes) (p : pkginfo) (t : tyinfo) : bool :=
  Dispatch.is_generator_enabled g (Dispatch.merge [G; pk_tags p; ty_tags t]).

(* [fixed = false] only to replay the code before the repair of #26 (Corr/Pipe.v); the system is [whole_env] *)
Definition whole_env_fx (fixed : bool) (fmt : bytes -> option bytes)
  (order : pkginfo -> list (bytes * bytes) -> list (bytes * bytes)) (rank : pkginfo -> bytes -> nat) (G : tags) : env := {|
  e_fmt := fmt;
  e_sum_load := SumFile.sumfile_load;
  e_sum_bytes := SumFile.sumfile_bytes;
  e_enabled := whole_enabled G;
  e_order := order;
  e_rm_rank := rank;
  e_fixed := fixed
|}.
(* the system: formatter, the two map orders (retained genfiles, stale files) and the global tags are parameters *)
Definition whole_env := whole_env_fx true.
Definition rank0 : pkginfo -> bytes -> nat := fun _ _ => 0.     (* stale files removed in the order of p.Files() *)

(* ---------- adapter 1: Model/SumCache.v on the pipeline's data ---------- *)

(* gengo.sum as SumCache sees it.  The pipeline has no unreadable files (I/O errors are outside it). *)
Definition sum_state (w : world) (s : fs) : SumCache.sumstate :=
  match fs_lookup (sum_path w) s with
  | Some b => SumCache.SumFile b
  | None => SumCache.SumMissing
  end.

Definition abs_state (w : world) (s : fs) : SumCache.state fs :=
  {| SumCache.st_tree := s; SumCache.st_sum := sum_state w s |}.

(* what SumCache's (package path, direct) list is for a loaded world *)
Definition world_locals (w : world) : list (bytes * bool) :=
  map (fun p => (pk_path p, is_direct w p)) (w_pkgs w).

Section SumCacheAdapter.
  Variable E : env.
  Variable a : args.
  Variable w : world.
  Variable gens : list generator.

  Definition find_pkg (path : bytes) : option pkginfo :=
    find (fun p => bytes_eqb (pk_path p) path) (w_pkgs w).

  (* SumCache's [gen]: what executing the generators for one package does to the tree *)
  Definition pkg_step (t : fs) (path : bytes) : fs :=
    match find_pkg path with
    | Some p => apply_all (fst (fst (pkg_effects E a gens p))) t
    | None => t
    end.
  (* ... and the calls it makes *)
  Definition pkg_trace (path : bytes) : trace :=
    match find_pkg path with
    | Some p => snd (fst (pkg_effects E a gens p))
    | None => []
    end.

  Definition pkg_fails (p : pkginfo) : bool :=
    match snd (pkg_effects E a gens p) with Done => false | _ => true end.

  (* SumCache's [r_fail]: "the package in which a generator returns an error, if it gets executed" — for the
     pipeline that is the first package of the loop that is executed and does not come back with Done
     (an error of a generator or of a callback, an unparseable rendering, or the death of the process) *)
  Fixpoint first_fail (prev : option (list (bytes * bytes))) (ps : list pkginfo) : option bytes :=
    match ps with
    | [] => None
    | p :: r =>
        if selected a w p && pkg_changed a w prev p && pkg_fails p then Some (pk_path p)
        else first_fail prev r
    end.

  Definition run_args (entry : list bytes) (s : fs) : SumCache.runargs := {|
    SumCache.r_all := a_all a;
    SumCache.r_force := a_force a;
    SumCache.r_entry := entry;
    SumCache.r_fail := first_fail (load_prev E a w s) (sorted_pkgs w)
  |}.

  (* what SumCache leaves out: the files a FAILING package had already written when Execute returned
     (the EvFail event, if there is one, is the last event) *)
  Fixpoint fail_effects (evs : list SumCache.ev) : list effect :=
    match evs with
    | [] => []
    | SumCache.EvFail path :: _ =>
        match find_pkg path with
        | Some p => fst (fst (pkg_effects E a gens p))
        | None => []
        end
    | _ :: r => fail_effects r
    end.
End SumCacheAdapter.

(* ---------- adapter 2: Model/GenFile.v ---------- *)

(* a retained genfile of the pipeline (generator name, rendered body) as C01's genfile: one Block, no imports *)
Definition genfile_of (gf : bytes * bytes) : GenFile.genfile :=
  GenFile.mk_genfile (fst gf) [] [GenFile.SBlock (snd gf)].

(* C01's formatter (parse + gofumpt AST pass + print, then gofumpt Source until stable) as the pipeline's e_fmt *)
Definition genfile_fmt (fmt1 fmt2 : bytes -> option bytes) : bytes -> option bytes :=
  GenFile.fmt_src fmt1 fmt2 true.

(* the directory of package p inside the module tree, as C01's fsys sees it *)
Definition dir_get (dir : bytes) (s : fs) (name : bytes) : option bytes := fs_lookup (dir, name) s.

(* ---------- adapter 3: Model/Dispatch.v ---------- *)

Definition kind_of (k : Dispatch.kind) : tykind :=
  match k with Dispatch.KNamed => KNamed | Dispatch.KAlias => KAlias | Dispatch.KOther => KOther end.

(* one description of a package from which BOTH models take their input *)
Record wpkg := mk_wpkg {
  wp_path : bytes; wp_dir : bytes; wp_name : bytes; wp_files : list bytes; wp_hash : bytes;
  wp_d : Dispatch.pkg      (* id, direct, per-file package tags, TypesInfo.Defs with the recording generator's script *)
}.

Definition wp_table (wp : wpkg) : list (bytes * Dispatch.tdef) :=
  Dispatch.type_table true (Dispatch.pk_defs (wp_d wp)).

Definition ty_of (kv : bytes * Dispatch.tdef) : tyinfo :=
  {| ty_name := fst kv; ty_kind := kind_of (Dispatch.td_kind (snd kv)); ty_tags := Dispatch.td_tags (snd kv) |}.

(* the pipeline's view: the type TABLE (p.Types()), the merged package tags *)
Definition to_pkginfo (wp : wpkg) : pkginfo := {|
  pk_path := wp_path wp; pk_dir := wp_dir wp; pk_name := wp_name wp; pk_files := wp_files wp;
  pk_tags := Dispatch.pkg_tags (Dispatch.pk_filetags (wp_d wp));
  pk_types := map ty_of (wp_table wp);
  pk_hash := wp_hash wp
|}.

Definition to_world (modroot : bytes) (wps : list wpkg) : world := {|
  w_modroot := modroot;
  w_pkgs := map to_pkginfo wps;
  w_direct := map wp_path (filter (fun wp => Dispatch.pk_direct (wp_d wp)) wps)
|}.

(* what the recording generator of C06 does, as results of the pipeline *)
Definition res_of (x : Dispatch.action) : gresult :=
  match x with
  | Dispatch.ANil | Dispatch.AQuiet => RNil
  | Dispatch.ASkip => RSkip
  | Dispatch.AIgnore => RIgnore
  | Dispatch.AErr => RErr
  end.
Definition mark : bytes := bs "x".       (* "renders": any non-empty text *)
Definition body_of (x : Dispatch.action) : bytes := if Dispatch.renders x then mark else [].

Fixpoint find_wp (path : bytes) (wps : list wpkg) : option wpkg :=
  match wps with
  | [] => None
  | wp :: r => if bytes_eqb (wp_path wp) path then Some wp else find_wp path r
  end.

(* state of the recording generator for one package: the package's type table and c.defers so far
   (the id the pipeline knows a callback by is its position in c.defers) *)
Definition dstate := (list (bytes * Dispatch.tdef) * list Dispatch.dspec)%type.

Definition nothing : step_out := {| so_body := []; so_res := RNil; so_defers := [] |}.

Definition disp_gen (wps : list wpkg) (fuel : nat) (g : Dispatch.gen) : generator := {|
  g_name := Dispatch.g_name g;
  g_alias := Dispatch.g_alias g;
  g_state := dstate;
  g_new := fun p => (match find_wp (pk_path p) wps with Some wp => wp_table wp | None => [] end, []);
  g_type := fun st _ t =>
    match Dispatch.lookup (ty_name t) (fst st) with
    | None => (st, nothing)
    | Some d =>
        let reg := if Dispatch.is_nil_action (Dispatch.td_action d) then Dispatch.td_defers d else [] in
        ((fst st, snd st ++ reg),
         {| so_body := body_of (Dispatch.td_action d); so_res := res_of (Dispatch.td_action d);
            so_defers := seq (List.length (snd st)) (List.length reg) |})
    end;
  g_defer := fun st _ i =>
    match nth_error (snd st) i with
    | None => (st, nothing)
    | Some (Dispatch.DS _ true _) => (st, {| so_body := []; so_res := RErr; so_defers := [] |})
    | Some (Dispatch.DS _ false nested) =>
        ((fst st, snd st ++ nested),
         {| so_body := mark; so_res := RNil; so_defers := seq (List.length (snd st)) (List.length nested) |})
    end;
  g_fuel := fuel
|}.

(* Dispatch's run of the same description: packages in the order Execute visits them *)
Definition sort_wps (wps : list wpkg) : list wpkg := sort_by wp_path wps.
Definition disp_pkgs (wps : list wpkg) : list Dispatch.pkg := map wp_d (sort_wps wps).
