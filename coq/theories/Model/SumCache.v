(* Model of the gengo.sum cache: the part of  gengoCtx.Execute  that decides which packages are
   regenerated (pkg/gengo/context.go:95-142), the per-package directory hashing at load time
   (pkg/types/load.go:81-96) and the world it runs in, as a state machine over histories of edits, damage
   to gengo.sum and runs.  Definitions only.

   External components are Section variables:
     tree / content   the file tree of the module / what dirhash reads below one package directory
     H                golang.org/x/mod/sumdb/dirhash (Hash1);  None = HashDir returned an error
     dirc             the files below a package directory (RECURSIVE: nested packages included).  Its second
                      argument is the content of <module root>/gengo.sum when that is a regular file: the sum
                      file lies inside the directory of a package at the module root.
     gen              what executing the generators does to the tree for one package (writes / removes the
                      generated files inside that package's directory)
     locals           go/packages + the register loop of load.go: the packages of the main module reached
                      from the entrypoints, each with its "direct" flag — keys of a Go map, in ANY order.

   [fixes] selects the code before/after the two "fix:" patches of this property:
     fx_empty    pkgChanged treats an empty current hash (directory could not be hashed) as changed
     fx_rootsum  the directory hash of a package at the module root leaves gengo.sum itself out *)
Require Import Gengo.Base.Bytes Gengo.Model.SumFile.

Inductive sumstate :=
| SumMissing                  (* no gengo.sum *)
| SumFile (b : bytes)         (* a regular file with these bytes *)
| SumUnreadable.              (* exists but cannot be read or written as a file (e.g. a directory) *)

Record fixes := { fx_empty : bool; fx_rootsum : bool }.
Definition fixed_all : fixes := {| fx_empty := true; fx_rootsum := true |}.
Definition fixed_none : fixes := {| fx_empty := false; fx_rootsum := false |}.

Record runargs := {
  r_all : bool;                 (* GeneratorArgs.All *)
  r_force : bool;               (* GeneratorArgs.Force *)
  r_entry : list bytes;         (* GeneratorArgs.Entrypoint *)
  r_fail : option bytes         (* the package in which a generator returns an error, if it gets executed *)
}.

Inductive ev :=
| EvExec (p : bytes)            (* pkgChanged = true, generators ran, files written *)
| EvSkip (p : bytes)            (* pkgChanged = false: "cached" *)
| EvFail (p : bytes).           (* pkgChanged = true, a generator failed: Execute returns the error *)

Inductive errkind := ENone | EGen | ESave.

(* when the caller's context.Context is cancelled (see [run_ctx]) *)
Inductive ctxstate :=
| CtxLive                     (* never cancelled *)
| CtxDoneAtCall               (* cancelled, or its deadline passed, before Execute is called *)
| CtxDoneIn (p : bytes).      (* cancelled while package p is generated (if p is executed at all) *)

Definition ev_executed (e : ev) : list bytes :=
  match e with EvExec p | EvFail p => [p] | EvSkip _ => [] end.
Definition ev_skipped (e : ev) : list bytes :=
  match e with EvSkip p => [p] | _ => [] end.
Definition ev_visited (e : ev) : bytes :=
  match e with EvExec p | EvFail p | EvSkip p => p end.
Definition executed (evs : list ev) : list bytes := flat_map ev_executed evs.
Definition skipped (evs : list ev) : list bytes := flat_map ev_skipped evs.
Definition visited (evs : list ev) : list bytes := map ev_visited evs.
Definition ev_is_fail (e : ev) : bool := match e with EvFail _ => true | _ => false end.
Definition failed (evs : list ev) : bool := existsb ev_is_fail evs.

Definition opt_bytes_eqb (o : option bytes) (p : bytes) : bool :=
  match o with Some q => bytes_eqb q p | None => false end.

Section Cache.
  Variables tree content : Type.
  Variable H : content -> option bytes.
  Variable dirc : tree -> option bytes -> bytes -> content.
  Variable gen : tree -> bytes -> tree.
  Variable locals : tree -> list bytes -> list (bytes * bool).

  Record state := { st_tree : tree; st_sum : sumstate }.

  Inductive op :=
  | Edit (f : tree -> tree)     (* create / change / delete any files except gengo.sum *)
  | DeleteSum
  | CorruptSum (b : bytes)      (* overwrite gengo.sum with arbitrary bytes *)
  | BlockSum                    (* make gengo.sum unreadable *)
  | Run (a : runargs).

  Definition sum_file_bytes (s : sumstate) : option bytes :=
    match s with SumFile b => Some b | _ => None end.

  (* load.go:87   x, _ := dirhash.HashDir(pkgDir, "", dirhash.Hash1)   — the error is dropped, x = "" *)
  Definition hash_of (fx : fixes) (st : state) (p : bytes) : bytes :=
    match H (dirc (st_tree st) (if fx_rootsum fx then None else sum_file_bytes (st_sum st)) p) with
    | Some h => h
    | None => []
    end.

  (* load.go:81-96: u.sumFile.Data[p.PkgPath] = x for every local package (distinct keys) *)
  Definition current_sum (fx : fixes) (st : state) (loc : list (bytes * bool)) : sum :=
    map (fun pd => (fst pd, hash_of fx st (fst pd))) loc.

  (* context.go:96-106: with All, the previous sums are read once, from the module root of the first
     direct package; a failed read leaves c.sumFile nil *)
  Definition previous_sum (a : runargs) (st : state) (loc : list (bytes * bool)) : option sum :=
    if r_all a && existsb snd loc then
      match st_sum st with SumFile b => Some (sumfile_load b) | _ => None end
    else None.

  (* context.go:131-142 *)
  Definition pkg_changed (fx : fixes) (a : runargs) (prev : option sum) (cur : sum) (p : bytes) : bool :=
    if r_force a then true else
    match prev with
    | None => true
    | Some pv =>
        (fx_empty fx && is_nil (sum_sum cur p)) || negb (bytes_eqb (sum_sum pv p) (sum_sum cur p))
    end.

  (* context.go:108-116 with pkgExecute (144-150): the loop over LocalPkgPaths() in sorted order; the
     hashes were taken at load time, the tree changes as packages are generated *)
  Fixpoint pkg_loop (fx : fixes) (a : runargs) (prev : option sum) (cur : sum)
           (order : list (bytes * bool)) (t : tree) : tree * list ev :=
    match order with
    | [] => (t, [])
    | (p, direct) :: rest =>
        if negb (r_all a) && negb direct then pkg_loop fx a prev cur rest t
        else if pkg_changed fx a prev cur p then
          if opt_bytes_eqb (r_fail a) p then (t, [EvFail p])
          else let (t', evs) := pkg_loop fx a prev cur rest (gen t p) in (t', EvExec p :: evs)
        else let (t', evs) := pkg_loop fx a prev cur rest t in (t', EvSkip p :: evs)
    end.

  (* Execute.  context.go:118-126: after the loop, with All, the hashes taken at load time are saved *)
  Definition run (fx : fixes) (a : runargs) (st : state) : state * (list ev * errkind) :=
    let loc := locals (st_tree st) (r_entry a) in
    let cur := current_sum fx st loc in
    let prev := previous_sum a st loc in
    let (t', evs) := pkg_loop fx a prev cur (sort_by fst loc) (st_tree st) in
    if failed evs then ({| st_tree := t'; st_sum := st_sum st |}, (evs, EGen))
    else if r_all a then
      match st_sum st with
      | SumUnreadable => ({| st_tree := t'; st_sum := SumUnreadable |}, (evs, ESave))
      | _ => ({| st_tree := t'; st_sum := SumFile (sumfile_bytes cur) |}, (evs, ENone))
      end
    else ({| st_tree := t'; st_sum := st_sum st |}, (evs, ENone)).

  (* Execute's first parameter, the caller's context.Context.  context.go:95-128 hands it to
     logr.LoggerInjectContext and, through pkgExecute, to logr's Start (146, 152) and to nothing else: neither
     Execute nor pkgExecute / doGenerate call ctx.Err() or read ctx.Done(), and the generator interface
     (GenerateType(Context, *types.Named)) does not receive it.  So the point at which the caller gives up
     (ctrl-c = cancel, or a deadline) — before the call, while some package is generated, never — is an
     argument of Execute that the result does not depend on: a cancelled run is an ordinary run, it visits
     every package of its scope, returns nil and (with All) saves the load-time hashes of all of them. *)
  Definition run_ctx (fx : fixes) (c : ctxstate) (a : runargs) (st : state) : state * (list ev * errkind) :=
    run fx a st.

  Definition step (fx : fixes) (o : op) (st : state) : state :=
    match o with
    | Edit f => {| st_tree := f (st_tree st); st_sum := st_sum st |}
    | DeleteSum => {| st_tree := st_tree st; st_sum := SumMissing |}
    | CorruptSum b => {| st_tree := st_tree st; st_sum := SumFile b |}
    | BlockSum => {| st_tree := st_tree st; st_sum := SumUnreadable |}
    | Run a => fst (run fx a st)
    end.

  Definition exec (fx : fixes) (st : state) (ops : list op) : state :=
    fold_left (fun s o => step fx o s) ops st.
End Cache.

Arguments st_tree {tree}.
Arguments st_sum {tree}.
Arguments Build_state {tree}.
Arguments Edit {tree}.
Arguments DeleteSum {tree}.
Arguments CorruptSum {tree}.
Arguments BlockSum {tree}.
Arguments Run {tree}.
