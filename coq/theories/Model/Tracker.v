(* Model of the import-naming system:
     pkg/namer/import_tracker.go   defaultImportTracker.add, toLocalName, golangTrackerLocalName,
                                   Imports / LocalNameOf / PathOf
     pkg/namer/std.go              the table of names reserved for std packages (built by [add]
                                   with checkStd = false over the lines of std.list)
     pkg/namer/namer.go            rawNamer.Name, processName
     pkg/gengo/genfile.go          writeImports (sorted  name "path"  lines)
   Definitions only.  Go strings are byte lists; the model is the code's behaviour on ASCII
   import paths (the camelcase splitter is instantiated with the ASCII rune classifier).
   Go maps are association lists (the tracker only looks keys up and inserts absent keys; the one
   place where a map is ranged over, writeImports, sorts the keys first).

   [fixed = false] is the code before the two repairs fixes/C03-1, C03-2:
     - toLocalName returned whatever LowerCamelCase left (keywords, leading digits, punctuation,
       the empty string);
     - add gave up silently when every candidate was taken or reserved.
   [fixed = true] is the repaired code.

   [pre] is the list of names [bind] refuses outright.  The code after fixes/C03-3 refuses the
   names of go/types.Universe ([pre] = Gen/StdList.v [universe_names]); the code before it refused
   nothing ([pre = []]), so a package could be imported as `string` or `len`. *)
Require Import Gengo.Base.Bytes Gengo.Model.CamelCase Gengo.Model.GoIdent.
From Coq Require Decimal DecimalNat DecimalString.

(* ---- Go map[string]string ---- *)
Definition amap := list (bytes * bytes).

Fixpoint lookup (k : bytes) (m : amap) : option bytes :=
  match m with
  | [] => None
  | (k', v) :: r => if bytes_eqb k k' then Some v else lookup k r
  end.

(* m[k] of a map[string]string: "" when absent *)
Definition lookup_or_empty (k : bytes) (m : amap) : bytes :=
  match lookup k m with Some v => v | None => [] end.

Record tracker := mk_tracker { p2n : amap; n2p : amap }.   (* pathToName, nameToPath *)
Definition empty_tracker : tracker := mk_tracker [] [].

(* ---- strings.Split(path, "/") ---- *)
Definition slash : ascii := "/"%char.
Fixpoint split_slash (cur : bytes) (s : bytes) : list bytes :=
  match s with
  | [] => [rev cur]
  | c :: r => if byte_eqb c slash then rev cur :: split_slash [] r else split_slash (c :: cur) r
  end.

(* ---- toLocalName ---- *)
(* the rune classes of an ASCII byte, as unicode.IsLower/IsUpper/IsDigit give them *)
Definition cr (c : ascii) : crune :=
  (N_of_ascii c,
   if is_lower c then CLower else if is_upper c then CUpper else if is_digit c then CDigit else COther).

(* strings.ToLower(camelcase.LowerCamelCase(strings.Join(parts, ""))) *)
Definition raw_local_name (parts : list bytes) : res bytes :=
  match c_conv true 4 (Valid (map cr (concat parts))) with
  | Ok r => Ok (map (fun x => to_lower (ascii_of_N (c_code x))) r)
  | Panic => Panic
  | OutOfFuel => OutOfFuel
  end.

Definition hd_is_digit (n : bytes) : bool := match n with c :: _ => is_digit c | [] => false end.

(* the repair: keep letters, digits and '_' only; "pkg" when nothing (or only the blank
   identifier) is left; '_' in front of a leading digit or a keyword *)
Definition sanitize (raw : bytes) : bytes :=
  let name := filter ident_char raw in
  if is_nil name || is_blank name then bs "pkg"
  else if hd_is_digit name || is_keyword name then underscore :: name
  else name.

Definition to_local_name (fixed : bool) (parts : list bytes) : res bytes :=
  let! raw := raw_local_name parts in
  Ok (if fixed then sanitize raw else raw).

(* ---- golangTrackerLocalName ---- *)
(* strconv.ParseInt(s, 10, 64) returns a nil error: optional sign, at least one digit, only digits,
   and the value fits in int64 *)
Fixpoint dec_value (acc : N) (s : bytes) : N :=
  match s with
  | [] => acc
  | c :: r => dec_value (acc * 10 + (N_of_ascii c - 48)) r
  end.
Definition int64_cutoff : N := 9223372036854775808.
Definition parse_int_ok (s : bytes) : bool :=
  match s with
  | [] => false
  | c :: r =>
      let neg := byte_eqb c "-"%char in
      let ds := if byte_eqb c "+"%char || neg then r else s in
      negb (is_nil ds) && forallb is_digit ds &&
      (let v := dec_value 0 ds in if neg then N.leb v int64_cutoff else N.ltb v int64_cutoff)
  end.

(* strings.HasPrefix(seg, "v") && ParseInt(seg[1:]) ok   — seg[1:] is guarded by the prefix test *)
Definition is_vn (seg : bytes) : bool :=
  match seg with
  | c :: r => byte_eqb c "v"%char && parse_int_ok r
  | [] => false
  end.

(* the backward loop: [rsegs] is the segment list reversed; result in append order *)
Fixpoint collect (n count : nat) (rsegs : list bytes) : list bytes :=
  match rsegs with
  | [] => []
  | seg :: r =>
      if Nat.leb n count then []
      else if is_vn seg then seg :: collect n count r
      else seg :: collect n (S count) r
  end.

(* slices.Index *)
Fixpoint index_of (x : bytes) (l : list bytes) : option nat :=
  match l with
  | [] => None
  | y :: r => if bytes_eqb x y then Some 0 else option_map S (index_of x r)
  end.

(* if i := slices.Index(segs, w); i > 0 && i+1 < len(segs) { return toLocalName(segs[i+1:]...) } *)
Definition shortcut (w : bytes) (segs : list bytes) : option (list bytes) :=
  match index_of w segs with
  | Some (S i) => if Nat.ltb (S (S i)) (length segs) then Some (skipn (S (S i)) segs) else None
  | _ => None
  end.

Definition local_name (fixed : bool) (segs : list bytes) (n : nat) : res bytes :=
  let general := to_local_name fixed (rev (collect n 0 (rev segs))) in
  match segs with
  | [s] => to_local_name fixed [s]
  | _ =>
      if Nat.eqb n 1 then
        match shortcut (bs "domain") segs with
        | Some tl => to_local_name fixed tl
        | None =>
            match shortcut (bs "apis") segs with
            | Some tl => to_local_name fixed tl
            | None => general
            end
        end
      else general
  end.

(* ---- add ---- *)
(* the two tests of the loop body.  [std] = Some table when checkStd is set. *)
Definition std_conflict (std : option tracker) (nm path : bytes) : bool :=
  match std with
  | Some s => match lookup nm (n2p s) with Some p => negb (bytes_eqb p path) | None => false end
  | None => false
  end.

(* if types.Universe.Lookup(localName) != nil { return false }   — [pre] = the universe's names *)
Definition bind (pre : list bytes) (std : option tracker) (tr : tracker) (nm path : bytes) : option tracker :=
  if name_in pre nm then None
  else if std_conflict std nm path then None
  else match lookup nm (n2p tr) with
       | Some _ => None
       | None => Some (mk_tracker ((path, nm) :: p2n tr) ((nm, path) :: n2p tr))
       end.

(* for i := range len(parts) { localName = golangTrackerLocalName(parts, i+1); if bind { return } }
   [ns] = the remaining values of i+1; also returns the last candidate computed *)
Fixpoint try_cands (fixed : bool) (pre : list bytes) (std : option tracker) (tr : tracker) (path : bytes)
         (segs : list bytes) (ns : list nat) (last : bytes) : res (option tracker * bytes) :=
  match ns with
  | [] => Ok (None, last)
  | n :: rest =>
      let! nm := local_name fixed segs n in
      match bind pre std tr nm path with
      | Some tr' => Ok (Some tr', nm)
      | None => try_cands fixed pre std tr path segs rest nm
      end
  end.

(* strconv.Itoa of a non-negative int *)
Definition itoa (k : nat) : bytes := of_string (DecimalString.NilEmpty.string_of_uint (Nat.to_uint k)).

(* for n := 2; ; n++ { if bind(localName + Itoa(n)) { return } }      (repaired code only).
   The Go loop has no bound; the model runs it on fuel and Proofs/Tracker.v shows that the fuel
   [add] supplies (one more than the number of names that can be refused) is never used up. *)
Fixpoint number_loop (fuel : nat) (k : nat) (pre : list bytes) (std : option tracker) (tr : tracker)
         (base path : bytes) : res tracker :=
  match fuel with
  | O => OutOfFuel
  | S f =>
      match bind pre std tr (base ++ itoa k) path with
      | Some tr' => Ok tr'
      | None => number_loop f (S k) pre std tr base path
      end
  end.

Definition std_size (std : option tracker) : nat :=
  match std with Some s => length (n2p s) | None => 0 end.

Definition add (fixed : bool) (pre : list bytes) (std : option tracker) (tr : tracker) (path : bytes) : res tracker :=
  match lookup path (p2n tr) with
  | Some _ => Ok tr
  | None =>
      let segs := split_slash [] path in
      let! (r, last) := try_cands fixed pre std tr path segs (seq 1 (length segs)) [] in
      match r with
      | Some tr' => Ok tr'
      | None =>
          if fixed then number_loop (S (length (n2p tr) + std_size std + length pre)) 2 pre std tr last path
          else Ok tr                       (* the old code fell out of the loop: nothing bound *)
      end
  end.

(* std.go: init() — the reserved-name table is a tracker without checkStd fed with std.list *)
Fixpoint add_all (fixed : bool) (pre : list bytes) (std : option tracker) (tr : tracker) (paths : list bytes) : res tracker :=
  match paths with
  | [] => Ok tr
  | p :: r => let! tr' := add fixed pre std tr p in add_all fixed pre std tr' r
  end.
Definition build_std (fixed : bool) (pre : list bytes) (lines : list bytes) : res tracker :=
  add_all fixed pre None empty_tracker (filter (fun l => negb (is_nil l)) lines).

(* ---- rawNamer ---- *)
(* A reference as rawNamer.Name sees it.  [r_name] is the text of TypeName.Name() up to the type
   list; [r_args] is the pre-order list of the nodes of the parsed type list (TypeRef.Walk order =
   order of appearance in the printed text): the node's package path ("" = none) and the text that
   TypeRef.String prints from the node's name up to the next node (name, brackets, commas);
   [r_args = []] = no type list.  [r_tparams] = names of the type parameters of a generic
   *types.TypeName (declared, uninstantiated). *)
Record ref := mk_ref { r_path : bytes; r_name : bytes; r_args : list (bytes * bytes); r_tparams : list bytes }.

Definition dot : ascii := "."%char.

(* processName: for x := range t.Walk { ... }  followed by t.String() *)
Fixpoint walk_args (fixed : bool) (pre : list bytes) (std : option tracker) (self : bytes) (tr : tracker)
         (args : list (bytes * bytes)) : res (tracker * bytes) :=
  match args with
  | [] => Ok (tr, [])
  | (p, lit) :: rest =>
      if is_nil p then
        let! (tr', txt) := walk_args fixed pre std self tr rest in Ok (tr', lit ++ txt)
      else if bytes_eqb p self then
        let! (tr', txt) := walk_args fixed pre std self tr rest in Ok (tr', lit ++ txt)
      else
        let! tr1 := add fixed pre std tr p in
        let nm := lookup_or_empty p (p2n tr1) in
        let q := if is_nil nm then [] else nm ++ [dot] in      (* String(): if len(PkgPath) > 0 *)
        let! (tr', txt) := walk_args fixed pre std self tr1 rest in Ok (tr', q ++ lit ++ txt)
  end.

Fixpoint join_comma (l : list bytes) : bytes :=
  match l with
  | [] => []
  | [x] => x
  | x :: r => x ++ ","%char :: join_comma r
  end.

Definition name_ref (fixed : bool) (pre : list bytes) (std : option tracker) (self : bytes) (tr : tracker) (r : ref)
  : res (tracker * bytes) :=
  let! (tr1, argtxt) := walk_args fixed pre std self tr (r_args r) in
  let tn := r_name r ++ (if is_nil (r_args r) then [] else "["%char :: argtxt)
            ++ (if is_nil (r_tparams r) then [] else "["%char :: join_comma (r_tparams r) ++ ["]"%char]) in
  if bytes_eqb (r_path r) self then
    Ok (tr1, if is_nil tn then r_path r ++ [dot] else tn)      (* typeName.String() of a gengotypes.Ref *)
  else
    let! tr2 := add fixed pre std tr1 (r_path r) in
    Ok (tr2, lookup_or_empty (r_path r) (p2n tr2) ++ dot :: tn).

(* ---- a writer's history ---- *)
Inductive item := ILit (b : bytes) | IRef (r : ref).
Inductive op :=
| OAdd (p : bytes)                (* ImportTracker.AddType *)
| ORender (its : list item).      (* one snippet rendered: literal text and references, in order *)

Fixpoint render_items (fixed : bool) (pre : list bytes) (std : option tracker) (self : bytes) (tr : tracker)
         (its : list item) : res (tracker * bytes) :=
  match its with
  | [] => Ok (tr, [])
  | ILit b :: rest =>
      let! (tr', txt) := render_items fixed pre std self tr rest in Ok (tr', b ++ txt)
  | IRef r :: rest =>
      let! (tr1, t) := name_ref fixed pre std self tr r in
      let! (tr', txt) := render_items fixed pre std self tr1 rest in Ok (tr', t ++ txt)
  end.

Definition step (fixed : bool) (pre : list bytes) (std : option tracker) (self : bytes) (tr : tracker) (o : op)
  : res (tracker * bytes) :=
  match o with
  | OAdd p => let! tr' := add fixed pre std tr p in Ok (tr', [])
  | ORender its => render_items fixed pre std self tr its
  end.

(* the whole history from [tr]: final tracker, text of every op, Imports() after every op *)
Fixpoint run_from (fixed : bool) (pre : list bytes) (std : option tracker) (self : bytes) (tr : tracker) (ops : list op)
  : res (tracker * list bytes * list amap) :=
  match ops with
  | [] => Ok (tr, [], [])
  | o :: rest =>
      let! (tr1, t) := step fixed pre std self tr o in
      let! (tr', ts, snaps) := run_from fixed pre std self tr1 rest in
      Ok (tr', t :: ts, p2n tr1 :: snaps)
  end.

Definition run (fixed : bool) (pre : list bytes) (std : option tracker) (self : bytes) (ops : list op) :=
  run_from fixed pre std self empty_tracker ops.

(* ---- writeImports ---- *)
Fixpoint bytes_leb (a b : bytes) : bool :=
  match a, b with
  | [], _ => true
  | _ :: _, [] => false
  | x :: a', y :: b' =>
      let nx := N_of_ascii x in let ny := N_of_ascii y in
      if N.ltb nx ny then true else if N.ltb ny nx then false else bytes_leb a' b'
  end.

Fixpoint insert_key (e : bytes * bytes) (l : amap) : amap :=
  match l with
  | [] => [e]
  | e' :: r => if bytes_leb (fst e) (fst e') then e :: l else e' :: insert_key e r
  end.
(* sort.Sort(sort.StringSlice(importPaths)) — keys of a map, so pairwise distinct *)
Definition sort_by_key (m : amap) : amap := fold_right insert_key [] m.

Definition import_line (e : bytes * bytes) : bytes :=        (* "\t%s \"%s\"\n" *)
  let '(p, n) := e in
  "009"%char :: n ++ " "%char :: """"%char :: p ++ [""""%char; "010"%char].

Definition write_imports (m : amap) : bytes :=
  match sort_by_key m with
  | [] => []
  | es => "010"%char :: bs "import (" ++ "010"%char :: concat (map import_line es) ++ [")"%char; "010"%char]
  end.
