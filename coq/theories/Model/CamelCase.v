(* Model of pkg/camelcase: Split (camelcase.go:24-75) and makeCase (naming.go:40-65).
   Definitions only.  The model follows the Go loops; every index / slice expression of
   Split is a checked operation (Panic when out of range); [fixed = false] is the code as
   it was before the "fix:" commit that guards the append in the first loop (kept so
   that the refutation of totality for the old code stays checkable). *)
Require Import Gengo.Base.Bytes.

Inductive class := COther | CLower | CUpper | CDigit.

Definition class_eqb (a b : class) : bool :=
  match a, b with
  | COther, COther | CLower, CLower | CUpper, CUpper | CDigit, CDigit => true
  | _, _ => false
  end.

(* A Go string as Split sees it: valid UTF-8 (a rune sequence) or not (raw bytes,
   carried in the same element type). *)
Inductive gostr (R : Type) := Valid (rs : list R) | Invalid (bs : list R).
Arguments Valid {R} rs.
Arguments Invalid {R} bs.

Definition content {R} (s : gostr R) : list R :=
  match s with Valid rs => rs | Invalid bs => bs end.

Section Split.
  Variable rune : Type.
  Variable cls : rune -> class.

  (* camelcase.go:51 — the condition under which the rune joins the last group *)
  Definition joins (c last : class) : bool :=
    class_eqb c last || (class_eqb c CDigit && (class_eqb last CUpper || class_eqb last CLower)).

  (* first loop, camelcase.go:38-58.  [groups] is newest-first; lastClass starts at 0 = RuneOther.
     [runes[len(runes)-1]] is a checked access: Panic when there is no group yet.
     The repaired code tests  len(runes) > 0  first. *)
  Fixpoint pass1 (fixed : bool) (src : list rune) (groups : list (list rune)) (last : class)
    : res (list (list rune)) :=
    match src with
    | [] => Ok groups
    | r :: rest =>
        let c := cls r in
        if (if fixed then negb (is_nil groups) else true) && joins c last then
          match groups with
          | [] => Panic
          | g :: gs => pass1 fixed rest ((g ++ [r]) :: gs) c
          end
        else pass1 fixed rest ([r] :: groups) c
    end.

  Definition r_upper (r : rune) : bool := class_eqb (cls r) CUpper.
  Definition r_lower (r : rune) : bool := class_eqb (cls r) CLower.

  (* The slice accesses of the second loop, each CHECKED: Go panics ("index out of range" /
     "slice bounds out of range") on an empty group, and so does the model. *)
  Definition idx0 (g : list rune) : res rune :=            (* g[0] *)
    match g with a :: _ => Ok a | [] => Panic end.
  Definition idx_last (g : list rune) : res rune :=        (* g[len(g)-1] *)
    match g with a :: _ => Ok (last g a) | [] => Panic end.
  Definition slice_init (g : list rune) : res (list rune) := (* g[:len(g)-1] *)
    match g with _ :: _ => Ok (removelast g) | [] => Panic end.

  (* second loop, camelcase.go:62-67: "PDFL","oader" -> "PDF","Loader".  [carry] is the rune
     moved from the previous group to the front of this one, so  carry ++ g  is runes[i] as
     iteration i sees it and  g2  is runes[i+1].  The condition is Go's short-circuit  && :
     runes[i+1][0] is read only when runes[i][0] is upper case.  Nothing here assumes that a
     group is non-empty: an empty one makes the access — and the whole function — Panic
     (see pass2_empty_group_panics in Proofs/CamelCase.v); that it never happens for the
     groups the first loop builds is a theorem, not a default. *)
  Fixpoint pass2 (carry : list rune) (gs : list (list rune)) : res (list (list rune)) :=
    match gs with
    | [] => Ok []
    | g :: tl =>
        let g' := carry ++ g in
        match tl with
        | [] => Ok [g']
        | g2 :: _ =>
            let! a := idx0 g' in
            let! move := (if r_upper a then let! b := idx0 g2 in Ok (r_lower b) else Ok false) in
            if move
            then let! l := idx_last g' in
                 let! ini := slice_init g' in
                 let! rest := pass2 [l] tl in
                 Ok (ini :: rest)
            else let! rest := pass2 [] tl in
                 Ok (g' :: rest)
        end
    end.

  Definition split_runes (fixed : bool) (src : list rune) : res (list (list rune)) :=
    match pass1 fixed src [] COther with
    | Ok groups =>
        let! gs2 := pass2 [] (rev groups) in
        Ok (filter (fun g => negb (is_nil g)) gs2)
    | Panic => Panic
    | OutOfFuel => OutOfFuel
    end.

  Definition split (fixed : bool) (s : gostr rune) : res (list (list rune)) :=
    match s with
    | Invalid bs => Ok [bs]
    | Valid rs => split_runes fixed rs
    end.

  (* ---- makeCase, naming.go:40-65 ---- *)
  Variable blen : rune -> nat.              (* UTF-8 length of the element (1 for a raw byte) *)
  Variable drop1 : rune -> bool.            (* IsGraphic && !(IsDigit || IsLetter) of a 1-byte word *)

  (* len(word) == 1 && ... word[0] ... : the index is guarded by the length test *)
  Definition droppable (w : list rune) : bool :=
    match w with
    | [c] => Nat.eqb (blen c) 1 && drop1 c
    | _ => false
    end.

  Fixpoint mc_words (linker : list rune) (trans : list rune -> nat -> list rune)
           (ws : list (list rune)) (idx : nat) : list rune :=
    match ws with
    | [] => []
    | w :: r =>
        if droppable w then mc_words linker trans r idx
        else (match idx with O => [] | S _ => linker end) ++ trans w idx
               ++ mc_words linker trans r (S idx)
    end.

  Definition make_case (fixed : bool) (linker : list rune) (trans : list rune -> nat -> list rune)
             (s : gostr rune) : res (list rune) :=
    match split fixed s with
    | Ok ws => Ok (mc_words linker trans ws 0)
    | Panic => Panic
    | OutOfFuel => OutOfFuel
    end.

  (* the six converters, relative to the library functions they call *)
  Variable lower upper title : list rune -> list rune.
  Variable is_id : list rune -> bool.        (* bytes.EqualFold(w, "ID") *)
  Variable id_word : list rune.              (* "ID" *)
  Variable underscore hyphen : list rune.

  Definition t_camel (first_lower : bool) (w : list rune) (i : nat) : list rune :=
    if first_lower && Nat.eqb i 0 then lower w
    else if is_id w then id_word else title w.

  Definition conv (fixed : bool) (k : nat) (s : gostr rune) : res (list rune) :=
    match k with
    | 0 => make_case fixed underscore (fun w _ => lower w) s   (* LowerSnakeCase *)
    | 1 => make_case fixed underscore (fun w _ => upper w) s   (* UpperSnakeCase *)
    | 2 => make_case fixed hyphen (fun w _ => lower w) s       (* LowerKebabCase *)
    | 3 => make_case fixed hyphen (fun w _ => upper w) s       (* UpperKebabCase *)
    | 4 => make_case fixed [] (t_camel true) s                 (* LowerCamelCase *)
    | _ => make_case fixed [] (t_camel false) s                (* UpperCamelCase *)
    end.
End Split.

(* ---- concrete ASCII instance used by the correspondence check and by the
        import-name model (C03).  An element is a code point with the class the
        harness computed for it with Go's unicode package. ---- *)
Definition crune := (N * class)%type.
Definition c_cls (r : crune) : class := snd r.
Definition c_code (r : crune) : N := fst r.
Definition c_blen (r : crune) : nat :=
  let n := fst r in
  if N.ltb n 128 then 1 else if N.ltb n 2048 then 2 else if N.ltb n 65536 then 3 else 4.
Definition a_alnum (n : N) : bool :=
  (N.leb 48 n && N.leb n 57) || (N.leb 65 n && N.leb n 90) || (N.leb 97 n && N.leb n 122).
Definition c_drop1 (r : crune) : bool :=
  let n := fst r in N.leb 32 n && N.leb n 126 && negb (a_alnum n).
Definition a_low (r : crune) : crune :=
  let n := fst r in if N.leb 65 n && N.leb n 90 then (n + 32, CLower)%N else r.
Definition a_up (r : crune) : crune :=
  let n := fst r in if N.leb 97 n && N.leb n 122 then (n - 32, CUpper)%N else r.
Definition a_cased (r : crune) : bool :=
  let n := fst r in (N.leb 65 n && N.leb n 90) || (N.leb 97 n && N.leb n 122).
(* cases.Title(language.Und) on an ASCII word: first cased letter upper, every later one lower *)
Fixpoint a_title (seen : bool) (w : list crune) : list crune :=
  match w with
  | [] => []
  | r :: t =>
      if seen then a_low r :: a_title true t
      else if a_cased r then a_up r :: a_title true t
      else r :: a_title false t
  end.
Definition codes (w : list crune) : list N := map c_code w.
Definition a_is_id (w : list crune) : bool :=
  list_eqb N.eqb (codes (map a_low w)) [105; 100]%N.

Definition c_conv (fixed : bool) (k : nat) (s : gostr crune) : res (list crune) :=
  conv crune c_cls c_blen c_drop1 (map a_low) (map a_up) (a_title false) a_is_id
       [(73, CUpper); (68, CUpper)]%N [(95, COther)]%N [(45, COther)]%N fixed k s.
