(* Tables — the adapters between models of the SAME Go code on the loader / tags / docs side that were written
   apart (definitions only; the agreement theorems are in Proofs/Tables*.v, re-stated in Props/C13 C06 C04 C12 C16).

   A. pkg/types/package.go newPkg, the loop over TypesInfo.Defs (116-144) and the ordering of the method lists
      (146-157), is modelled three times:
        Model/Universe.v     (C13)  fill_tables over an arbitrarily ordered list of objects (all kinds, receivers)
        Model/Dispatch.v     (C06)  type_table over the *types.TypeName entries (with tags and the generator's script)
        Model/Determinism.v  (C04)  type_table / methods_of under an order oracle
      [u_of_disp], [u_of_det], [u_of_meth] describe Dispatch's / Determinism's entries as Universe's objects.

   B. Tags: pkg/types/comments.go + the comment index of package.go (Model/Comments.v, C12) produce what
      Model/Dispatch.v (C06) takes as data: the tags of a declaration's doc and of the package docs.

   C. Docs: Package.Doc (C12) produces what Model/GenRuntimeDoc.v (C16) takes as data: the doc lines of types and fields. *)
Require Import Gengo.Base.Bytes.
From Coq Require Import ZArith.
Require Gengo.Model.Universe Gengo.Model.Dispatch Gengo.Model.Determinism.
Require Gengo.Model.Comments Gengo.Spec.Comments Gengo.Model.GenRuntimeDoc.

Module U := Gengo.Model.Universe.
Module D := Gengo.Model.Dispatch.
Module Det := Gengo.Model.Determinism.
Module Cm := Gengo.Model.Comments.
Module CS := Gengo.Spec.Comments.
Module RD := Gengo.Model.GenRuntimeDoc.

(* ================================================================================================ *)
(* A. the type table and the method lists of newPkg                                                  *)

(* a *types.TypeName of Dispatch's / Determinism's Defs as Universe sees it *)
Definition u_of_disp (d : D.tdef) : U.obj :=
  U.mk_obj (D.td_id d) U.KType (D.td_name d) (D.td_pkgscope d) None.

Definition u_of_det (d : Det.tdef) : U.obj :=
  U.mk_obj (Det.td_uid d) U.KType (Det.td_name d) (Det.td_pkgscope d) None.

(* a method of Determinism's Defs: a *types.Func with a receiver.  Determinism identifies the receiver's
   *types.Named with the uid of its type name (no generic instances there: the Named is its own origin) and the
   method with its position; [ptr m] says whether m is declared on the pointer (Determinism does not record it:
   it only asks MethodsOf(named, true); the theorems hold for every choice). *)
Definition u_of_meth (ptr : Det.meth -> bool) (m : Det.meth) : U.obj :=
  let n := U.mk_nref (Det.m_recv m) (Det.m_recv m) in
  let s := if ptr m then U.TPointer (Some n) else U.TNamed n in
  U.mk_obj (Det.m_pos m) U.KFunc (Det.m_name m) false (Some (U.mk_recv s s)).

(* the *types.TypeName entries / the method entries of a Universe Defs list, in the order of the list *)
Definition is_type (o : U.obj) : bool := U.okind_eqb (U.o_kind o) U.KType.
Definition types_of (os : list U.obj) : list U.obj := filter is_type os.

Definition is_meth (o : U.obj) : bool :=
  match U.o_kind o, U.o_recv o with
  | U.KFunc, Some _ => true
  | _, _ => false
  end.
Definition meths_of (os : list U.obj) : list U.obj := filter is_meth os.

(* what the three tables are compared on: name -> identity of the object *)
Definition disp_view (t : list (bytes * D.tdef)) : U.tbl := map (fun kv => (fst kv, D.td_id (snd kv))) t.
Definition det_view (t : Det.alist Det.tdef) : U.tbl := map (fun kv => (fst kv, Det.td_uid (snd kv))) t.

(* Universe's switches with the scope test on/off (Dispatch's [scope_fix], Determinism's [fixed]) *)
Definition fx_scope_only (scope : bool) : U.fixes := U.mk_fixes scope true true true true.

(* the package of Determinism as ONE Universe Defs list: its type names, then its methods *)
Definition u_defs (ptr : Det.meth -> bool) (p : Det.pkg) : list U.obj :=
  map u_of_det (Det.pk_defs p) ++ map (u_of_meth ptr) (Det.pk_meths p).

(* package.go:146-157 (repair 50ddee1) on Universe's method lists: sort.Slice by (file name, offset).
   [pos] is that key as one number (Determinism's m_pos; the C13 harness numbers the objects of a package in
   exactly this order, so there pos = o_id).  Universe.v models lines 116-144 only; MethodsOf of the current
   code is [sorted_methods_of]. *)
Definition sorted_methods_of (pos : U.obj -> N) (t : U.tables) (n : U.nref) (ptr : bool) : list U.obj :=
  Det.sort_by pos N.leb (U.methods_of U.all_fixed t n ptr).
