(* Tables — the adapters between models of the SAME Go code on the loader / tags / docs side that were written
   apart (definitions only; the agreement theorems are in Proofs/Tables*.v, re-stated in Props/C13 C06 C04 C12 C16).

   A. pkg/types/package.go newPkg, the loop over TypesInfo.Defs (116-144) and the ordering of the method lists
      (146-157), is modelled three times:
        Model/Universe.v     (C13)  fill_tables over an arbitrarily ordered list of objects (all kinds, receivers)
        Model/Dispatch.v     (C06)  type_table over the *types.TypeName entries (with tags and the generator's script)
        Model/Determinism.v  (C04)  type_table / methods_of under an order oracle
      [u_of_disp], [u_of_det], [u_of_meth] describe Dispatch's / Determinism's entries as Universe's objects.

   B. Tags: pkg/types/comments.go + the comment index of package.go (Model/Comments.v, C12) produce what
      Model/Dispatch.v (C06) takes as data: the tags of a declaration's doc and of the package docs.

   C. Docs: Package.Doc (C12) produces what Model/GenRuntimeDoc.v (C16) takes as data: the doc lines of types and fields. *)
Require Import Gengo.Base.Bytes.
From Coq Require Import ZArith.
Require Gengo.Model.Universe Gengo.Model.Dispatch Gengo.Model.Determinism.
Require Gengo.Model.Comments Gengo.Spec.Comments Gengo.Model.GenRuntimeDoc.

Module U := Gengo.Model.Universe.
Module D := Gengo.Model.Dispatch.
Module Det := Gengo.Model.Determinism.
Module Cm := Gengo.Model.Comments.
Module CS := Gengo.Spec.Comments.
Module RD := Gengo.Model.GenRuntimeDoc.

(* ================================================================================================ *)
(* A. the type table and the method lists of newPkg                                                  *)

(* a *types.TypeName of Dispatch's / Determinism's Defs as Universe sees it *)
Definition u_of_disp (d : D.tdef) : U.obj :=
  U.mk_obj (D.td_id d) U.KType (D.td_name d) (D.td_pkgscope d) None.

Definition u_of_det (d : Det.tdef) : U.obj :=
  U.mk_obj (Det.td_uid d) U.KType (Det.td_name d) (Det.td_pkgscope d) None.

(* a method of Determinism's Defs: a *types.Func with a receiver.  Determinism identifies the receiver's
   *types.Named with the uid of its type name (no generic instances there: the Named is its own origin) and the
   method with its position; [ptr m] says whether m is declared on the pointer (Determinism does not record it:
   it only asks MethodsOf(named, true); the theorems hold for every choice). *)
Definition u_of_meth (ptr : Det.meth -> bool) (m : Det.meth) : U.obj :=
  let n := U.mk_nref (Det.m_recv m) (Det.m_recv m) in
  let s := if ptr m then U.TPointer (Some n) else U.TNamed n in
  U.mk_obj (Det.m_pos m) U.KFunc (Det.m_name m) false (Some (U.mk_recv s s)).

(* the *types.TypeName entries / the method entries of a Universe Defs list, in the order of the list *)
Definition is_type (o : U.obj) : bool := U.okind_eqb (U.o_kind o) U.KType.
Definition types_of (os : list U.obj) : list U.obj := filter is_type os.

Definition is_meth (o : U.obj) : bool :=
  match U.o_kind o, U.o_recv o with
  | U.KFunc, Some _ => true
  | _, _ => false
  end.
Definition meths_of (os : list U.obj) : list U.obj := filter is_meth os.

(* what the three tables are compared on: name -> identity of the object *)
Definition disp_view (t : list (bytes * D.tdef)) : U.tbl := map (fun kv => (fst kv, D.td_id (snd kv))) t.
Definition det_view (t : Det.alist Det.tdef) : U.tbl := map (fun kv => (fst kv, Det.td_uid (snd kv))) t.

(* Universe's switches with the scope test on/off (Dispatch's [scope_fix], Determinism's [fixed]) *)
Definition fx_scope_only (scope : bool) : U.fixes := U.mk_fixes scope true true true true.

(* the package of Determinism as ONE Universe Defs list: its type names, then its methods *)
Definition u_defs (ptr : Det.meth -> bool) (p : Det.pkg) : list U.obj :=
  map u_of_det (Det.pk_defs p) ++ map (u_of_meth ptr) (Det.pk_meths p).

(* MethodsOf of the current code: on the tables newPkg leaves behind — the loop (package.go:116-144), then the
   ordering of every method list by (file name, offset) (package.go:146-157, repair 50ddee1; [U.sort_methods]).
   [pos] is that key as one number (Determinism's m_pos; the C13 harness numbers the objects of a package in exactly
   this order, so there pos = o_id). *)
Definition sorted_methods_of (pos : U.obj -> N) (t : U.tables) (n : U.nref) (ptr : bool) : list U.obj :=
  U.methods_of U.all_fixed (U.sort_methods pos t) n ptr.

(* ================================================================================================ *)
(* B. tags: extraction (C12) -> merge -> enabled (C06)                                               *)

(* C12's tag map and C06's tag map are the same type: map[string][]string as an association list *)
Definition tags_of_c12 (m : Cm.tagmap) : D.tags := m.

(* the tags Package.Doc returns at (file, line) of a layout — what Context.Doc (context.go:255-266) merges as the
   declaration's level.  Context.Doc asks at typ.Pos(), the position of the declared NAME. *)
Definition decl_tags (evs : list Cm.event) (file : N) (line : Z) : D.tags :=
  tags_of_c12 (fst (Cm.doc_of true true (Cm.build true evs) file line)).

(* the tags of one file's package doc (context.go:181-186):
   ExtractCommentTags(strings.Split(f.Doc.Text(), "\n")) — the text is NOT passed through commentLinesFrom here *)
Definition file_doc_tags (text : bytes) : D.tags :=
  tags_of_c12 (fst (Cm.extract_tags true [] (Cm.split_nl text))).

(* [docs]: Text() of the package doc of every file that has one, in p.Files() order *)
Definition pkg_tags_from_source (docs : list bytes) : D.tags := D.pkg_tags (map file_doc_tags docs).

(* IsGeneratorEnabled(g, Context.Doc(typ)) computed from the source: global tags [G] (command line, data),
   package doc texts, and the layout of the declaration's file *)
Definition enabled_from_source (g : bytes) (G : D.tags) (docs : list bytes) (evs : list Cm.event) (file : N) (line : Z) : bool :=
  D.is_generator_enabled g (D.merge [G; pkg_tags_from_source docs; decl_tags evs file line]).

(* the same, given the comment LINES of the declaration's doc directly (what commentLinesFrom hands to
   ExtractCommentTags) *)
Definition enabled_from_lines (g : bytes) (G P : D.tags) (lines : list bytes) : bool :=
  D.is_generator_enabled g (D.merge [G; P; tags_of_c12 (fst (Cm.extract_tags true [] lines))]).

(* ---- the rule, stated on comment lines with Spec/Comments.v's vocabulary (no loop, no map) ---- *)

Definition ms0 : bytes := CS.markers_or_default [].      (* '+' and '@' *)

(* the values of the tag lines with key k, if there is one *)
Definition line_value (lines : list bytes) (k : bytes) : option (list bytes) :=
  match CS.spec_values ms0 lines k with
  | [] => None
  | vs => Some vs
  end.

Fixpoint first_some {A} (l : list (option A)) : option A :=
  match l with
  | [] => None
  | Some a :: _ => Some a
  | None :: r => first_some r
  end.

(* declaration over package (later file over earlier file) over global *)
Definition source_lookup (G : D.tags) (pkgdocs : list (list bytes)) (decl : list bytes) (k : bytes) : option (list bytes) :=
  first_some (line_value decl k :: map (fun ls => line_value ls k) (rev pkgdocs) ++ [D.lookup k G]).

Definition source_keys (G : D.tags) (pkgdocs : list (list bytes)) (decl : list bytes) : list bytes :=
  CS.spec_keys ms0 decl ++ flat_map (CS.spec_keys ms0) pkgdocs ++ D.keys G.

(* "+gengo:g[=v]" on the closest level that has it decides (disabled iff the values, concatenated, are "false");
   otherwise any "+gengo:g:sub" on any level enables; otherwise not enabled *)
Definition source_rule (g : bytes) (G : D.tags) (pkgdocs : list (list bytes)) (decl : list bytes) : bool :=
  match source_lookup G pkgdocs decl (D.gengo_prefix g) with
  | Some vs => negb (bytes_eqb (concat vs) D.str_false)
  | None => existsb (D.has_prefix (D.gengo_prefix g ++ D.colon)) (source_keys G pkgdocs decl)
  end.

(* Dispatch's packages with the tags taken from the source: [ftexts p] = the package doc texts of package p,
   [dtext d] = Text() of the stand-alone comment group that ends on the line above declaration d ("" if none) *)
Definition tdef_from_source (dtext : N -> bytes) (d : D.tdef) : D.tdef :=
  D.mk_tdef (D.td_id d) (D.td_name d) (D.td_kind d) (D.td_pkgscope d)
            (tags_of_c12 (fst (Cm.extract_tags true [] (Cm.group_lines true (dtext (D.td_id d))))))
            (D.td_action d) (D.td_defers d).

Definition pkg_from_source (ftexts : list bytes) (dtext : N -> bytes) (p : D.pkg) : D.pkg :=
  D.mk_pkg (D.pk_id p) (D.pk_direct p) (map file_doc_tags ftexts) (map (tdef_from_source dtext) (D.pk_defs p)).

(* ================================================================================================ *)
(* C. docs: Package.Doc (C12) -> Context.Doc -> runtimedoc (C16)                                     *)

(* the doc lines Package.Doc returns at (file, line) *)
Definition doc_lines_at (evs : list Cm.event) (pos : N * Z) : list bytes :=
  snd (Cm.doc_of true true (Cm.build true evs) (fst pos) (snd pos)).

(* a package description whose documentation (and enabling) is read from the layout [evs]:
   [tpos] / [fpos] give the (file, line) of the declared NAME of a type / field — obj.Pos() *)
Section FromSource.
  Variable evs : list Cm.event.
  Variable G : D.tags.                  (* global tags *)
  Variable docs : list bytes.           (* package doc texts *)
  Variable tpos : RD.name -> N * Z.
  Variable fpos : RD.name -> RD.name -> N * Z.    (* type name, field name *)

  Definition field_from_source (tn : RD.name) (f : RD.field) : RD.field :=
    RD.mk_field (RD.f_name f) (RD.f_exported f) (RD.f_kind f) (doc_lines_at evs (fpos tn (RD.f_name f))).

  Definition kind_from_source (tn : RD.name) (k : RD.tkind) : RD.tkind :=
    match k with
    | RD.TStruct fs => RD.TStruct (map (field_from_source tn) fs)
    | other => other
    end.

  Definition ty_from_source (t : RD.tydesc) : RD.tydesc :=
    RD.mk_ty (RD.t_name t) (RD.t_exported t)
             (enabled_from_source (bs "runtimedoc") G docs evs (fst (tpos (RD.t_name t))) (snd (tpos (RD.t_name t))))
             (kind_from_source (RD.t_name t) (RD.t_kind t))
             (doc_lines_at evs (tpos (RD.t_name t))).

  Definition package_from_source (p : RD.package) : RD.package := map ty_from_source p.
End FromSource.

(* the non-tag lines of the stand-alone comment group that ends on the line above (file, line) *)
Definition source_doc (leads : list Cm.group) (file : N) (line : Z) : list bytes :=
  CS.spec_others ms0 (CS.doc_lines_above leads file line).
