(* Model of pkg/inflector: Rule.inflected (internal/rule.go:55-77), the two regular
   expressions Rule.Init builds from data tables (rule.go:79-111), and the dispatch in
   Inflector.Inflected / api.go.  Definitions only.

   Go strings are byte lists.  The two regular expressions that Init assembles from the
   tables are written out as what RE2 leftmost-first matching computes for them:

     compiledIrregular    (?i)( .* )\b((?:w1|...|wn))$      -> [irregular_match]
     compiledUninflected  (?i)(^(?:p1|...|pm))$           -> [uninflected_match]

   The ordered suffix rules (compiledRules: 22 + 34 arbitrary regular expressions with
   ReplaceAllString templates) are NOT modelled: [suffix] is a Section variable.

   [fixed = false] is Rule.inflected as it was before the "fix:" commit (result built from
   res[1], s[0:1] and an unchecked map lookup); [fixed = true] is the repaired body (prefix
   s[:loc[4]], first byte of the matched word, fall through when the lookup misses). *)
Require Import Gengo.Base.Bytes.

Definition nl : ascii := ascii_of_N 10.
Arguments nl : simpl never.
Definition b_ (n : N) : ascii := ascii_of_N n.

(* regexp/syntax.IsWordChar: [0-9A-Za-z_]; every byte >= 0x80 is not a word character *)
Definition is_word_byte (c : ascii) : bool :=
  is_letter c || is_digit c || byte_eqb c (b_ 95).

Definition wordb (o : option ascii) : bool :=
  match o with Some c => is_word_byte c | None => false end.

(* \b (ASCII word boundary) between the byte before the position ([None] = start of text)
   and the text that follows ([] = end of text) *)
Definition boundary (prev : option ascii) (t : bytes) : bool :=
  xorb (wordb prev) (wordb (hd_error t)).

Fixpoint strip_prefix (pre t : bytes) : option bytes :=
  match pre with
  | [] => Some t
  | a :: pre' =>
      match t with
      | x :: t' => if byte_eqb a x then strip_prefix pre' t' else None
      | [] => None
      end
  end.

Definition long_s : bytes := [b_ 197; b_ 191].           (* U+017F LATIN SMALL LETTER LONG S *)
Definition kelvin : bytes := [b_ 226; b_ 132; b_ 170].   (* U+212A KELVIN SIGN *)

(* One literal ASCII character [c] of a pattern compiled with (?i), matched at the front of
   [t]: an ASCII letter matches both of its cases and the other members of its simple-fold
   orbit (s ~ U+017F, k ~ U+212A); any other ASCII character matches itself. *)
Definition eat_fold (c : ascii) (t : bytes) : option bytes :=
  match t with
  | [] => None
  | x :: r =>
      if is_letter c then
        if byte_eqb (to_lower x) (to_lower c) then Some r
        else if byte_eqb (to_lower c) (b_ 115) then strip_prefix long_s t
        else if byte_eqb (to_lower c) (b_ 107) then strip_prefix kelvin t
        else None
      else if byte_eqb x c then Some r else None
  end.

(* the whole of [t] matches the literal [w] case-insensitively *)
Fixpoint fold_match (w t : bytes) : bool :=
  match w with
  | [] => is_nil t
  | c :: w' => match eat_fold c t with Some t' => fold_match w' t' | None => false end
  end.

(* strings.ToLower on a string that fold-matches an ASCII literal: ASCII upper case is
   lowered, U+212A lowers to k, U+017F is already lower case and stays.  (Other non-ASCII
   text is copied; the model only calls this on the text captured by group 2.) *)
Fixpoint go_to_lower (s : bytes) : bytes :=
  match s with
  | [] => []
  | a :: r =>
      match r with
      | b :: c :: r' =>
          if byte_eqb a (b_ 226) && byte_eqb b (b_ 132) && byte_eqb c (b_ 170)
          then b_ 107 :: go_to_lower r'
          else to_lower a :: go_to_lower r
      | _ => to_lower a :: go_to_lower r
      end
  end.

(* ---- compiledIrregular ---------------------------------------------------------------- *)

Section Irregular.
  Variable words : list bytes.   (* vIrregulars, in table order *)

  Definition is_table_word (t : bytes) : bool := existsb (fun w => fold_match w t) words.

  (* "\b(w1|...|wn)$" holds at a position *)
  Definition valid_cut (prev : option ascii) (t : bytes) : bool :=
    boundary prev t && is_table_word t.

  (* greedy group 1 = ( .* ) on one line: the LAST position at which the rest of the pattern matches.
     Returns (text of group 1, text of group 2). *)
  Fixpoint last_cut (prev : option ascii) (t : bytes) : option (bytes * bytes) :=
    match t with
    | [] => if valid_cut prev [] then Some ([], []) else None
    | c :: r =>
        match last_cut (Some c) r with
        | Some (a, w) => Some (c :: a, w)
        | None => if valid_cut prev t then Some ([], t) else None
        end
    end.

  (* (text up to and including the last '\n', text after it) *)
  Fixpoint last_line (s : bytes) : bytes * bytes :=
    match s with
    | [] => ([], [])
    | c :: r =>
        let (a, l) := last_line r in
        match a with
        | [] => if byte_eqb c nl then ([c], l) else ([], c :: l)
        | _ => (c :: a, l)
        end
    end.

  (* FindStringSubmatch(Index): "." does not match '\n' and no table word contains one, so
     the leftmost match starts right after the last '\n'.  Returns
     (s[:loc[2]], s[loc[2]:loc[3]] = res[1], s[loc[4]:loc[5]] = res[2]). *)
  Definition irregular_match (s : bytes) : option (bytes * bytes * bytes) :=
    let (skipped, line) := last_line s in
    match last_cut (if is_nil skipped then None else Some nl) line with
    | Some (cap1, word) => Some (skipped, cap1, word)
    | None => None
    end.
End Irregular.

(* ---- compiledUninflected -------------------------------------------------------------- *)

(* The alternatives of the uninflected lists use only: literal characters, ".*" / ".*?" and
   positive character classes without ranges ("sea[- ]bass", ".*[nrlm]ese"). *)
Inductive atom := AStar | ALit (c : ascii) | AClass (cs : bytes).

Definition is_meta (c : ascii) : bool :=
  existsb (byte_eqb c) (bs ".^$*+?()[]{}|\").

Definition is_ascii (c : ascii) : bool := N.ltb (N_of_ascii c) 128.

(* characters of a class up to the closing bracket *)
Fixpoint parse_class (fuel : nat) (s : bytes) (acc : bytes) : option (bytes * bytes) :=
  match fuel with
  | O => None
  | S fuel' =>
      match s with
      | [] => None
      | c :: r =>
          if byte_eqb c (b_ 93) then (if is_nil acc then None else Some (rev acc, r))
          else if is_ascii c && negb (byte_eqb c (b_ 94)) && negb (byte_eqb c (b_ 92))
                  && negb (byte_eqb c (b_ 45) && negb (is_nil acc) && negb (byte_eqb (hd (b_ 93) r) (b_ 93)))
                  && negb (byte_eqb c (b_ 91))
               then parse_class fuel' r (c :: acc)
               else None
      end
  end.

Fixpoint parse_pattern (fuel : nat) (s : bytes) : option (list atom) :=
  match fuel with
  | O => None
  | S fuel' =>
      match s with
      | [] => Some []
      | c :: r =>
          if byte_eqb c (b_ 46) then                           (* ".*" or ".*?" *)
            match r with
            | st :: r1 =>
                if byte_eqb st (b_ 42) then
                  let r2 := match r1 with q :: r2 => if byte_eqb q (b_ 63) then r2 else r1 | [] => r1 end in
                  option_map (cons AStar) (parse_pattern fuel' r2)
                else None
            | [] => None
            end
          else if byte_eqb c (b_ 91) then
            match parse_class (S (length r)) r [] with
            | Some (cs, r1) => option_map (cons (AClass cs)) (parse_pattern fuel' r1)
            | None => None
            end
          else if is_meta c || negb (is_ascii c) then None
          else option_map (cons (ALit c)) (parse_pattern fuel' r)
      end
  end.

Fixpoint parse_patterns (ps : list bytes) : option (list (list atom)) :=
  match ps with
  | [] => Some []
  | p :: r =>
      match parse_pattern (S (length p)) p, parse_patterns r with
      | Some a, Some l => Some (a :: l)
      | _, _ => None
      end
  end.

(* ".*" followed by the continuation [k]: "." is any character but '\n'.  (Byte-level is exact:
   every continuation starts with an ASCII literal or is the end of text, and neither can match
   in the middle of a multi-byte character.) *)
Fixpoint star_then (k : bytes -> bool) (s : bytes) : bool :=
  k s || match s with
         | [] => false
         | c :: r => negb (byte_eqb c nl) && star_then k r
         end.

Fixpoint pmatch (p : list atom) : bytes -> bool :=
  match p with
  | [] => fun s => is_nil s
  | AStar :: p' => star_then (pmatch p')
  | ALit c :: p' => fun s => match eat_fold c s with Some t => pmatch p' t | None => false end
  | AClass cs :: p' =>
      fun s => existsb (fun c => match eat_fold c s with Some t => pmatch p' t | None => false end) cs
  end.

(* compiledUninflected.MatchString(s): "^" and "$" pin both ends, so some alternative matches all of s *)
Definition uninflected_match (unf : list (list atom)) (s : bytes) : bool :=
  existsb (fun p => pmatch p s) unf.

(* ---- Rule.inflected ------------------------------------------------------------------- *)

(* irregularMap: built by ranging over Irregular in order, a later duplicate overwrites *)
Fixpoint lookup (k : bytes) (tbl : list (bytes * bytes)) : option bytes :=
  match tbl with
  | [] => None
  | (w, r) :: rest =>
      match lookup k rest with
      | Some x => Some x
      | None => if bytes_eqb k w then Some r else None
      end
  end.

(* checked slice expressions *)
Definition slice_0_1 (s : bytes) : res bytes := match s with c :: _ => Ok [c] | [] => Panic end.
Definition slice_from_1 (s : bytes) : res bytes := match s with _ :: r => Ok r | [] => Panic end.

Section Inflect.
  Variable fixed : bool.
  Variable tbl : list (bytes * bytes).        (* Rule.Irregular *)
  Variable unf : list (list atom).            (* Rule.uninflected, parsed *)
  Variable suffix : bytes -> bytes.           (* the compiledRules loop + final "return s" *)

  (* rule.go:66-76 *)
  Definition rest (s : bytes) : res bytes :=
    if uninflected_match unf s then Ok s else Ok (suffix s).

  Definition inflected (s : bytes) : res bytes :=
    match irregular_match (map fst tbl) s with
    | Some (skipped, cap1, word) =>
        if fixed then
          match lookup (go_to_lower word) tbl with
          | Some repl =>
              let! h := slice_0_1 word in
              let! t := slice_from_1 repl in
              Ok (skipped ++ cap1 ++ h ++ t)
          | None => rest s
          end
        else
          let repl := match lookup (go_to_lower word) tbl with Some r => r | None => [] end in
          let! h := slice_0_1 s in
          let! t := slice_from_1 repl in
          Ok (cap1 ++ h ++ t)
    | None => rest s
    end.
End Inflect.

(* does [inflected] hand this string to the suffix rules (rule.go:72)?  Not when the irregular branch
   returns (before the fix it always did once the expression matched) and not when the uninflected
   expression matches. *)
Definition reaches_suffix (fixed : bool) (tbl : list (bytes * bytes)) (unf : list (list atom)) (s : bytes) : bool :=
  match irregular_match (map fst tbl) s with
  | Some (_, _, word) =>
      if fixed then
        match lookup (go_to_lower word) tbl with
        | Some _ => false
        | None => negb (uninflected_match unf s)
        end
      else false
  | None => negb (uninflected_match unf s)
  end.

(* Side conditions on a table under which the model of the regular expression is exact and the
   theorems hold: words are non-empty and lower-case ASCII letters only (so the alternation is a
   list of literals, contains no '\n', and (?i) folding is the orbit written in [eat_fold]);
   replacements are non-empty (replacement[1:]). *)
Definition table_wf (tbl : list (bytes * bytes)) : bool :=
  forallb (fun wr => negb (is_nil (fst wr)) && forallb is_lower (fst wr) && negb (is_nil (snd wr))) tbl.

(* an irregular word: an ASCII-case variant of a table word *)
Definition irregular (tbl : list (bytes * bytes)) (w : bytes) : Prop :=
  In (map to_lower w) (map fst tbl).
Definition irregularb (tbl : list (bytes * bytes)) (w : bytes) : bool :=
  existsb (fun wr => bytes_eqb (map to_lower w) (fst wr)) tbl.

(* the byte before a position, scanning from [prev] *)
Fixpoint last_opt (prev : option ascii) (l : bytes) : option ascii :=
  match l with [] => prev | c :: r => last_opt (Some c) r end.

(* "preceded by a word boundary": the prefix is empty or ends in a non-word byte *)
Definition at_boundary (p : bytes) : bool := negb (wordb (last_opt None p)).
