(* The declarative side of C03: what the property says, written without reference to how the
   tracker chooses names.  Used by the theorems (Props/C03.v) and, evaluated on the
   implementation's observed state, by the correspondence check (Corr/C03.v).  Definitions only. *)
Require Import Gengo.Base.Bytes Gengo.Model.GoIdent Gengo.Model.Tracker.

(* ---- which packages a history refers to ---- *)
(* a type argument names a foreign package when it has a path and the path is not the file's own *)
Definition foreign (self p : bytes) : bool := negb (is_nil p) && negb (bytes_eqb p self).

Definition ref_paths (self : bytes) (r : ref) : list bytes :=
  filter (foreign self) (map fst (r_args r))
  ++ (if bytes_eqb (r_path r) self then [] else [r_path r]).

Definition item_paths (self : bytes) (i : item) : list bytes :=
  match i with ILit _ => [] | IRef r => ref_paths self r end.

Definition op_paths (self : bytes) (o : op) : list bytes :=
  match o with
  | OAdd p => [p]
  | ORender its => flat_map (item_paths self) its
  end.

Definition history_paths (self : bytes) (ops : list op) : list bytes := flat_map (op_paths self) ops.

(* ---- how a reference must be printed, given the import table [tbl] (path -> local name) ---- *)
Definition qualifier (self : bytes) (tbl : amap) (p : bytes) : option bytes :=
  if bytes_eqb p self then Some []                       (* own package: unqualified *)
  else match lookup p tbl with
       | Some n => Some (n ++ [dot])
       | None => None                                   (* referenced but not imported *)
       end.

Fixpoint print_args (self : bytes) (tbl : amap) (args : list (bytes * bytes)) : option bytes :=
  match args with
  | [] => Some []
  | (p, lit) :: rest =>
      match (if is_nil p then Some [] else qualifier self tbl p), print_args self tbl rest with
      | Some q, Some t => Some (q ++ lit ++ t)
      | _, _ => None
      end
  end.

Definition tparams_text (tps : list bytes) : bytes :=
  if is_nil tps then [] else "["%char :: join_comma tps ++ ["]"%char].

Definition print_ref (self : bytes) (tbl : amap) (r : ref) : option bytes :=
  match print_args self tbl (r_args r), qualifier self tbl (r_path r) with
  | Some a, Some q =>
      let tn := r_name r ++ (if is_nil (r_args r) then [] else "["%char :: a) ++ tparams_text (r_tparams r) in
      Some (if bytes_eqb (r_path r) self && is_nil tn then r_path r ++ [dot] else q ++ tn)
  | _, _ => None
  end.

Fixpoint print_items (self : bytes) (tbl : amap) (its : list item) : option bytes :=
  match its with
  | [] => Some []
  | ILit b :: rest => option_map (app b) (print_items self tbl rest)
  | IRef r :: rest =>
      match print_ref self tbl r, print_items self tbl rest with
      | Some a, Some b => Some (a ++ b)
      | _, _ => None
      end
  end.

Definition print_op (self : bytes) (tbl : amap) (o : op) : option bytes :=
  match o with
  | OAdd _ => Some []
  | ORender its => print_items self tbl its
  end.

(* ---- predicates on an import table ---- *)
Definition keys (m : amap) : list bytes := map fst m.
Definition vals (m : amap) : list bytes := map snd m.

Definition mem (x : bytes) (l : list bytes) : bool := existsb (bytes_eqb x) l.

Fixpoint nodup_b (l : list bytes) : bool :=
  match l with
  | [] => true
  | x :: r => negb (mem x r) && nodup_b r
  end.

Definition subset_b (a b : list bytes) : bool := forallb (fun x => mem x b) a.
Definition same_set_b (a b : list bytes) : bool := subset_b a b && subset_b b a.

(* every binding of [a] is a binding of [b] *)
Definition submap_b (a b : amap) : bool :=
  forallb (fun '(k, v) => option_eqb bytes_eqb (lookup k b) (Some v)) a.
