(* Adapter between C18's own reading of Dumper.TypeLit (Model/GenPartialStruct.v: [type_lit] over [ty], a fixed tracker
   function L, the rendered expression as a tree [oty]) and C11's model of it (Model/TypeLit.v: [type_lit] over the
   dumper's view [tyview], the tracker state threaded through, the syntax tree [tyast]).  Definitions only; the
   agreement is Proofs/GeneratorsTypes.v. *)
Require Import Gengo.Base.Bytes.
Require Gengo.Model.GenPartialStruct Gengo.Model.TypeLit.

Module PS := Gengo.Model.GenPartialStruct.
Module TL := Gengo.Model.TypeLit.

(* what the dumper sees of a go/types type of C18's grammar: a basic type is "every other kind" (String()), any and an
   unnamed method interface are interfaces without a name, error is the interface named error *)
Fixpoint view18 (t : PS.ty) : TL.tyview :=
  match t with
  | PS.TBasic n => TL.VOther n
  | PS.TAny | PS.TIfaceLit _ => TL.VIface []
  | PS.TError => TL.VIface (bs "error")
  | PS.TNamed pkg name _ _ => TL.VNamed pkg name
  | PS.TPtr e => TL.VPtr (view18 e)
  | PS.TSlice e => TL.VSlice (view18 e)
  | PS.TArray n e => TL.VArray n (view18 e)
  | PS.TMap k v => TL.VMap (view18 k) (view18 v)
  | PS.TAlias _ _ r => view18 r      (* typesx.FromTType hands the dumper the alias's right-hand side *)
  end.

Fixpoint ast18 (o : PS.oty) : TL.tyast :=
  match o with
  | PS.OIdent n => TL.ANamed [] n TL.ANil
  | PS.OSel q n => TL.ANamed q n TL.ANil
  | PS.OPtr e => TL.AStar (ast18 e)
  | PS.OSlice e => TL.ASlice (ast18 e)
  | PS.OArray n e => TL.AArray n (ast18 e)
  | PS.OMap k v => TL.AMap (ast18 k) (ast18 v)
  | PS.OText t => TL.raw_ast t
  end.

(* the common domain: type and basic names are identifiers (go/types never yields anything else for them) *)
Fixpoint wf18 (t : PS.ty) : bool :=
  match t with
  | PS.TBasic n => TL.is_ident n
  | PS.TNamed pkg name _ _ => negb (is_nil pkg) && TL.is_ident name
  | PS.TPtr e | PS.TSlice e | PS.TArray _ e => wf18 e
  | PS.TMap k v => wf18 k && wf18 v
  | PS.TAlias _ _ r => wf18 r
  | _ => true
  end.

(* the foreign packages a type mentions *)
Definition foreign18 (target : bytes) (t : PS.ty) : list bytes :=
  filter (fun p => negb (bytes_eqb p target)) (PS.ty_pkgs t).

(* every name in the tracker state is non-empty *)
Definition env_ok (e : TL.renv) : Prop := forall p n, TL.alookup p e = Some n -> n <> [].
