(* Model of pkg/types: the tables of newPkg (package.go:116-144; the ordering of the method lists, 146-157, is
   [sort_methods] / [new_pkg_tables]), MethodsOf (package.go:321-339),
   the import table (package.go:86-88) + the registration DFS of Load (load.go:60-79, 114-116),
   SourceDir (package.go:246-267) and Universe.LocateInPackage (load.go:149-159).
   Definitions only.

   go/types and go/packages are INPUT DATA: the harness hands the model the abstract list of
   objects in [TypesInfo.Defs] (kind, name, "Parent() == package scope", receiver shape) and the
   import graph that packages.Load returned.  Wherever the Go code ranges over a map the model
   takes a list in arbitrary order; the theorems quantify over every permutation of it.

   A record [fixes] says which repairs are in the code that is modelled; [unfixed] is the code as
   it was before the "fix:" commits (kept so that the refutations stay checkable). *)
Require Import Gengo.Base.Bytes.

Record fixes := mk_fixes {
  fx_scope : bool;    (* only objects whose Parent() is the package scope enter types/constants/funcs *)
  fx_origin : bool;   (* methods are filed (and looked up) under named.Origin() *)
  fx_alias : bool;    (* types.Unalias on the receiver type (and on a pointer receiver's element) *)
  fx_imports : bool;  (* newPkg is called after the imports of the package are registered *)
  fx_vendor : bool    (* the import table resolves the imported package's PkgPath, not the import path *)
}.
Definition all_fixed := mk_fixes true true true true true.
Definition unfixed := mk_fixes false false false false false.

(* ------------------------------------------------------------------------------------------ *)
(* objects                                                                                     *)

(* the dynamic type of a types.Object as the switch of package.go:117 sees it *)
Inductive okind := KFunc | KType | KConst | KOther.

Definition okind_eqb (a b : okind) : bool :=
  match a, b with
  | KFunc, KFunc | KType, KType | KConst, KConst | KOther, KOther => true
  | _, _ => false
  end.

(* a *types.Named: its identity and the identity of its Origin() *)
Record nref := mk_nref { n_id : N; n_origin : N }.

(* the shape of a receiver type as the type switch of package.go:124 sees it *)
Inductive tshape :=
| TNamed (n : nref)              (* *types.Named *)
| TPointer (elem : option nref)  (* *types.Pointer; Some when the element is a *types.Named *)
| TOther.                        (* anything else: *types.Alias, *types.Interface, invalid ... *)

Record recv := mk_recv {
  rv_raw : tshape;       (* r.Type() as it is *)
  rv_unaliased : tshape  (* types.Unalias(r.Type()), element of a pointer unaliased as well *)
}.

Record obj := mk_obj {
  o_id : N;               (* identity of the types.Object *)
  o_kind : okind;
  o_name : bytes;
  o_pkg_scope : bool;     (* x.Parent() == pkg.Types.Scope() *)
  o_recv : option recv    (* Some: a *types.Func whose signature has a receiver *)
}.

Definition recv_shape (fx : fixes) (r : recv) : tshape :=
  if fx_alias fx then rv_unaliased r else rv_raw r.

(* package.go:122-131 *)
Definition named_of (s : tshape) : option nref :=
  match s with
  | TNamed n => Some n
  | TPointer e => e
  | TOther => None
  end.

Definition is_pointer (s : tshape) : bool :=
  match s with TPointer _ => true | _ => false end.

(* the key of the methods map *)
Definition mkey (fx : fixes) (n : nref) : N := if fx_origin fx then n_origin n else n_id n.

(* ------------------------------------------------------------------------------------------ *)
(* Go maps as association lists                                                                *)

Definition tbl := list (bytes * N).           (* map[string]*types.X : name -> object identity *)

Fixpoint tbl_get (k : bytes) (t : tbl) : option N :=
  match t with
  | [] => None
  | (k', v) :: r => if bytes_eqb k k' then Some v else tbl_get k r
  end.

Fixpoint tbl_set (k : bytes) (v : N) (t : tbl) : tbl :=
  match t with
  | [] => [(k, v)]
  | (k', v') :: r => if bytes_eqb k k' then (k, v) :: r else (k', v') :: tbl_set k v r
  end.

Definition mtbl := list (N * list obj).        (* map[*types.Named][]*types.Func *)

Fixpoint mtbl_get (k : N) (m : mtbl) : list obj :=
  match m with
  | [] => []
  | (k', v) :: r => if N.eqb k k' then v else mtbl_get k r
  end.

(* p.methods[named] = append(p.methods[named], x) *)
Fixpoint mtbl_app (k : N) (x : obj) (m : mtbl) : mtbl :=
  match m with
  | [] => [(k, [x])]
  | (k', v) :: r => if N.eqb k k' then (k', v ++ [x]) :: r else (k', v) :: mtbl_app k x r
  end.

Record tables := mk_tables {
  t_types : tbl;
  t_consts : tbl;
  t_funcs : tbl;
  t_methods : mtbl
}.

Definition empty_tables := mk_tables [] [] [] [].

(* one iteration of the loop package.go:116-144 *)
Definition step (fx : fixes) (t : tables) (o : obj) : tables :=
  let enters := negb (fx_scope fx) || o_pkg_scope o in
  match o_kind o with
  | KFunc =>
      match o_recv o with
      | Some r =>
          match named_of (recv_shape fx r) with
          | Some n => mk_tables (t_types t) (t_consts t) (t_funcs t) (mtbl_app (mkey fx n) o (t_methods t))
          | None => t
          end
      | None =>
          if enters then mk_tables (t_types t) (t_consts t) (tbl_set (o_name o) (o_id o) (t_funcs t)) (t_methods t)
          else t
      end
  | KType =>
      if enters then mk_tables (tbl_set (o_name o) (o_id o) (t_types t)) (t_consts t) (t_funcs t) (t_methods t)
      else t
  | KConst =>
      if enters then mk_tables (t_types t) (tbl_set (o_name o) (o_id o) (t_consts t)) (t_funcs t) (t_methods t)
      else t
  | KOther => t
  end.

(* [defs] is TypesInfo.Defs in the order in which this run of the loop happens to visit it *)
Definition fill_tables (fx : fixes) (defs : list obj) : tables := fold_left (step fx) defs empty_tables.

(* the table an accessor reads *)
Definition table_of (k : okind) (t : tables) : tbl :=
  match k with
  | KType => t_types t
  | KConst => t_consts t
  | KFunc => t_funcs t
  | KOther => []
  end.

(* Type(name) / Constant(name) / Function(name) *)
Definition lookup (k : okind) (name : bytes) (t : tables) : option N := tbl_get name (table_of k t).

(* MethodsOf(n, ptr), package.go:321-339 *)
Definition methods_of (fx : fixes) (t : tables) (n : nref) (ptr : bool) : list obj :=
  let funcs := mtbl_get (mkey fx n) (t_methods t) in
  if ptr then funcs
  else filter (fun o => match o_recv o with
                        | Some r => negb (is_pointer (recv_shape fx r))
                        | None => true
                        end) funcs.

(* package.go:146-157 (repair 50ddee1, found by C04: "report the methods of a type in source order instead of map
   order"): after the loop over Defs every list of the methods map is ordered by (file name, offset) of the
   method's position.  [pos] is that key as one number (the rank of the position in that order).  sort.Slice is
   not stable; the model is an insertion sort, and the theorems about the order assume distinct positions. *)
Section SortMethods.
  Variable pos : obj -> N.
  Fixpoint insert_pos (x : obj) (l : list obj) : list obj :=
    match l with
    | [] => [x]
    | y :: r => if N.leb (pos x) (pos y) then x :: l else y :: insert_pos x r
    end.
  Definition sort_pos (l : list obj) : list obj := fold_right insert_pos [] l.
  Definition sort_methods (t : tables) : tables :=
    mk_tables (t_types t) (t_consts t) (t_funcs t) (map (fun kv => (fst kv, sort_pos (snd kv))) (t_methods t)).
End SortMethods.

(* the tables newPkg leaves behind: the loop, then the ordering *)
Definition new_pkg_tables (fx : fixes) (pos : obj -> N) (defs : list obj) : tables :=
  sort_methods pos (fill_tables fx defs).

(* ------------------------------------------------------------------------------------------ *)
(* registration (load.go:60-79 and 114-116) and the import tables (package.go:86-88)           *)

Definition path := bytes.

(* one *packages.Package: PkgPath and Imports (import path as written -> PkgPath of the imported package) *)
Record gnode := mk_gnode { g_path : path; g_imports : list (path * path) }.
Definition graph := list gnode.

Fixpoint g_find (p : path) (g : graph) : option gnode :=
  match g with
  | [] => None
  | nd :: r => if bytes_eqb p (g_path nd) then Some nd else g_find p r
  end.

(* map[string]V keyed by a path *)
Fixpoint pm_get {V} (k : path) (m : list (path * V)) : option V :=
  match m with
  | [] => None
  | (k', v) :: r => if bytes_eqb k k' then Some v else pm_get k r
  end.

Fixpoint pm_set {V} (k : path) (v : V) (m : list (path * V)) : list (path * V) :=
  match m with
  | [] => [(k, v)]
  | (k', v') :: r => if bytes_eqb k k' then (k, v) :: r else (k', v') :: pm_set k v r
  end.

(* a Package value built by newPkg: its identity, the package it wraps, and its import table
   (import path -> identity of a Package value, None = nil interface) *)
Record pkgval := mk_pkgval { pv_id : N; pv_path : path; pv_imports : list (path * option N) }.

Record ustate := mk_ustate {
  u_pkgs : list (path * N);   (* Universe.pkgs : PkgPath -> Package identity *)
  u_heap : list pkgval;       (* every Package value constructed so far *)
  u_next : N                  (* allocation counter *)
}.

Definition empty_ustate := mk_ustate [] [] 0.

Fixpoint heap_get (id : N) (h : list pkgval) : option pkgval :=
  match h with
  | [] => None
  | pv :: r => if N.eqb id (pv_id pv) then Some pv else heap_get id r
  end.

(* newPkg, import part: p.imports[pkgPath] = u.Package(pkgPath) for every import path *)
Definition new_pkg (fx : fixes) (nd : gnode) (s : ustate) : ustate * N :=
  let tb := map (fun kt => (fst kt, pm_get (if fx_vendor fx then snd kt else fst kt) (u_pkgs s))) (g_imports nd) in
  let id := u_next s in
  (mk_ustate (u_pkgs s) (mk_pkgval id (g_path nd) tb :: u_heap s) (id + 1), id).

Definition registered (p : path) (s : ustate) : bool :=
  match pm_get p (u_pkgs s) with Some _ => true | None => false end.

(* the closure [register]; the recursion is on explicit fuel (the import graph is acyclic, so the
   depth is bounded; the theorem shows that enough fuel exists).  A missing node stands for a nil
   *packages.Package (cannot happen with NeedDeps) and is a nil dereference. *)
Fixpoint register (fx : fixes) (g : graph) (fuel : nat) (p : path) (s : ustate) : res ustate :=
  match fuel with
  | O => OutOfFuel
  | S fuel' =>
      match g_find p g with
      | None => Panic
      | Some nd =>
          let pre := if fx_imports fx then (s, None) else (let (s', id) := new_pkg fx nd s in (s', Some id)) in
          let! s2 := fold_left (fun (acc : res ustate) kt =>
                                  let! a := acc in
                                  if registered (snd kt) a then Ok a else register fx g fuel' (snd kt) a)
                               (g_imports nd) (Ok (fst pre)) in
          let (s3, id) := match snd pre with
                          | Some id => (s2, id)
                          | None => new_pkg fx nd s2
                          end in
          Ok (mk_ustate (pm_set p id (u_pkgs s3)) (u_heap s3) (u_next s3))
      end
  end.

(* for i := range pkgs { register(pkgs[i]) } *)
Definition load (fx : fixes) (g : graph) (fuel : nat) (roots : list path) : res ustate :=
  fold_left (fun (acc : res ustate) r => let! a := acc in register fx g fuel r a) roots (Ok empty_ustate).

(* Universe.Package(path) *)
Definition universe_package (s : ustate) (p : path) : option N := pm_get p (u_pkgs s).

(* Universe.Package(p).Imports()[k] : None = no such key, Some None = nil *)
Definition imports_entry (s : ustate) (p k : path) : option (option N) :=
  match universe_package s p with
  | None => None
  | Some id =>
      match heap_get id (u_heap s) with
      | None => None
      | Some pv => pm_get k (pv_imports pv)
      end
  end.

(* ------------------------------------------------------------------------------------------ *)
(* SourceDir and LocateInPackage                                                               *)

Record modinfo := mk_mod { m_path : bytes; m_dir : bytes }.

Record pinfo := mk_pinfo { pi_path : path; pi_module : option modinfo }.

Section Dirs.
  (* filepath.Join *)
  Variable join : bytes -> bytes -> bytes.

  (* package.go:251-262.  PkgPath[len(Module.Path):] is a checked slice expression. *)
  Definition source_dir (p : pinfo) : res bytes :=
    match pi_module p with
    | None => Ok []
    | Some m =>
        if bytes_eqb (pi_path p) (m_path m) then Ok (m_dir m)
        else if Nat.leb (length (m_path m)) (length (pi_path p))
             then Ok (join (m_dir m) (skipn (length (m_path m)) (pi_path p)))
             else Panic
    end.

  (* load.go:153-158: the first package, in map order, whose SourceDir() is the directory of the
     position's file; [pkgs] is u.pkgs in the order this call happens to visit it *)
  Fixpoint locate (pkgs : list pinfo) (dir : bytes) : res (option path) :=
    match pkgs with
    | [] => Ok None
    | p :: r =>
        let! d := source_dir p in
        if bytes_eqb dir d then Ok (Some (pi_path p)) else locate r dir
    end.
End Dirs.

(* filepath.Join(d, s) for a clean directory d and a clean suffix s = "/a/b": concatenation
   (the harness tests this equation on every package it reports) *)
Definition join_clean (d s : bytes) : bytes := d ++ s.
