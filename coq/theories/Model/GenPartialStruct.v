(* Model of devpkg/partialstruct/partialstruct.go (GenerateType + generate) together with the statement selection of
   devpkg/deepcopygen/helper/copy_fields.go (createFieldSnippet) and the type / identifier rendering it goes through
   (snippet.ID on a go/types type = Dumper.TypeLit + rawNamer.Name; snippet.ID on a string = ParseRef + rawNamer.Name).

   The generated Go text is represented by an IR: a field list (name, type expression, tag), the origin type
   reference and the list of copy statements of DeepCopyIntoAs.  The import tracker (pkg/namer, property C03) is an
   abstract function  L : import path -> local name ; everything below is parametric in it.

   The switches of [cfg] select the code before / after the repairs:
     fx_tag    #25  struct tag rendered through snippet.ID (false) / snippet.Block (true)
     fx_group  #31  origin taken from the last spec of the declaration group (false) / from the type's own spec (true)
     fx_errlit #15  Dumper.TypeLit prints `error` as `any` (false) / `error` (true)             [owned by C11]
     fx_errnil #23  createFieldSnippet dereferences the nil package of `error` (false) / guards (true)  [owned by C17]
   Definitions only. *)
Require Export Gengo.Base.Bytes.

Record cfg := mk_cfg { fx_tag : bool; fx_group : bool; fx_errlit : bool; fx_errnil : bool }.
Definition all_fixed : cfg := mk_cfg true true true true.
Definition unfixed : cfg := mk_cfg false false false false.

(* ---- byte-string helpers (strings.Index / LastIndex / SplitN / Split / Join) ---- *)

Fixpoint index_of (c : ascii) (s : bytes) : option nat :=
  match s with
  | [] => None
  | x :: r => if Ascii.eqb x c then Some 0 else option_map S (index_of c r)
  end.

Fixpoint last_index_of (c : ascii) (s : bytes) : option nat :=
  match s with
  | [] => None
  | x :: r =>
      match last_index_of c r with
      | Some i => Some (S i)
      | None => if Ascii.eqb x c then Some 0 else None
      end
  end.

(* strings.Split(s, sep) for a one-byte separator: every piece, empty ones included *)
Fixpoint split_on (c : ascii) (s : bytes) : list bytes :=
  match s with
  | [] => [[]]
  | x :: r =>
      if Ascii.eqb x c then [] :: split_on c r
      else match split_on c r with
           | p :: ps => (x :: p) :: ps
           | [] => [[x]]
           end
  end.

(* strings.SplitN(s, sep, 2) *)
Definition split2 (c : ascii) (s : bytes) : bytes * option bytes :=
  match index_of c s with
  | Some i => (firstn i s, Some (skipn (S i) s))
  | None => (s, None)
  end.

Fixpoint join_with (c : ascii) (l : list bytes) : bytes :=
  match l with
  | [] => []
  | [x] => x
  | x :: r => x ++ c :: join_with c r
  end.

Definition ch_dot : ascii := "."%char.
Definition ch_lbr : ascii := "["%char.
Definition ch_rbr : ascii := "]"%char.
Definition ch_colon : ascii := ":"%char.
Definition ch_space : ascii := " "%char.

(* ---- types of origin fields (what go/types hands to the generator) ---- *)

(* one method of a named type: name, #params, #results, first param is a pointer, first result is a pointer *)
Definition msig := (bytes * N * N * bool * bool)%type.

(* x.Underlying() of a named type, as far as createFieldSnippet looks at it *)
Inductive ukind := UStruct | UMap | UIface | UOther.

Inductive ty :=
| TBasic (n : bytes)                              (* int, string, uint8 … as types.Basic prints *)
| TAny                                            (* any / interface{} *)
| TError                                          (* the predeclared named type error: Obj().Pkg() == nil *)
| TNamed (pkg name : bytes) (u : ukind) (ms : list msig)   (* a named type with a package, its underlying kind, its explicit methods *)
| TPtr (e : ty)
| TSlice (e : ty)
| TArray (n : N) (e : ty)
| TMap (k v : ty)
| TIfaceLit (text : bytes)                        (* an unnamed interface type with methods, e.g. interface{ M() string } *)
| TAlias (pkg name : bytes) (rhs : ty).           (* *types.Alias (materialised by go/types since Go 1.23): `type name = rhs`
                                                     declared in package pkg, without type arguments; rhs = x.Rhs() *)

Record field := mk_field { f_name : bytes; f_ty : ty; f_tag : bytes }.

(* types.Unalias *)
Fixpoint unalias (t : ty) : ty := match t with TAlias _ _ r => unalias r | _ => t end.

(* ---- rendered type expressions ---- *)

Inductive oty :=
| OIdent (n : bytes)
| OSel (q n : bytes)
| OPtr (e : oty)
| OSlice (e : oty)
| OArray (n : N) (e : oty)
| OMap (k v : oty)
| OText (t : bytes).          (* text produced from a string argument of snippet.ID (replace types) *)

Section WithTracker.
  Variable L : bytes -> bytes.       (* ImportTracker.LocalNameOf after AddType *)
  Variable target : bytes.           (* import path of the package being generated *)
  Variable c : cfg.

  (* rawNamer.Name on Ref(pkg, name) for a name without type arguments; returns the text and the path registered *)
  Definition namer_text (pkg name : bytes) : bytes * list bytes :=
    if bytes_eqb pkg target then (name, []) else (L pkg ++ ch_dot :: name, [pkg]).

  (* Dumper.TypeLit over a go/types type: the expression and the import paths registered, in order *)
  Fixpoint type_lit (t : ty) : oty * list bytes :=
    match t with
    | TBasic n => (OIdent n, [])
    | TAny => (OIdent (bs "any"), [])
    | TError => (OIdent (if fx_errlit c then bs "error" else bs "any"), [])
    | TNamed pkg name _ _ =>
        if bytes_eqb pkg target then (OIdent name, []) else (OSel (L pkg) name, [pkg])
    | TPtr e => let (o, i) := type_lit e in (OPtr o, i)
    | TSlice e => let (o, i) := type_lit e in (OSlice o, i)
    | TArray n e => let (o, i) := type_lit e in (OArray n o, i)
    | TMap k v => let (ok, ik) := type_lit k in let (ov, iv) := type_lit v in (OMap ok ov, ik ++ iv)
    | TIfaceLit _ => (OIdent (bs "any"), [])      (* dumper.go:81-82: every unnamed interface is printed `any` *)
    | TAlias _ _ r => type_lit r                  (* typesx.FromTType: `case *types.Alias: return FromTType(x.Rhs())`, also
                                                     behind every Elem()/Key(): an alias below the top level is expanded *)
    end.

  (* snippet.ID(f.Type()) for a struct field (snippet__id.go:82-94): a type that IS an alias is printed by its own name
     (ParseRef(x.String()) = (pkg, name) for an alias without type arguments, then rawNamer.Name); everything else goes
     to Dumper.TypeLit *)
  Definition field_type_lit (t : ty) : oty * list bytes :=
    match t with
    | TAlias pkg name _ => if bytes_eqb pkg target then (OIdent name, []) else (OSel (L pkg) name, [pkg])
    | _ => type_lit t
    end.

  (* ---- snippet.ID(string): gengotypes.ParseRef, then rawNamer.Name / processName (pkg/types/ref.go:23-32, 67-124) ---- *)

  (* ParseRef: base = ref up to the first '[' at index > 0; split at the last '.' of base if its index is > 0 *)
  Definition parse_ref (s : bytes) : option (bytes * bytes) :=
    let base := match index_of ch_lbr s with
                | Some (S i) => firstn (S i) s
                | _ => s
                end in
    match last_index_of ch_dot base with
    | Some (S i) => Some (firstn (S i) s, skipn (S (S i)) s)
    | _ => None
    end.

  Inductive idres :=
  | IdOk (text : bytes) (imports : list bytes)
  | IdPanic                      (* processName: panic(err) on "invalid type ref" *)
  | IdGeneric.                   (* a reference with type arguments: not modelled (outside every generated input) *)

  (* processName(name) = ParseTypeRef(name).Name when there is no type list *)
  Definition process_name (name : bytes) : option (option bytes) :=    (* None = panic, Some None = generic *)
    match index_of ch_lbr name with
    | Some (S _) =>
        match last_index_of ch_rbr name with
        | Some j => if Nat.eqb (S j) (length name) then Some None else None
        | None => None
        end
    | _ =>
        match last_index_of ch_dot name with
        | Some (S j) => Some (Some (skipn (S (S j)) name))
        | _ => Some (Some name)
        end
    end.

  Definition id_string (s : bytes) : idres :=
    match parse_ref s with
    | None => IdOk s []
    | Some (pkg, name) =>
        match process_name name with
        | None => IdPanic
        | Some None => IdGeneric
        | Some (Some n) => let (t, i) := namer_text pkg n in IdOk t i
        end
    end.

  (* ---- tags on the declaration (partialstruct.go:41-54) ---- *)

  (* ps.Omit[field] = true for every value *)
  Definition omitted (omit : list bytes) (name : bytes) : bool := existsb (bytes_eqb name) omit.

  (* ps.Replace: for each value, SplitN(":", 2); two parts => Replace[parts[0]] = Split(parts[1], " "); later wins *)
  Fixpoint replace_map (vals : list bytes) (acc : list (bytes * list bytes)) : list (bytes * list bytes) :=
    match vals with
    | [] => acc
    | v :: r =>
        match split2 ch_colon v with
        | (k, Some rest) => replace_map r ((k, split_on ch_space rest) :: acc)   (* newest first: lookup finds the last write *)
        | (_, None) => replace_map r acc
        end
    end.

  Fixpoint lookup (k : bytes) (m : list (bytes * list bytes)) : option (list bytes) :=
    match m with
    | [] => None
    | (k', v) :: r => if bytes_eqb k k' then Some v else lookup k r
    end.

  (* ---- the struct body: the `fields` snippet (partialstruct.go:144-198) ---- *)

  Record gfield := mk_gfield { gf_name : bytes; gf_ty : oty; gf_tag : bytes }.

  Inductive genres (A : Type) :=
  | GOk (a : A) (imports : list bytes)
  | GPanic
  | GGeneric.
  Arguments GOk {A} a imports.
  Arguments GPanic {A}.
  Arguments GGeneric {A}.

  (* "fieldTag": snippet.ID(tag) before the repair, snippet.Block(tag) after it *)
  Definition render_tag (tag : bytes) : idres :=
    if fx_tag c then IdOk tag [] else id_string tag.

  (* one iteration of the loop, for a field that is not omitted *)
  Definition gen_field (repl : list (bytes * list bytes)) (f : field) : genres gfield :=
    match lookup (f_name f) repl with
    | Some replaceTo =>
        (* replaceTo is never empty: strings.Split returns at least one piece; replaceTo[0] would panic otherwise *)
        match replaceTo with
        | [] => GPanic
        | t0 :: rest =>
            let tag := match rest with [] => f_tag f | _ => join_with ch_space rest end in
            match id_string t0, render_tag tag with
            | IdOk rt ri, IdOk gt gi => GOk (mk_gfield (f_name f) (OText rt) gt) (ri ++ gi)
            | IdPanic, _ => GPanic
            | IdGeneric, _ => GGeneric
            | _, IdPanic => GPanic
            | _, IdGeneric => GGeneric
            end
        end
    | None =>
        let (o, ti) := field_type_lit (f_ty f) in
        match render_tag (f_tag f) with
        | IdOk gt gi => GOk (mk_gfield (f_name f) o gt) (ti ++ gi)
        | IdPanic => GPanic
        | IdGeneric => GGeneric
        end
    end.

  (* for i := 0; i < x.NumFields(); i++ { … if omitted { continue } … yield } — accumulator = what has been yielded *)
  Fixpoint gen_fields_loop (omit : list bytes) (repl : list (bytes * list bytes)) (fs : list field)
           (acc : list gfield) (imps : list bytes) : genres (list gfield) :=
    match fs with
    | [] => GOk acc imps
    | f :: r =>
        if omitted omit (f_name f) then gen_fields_loop omit repl r acc imps
        else match gen_field repl f with
             | GOk g i => gen_fields_loop omit repl r (acc ++ [g]) (imps ++ i)
             | GPanic => GPanic
             | GGeneric => GGeneric
             end
    end.

  (* ---- the copy body: helper.StructFieldsCopy (copy_fields.go:32-164) ---- *)

  Inductive stmt :=
  | SAssign (f : bytes)                    (* out.F = in.F *)
  | SCopySlice (f : bytes) (t : oty)       (* if in.F != nil { i, o := &in.F, &out.F; *o = make(T, len( *i)); copy( *o, *i) } *)
  | SCopyMap (f : bytes) (t : oty)         (* … for key, val := range *i { ( *o)[key] = val } *)
  | SCallInto (f m : bytes)                (* in.F.M(&out.F) *)
  | SCallCopyVal (f m : bytes)             (* out.F = in.F.M() *)
  | SCallCopyDeref (f m : bytes)           (* out.F = *in.F.M() *)
  | SOther (text : bytes).                 (* anything else the abstraction of the real file meets *)

  Definition dc_name : bytes := bs "DeepCopyAs".
  Definition dc_into_name : bytes := bs "DeepCopyIntoAs".

  (* FieldContext: HasDeepCopy, HasDeepCopyInto, PtrResultOrParam *)
  Definition fctx := (bool * bool * bool)%type.

  (* the method scan of copy_fields.go:77-96: both Has* flags are overwritten by every method (no accumulation) *)
  Fixpoint scan_methods (ms : list msig) (fc : fctx) : fctx :=
    match ms with
    | [] => fc
    | (name, np, nr, p0, r0) :: r =>
        let '(_, _, ptr) := fc in
        let hc := bytes_eqb name dc_name && N.eqb nr 1 && N.eqb np 0 in
        let hi := bytes_eqb name dc_into_name && N.eqb np 1 && N.eqb nr 0 in
        let ptr1 := if hc then (if r0 then ptr else false) else ptr in
        let ptr2 := if hi then (if p0 then ptr1 else false) else ptr1 in
        scan_methods r (hc, hi, ptr2)
    end.

  Definition select_named (f : bytes) (fc : fctx) : stmt :=
    let '(hc, hi, ptr) := fc in
    if ptr && hi then SCallInto f dc_into_name
    else if negb ptr && hc then SCallCopyVal f dc_name
    else if ptr && hc then SCallCopyDeref f dc_name
    else SAssign f.

  Definition is_uiface (u : ukind) : bool := match u with UIface => true | _ => false end.
  Definition is_umap (u : ukind) : bool := match u with UMap => true | _ => false end.

  (* copy_fields.go:63-69 (repairs bf0d8cc, adc5fac): `declared := f.Type(); switch x := types.Unalias(declared).(type)` - the
     switch runs on the type the field's (alias) type denotes.  [ua] = false is the code before the two repairs: the switch
     ran on f.Type() itself and had no case for *types.Alias *)
  Definition switch_type (ua : bool) (t : ty) : ty := if ua then unalias t else t.

  (* createFieldSnippet; [replaced] = the FieldContext callback of partialstruct returned a context.  The type
     expression of a container copy is rendered from the DECLARED type (snippet.ID(declared)): an alias keeps its name in
     make(...); before the repairs it was snippet.ID(x) with x = f.Type() a slice / map type itself - the same text *)
  Definition field_stmt_gen (ua : bool) (replaced : bool) (f : field) : genres stmt :=
    let t := switch_type ua (f_ty f) in
    match t with
    | TNamed pkg _ u ms =>
        if replaced then GOk (select_named (f_name f) (true, true, true)) []
        else
          let '(hc, hi, ptr) := scan_methods ms (false, false, true) in
          (* `fc.InSamePkg && !isInterface`: "always gen"; the methods of a map type take and return the map itself.
             (The two refinements are C17's repairs of copy_fields.go; before the agreement proof with C17's model
             this branch read `if InSamePkg then (true, true, ptr)` for every underlying type.) *)
          if bytes_eqb pkg target && negb (is_uiface u)
          then GOk (select_named (f_name f) (true, true, if is_umap u then false else ptr)) []
          else GOk (select_named (f_name f) (hc, hi, ptr)) []
    | TError =>
        if replaced then GOk (select_named (f_name f) (true, true, true)) []
        else if fx_errnil c then GOk (SAssign (f_name f)) []     (* guarded: error has the single method Error *)
        else GPanic                                                (* x.Obj().Pkg().Path() on a nil package *)
    | TMap _ _ => let (o, i) := field_type_lit (f_ty f) in GOk (SCopyMap (f_name f) o) i
    | TSlice _ => let (o, i) := field_type_lit (f_ty f) in GOk (SCopySlice (f_name f) o) i
    | _ => GOk (SAssign (f_name f)) []      (* before the repairs also every alias-typed field *)
    end.

  Definition field_stmt : bool -> field -> genres stmt := field_stmt_gen true.

  Fixpoint gen_stmts_loop (omit : list bytes) (repl : list (bytes * list bytes)) (fs : list field)
           (acc : list stmt) (imps : list bytes) : genres (list stmt) :=
    match fs with
    | [] => GOk acc imps
    | f :: r =>
        if omitted omit (f_name f) then gen_stmts_loop omit repl r acc imps
        else match field_stmt (match lookup (f_name f) repl with Some _ => true | None => false end) f with
             | GOk s i => gen_stmts_loop omit repl r (acc ++ [s]) (imps ++ i)
             | GPanic => GPanic
             | GGeneric => GGeneric
             end
    end.

  (* ---- GenerateType (partialstruct.go:26-91) ---- *)

  Definition tyname := (bytes * bytes)%type.      (* package path ("" = universe), name *)

  (* the right-hand side of a type spec as the decl loop sees it: what pkg.ObjectOf yields for x.Type *)
  Inductive rhs :=
  | RIdent (o : option tyname)      (* *ast.Ident; Some = the object is a *types.TypeName *)
  | RSel (o : option tyname)        (* *ast.SelectorExpr *)
  | ROther.                         (* struct literal, pointer, slice, …, index expression *)

  Record tinput := mk_tinput {
    ti_name : bytes;                       (* named.Obj().Name() *)
    ti_enabled : bool;                     (* gengo.IsGeneratorEnabled on the type's tags (property C06) *)
    ti_group : list (bytes * rhs);         (* the specs of the GenDecl that contains the type *)
    ti_under : option (list field);        (* named.Underlying(): Some = *types.Struct *)
    ti_omit : list bytes;                  (* tags["gengo:partialstruct:omit"] *)
    ti_replace : list bytes                (* tags["gengo:partialstruct:replace"] *)
  }.

  Definition rhs_obj (r : rhs) : option tyname :=
    match r with RIdent o => o | RSel o => o | ROther => None end.

  (* the decl loop: every spec of the group assigns ps.Origin when its type expression names a type (last one wins);
     after the repair only the spec whose name is the type's own name is looked at *)
  Fixpoint origin_loop (own : bytes) (specs : list (bytes * rhs)) (cur : option tyname) : option tyname :=
    match specs with
    | [] => cur
    | (n, r) :: rest =>
        if fx_group c && negb (bytes_eqb n own) then origin_loop own rest cur
        else match rhs_obj r with
             | Some o => origin_loop own rest (Some o)
             | None => origin_loop own rest cur
             end
    end.

  Inductive errkind := EMustStruct | ENeedNamed.

  (* the names the copy loop passes over: the blank identifier and the omitted fields *)
  Definition blank_name : bytes := bs "_".
  Definition copy_skip (omit : list bytes) : list bytes := blank_name :: omit.

  Record gtype := mk_gtype {
    g_name : bytes;                  (* @Type *)
    g_origin : oty;                  (* @OriginType *)
    g_fields : list gfield;
    g_stmts : list stmt
  }.

  Inductive typeres :=
  | TSkip                                        (* generator not enabled: nothing rendered, no error *)
  | TErr (k : errkind)                           (* error returned before anything is rendered *)
  | TPanic
  | TGeneric
  | TGen (g : gtype) (imports : list bytes).

  (* strings.ToUpper(name[0:1]) + name[1:] — ASCII letters (a multi-byte first rune is outside the model: guard) *)
  Definition gen_name (name : bytes) : res bytes :=
    match name with
    | [] => Panic                      (* name[0:1] on an empty string; go/types never yields one *)
    | x :: r => Ok (to_upper x :: r)
    end.

  Definition origin_ref (o : tyname) : oty * list bytes :=
    let (pkg, name) := o in
    if bytes_eqb pkg target then (OIdent name, []) else (OSel (L pkg) name, [pkg]).

  Definition generate_type (ti : tinput) : typeres :=
    if negb (ti_enabled ti) then TSkip else
    match gen_name (ti_name ti) with
    | Ok gname =>
        let repl := replace_map (ti_replace ti) [] in
        match ti_under ti with
        | None => TErr EMustStruct
        | Some fs =>
            match origin_loop (ti_name ti) (ti_group ti) None with
            | None => TErr ENeedNamed
            | Some o =>
                (* generate: the template is rendered left to right: fields, then @OriginType (three times), then the copies *)
                match gen_fields_loop (ti_omit ti) repl fs [] [] with
                | GOk gfs i1 =>
                    let (oref, i2) := origin_ref o in
                    (* StructFieldsCopy.Frag (repair adc955a): the field named `_` is skipped like the fields the Skip
                       callback (the omit set) names *)
                    match gen_stmts_loop (copy_skip (ti_omit ti)) repl fs [] [] with
                    | GOk sts i3 => TGen (mk_gtype gname oref gfs sts) (i1 ++ i2 ++ i3)
                    | GPanic => TPanic
                    | GGeneric => TGeneric
                    end
                | GPanic => TPanic
                | GGeneric => TGeneric
                end
            end
        end
    | _ => TPanic
    end.

  (* ---- the package: doGenerate visits the types in sorted-name order and stops at the first error ---- *)

  Inductive outcome :=
  | OutErr (k : errkind)                           (* Execute fails; no file is written *)
  | OutCrash                                       (* the process panics *)
  | OutGeneric                                     (* not modelled *)
  | OutFile (ts : list gtype) (imports : list bytes).   (* ts = [] : nothing rendered, no file *)

  Fixpoint generate_pkg (tis : list tinput) (acc : list gtype) (imps : list bytes) : outcome :=
    match tis with
    | [] => OutFile acc imps
    | ti :: r =>
        match generate_type ti with
        | TSkip => generate_pkg r acc imps
        | TErr k => OutErr k
        | TPanic => OutCrash
        | TGeneric => OutGeneric
        | TGen g i => generate_pkg r (acc ++ [g]) (imps ++ i)
        end
    end.

End WithTracker.

Arguments GOk {A} a imports.
Arguments GPanic {A}.
Arguments GGeneric {A}.

(* ---- a simple value model for the copy semantics ---- *)

Inductive value :=
| VZero                                 (* the zero value of the field's type (nil for slices, maps, pointers, interfaces) *)
| VAtom (n : N)                         (* a non-composite, or shared (pointer / interface), value *)
| VSlice (l : list value)               (* a non-nil slice *)
| VMap (l : list (value * value)).      (* a non-nil map *)

(* a struct value: field name -> value; fields not listed are zero *)
Definition svalue := list (bytes * value).

Fixpoint sget (s : svalue) (f : bytes) : value :=
  match s with
  | [] => VZero
  | (k, v) :: r => if bytes_eqb f k then v else sget r f
  end.

Definition sset (s : svalue) (f : bytes) (v : value) : svalue := (f, v) :: s.

Definition is_zero (v : value) : bool := match v with VZero => true | _ => false end.

(* make + copy / make + range: a fresh container with the same elements; a nil container is left alone (out.F stays zero) *)
Definition copy_container (v : value) : value := v.

(* conv : what the replacement type's DeepCopyIntoAs stores into the origin field (abstract) *)
Definition exec_stmt (conv : bytes -> value -> value) (inv : svalue) (out : svalue) (s : stmt) : option svalue :=
  match s with
  | SAssign f => Some (sset out f (sget inv f))
  | SCopySlice f _ => Some (if is_zero (sget inv f) then out else sset out f (copy_container (sget inv f)))
  | SCopyMap f _ => Some (if is_zero (sget inv f) then out else sset out f (copy_container (sget inv f)))
  | SCallInto f _ => Some (sset out f (conv f (sget inv f)))
  | SCallCopyVal f _ => Some (sset out f (conv f (sget inv f)))
  | SCallCopyDeref f _ => Some (sset out f (conv f (sget inv f)))
  | SOther _ => None
  end.

Fixpoint exec_stmts (conv : bytes -> value -> value) (inv : svalue) (out : svalue) (ss : list stmt) : option svalue :=
  match ss with
  | [] => Some out
  | s :: r => match exec_stmt conv inv out s with
              | Some out' => exec_stmts conv inv out' r
              | None => None
              end
  end.

(* DeepCopyAs: if in == nil { return nil }; out := new(Origin); in.DeepCopyIntoAs(out); return out *)
Definition deep_copy_as (conv : bytes -> value -> value) (ss : list stmt) (inp : option svalue) : option (option svalue) :=
  match inp with
  | None => Some None
  | Some inv => option_map Some (exec_stmts conv inv [] ss)
  end.

(* ================================================================================================================
   Specification vocabulary shared by the theorems and by the correspondence predicates (no generator logic here)
   ================================================================================================================ *)

Definition last_segment (p : bytes) : bytes :=
  match last_index_of "/"%char p with
  | Some i => skipn (S i) p
  | None => p
  end.


Fixpoint resolve (imps : list (bytes * bytes)) (q : bytes) : option bytes :=
  match imps with
  | [] => None
  | (p, n) :: r => if bytes_eqb n q then Some p else resolve r q
  end.

Fixpoint nodupb (l : list bytes) : bool :=
  match l with
  | [] => true
  | x :: r => negb (existsb (bytes_eqb x) r) && nodupb r
  end.

(* the printed expression denotes the go/types type, foreign packages resolved through the file's import block *)
(* a named or alias type printed by its own name *)
Definition denotes_ref (imps : list (bytes * bytes)) (target : bytes) (o : oty) (p n' : bytes) : bool :=
  match o with
  | OIdent n => bytes_eqb p target && bytes_eqb n n'
  | OSel q n => negb (bytes_eqb p target) && bytes_eqb n n' && option_eqb bytes_eqb (resolve imps q) (Some p)
  | _ => false
  end.

Fixpoint denotes (imps : list (bytes * bytes)) (target : bytes) (o : oty) (t : ty) {struct t} : bool :=
  match t with
  | TAlias p n' r =>
      (* an alias and its right-hand side are one and the same type: either spelling denotes it *)
      denotes_ref imps target o p n' || denotes imps target o r
  | _ =>
  match o, t with
  | OIdent n, TBasic n' => bytes_eqb n n'
  | OIdent n, TAny => bytes_eqb n (bs "any")
  | OIdent n, TError => bytes_eqb n (bs "error")
  | OIdent n, TNamed p n' _ _ => bytes_eqb p target && bytes_eqb n n'
  | OSel q n, TNamed p n' _ _ =>
      negb (bytes_eqb p target) && bytes_eqb n n' && option_eqb bytes_eqb (resolve imps q) (Some p)
  | OPtr a, TPtr b => denotes imps target a b
  | OSlice a, TSlice b => denotes imps target a b
  | OArray n a, TArray m b => N.eqb n m && denotes imps target a b
  | OMap k a, TMap l b => denotes imps target k l && denotes imps target a b
  | OText t, TIfaceLit t' => bytes_eqb t t'
  | _, _ => false
  end
  end.


(* every import of the file is used by some type expression (an unused import does not compile) *)
Fixpoint oty_quals (o : oty) : list bytes :=
  match o with
  | OSel q _ => [q]
  | OPtr e | OSlice e | OArray _ e => oty_quals e
  | OMap k v => oty_quals k ++ oty_quals v
  | _ => []
  end.

Definition stmt_quals (s : stmt) : list bytes :=
  match s with SCopySlice _ t | SCopyMap _ t => oty_quals t | _ => [] end.


(* ---- the known-finding class, as a predicate over the structured input ---- *)

Fixpoint ty_pkgs (t : ty) : list bytes :=
  match t with
  | TNamed p _ _ _ => [p]
  | TPtr e | TSlice e | TArray _ e => ty_pkgs e
  | TMap k v => ty_pkgs k ++ ty_pkgs v
  | TAlias _ _ r => ty_pkgs r          (* below the top level an alias is rendered through its right-hand side *)
  | _ => []
  end.

(* the packages the rendering of a FIELD's type mentions: a top-level alias is printed by name *)
Definition fty_pkgs (t : ty) : list bytes :=
  match t with TAlias p _ _ => [p] | _ => ty_pkgs t end.

Definition is_container (t : ty) : bool := match t with TSlice _ | TMap _ _ => true | _ => false end.

Definition own_rhs (ti : tinput) : option rhs :=
  option_map snd (find (fun p => bytes_eqb (fst p) (ti_name ti)) (ti_group ti)).

Definition own_origin (ti : tinput) : option tyname :=
  match own_rhs ti with Some r => rhs_obj r | None => None end.

Definition name_in (n : bytes) (l : list bytes) : bool := existsb (bytes_eqb n) l.

Definition shadow_names_block : list bytes := [bs "in"; bs "out"; bs "i"; bs "o"].

Definition shadow_type (target : bytes) (ti : tinput) : bool :=
  ti_enabled ti &&
  match ti_under ti, own_origin ti with
  | Some fs, Some (opkg, _) =>
      (negb (bytes_eqb opkg target) && bytes_eqb (last_segment opkg) (bs "in"))
      || existsb (fun f =>
           negb (omitted (copy_skip (ti_omit ti)) (f_name f)) && is_container (unalias (f_ty f))
           && existsb (fun p => negb (bytes_eqb p target) && name_in (last_segment p) shadow_names_block) (fty_pkgs (f_ty f)))
         fs
  | _, _ => false
  end.

Definition shadow_class (target : bytes) (tis : list tinput) : bool := existsb (shadow_type target) tis.


(* ---- known-finding class unnamed_method_interface_rendered_any ---- *)

Fixpoint has_iface_lit (t : ty) : bool :=
  match t with
  | TIfaceLit _ => true
  | TPtr e | TSlice e | TArray _ e => has_iface_lit e
  | TMap k v => has_iface_lit k || has_iface_lit v
  | TAlias _ _ r => has_iface_lit r
  | _ => false
  end.

(* for a field's type: an alias at the top level is printed by name, whatever it stands for *)
Definition fhas_iface_lit (t : ty) : bool :=
  match t with TAlias _ _ _ => false | _ => has_iface_lit t end.

Definition iface_type (ti : tinput) : bool :=
  ti_enabled ti &&
  match ti_under ti, own_origin ti with
  | Some fs, Some _ =>
      existsb (fun f => negb (omitted (ti_omit ti) (f_name f))
                        && match lookup (f_name f) (replace_map (ti_replace ti) []) with Some _ => false | None => true end
                        && fhas_iface_lit (f_ty f)) fs
  | _, _ => false
  end.

Definition iface_class (tis : list tinput) : bool := existsb iface_type tis.

(* ---- scoping of the rendered methods: the locals in scope where a type expression is rendered ---- *)

Definition locals_as : list bytes := [bs "in"].                            (* out := new(@OriginType) *)
Definition locals_block : list bytes := [bs "in"; bs "out"; bs "i"; bs "o"].   (* *o = make(@SliceType, len( *i)) *)

Definition stmt_shadowed (s : stmt) : bool := existsb (fun q => name_in q locals_block) (stmt_quals s).

Definition gtype_shadowed (g : gtype) : bool :=
  existsb (fun q => name_in q locals_as) (oty_quals (g_origin g)) || existsb stmt_shadowed (g_stmts g).

(* why a declaration must be reported as an error *)
Definition decl_error (ti : tinput) : option errkind :=
  match ti_under ti with
  | None => Some EMustStruct
  | Some _ => match own_origin ti with None => Some ENeedNamed | Some _ => None end
  end.

Definition errkind_eqb (a b : errkind) : bool :=
  match a, b with EMustStruct, EMustStruct | ENeedNamed, ENeedNamed => true | _, _ => false end.

