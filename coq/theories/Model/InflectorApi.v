(* pkg/inflector/api.go + internal/inflector.go + the two Rule values registered by rules.go:init,
   over the tables extracted from the source on every run (Gen/InflectorTables.v).  Definitions only. *)
Require Import Gengo.Base.Bytes Gengo.Model.Inflector Gengo.Model.InflectorRegexp Gengo.Gen.InflectorTables.

(* Rule.Init: r.uninflected = slices.Concat(uninflected, uninflectedPlurals | uninflectedSingulars) *)
Definition plural_unf_src : list bytes := uninflected_common ++ uninflected_plurals.
Definition singular_unf_src : list bytes := uninflected_common ++ uninflected_singulars.

Definition unf_of (src : list bytes) : list (list atom) :=
  match parse_patterns src with Some l => l | None => [] end.

Definition plural_unf := unf_of plural_unf_src.
Definition singular_unf := unf_of singular_unf_src.

Definition is_some {A} (o : option A) : bool := match o with Some _ => true | None => false end.

(* what the theorems need from the tables as they are in the source today; re-proved by
   vm_compute on every run (Proofs/Inflector.v: tables_ok) *)
Definition tables_wf : bool :=
  table_wf plural_irregular && table_wf singular_irregular
  && is_some (parse_patterns plural_unf_src) && is_some (parse_patterns singular_unf_src)
  && is_some (compile_rules plural_rules) && is_some (compile_rules singular_rules).

(* Rule.Init: r.compiledRules[i] = {item.Replacement, regexp.MustCompile(item.Pattern)}, in order *)
Definition rules_of_src (src : list (bytes * bytes)) : list crule :=
  match compile_rules src with Some l => l | None => [] end.

Definition plural_crules : list crule := Eval vm_compute in rules_of_src plural_rules.
Definition singular_crules : list crule := Eval vm_compute in rules_of_src singular_rules.

Definition api_rules (plural : bool) : list crule := if plural then plural_crules else singular_crules.

(* Inflector.Inflected(tye, s): both rule types are registered by init, so the map lookup hits.
   [plural = true] is inflector.Pluralize, [false] is inflector.Singularize.  [suffix] stands for
   the ordered regexp rules of that Rule. *)
Definition api (fixed : bool) (plural : bool) (suffix : bytes -> bytes) (s : bytes) : res bytes :=
  if plural then inflected fixed plural_irregular plural_unf suffix s
  else inflected fixed singular_irregular singular_unf suffix s.

Definition api_table (plural : bool) : list (bytes * bytes) :=
  if plural then plural_irregular else singular_irregular.

(* The complete model: nothing is left abstract.  The suffix-rule engine is [suffix_fn] over the
   rules compiled from this run's rules.go (Proofs/InflectorRegexp.v: it never runs out of fuel). *)
Definition api_full (fixed : bool) (plural : bool) (s : bytes) : res bytes :=
  api fixed plural (suffix_fn (api_rules plural)) s.

Definition api_unf (plural : bool) : list (list atom) := if plural then plural_unf else singular_unf.

(* the string gets past the irregular table and the uninflected list, to the suffix rules *)
Definition api_reaches_suffix (plural : bool) (s : bytes) : bool :=
  reaches_suffix true (api_table plural) (api_unf plural) s.
