(* pkg/inflector/api.go + internal/inflector.go + the two Rule values registered by rules.go:init,
   over the tables extracted from the source on every run (Gen/InflectorTables.v).  Definitions only. *)
Require Import Gengo.Base.Bytes Gengo.Model.Inflector Gengo.Gen.InflectorTables.

(* Rule.Init: r.uninflected = slices.Concat(uninflected, uninflectedPlurals | uninflectedSingulars) *)
Definition plural_unf_src : list bytes := uninflected_common ++ uninflected_plurals.
Definition singular_unf_src : list bytes := uninflected_common ++ uninflected_singulars.

Definition unf_of (src : list bytes) : list (list atom) :=
  match parse_patterns src with Some l => l | None => [] end.

Definition plural_unf := unf_of plural_unf_src.
Definition singular_unf := unf_of singular_unf_src.

Definition is_some {A} (o : option A) : bool := match o with Some _ => true | None => false end.

(* what the theorems need from the tables as they are in the source today; re-proved by
   vm_compute on every run (Proofs/Inflector.v: tables_ok) *)
Definition tables_wf : bool :=
  table_wf plural_irregular && table_wf singular_irregular
  && is_some (parse_patterns plural_unf_src) && is_some (parse_patterns singular_unf_src).

(* Inflector.Inflected(tye, s): both rule types are registered by init, so the map lookup hits.
   [plural = true] is inflector.Pluralize, [false] is inflector.Singularize.  [suffix] stands for
   the ordered regexp rules of that Rule. *)
Definition api (fixed : bool) (plural : bool) (suffix : bytes -> bytes) (s : bytes) : res bytes :=
  if plural then inflected fixed plural_irregular plural_unf suffix s
  else inflected fixed singular_irregular singular_unf suffix s.

Definition api_table (plural : bool) : list (bytes * bytes) :=
  if plural then plural_irregular else singular_irregular.
