(* Declarative specification of snippet rendering (property C09): tokenise, then substitute.
   Definitions only.  Nothing here follows the Go scanner loops: the template language is given
   by the token type, [untok] (what text a token list stands for) and the four clauses of
   [wf_toks] (which token lists are readings of a text); [Tokens s ts] has exactly one solution
   for every [s] (Proofs/Snippet.v: tokens_unique, tokenize_tokens), and [tokenize] computes it. *)
Require Import Gengo.Base.Bytes Gengo.Model.Snippet.

(* ---- the template language of T ---- *)
Inductive tok :=
| Lit (c : ascii)                       (* an ordinary character, stands for itself *)
| Hole (name : bytes) (apos : bool).    (* @name, and whether one apostrophe after it was consumed as delimiter *)

Definition untok1 (t : tok) : bytes :=
  match t with
  | Lit c => [c]
  | Hole n a => c_at :: n ++ (if a then [c_apos] else [])
  end.
Definition untok (ts : list tok) : bytes := concat (map untok1 ts).

Definition head_is (p : ascii -> bool) (s : bytes) : bool :=
  match s with c :: _ => p c | [] => false end.

(* (1) hole names are non-empty runs of [A-Za-z0-9_];
   (2) a literal '@' is not directly followed by a name character (it would be a hole);
   (3) a hole is not directly followed by a name character (names are maximal), and
   (4) a hole that did not consume an apostrophe is not directly followed by one. *)
Definition name_or_apos (c : ascii) : bool := is_name c || Ascii.eqb c c_apos.
Definition wf_tok (t : tok) (following : bytes) : bool :=
  match t with
  | Lit c => if Ascii.eqb c c_at then negb (head_is is_name following) else true
  | Hole n a => negb (is_nil n) && forallb is_name n
                && (a || negb (head_is name_or_apos following))
  end.
Fixpoint wf_toks (ts : list tok) : bool :=
  match ts with
  | [] => true
  | t :: r => wf_tok t (untok r) && wf_toks r
  end.

Definition Tokens (s : bytes) (ts : list tok) : Prop := untok ts = s /\ wf_toks ts = true.

(* the executable reading *)
Fixpoint span (p : ascii -> bool) (s : bytes) : bytes * bytes :=
  match s with
  | c :: r => if p c then let (a, b) := span p r in (c :: a, b) else ([], s)
  | [] => ([], [])
  end.

Fixpoint tokenize_fuel (k : nat) (s : bytes) : list tok :=
  match k with
  | O => []
  | S k =>
      match s with
      | [] => []
      | c :: r =>
          if Ascii.eqb c c_at then
            let (n, rest) := span is_name r in
            match n with
            | [] => Lit c_at :: tokenize_fuel k r
            | _ =>
                match rest with
                | d :: rest' =>
                    if Ascii.eqb d c_apos then Hole n true :: tokenize_fuel k rest'
                    else Hole n false :: tokenize_fuel k rest
                | [] => [Hole n false]
                end
            end
          else Lit c :: tokenize_fuel k r
      end
  end.
Definition tokenize (s : bytes) : list tok := tokenize_fuel (S (length s)) s.

(* substitution: a hole stands for the COMPLETE rendering of the argument bound to its name,
   nothing if that argument is nil; no binding = panic.  Argument text only ever enters here,
   so it is never read as template syntax. *)
Definition piece (args : list (bytes * aview)) (t : tok) : res bytes :=
  match t with
  | Lit c => Ok [c]
  | Hole n _ =>
      match lookup n args with
      | None => Panic
      | Some AVNil => Ok []
      | Some (AV isnil out) => if isnil then Ok [] else out
      end
  end.
Fixpoint subst (args : list (bytes * aview)) (ts : list tok) : res bytes :=
  match ts with
  | [] => Ok []
  | t :: r => emitr (piece args t) (subst args r)
  end.

(* ---- the format language of Sprintf ---- *)
Inductive stok :=
| KLit (c : ascii)
| KV                      (* %v *)
| KT                      (* %T *)
| KPct                    (* %% *)
| KBad (c : option ascii). (* '%' followed by anything else (None = end of text) *)

Definition suntok1 (t : stok) : bytes :=
  match t with
  | KLit c => [c]
  | KV => [c_pct; c_v]
  | KT => [c_pct; c_T]
  | KPct => [c_pct; c_pct]
  | KBad (Some d) => [c_pct; d]
  | KBad None => [c_pct]
  end.
Definition suntok (ts : list stok) : bytes := concat (map suntok1 ts).

Fixpoint swf (ts : list stok) : bool :=
  match ts with
  | [] => true
  | t :: r =>
      (match t with
       | KLit c => negb (Ascii.eqb c c_pct)
       | KBad (Some d) => negb (Ascii.eqb d c_v) && negb (Ascii.eqb d c_T) && negb (Ascii.eqb d c_pct)
       | KBad None => is_nil r
       | _ => true
       end) && swf r
  end.

Fixpoint stokenize (s : bytes) : list stok :=
  match s with
  | [] => []
  | c :: r =>
      if Ascii.eqb c c_pct then
        match r with
        | [] => [KBad None]
        | d :: r' =>
            (if Ascii.eqb d c_v then KV else if Ascii.eqb d c_T then KT
             else if Ascii.eqb d c_pct then KPct else KBad (Some d)) :: stokenize r'
        end
      else KLit c :: stokenize r
  end.

(* %v = the argument's value literal, %T = its identifier/type, a nested snippet = itself;
   the arguments are consumed left to right; no argument left, or any other verb = panic *)
Fixpoint ssubst (ts : list stok) (args : list sview) : res bytes :=
  match ts with
  | [] => Ok []
  | t :: r =>
      match t with
      | KLit c => emit [c] (ssubst r args)
      | KPct => emit [c_pct] (ssubst r args)
      | KV => match args with
              | [] => Panic
              | a :: args' => emitr (match a with SVSnip o => o | SVRaw v _ => v end) (ssubst r args')
              end
      | KT => match args with
              | [] => Panic
              | a :: args' => emitr (match a with SVSnip o => o | SVRaw _ t => t end) (ssubst r args')
              end
      | KBad _ => Panic
      end
  end.

(* ---- Comment, GoDirective, Snippets ---- *)
Fixpoint join_nl (ls : list bytes) : bytes :=
  match ls with
  | [] => []
  | l :: r => match r with [] => l | _ => l ++ c_nl :: join_nl r end
  end.

Definition comment_spec (v : bytes) : bytes :=
  if is_nil v then [] else join_nl (map (app slashes) (split_nl v)).

Definition nonempty (a : bytes) : bool := negb (is_nil a).
Definition directive_spec (d : bytes) (args : list bytes) : bytes :=
  if is_nil d then [] else bs "//go:" ++ d ++ concat (map (app (bs " ")) (filter nonempty args)).

Definition cat_res (l : list (res bytes)) : res bytes := fold_right emitr (Ok []) l.

(* ---- the whole vocabulary ----
   [vw] = how a format text is read ([fun f => f] in the property; the code reads it through
   text/scanner with a byte order mark of its own in front, [sc_view]); [nolit] = what a %v argument without a value literal renders to
   (unspecified in the property = [OutOfFuel], which no observation equals; the code panics). *)
Section Spec.
  Variable vw : bytes -> bytes.
  Variable nolit : res bytes.

  Fixpoint spec_frag (s : snip) : res bytes :=
    match s with
    | SNil => Panic
    | SBlock b => Ok b
    | ST f args =>
        subst (map (fun p => (fst p, view_of spec_frag (snd p))) args) (tokenize (vw (trim_nl f)))
    | SSprintf f args => ssubst (stokenize (vw f)) (map (sview_of nolit spec_frag) args)
    | SVal _ _ => Panic
    | SComment v => Ok (comment_spec v)
    | SDirective d args => Ok (directive_spec d args)
    | SSnippets l => cat_res (map (fun c => if isnil_of c then Ok [] else spec_frag c) l)
    | SFragments x => if isnil_of x then Ok [] else spec_frag x
    | SOpaque _ out => o2r out
    end.

  Definition spec_render (s : snip) : res bytes :=
    if isnil_of s then Ok [] else spec_frag s.
End Spec.

Definition same (f : bytes) : bytes := f.

(* ---- the domain: formats are well-formed UTF-8; every %v argument has a literal ---- *)
Fixpoint utf8_go (s : bytes) (skip : nat) : bool :=
  match s with
  | [] => true
  | b :: r =>
      match skip with
      | S k => utf8_go r k
      | O => match rune_len s with
             | O => false
             | S k => utf8_go r k
             end
      end
  end.
Definition utf8b (s : bytes) : bool := utf8_go s 0.

(* the same thing, stated as in the Unicode standard (table 3-7) *)
Inductive utf8 : bytes -> Prop :=
| U0 : utf8 []
| U1 b0 r : N.ltb (nb b0) 128 = true -> utf8 r -> utf8 (b0 :: r)
| U2 b0 b1 r : wf2 b0 b1 = true -> utf8 r -> utf8 (b0 :: b1 :: r)
| U3 b0 b1 b2 r : wf3 b0 b1 b2 = true -> utf8 r -> utf8 (b0 :: b1 :: b2 :: r)
| U4 b0 b1 b2 b3 r : wf4 b0 b1 b2 b3 = true -> utf8 r -> utf8 (b0 :: b1 :: b2 :: b3 :: r).

(* every format in [s] is well-formed UTF-8 (the property's domain) *)
Fixpoint fmts_utf8 (s : snip) : bool :=
  match s with
  | ST f args => utf8b (trim_nl f) && forallb (fun p => fmts_utf8 (snd p)) args
  | SSprintf f args => utf8b f && forallb fmts_utf8 args
  | SSnippets l => forallb fmts_utf8 l
  | SFragments x => fmts_utf8 x
  | _ => true
  end.

(* input feature (until fixes/C09-5-leading-bom.diff the known-finding class leading_bom): some format starts
   (after the trimmed newlines) with U+FEFF.  No theorem about the repaired code mentions it; the correspondence
   check keeps comparing it with the harness's own classifier, and C09_template_refuted_before_fix uses a member. *)
Fixpoint cls_bom (s : snip) : bool :=
  match s with
  | ST f args => has_bom (trim_nl f) || existsb (fun p => cls_bom (snd p)) args
  | SSprintf f args => has_bom f || existsb cls_bom args
  | SSnippets l => existsb cls_bom l
  | SFragments x => cls_bom x
  | _ => false
  end.

(* known-finding class value_literal_unavailable: some non-snippet Sprintf argument has no value literal *)
Fixpoint cls_nolit (s : snip) : bool :=
  match s with
  | SVal None _ => true
  | ST _ args => existsb (fun p => cls_nolit (snd p)) args
  | SSprintf _ args => existsb cls_nolit args
  | SSnippets l => existsb cls_nolit l
  | SFragments x => cls_nolit x
  | _ => false
  end.
