(* Model of gengo.Execute (pkg/gengo/context.go) and genfile.WriteToFile (pkg/gengo/genfile.go),
   shared by the pipeline properties (C07, C05, C02; C01, C04, C06, C08 build on it).
   Definitions only.

   What is followed line by line (context.go unless said otherwise):
     Execute            95-129   load previous sum when All (96-106), package loop in sorted order,
                                 non-direct packages skipped unless All (108-116), sum saved last (118-126)
     pkgChanged        131-142   Force / no previous sums / empty current hash (directory could not be hashed: never
                                 cached, repair of #27) / recorded <> current
     pkgExecute        143-242   generatedFiles by prefix base+"." (174-179), per generator a fresh
                                 instance/buffer (191-204), doGenerate (208), deferred callbacks (212-217: an INDEX
                                 loop over c.defers, so callbacks registered by a callback run too),
                                 IsZero with the ignore flag (71-73, 218-220), write of every retained
                                 genfile in sync.Map order striking it from the removal set (223-231),
                                 removal of the rest (233-239)
     doGenerate        268-307   sorted type names; Named -> GenerateType, Alias -> GenerateAliasType only
                                 for an AliasGenerator; anything else nothing
     doGenerateNamedType / doGenerateAliasType  309-345   ErrSkip and ErrIgnore swallowed; the alias
                                 variant does not set the ignore flag (defect #26) unless [e_fixed]
     WriteToFile  genfile.go 60-144   empty body: nothing; assemble; parse+format BEFORE the destination
                                 is opened with O_TRUNC; then the formatted bytes are written

   External components are fields of [env]:
     e_fmt        go/parser + ast.SortImports + gofumpt + go/format on the assembled source (None = does not parse)
     e_sum_load   sumfile.Load's parser        e_sum_bytes  sumfile.File.Bytes
     e_enabled    IsGeneratorEnabled on the merged tags (C06 plugs its model in here)
     e_order      the iteration order of the sync.Map of retained genfiles (any permutation)
     e_rm_rank    the iteration order of the Go map generatedFiles when the stale files are removed (233-239): the
                  remaining names are taken in ascending rank (any rank function = any order; a permutation by construction)
     e_fixed      false = the code before the repair of #26, true = after *)
Require Import Gengo.Base.Bytes.

(* ---------- bytes helpers ---------- *)

Fixpoint prefixb (p s : bytes) : bool :=
  match p, s with
  | [], _ => true
  | a :: p', b :: s' => Ascii.eqb a b && prefixb p' s'
  | _ :: _, [] => false
  end.

(* Go's string order: lexicographic by byte *)
Fixpoint bytes_leb (a b : bytes) : bool :=
  match a, b with
  | [], _ => true
  | _ :: _, [] => false
  | x :: a', y :: b' =>
      if N.ltb (N_of_ascii x) (N_of_ascii y) then true
      else if N.ltb (N_of_ascii y) (N_of_ascii x) then false
      else bytes_leb a' b'
  end.

Fixpoint insert_by {A} (key : A -> bytes) (x : A) (l : list A) : list A :=
  match l with
  | [] => [x]
  | y :: r => if bytes_leb (key x) (key y) then x :: y :: r else y :: insert_by key x r
  end.
Definition sort_by {A} (key : A -> bytes) (l : list A) : list A :=
  fold_right (insert_by key) [] l.

Definition mem_bytes (x : bytes) (l : list bytes) : bool := existsb (bytes_eqb x) l.

(* ---------- file system ---------- *)

Definition path := (bytes * bytes)%type.          (* (directory, base name) *)
Definition path_eqb (a b : path) : bool := bytes_eqb (fst a) (fst b) && bytes_eqb (snd a) (snd b).

Definition fs := list (path * bytes).

Fixpoint fs_lookup (p : path) (s : fs) : option bytes :=
  match s with
  | [] => None
  | (q, b) :: r => if path_eqb q p then Some b else fs_lookup p r
  end.
Definition fs_del (p : path) (s : fs) : fs := filter (fun e => negb (path_eqb (fst e) p)) s.
Definition fs_set (p : path) (b : bytes) (s : fs) : fs := (p, b) :: fs_del p s.

Inductive effect :=
| EWrite (p : path) (b : bytes)       (* whole-file replacement (not used by Execute today) *)
| ERemove (p : path)                  (* os.RemoveAll *)
| ETruncate (p : path)                (* os.OpenFile(O_RDWR|O_CREATE|O_TRUNC) *)
| EAppend (p : path) (b : bytes).     (* write(2) on the descriptor just opened *)

Definition effect_path (e : effect) : path :=
  match e with EWrite p _ | ERemove p | ETruncate p | EAppend p _ => p end.

Definition apply_effect (e : effect) (s : fs) : fs :=
  match e with
  | EWrite p b => fs_set p b s
  | ERemove p => fs_del p s
  | ETruncate p => fs_set p [] s
  | EAppend p b => fs_set p (match fs_lookup p s with Some old => old ++ b | None => b end) s
  end.
Definition apply_all (effs : list effect) (s : fs) : fs := fold_left (fun s e => apply_effect e s) effs s.

(* ---------- the loaded universe, as data ---------- *)

Definition tags := list (bytes * list bytes).

Inductive tykind := KNamed | KAlias | KOther.   (* *types.Named | *types.Alias | anything else in the table *)
Record tyinfo := { ty_name : bytes; ty_kind : tykind; ty_tags : tags }.

Record pkginfo := {
  pk_path : bytes;            (* import path *)
  pk_dir : bytes;             (* SourceDir() *)
  pk_name : bytes;            (* package name *)
  pk_files : list bytes;      (* base names of p.Files(): the compiled Go files at load time *)
  pk_tags : tags;             (* package-doc tags (used by e_enabled only) *)
  pk_types : list tyinfo;     (* p.Types(), a Go map: any order *)
  pk_hash : bytes             (* dirhash of the directory at load time *)
}.

Record world := {
  w_modroot : bytes;          (* Module().Dir of the (single) root module *)
  w_pkgs : list pkginfo;      (* keys of Universe.localPkgPaths, a Go map: any order *)
  w_direct : list bytes       (* import paths whose localPkgPaths value is true: matched by an entrypoint pattern *)
}.

Definition is_direct (w : world) (p : pkginfo) : bool := mem_bytes (pk_path p) (w_direct w).

Record args := { a_all : bool; a_force : bool; a_base : bytes (* OutputFileBaseName *) }.

(* ---------- generators as abstract state machines ---------- *)

Inductive gresult := RNil | RSkip | RIgnore | RErr | RDie.
(* RSkip / RIgnore: an error for which errors.Is(err, ErrSkip / ErrIgnore) holds (wrapped or not);
   RErr: any other non-nil error; RDie: the call never returns to Execute (os.Exit, fatal signal, panic, or it loops). *)

Record step_out := {
  so_body : bytes;            (* what the call rendered into the generator's buffer *)
  so_res : gresult;
  so_defers : list nat        (* callbacks registered with Context.Defer during the call, by id *)
}.

Record generator := {
  g_name : bytes;
  g_alias : bool;                                            (* implements AliasGenerator *)
  g_state : Type;
  g_new : pkginfo -> g_state;                                (* GeneratorNewer.New(ctx) / reflect.New of the prototype *)
  g_type : g_state -> pkginfo -> tyinfo -> g_state * step_out;   (* GenerateType / GenerateAliasType *)
  g_defer : g_state -> pkginfo -> nat -> g_state * step_out;     (* a deferred callback; what it registers with Defer is
                                                                    appended to the queue (so_defers) and runs too *)
  g_fuel : nat               (* a bound on the number of deferred callbacks run for one package.  The Go loop
                                `for i := 0; i < len(c.defers); i++` need not terminate (a callback may always register
                                another one); a queue that outlives the bound is the run that never returns from
                                pkgExecute: [Died] (no further effect, Execute never reports). *)
}.

Inductive event :=
| EvCall (gen pkg ty : bytes) (body : bytes) (r : gresult)
| EvDefer (gen pkg : bytes) (id : nat) (body : bytes) (r : gresult).
Definition trace := list event.

Inductive err :=
| EGen (gen pkg : bytes)      (* "`gen` generate failed for pkg: ..." *)
| EDefer (gen pkg : bytes)    (* "`gen` defer generate failed for pkg: ..." *)
| EParse (file : path).       (* scanner.ErrorList: "<file>:line:col: ..." *)

Inductive outcome := Done | Failed (e : err) | Died.

Record env := {
  e_fmt : bytes -> option bytes;
  e_sum_load : bytes -> list (bytes * bytes);
  e_sum_bytes : list (bytes * bytes) -> bytes;
  e_enabled : bytes -> pkginfo -> tyinfo -> bool;
  e_order : pkginfo -> list (bytes * bytes) -> list (bytes * bytes);
  e_rm_rank : pkginfo -> bytes -> nat;
  e_fixed : bool
}.

(* `for _, fullFilename := range generatedFiles` ranges over a Go map: the names in ascending rank (stable) *)
Fixpoint insert_rank (rk : bytes -> nat) (x : bytes) (l : list bytes) : list bytes :=
  match l with
  | [] => [x]
  | y :: r => if Nat.leb (rk x) (rk y) then x :: y :: r else y :: insert_rank rk x r
  end.
Definition rank_sort (rk : bytes -> nat) (l : list bytes) : list bytes := fold_right (insert_rank rk) [] l.

(* ---------- names ---------- *)

Definition sum_name : bytes := bs "gengo.sum".
Definition sum_path (w : world) : path := (w_modroot w, sum_name).

Definition out_prefix (a : args) : bytes := a_base a ++ bs ".".
(* genfile.Filename: fmt.Sprintf("%s.%s.go", base, name) *)
Definition fname (a : args) (gen : bytes) : bytes := a_base a ++ bs "." ++ gen ++ bs ".go".
Definition gen_file (a : args) (p : pkginfo) (gen : bytes) : path := (pk_dir p, fname a gen).

(* genfile.go 70-81 with an empty import table (the harness' generators reference no other package;
   the import block is C01/C03's subject) *)
Definition assemble (pkgname gen body : bytes) : bytes :=
  bs "/*" ++ [ascii_of_N 10] ++ bs "Package " ++ pkgname ++ bs " GENERATED BY gengo:" ++ gen ++ bs " " ++ [ascii_of_N 10]
  ++ bs "DON'T EDIT THIS FILE" ++ [ascii_of_N 10] ++ bs "*/" ++ [ascii_of_N 10]
  ++ bs "package " ++ pkgname ++ [ascii_of_N 10] ++ body.

(* ---------- the sum ---------- *)

Fixpoint sum_get (m : list (bytes * bytes)) (k : bytes) : bytes :=   (* File.Sum: "" when absent *)
  match m with
  | [] => []
  | (k', v) :: r => if bytes_eqb k' k then v else sum_get r k
  end.

Definition current_sum (w : world) : list (bytes * bytes) :=
  map (fun p => (pk_path p, pk_hash p)) (w_pkgs w).

Section WithEnv.
Variable E : env.

(* Execute 96-106 *)
Definition load_prev (a : args) (w : world) (s : fs) : option (list (bytes * bytes)) :=
  if a_all a && existsb (is_direct w) (w_pkgs w) then
    match fs_lookup (sum_path w) s with
    | Some b => Some (e_sum_load E b)
    | None => None
    end
  else None.

(* pkgChanged 131-142:  current.Sum(pkgPath) == "" || previous.Sum(pkgPath) != current.Sum(pkgPath) *)
Definition pkg_changed (a : args) (w : world) (prev : option (list (bytes * bytes))) (p : pkginfo) : bool :=
  if a_force a then true else
  match prev with
  | None => true
  | Some d => is_nil (sum_get (current_sum w) (pk_path p))
              || negb (bytes_eqb (sum_get d (pk_path p)) (sum_get (current_sum w) (pk_path p)))
  end.

Definition selected (a : args) (w : world) (p : pkginfo) : bool := a_all a || is_direct w p.

(* ---------- one generator on one package: doGenerate + deferred callbacks ---------- *)

Record run_out (S : Type) := {
  ro_state : S;
  ro_body : bytes;
  ro_ignore : bool;
  ro_defers : list nat;
  ro_trace : trace;
  ro_out : outcome
}.
Arguments ro_state {S}. Arguments ro_body {S}. Arguments ro_ignore {S}.
Arguments ro_defers {S}. Arguments ro_trace {S}. Arguments ro_out {S}.

Definition should_call (g : generator) (p : pkginfo) (t : tyinfo) : bool :=
  match ty_kind t with
  | KNamed => e_enabled E (g_name g) p t
  | KAlias => e_enabled E (g_name g) p t && g_alias g
  | KOther => false
  end.

(* 317-322 set the flag; 337-340 do not (before the repair) *)
Definition sets_ignore (k : tykind) (r : gresult) : bool :=
  match r with
  | RIgnore => match k with KAlias => e_fixed E | _ => true end
  | _ => false
  end.

Fixpoint call_loop (g : generator) (p : pkginfo) (st : g_state g) (tys : list tyinfo) : run_out (g_state g) :=
  match tys with
  | [] => {| ro_state := st; ro_body := []; ro_ignore := false; ro_defers := []; ro_trace := []; ro_out := Done |}
  | t :: r =>
      if should_call g p t then
        let '(st', o) := g_type g st p t in
        let ev := EvCall (g_name g) (pk_path p) (ty_name t) (so_body o) (so_res o) in
        match so_res o with
        | RErr => {| ro_state := st'; ro_body := so_body o; ro_ignore := false; ro_defers := so_defers o;
                     ro_trace := [ev]; ro_out := Failed (EGen (g_name g) (pk_path p)) |}
        | RDie => {| ro_state := st'; ro_body := so_body o; ro_ignore := false; ro_defers := so_defers o;
                     ro_trace := [ev]; ro_out := Died |}
        | res =>
            let rest := call_loop g p st' r in
            {| ro_state := ro_state rest; ro_body := so_body o ++ ro_body rest;
               ro_ignore := sets_ignore (ty_kind t) res || ro_ignore rest;
               ro_defers := so_defers o ++ ro_defers rest;
               ro_trace := ev :: ro_trace rest; ro_out := ro_out rest |}
        end
      else call_loop g p st r
  end.

(* 212-217: `for i := 0; i < len(c.defers); i++`; every non-nil result of a callback is an error.
   [ids] is the part of c.defers not yet run; what a callback registers is appended to it. *)
Fixpoint defer_loop (fuel : nat) (g : generator) (p : pkginfo) (st : g_state g) (ids : list nat) : run_out (g_state g) :=
  match ids with
  | [] => {| ro_state := st; ro_body := []; ro_ignore := false; ro_defers := []; ro_trace := []; ro_out := Done |}
  | i :: r =>
      match fuel with
      | O => {| ro_state := st; ro_body := []; ro_ignore := false; ro_defers := []; ro_trace := []; ro_out := Died |}
      | S fuel' =>
          let '(st', o) := g_defer g st p i in
          let ev := EvDefer (g_name g) (pk_path p) i (so_body o) (so_res o) in
          match so_res o with
          | RNil =>
              let rest := defer_loop fuel' g p st' (r ++ so_defers o) in
              {| ro_state := ro_state rest; ro_body := so_body o ++ ro_body rest; ro_ignore := false;
                 ro_defers := []; ro_trace := ev :: ro_trace rest; ro_out := ro_out rest |}
          | RDie => {| ro_state := st'; ro_body := so_body o; ro_ignore := false; ro_defers := [];
                       ro_trace := [ev]; ro_out := Died |}
          | _ => {| ro_state := st'; ro_body := so_body o; ro_ignore := false; ro_defers := [];
                    ro_trace := [ev]; ro_out := Failed (EDefer (g_name g) (pk_path p)) |}
          end
      end
  end.

Record gen_out := { go_body : bytes; go_ignore : bool; go_trace : trace; go_out : outcome }.

(* 191-220 for one generator: fresh instance, fresh buffer *)
Definition gen_run (g : generator) (p : pkginfo) : gen_out :=
  let c := call_loop g p (g_new g p) (sort_by ty_name (pk_types p)) in
  match ro_out c with
  | Done =>
      let d := defer_loop (g_fuel g) g p (ro_state c) (ro_defers c) in
      {| go_body := ro_body c ++ ro_body d; go_ignore := ro_ignore c;
         go_trace := ro_trace c ++ ro_trace d; go_out := ro_out d |}
  | bad => {| go_body := ro_body c; go_ignore := ro_ignore c; go_trace := ro_trace c; go_out := bad |}
  end.

(* 71-73 *)
Definition is_zero (o : gen_out) : bool := is_nil (go_body o) && negb (go_ignore o).

(* 191-221: all generators of a package, before any write *)
Fixpoint gen_phase (gens : list generator) (p : pkginfo) : list (bytes * bytes) * trace * outcome :=
  match gens with
  | [] => ([], [], Done)
  | g :: r =>
      let o := gen_run g p in
      match go_out o with
      | Done =>
          let '(gfs, tr, out) := gen_phase r p in
          ((if is_zero o then gfs else (g_name g, go_body o) :: gfs), go_trace o ++ tr, out)
      | bad => ([], go_trace o, bad)
      end
  end.

(* ---------- writing ---------- *)

Definition strike (f : bytes) (l : list bytes) : list bytes := filter (fun x => negb (bytes_eqb x f)) l.

Definition write_effects (f : path) (out : bytes) : list effect := [ETruncate f; EAppend f out].

(* 223-231 over WriteToFile; returns the effects, the names rem in generatedFiles, and the error if any *)
Fixpoint write_loop (a : args) (p : pkginfo) (gfs : list (bytes * bytes)) (rem : list bytes)
  : list effect * list bytes * option err :=
  match gfs with
  | [] => ([], rem, None)
  | (n, body) :: r =>
      if is_nil body then write_loop a p r (strike (fname a n) rem)      (* "nothing generated" *)
      else match e_fmt E (assemble (pk_name p) n body) with
           | None => ([], rem, Some (EParse (gen_file a p n)))
           | Some out =>
               let '(effs, rest', e) := write_loop a p r (strike (fname a n) rem) in
               (write_effects (gen_file a p n) out ++ effs, rest', e)
           end
  end.

(* 174-179 *)
Definition generated_files (a : args) (p : pkginfo) : list bytes := filter (prefixb (out_prefix a)) (pk_files p).

(* 233-239: the order in which what is left of generatedFiles is removed *)
Definition removal_order (p : pkginfo) (rem : list bytes) : list bytes := rank_sort (e_rm_rank E p) rem.

(* pkgExecute for a package that is not cached *)
Definition pkg_effects (a : args) (gens : list generator) (p : pkginfo) : list effect * trace * outcome :=
  let '(gfs, tr, out) := gen_phase gens p in
  match out with
  | Done =>
      let '(effs, rem, e) := write_loop a p (e_order E p gfs) (generated_files a p) in
      match e with
      | Some x => (effs, tr, Failed x)
      | None => (effs ++ map (fun f => ERemove (pk_dir p, f)) (removal_order p rem), tr, Done)
      end
  | bad => ([], tr, bad)
  end.

(* pkgExecute 143-242 *)
Definition pkg_execute (a : args) (w : world) (gens : list generator) (prev : option (list (bytes * bytes))) (p : pkginfo)
  : list effect * trace * outcome :=
  if pkg_changed a w prev p then pkg_effects a gens p else ([], [], Done).

(* Execute 108-116 *)
Fixpoint run_pkgs (a : args) (w : world) (gens : list generator) (prev : option (list (bytes * bytes)))
  (ps : list pkginfo) : list effect * trace * outcome :=
  match ps with
  | [] => ([], [], Done)
  | p :: r =>
      if selected a w p then
        let '(e1, t1, o1) := pkg_execute a w gens prev p in
        match o1 with
        | Done => let '(e2, t2, o2) := run_pkgs a w gens prev r in (e1 ++ e2, t1 ++ t2, o2)
        | bad => (e1, t1, bad)
        end
      else run_pkgs a w gens prev r
  end.

(* Execute 118-126 with sumfile.Save: open with O_TRUNC, then one write *)
Definition save_effects (w : world) : list effect :=
  [ETruncate (sum_path w); EAppend (sum_path w) (e_sum_bytes E (current_sum w))].

Definition sorted_pkgs (w : world) : list pkginfo := sort_by pk_path (w_pkgs w).

(* everything before the final save *)
Definition run_all (a : args) (w : world) (gens : list generator) (s : fs) : list effect * trace * outcome :=
  run_pkgs a w gens (load_prev a w s) (sorted_pkgs w).

Definition effects (a : args) (w : world) (gens : list generator) (s : fs) : list effect :=
  let '(effs, _, out) := run_all a w gens s in
  match out with
  | Done => if a_all a then effs ++ save_effects w else effs
  | _ => effs
  end.
Definition exec_trace (a : args) (w : world) (gens : list generator) (s : fs) : trace :=
  snd (fst (run_all a w gens s)).
Definition exec_outcome (a : args) (w : world) (gens : list generator) (s : fs) : outcome :=
  snd (run_all a w gens s).

(* ---------- the same, threading the file system (the direct form) ---------- *)

Definition write_file_fs (f : path) (out : bytes) (s : fs) : fs := fs_set f out (fs_set f [] s).

Fixpoint write_loop_fs (a : args) (p : pkginfo) (gfs : list (bytes * bytes)) (rem : list bytes) (s : fs)
  : fs * list bytes * option err :=
  match gfs with
  | [] => (s, rem, None)
  | (n, body) :: r =>
      if is_nil body then write_loop_fs a p r (strike (fname a n) rem) s
      else match e_fmt E (assemble (pk_name p) n body) with
           | None => (s, rem, Some (EParse (gen_file a p n)))
           | Some out => write_loop_fs a p r (strike (fname a n) rem) (write_file_fs (gen_file a p n) out s)
           end
  end.

Definition remove_all_fs (dir : bytes) (names : list bytes) (s : fs) : fs :=
  fold_left (fun s f => fs_del (dir, f) s) names s.

Definition pkg_execute_fs (a : args) (w : world) (gens : list generator) (prev : option (list (bytes * bytes)))
  (p : pkginfo) (s : fs) : fs * trace * outcome :=
  if pkg_changed a w prev p then
    let '(gfs, tr, out) := gen_phase gens p in
    match out with
    | Done =>
        let '(s1, rem, e) := write_loop_fs a p (e_order E p gfs) (generated_files a p) s in
        match e with
        | Some x => (s1, tr, Failed x)
        | None => (remove_all_fs (pk_dir p) (removal_order p rem) s1, tr, Done)
        end
    | bad => (s, tr, bad)
    end
  else (s, [], Done).

Fixpoint run_pkgs_fs (a : args) (w : world) (gens : list generator) (prev : option (list (bytes * bytes)))
  (ps : list pkginfo) (s : fs) : fs * trace * outcome :=
  match ps with
  | [] => (s, [], Done)
  | p :: r =>
      if selected a w p then
        let '(s1, t1, o1) := pkg_execute_fs a w gens prev p s in
        match o1 with
        | Done => let '(s2, t2, o2) := run_pkgs_fs a w gens prev r s1 in (s2, t1 ++ t2, o2)
        | bad => (s1, t1, bad)
        end
      else run_pkgs_fs a w gens prev r s
  end.

Definition exec (a : args) (w : world) (gens : list generator) (s : fs) : fs * trace * outcome :=
  let '(s1, tr, out) := run_pkgs_fs a w gens (load_prev a w s) (sorted_pkgs w) s in
  match out with
  | Done =>
      if a_all a then
        (fs_set (sum_path w) (e_sum_bytes E (current_sum w)) (fs_set (sum_path w) [] s1), tr, Done)
      else (s1, tr, Done)
  | bad => (s1, tr, bad)
  end.

Definition exec_fs (a : args) (w : world) (gens : list generator) (s : fs) : fs := fst (fst (exec a w gens s)).

End WithEnv.

Arguments ro_state {S}. Arguments ro_body {S}. Arguments ro_ignore {S}.
Arguments ro_defers {S}. Arguments ro_trace {S}. Arguments ro_out {S}.

(* ---------- a byte-level sumfile (Load: bytes.Lines + bytes.Fields on ASCII white space; Bytes: sorted keys),
   used to instantiate [env] in case files.  The C08 check owns the detailed sumfile model. ---------- *)

Definition is_space (c : ascii) : bool :=
  let n := N_of_ascii c in
  N.eqb n 32 || N.eqb n 9 || N.eqb n 10 || N.eqb n 11 || N.eqb n 12 || N.eqb n 13.

(* fields of one line; [cur] is the field being read, reversed *)
Fixpoint fields_from (cur : bytes) (l : bytes) : list bytes :=
  match l with
  | [] => if is_nil cur then [] else [rev cur]
  | c :: r =>
      if is_space c then (if is_nil cur then fields_from [] r else rev cur :: fields_from [] r)
      else fields_from (c :: cur) r
  end.

Fixpoint lines_from (cur : bytes) (l : bytes) : list bytes :=
  match l with
  | [] => if is_nil cur then [] else [rev cur]
  | c :: r => if N.eqb (N_of_ascii c) 10 then rev cur :: lines_from [] r else lines_from (c :: cur) r
  end.

(* later lines overwrite earlier ones (map assignment): the newest entry is put in front *)
Definition sumfile_load (data : bytes) : list (bytes * bytes) :=
  fold_left (fun m line => match fields_from [] line with
                           | k :: v :: _ => (k, v) :: m
                           | _ => m
                           end) (lines_from [] data) [].

Fixpoint dedup_keys (seen : list bytes) (m : list (bytes * bytes)) : list (bytes * bytes) :=
  match m with
  | [] => []
  | (k, v) :: r => if mem_bytes k seen then dedup_keys seen r else (k, v) :: dedup_keys (k :: seen) r
  end.

Definition sumfile_bytes (m : list (bytes * bytes)) : bytes :=
  concat (map (fun kv => fst kv ++ bs " " ++ snd kv ++ [ascii_of_N 10]) (sort_by fst (dedup_keys [] m))).
