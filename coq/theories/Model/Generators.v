(* Adapters between the separately written models of the GENERATOR side.  Definitions only; the agreement proofs are
   Proofs/Generators.v (A: the copy-field helper), Proofs/GeneratorsPipe.v (B: the real generators as instances of the
   pipeline's abstract generator).

   A. devpkg/deepcopygen/helper/copy_fields.go is modelled twice:
        Model/DeepCopy.v          (C17)  field_stmt / fields_copy over [fty] and a type graph [pkg], + a heap semantics
        Model/GenPartialStruct.v  (C18)  field_stmt / gen_stmts_loop over [ty], with partialstruct's Skip and
                                         FieldContext callbacks, + a simple value model
      Below: the translation of C18's descriptions (method signatures, field types, the struct the generator emits,
      statements) into C17's, and the heap-level reading of DeepCopyAs / DeepCopyIntoAs that the transfer theorem uses.

   B. Model/Pipeline.v quantifies over arbitrary generator state machines; [deepcopy_gen], [runtimedoc_gen],
      [partialstruct_gen] are the three real generators as such machines, built from the generator models
      (Model/DeepCopy.v, Model/GenRuntimeDoc.v, Model/GenPartialStruct.v).  What they render is a printing of the IR
      the generator models produce; the printers are PARAMETERS (the text of the templates is checked per run by the
      harnesses of C17 / C16 / C18, not modelled). *)
Require Import Gengo.Base.Bytes.
Require Gengo.Model.DeepCopy Gengo.Model.GenPartialStruct Gengo.Model.TypeLit.

Module DC := Gengo.Model.DeepCopy.
Module PS := Gengo.Model.GenPartialStruct.
Module TL := Gengo.Model.TypeLit.

(* ================================================================================================================ *)
(* A. the copy-field helper                                                                                        *)
(* ================================================================================================================ *)

(* the text of a rendered type expression (C18 keeps the tree, C17 the text) *)
Fixpoint print_oty (o : PS.oty) : bytes :=
  match o with
  | PS.OIdent n => n
  | PS.OSel q n => q ++ bs "." ++ n
  | PS.OPtr e => bs "*" ++ print_oty e
  | PS.OSlice e => bs "[]" ++ print_oty e
  | PS.OArray n e => bs "[" ++ TL.dec n ++ bs "]" ++ print_oty e
  | PS.OMap k v => bs "map[" ++ print_oty k ++ bs "]" ++ print_oty v
  | PS.OText t => t
  end.

(* statements: C17's vocabulary is the common one.  The helper is parametric in the two method names
   (sfc.DeepCopyName / sfc.DeepCopyIntoName); partialstruct passes DeepCopyAs / DeepCopyIntoAs, deepcopy the defaults. *)
Definition stmt17 (s : PS.stmt) : DC.stmt :=
  match s with
  | PS.SAssign f => DC.SAssign f
  | PS.SCopySlice f t => DC.SCopySlice f (print_oty t)
  | PS.SCopyMap f t => DC.SCopyMap f (print_oty t)
  | PS.SCallInto f m => if bytes_eqb m PS.dc_into_name then DC.SCallInto f else DC.SOther
  | PS.SCallCopyVal f m => if bytes_eqb m PS.dc_name then DC.SCallCopyVal f else DC.SOther
  | PS.SCallCopyDeref f m => if bytes_eqb m PS.dc_name then DC.SCallCopyDeref f else DC.SOther
  | PS.SOther _ => DC.SOther
  end.

(* a method as the scan sees it.  C18 records whether the first parameter and the first result are pointers; C17 one
   flag, read for the result of a DeepCopy-shaped and for the parameter of a DeepCopyInto-shaped method.  The names are
   renamed with the helper's parameters (DeepCopyAs -> DeepCopy, DeepCopyIntoAs -> DeepCopyInto); any other name is
   mapped to one that is neither. *)
Definition msig17 (m : PS.msig) : DC.msig :=
  let '(name, np, nr, p0, r0) := m in
  if bytes_eqb name PS.dc_name then DC.mk_msig DC.n_copy (N.to_nat np) (N.to_nat nr) r0
  else if bytes_eqb name PS.dc_into_name then DC.mk_msig DC.n_into (N.to_nat np) (N.to_nat nr) p0
  else DC.mk_msig ("_"%char :: name) (N.to_nat np) (N.to_nat nr) false.

(* the switch of createFieldSnippet takes the *types.Named case: the field's type is a named type (error included) or an
   alias of one *)
Definition is_named_ty (t : PS.ty) : bool :=
  match PS.unalias t with PS.TNamed _ _ _ _ | PS.TError => true | _ => false end.

Section Adapter.
  Variable L : bytes -> bytes.
  Variable target : bytes.
  Variable c : PS.cfg.

  Definition text_of (t : PS.ty) : bytes := print_oty (fst (PS.type_lit L target c t)).

  (* element types: C17 models scalars only (basic types and defined scalars); the heap cells hold scalars *)
  Definition ety17 (t : PS.ty) : option DC.ety :=
    match t with
    | PS.TBasic n => Some (DC.EBasic n)
    | PS.TNamed pkg name PS.UOther _ =>
        Some (if bytes_eqb pkg target then DC.EBasic name else DC.EForeign (L pkg) name)
    | _ => None
    end.

  (* field types: the COMMON DOMAIN of the two models is where this is defined.  Outside it (pointer and array fields,
     slices and maps whose elements are not scalars) C17's model has no description at all; the Go switch looks at the
     top-level constructor only (Generators.outside_domain_stmt). *)
  Definition fty17 (t : PS.ty) : option DC.fty :=
    match t with
    | PS.TBasic n => Some (DC.FBasic n)
    | PS.TAny | PS.TIfaceLit _ => Some DC.FIface
    | PS.TError => Some DC.FError
    | PS.TNamed pkg name _ ms =>
        Some (if bytes_eqb pkg target then DC.FNamed name [] else DC.FForeign (map msig17 ms))
    | PS.TSlice e => option_map DC.FSlice (ety17 e)
    | PS.TMap k v => option_map (DC.FMap (text_of k)) (ety17 v)
    | PS.TPtr _ | PS.TArray _ _ => None
    | PS.TAlias _ _ _ => None      (* C17's model has no alias types *)
    end.

  (* C17 resolves a same-package named type through its type graph; C18 carries kind and methods in the field type.
     The graph agrees with a field type when it declares the named type with that kind and those methods. *)
  Definition kind_agrees (u : PS.ukind) (k : DC.dkind) : Prop :=
    match u, k with
    | PS.UStruct, DC.DStruct _ _ | PS.UMap, DC.DMap _ _ | PS.UIface, DC.DIface | PS.UOther, DC.DScalar => True
    | _, _ => False
    end.

  Definition agrees (G : DC.pkg) (t : PS.ty) : Prop :=
    match t with
    | PS.TNamed pkg name u ms =>
        bytes_eqb pkg target = true ->
        (exists d, DC.lookup G name = Some d /\ kind_agrees u (DC.d_kind d) /\ DC.d_hand d = map msig17 ms)
        (* go/types: a named interface type has no explicit methods (Named.NumMethods() = 0) *)
        /\ (u = PS.UIface -> ms = [])
    | _ => True
    end.

  (* ---- the struct partialstruct emits, in C17's terms ---- *)

  Definition replaced (repl : list (bytes * list bytes)) (f : PS.field) : bool :=
    match PS.lookup (PS.f_name f) repl with Some _ => true | None => false end.

  (* the replacement type of a replaced field: the first word of the replace value *)
  Definition repl_name (repl : list (bytes * list bytes)) (f : PS.field) : bytes :=
    match PS.lookup (PS.f_name f) repl with Some (t0 :: _) => t0 | _ => [] end.

  (* one retained field of the generated struct X.  partialstruct's FieldContext callback answers for replaced fields;
     the helper consults it only inside `case *types.Named` (error included).  There the field of X has the replacement
     type, a type of the target package that must provide DeepCopyIntoAs( *OriginFieldType). *)
  Definition field17 (repl : list (bytes * list bytes)) (f : PS.field) : option (bytes * DC.fty) :=
    if replaced repl f && is_named_ty (PS.f_ty f)
    then Some (PS.f_name f, DC.FNamed (repl_name repl f) [])
    else option_map (pair (PS.f_name f)) (fty17 (PS.f_ty f)).

  Fixpoint fields17 (repl : list (bytes * list bytes)) (fs : list PS.field) : option (list (bytes * DC.fty)) :=
    match fs with
    | [] => Some []
    | f :: r =>
        match field17 repl f, fields17 repl r with
        | Some x, Some xs => Some (x :: xs)
        | _, _ => None
        end
    end.

  (* what the graph must say about one retained field *)
  Definition agrees_field (G : DC.pkg) (repl : list (bytes * list bytes)) (f : PS.field) : Prop :=
    if replaced repl f && is_named_ty (PS.f_ty f)
    then exists d, DC.lookup G (repl_name repl f) = Some d /\
                   (DC.d_kind d = DC.DScalar \/ exists tp fs, DC.d_kind d = DC.DStruct tp fs) /\
                   snd (DC.scan (DC.d_hand d)) = true
    else agrees G (PS.f_ty f).

  (* the fields the copy loop visits: not omitted (Skip callback) and not the blank field (StructFieldsCopy.Frag skips `_`,
     repair adc955a; C17's model of the loop is handed the struct without it) *)
  Definition keep (omit : list bytes) (f : PS.field) : bool := negb (PS.omitted (PS.copy_skip omit) (PS.f_name f)).
End Adapter.

(* ---- DeepCopyAs / DeepCopyIntoAs at the level of C17's heap ---- *)

Definition zero_fields17 (fs : list (bytes * DC.value)) : list (bytes * DC.value) :=
  map (fun fx => (fst fx, DC.zero_like (snd fx))) fs.

(* func (in *X) DeepCopyAs() *Origin { if in == nil { return nil }; out := new(Origin); in.DeepCopyIntoAs(out); return out }
   (partialstruct.go:110-117, a fixed text): [as_body] is that statement list, executed by C17's [DC.run_ptr_copy] on a
   receiver that may be nil; [into_as] is in.DeepCopyIntoAs(out), the generated statements executed by C17's exec_body.
   [fin] are the fields of *in (X has exactly the retained fields).  The origin value is represented by its retained
   fields: the body assigns no other field (C18_copy: omitted fields stay zero) and a zero value holds no container.
   [rec c v o h] is (&v).DeepCopyIntoAs(&o) of the target-package type c (hand-written, or the replacement's). *)
Definition as_body : list DC.cstmt := [DC.CNilGuard; DC.CNew; DC.CCallInto; DC.CReturnOut].

Definition into_as (rec : bytes -> DC.value -> DC.value -> DC.heap -> res (DC.value * DC.heap))
    (G : DC.pkg) (ms : list DC.method) (g : PS.gtype) (vin vout : DC.value) (h : DC.heap) : res (DC.value * DC.heap) :=
  match vin, vout with
  | DC.VStruct fin, DC.VStruct fout =>
      let! (fout', h') := DC.exec_body rec G ms (PS.g_name g) fin (map stmt17 (PS.g_stmts g)) fout h in
      Ok (DC.VStruct fout', h')
  | _, _ => Panic
  end.

Definition deep_copy_as_heap (rec : bytes -> DC.value -> DC.value -> DC.heap -> res (DC.value * DC.heap))
    (G : DC.pkg) (ms : list DC.method) (g : PS.gtype) (inp : option (list (bytes * DC.value))) (h : DC.heap)
  : res (option DC.value * DC.heap) :=
  DC.run_ptr_copy (into_as rec G ms g) (option_map DC.VStruct inp) as_body DC.OUndeclared h.

(* ---- a type graph that agrees with a list of retained fields (used by the correspondence check of C18 and by the
   witnesses; the theorems quantify over every graph that agrees) ---- *)

Definition dkind_of (u : PS.ukind) : DC.dkind :=
  match u with
  | PS.UStruct => DC.DStruct [] []
  | PS.UMap => DC.DMap [] []
  | PS.UIface => DC.DIface
  | PS.UOther => DC.DScalar
  end.

Definition decls17 (target : bytes) (repl : list (bytes * list bytes)) (f : PS.field) : list DC.decl :=
  if replaced repl f && is_named_ty (PS.f_ty f)
  then [DC.mk_decl (repl_name repl f) (DC.DStruct [] []) false None []]
  else match PS.f_ty f with
       | PS.TNamed pkg name u ms =>
           if bytes_eqb pkg target then [DC.mk_decl name (dkind_of u) false None (map msig17 ms)] else []
       | _ => []
       end.

(* [x] / [cfs]: the generated struct itself and its fields *)
Definition graph17 (target : bytes) (repl : list (bytes * list bytes)) (x : bytes) (cfs : list (bytes * DC.fty))
    (kept : list PS.field) : DC.pkg :=
  DC.mk_pkg false (DC.mk_decl x (DC.DStruct [] cfs) false None [] :: flat_map (decls17 target repl) kept).

Definition stmt17_eqb (a b : DC.stmt) : bool :=
  match a, b with
  | DC.SAssign f, DC.SAssign g | DC.SCallInto f, DC.SCallInto g
  | DC.SCallCopyVal f, DC.SCallCopyVal g | DC.SCallCopyDeref f, DC.SCallCopyDeref g => bytes_eqb f g
  | DC.SCopySlice f t, DC.SCopySlice g u | DC.SCopyMap f t, DC.SCopyMap g u => bytes_eqb f g && bytes_eqb t u
  | DC.SStar, DC.SStar => true
  | _, _ => false
  end.

(* C17's model of the helper, run on the struct partialstruct emits for [ti]; None = outside the common domain *)
Definition helper17_body (L : bytes -> bytes) (target : bytes) (c : PS.cfg) (ti : PS.tinput) (x : bytes)
  : option (res (list DC.stmt)) :=
  match PS.ti_under ti with
  | None => None
  | Some fs =>
      let repl := PS.replace_map (PS.ti_replace ti) [] in
      let kept := filter (keep (PS.ti_omit ti)) fs in
      match fields17 L target c repl kept with
      | None => None
      | Some cfs =>
          Some (let! (body, _) := DC.fields_copy DC.all_fixed (graph17 target repl x cfs kept) [] cfs in Ok body)
      end
  end.

(* ================================================================================================================ *)
(* B. the real generators as instances of Pipeline.generator                                                       *)
(* ================================================================================================================ *)
Require Gengo.Model.Pipeline Gengo.Model.GenRuntimeDoc Gengo.Model.Determinism.
Module PL := Gengo.Model.Pipeline.
Module RD := Gengo.Model.GenRuntimeDoc.
Module Det := Gengo.Model.Determinism.

Definition no_out (r : PL.gresult) : PL.step_out := {| PL.so_body := []; PL.so_res := r; PL.so_defers := [] |}.

(* ---- deepcopy (devpkg/deepcopygen/deepcopy.go) ---- *)

(* GenerateType for the names in turn, from a given state (what doGenerate makes of the generator once the dispatch
   has decided which types are called): the first call that does not return ends it *)
Fixpoint dc_calls (fuel : nat) (fx : DC.fixes) (G : DC.pkg) (vis : list DC.method) (names : list bytes) (st : DC.gstate)
  : res DC.gstate :=
  match names with
  | [] => Ok st
  | n :: r => let! (_, st') := DC.gen_type fuel fx G vis false (n, []) st in dc_calls fuel fx G vis r st'
  end.

Section DeepCopyGen.
  Variable fx : DC.fixes.
  (* what go/types shows the generator of a loaded package: the declarations of the SOURCE files ... *)
  Variable graph : PL.pkginfo -> DC.pkg.
  (* ... and the methods declared by the file an earlier run left in the directory (part of the same load) *)
  Variable vis : PL.pkginfo -> list DC.method.
  (* the text of the templates: a parameter (checked per run by C17's harness, which matches the printed AST of every
     generated method against them) *)
  Variable print_method : DC.method -> bytes.
  (* bound on the nesting of the on-demand chain (C17_generator_total: a sufficient one exists for every graph) *)
  Variable fuel : nat.

  Definition print_methods (ms : list DC.method) : bytes := concat (map print_method ms).

  Definition dc_res (r : DC.gres) : PL.gresult := match r with DC.GNil => PL.RNil | DC.GSkip => PL.RSkip end.

  (* one GenerateType call; the state kept between calls is g.processed.  A nil dereference or an unbounded
     recursion is a call that never returns to Execute. *)
  Definition dc_type (proc : list DC.key) (p : PL.pkginfo) (t : PL.tyinfo) : list DC.key * PL.step_out :=
    match DC.gen_type fuel fx (graph p) (vis p) false (PL.ty_name t, []) (DC.mk_gstate proc []) with
    | Ok (r, st) =>
        (DC.gs_processed st,
         {| PL.so_body := print_methods (DC.gs_out st); PL.so_res := dc_res r; PL.so_defers := [] |})
    | _ => (proc, no_out PL.RDie)
    end.

  Definition deepcopy_gen : PL.generator := {|
    PL.g_name := bs "deepcopy";
    PL.g_alias := false;
    PL.g_state := list DC.key;
    PL.g_new := fun _ => [];                        (* reflect.New of the prototype: processed == nil *)
    PL.g_type := dc_type;
    PL.g_defer := fun st _ _ => (st, no_out PL.RNil);   (* the generator never calls Context.Defer: its `defers` are a
                                                           local slice, run inside GenerateType *)
    PL.g_fuel := 0
  |}.
End DeepCopyGen.

(* the same generator for C04's model (Model/Determinism.v): a function of the loaded package and of the calls.
   [dgraph] / [dvis] are the two parts of the load as above; [imports_of]: the import table of the file (a function of
   what was rendered; import tracking is C03's subject) *)
Section DeepCopyDet.
  Variable dgraph : Det.pkg -> DC.pkg.
  Variable dvis : Det.pkg -> list DC.method.
  Variable print_method : DC.method -> bytes.
  Variable imports_of : list DC.method -> Det.alist bytes.
  Variable fuel : nat.

  Definition is_ctype (c : Det.call) : bool := match Det.c_kind c with Det.CType => true | Det.CAlias => false end.

  Definition deepcopy_det_gen : Det.gen :=
    Det.mk_gen (bs "deepcopy") false
      (fun p _ cs =>
         match DC.gen_deepcopy fuel DC.all_fixed (dgraph p) (map Det.c_name (filter is_ctype cs)) (dvis p) with
         | Ok ms => Det.mk_genout false false (print_methods print_method ms) (imports_of ms)
         | _ => Det.mk_genout true false [] []           (* the process dies: the run fails *)
         end).
End DeepCopyDet.

(* ---- partialstruct (devpkg/partialstruct/partialstruct.go) ---- *)

Section PartialStructGen.
  Variable cfg : PS.cfg.
  Variable tracker : PL.pkginfo -> bytes -> bytes.       (* the import tracker of the package's file (C18's L) *)
  Variable tin : PL.pkginfo -> PL.tyinfo -> PS.tinput.   (* what go/types and the doc tags show of one declaration *)
  Variable print_gtype : PS.gtype -> bytes.              (* the text of the template: a parameter (C18's harness
                                                            abstracts the generated file back to this IR) *)

  Definition print_gtypes (ts : list PS.gtype) : bytes := concat (map print_gtype ts).

  (* the generator has no state.  TGeneric (a replace value with type arguments) is outside C18's model: mapped to
     "does not return", and excluded by hypothesis wherever it would matter. *)
  Definition ps_type (st : unit) (p : PL.pkginfo) (t : PL.tyinfo) : unit * PL.step_out :=
    (tt, match PS.generate_type (tracker p) (PL.pk_path p) cfg (tin p t) with
         | PS.TSkip => no_out PL.RNil                  (* not enabled on its own tags: return nil *)
         | PS.TErr _ => no_out PL.RErr                 (* fmt.Errorf(...), before anything is rendered *)
         | PS.TPanic | PS.TGeneric => no_out PL.RDie
         | PS.TGen g _ => {| PL.so_body := print_gtype g; PL.so_res := PL.RNil; PL.so_defers := [] |}
         end).

  Definition partialstruct_gen : PL.generator := {|
    PL.g_name := bs "partialstruct";
    PL.g_alias := false;
    PL.g_state := unit;
    PL.g_new := fun _ => tt;
    PL.g_type := ps_type;
    PL.g_defer := fun st _ _ => (st, no_out PL.RNil);
    PL.g_fuel := 0
  |}.
End PartialStructGen.

(* ---- runtimedoc (devpkg/runtimedocgen/runtimedoc.go) ---- *)

Section RuntimeDocGen.
  Variables fd fs : bool.                                 (* C16's two repairs *)
  Variable desc : PL.pkginfo -> PL.tyinfo -> RD.tydesc.   (* what the generator sees of one type *)
  Variable print_item : RD.item -> bytes.                 (* the text of one method / of the helper: a parameter *)
  Variable fuel : nat.                                    (* bound on the callbacks of one package (one per call at most) *)

  Definition print_items (l : list RD.item) : bytes := concat (map print_item l).

  (* the package as C16's model takes it: the types in the order doGenerate visits them *)
  Definition rd_view (p : PL.pkginfo) : RD.package := map (desc p) (PL.sort_by PL.ty_name (PL.pk_types p)).

  (* what a step appended to the file *)
  Definition new_items (st st' : RD.gstate) : list RD.item := skipn (List.length (RD.gs_body st)) (RD.gs_body st').

  Definition rd_res (d : RD.tydesc) : PL.gresult :=
    match RD.t_kind d with
    | RD.TInterface => PL.RSkip
    | _ => if negb (RD.t_exported d) then PL.RSkip else PL.RNil
    end.

  (* GenerateType; the generator state is C16's (processed, body so far — c.IsZero() reads it —, number of registered
     callbacks, helperWritten); every callback is createHelperOnce (id 0) *)
  Definition rd_type (st : RD.gstate) (p : PL.pkginfo) (t : PL.tyinfo) : RD.gstate * PL.step_out :=
    let d := desc p t in
    let st' := RD.GenerateType fd fs (rd_view p) d st in
    (st', {| PL.so_body := print_items (new_items st st'); PL.so_res := rd_res d;
             PL.so_defers := repeat 0 (RD.gs_defers st' - RD.gs_defers st) |}).

  Definition rd_defer (st : RD.gstate) (p : PL.pkginfo) (id : nat) : RD.gstate * PL.step_out :=
    let st' := RD.create_helper_once st in
    (st', {| PL.so_body := print_items (new_items st st'); PL.so_res := PL.RNil; PL.so_defers := [] |}).

  Definition runtimedoc_gen : PL.generator := {|
    PL.g_name := bs "runtimedoc";
    PL.g_alias := false;
    PL.g_state := RD.gstate;
    PL.g_new := fun _ => RD.gs_init;                  (* reflect.New: processed == nil, helperWritten == false *)
    PL.g_type := rd_type;
    PL.g_defer := rd_defer;
    PL.g_fuel := fuel
  |}.
End RuntimeDocGen.
