(* What Go accepts as a package-local name (ASCII): the identifier grammar of the Go spec,
   the 25 keywords (go/token.IsKeyword) and the blank identifier.  Shared by the model of the
   repaired import tracker (which calls token.IsKeyword) and by the specification predicates of
   C03.  Definitions only. *)
Require Import Gengo.Base.Bytes.

Definition underscore : ascii := "_"%char.

(* letter | unicode_digit, restricted to ASCII:  [A-Za-z0-9_] *)
Definition ident_char (c : ascii) : bool := byte_eqb c underscore || is_letter c || is_digit c.
Definition ident_start (c : ascii) : bool := byte_eqb c underscore || is_letter c.

(* identifier = letter { letter | unicode_digit } *)
Definition go_ident_b (n : bytes) : bool :=
  match n with
  | [] => false
  | c :: r => ident_start c && forallb ident_char r
  end.

Definition keywords : list bytes :=
  map bs ["break"; "case"; "chan"; "const"; "continue"; "default"; "defer"; "else"; "fallthrough";
          "for"; "func"; "go"; "goto"; "if"; "import"; "interface"; "map"; "package"; "range";
          "return"; "select"; "struct"; "switch"; "type"; "var"]%string.

Definition is_keyword (n : bytes) : bool := existsb (bytes_eqb n) keywords.

Definition is_blank (n : bytes) : bool := bytes_eqb n [underscore].

(* a name under which a package can be imported AND referred to:  a valid identifier that is
   not a keyword and not the blank identifier (`import _ "p"` binds nothing) *)
Definition valid_name_b (n : bytes) : bool := go_ident_b n && negb (is_keyword n) && negb (is_blank n).

(* ---- predeclared identifiers ----
   The identifiers of Go's universe scope (spec, "Predeclared identifiers").  They are valid
   non-keyword identifiers, so [valid_name_b] accepts them; a package imported under such a name
   shadows the identifier in the whole file, which is the separate clause [not_predeclared_b].
   The list the repaired tracker consults is go/types.Universe of the toolchain; it reaches the
   model as Gen/StdList.v [universe_names] (regenerated on every run) and Proofs/StdTable.v checks
   that it covers the list of the spec below. *)
Definition spec_predeclared : list bytes :=
  map bs ["any"; "bool"; "byte"; "comparable"; "complex64"; "complex128"; "error"; "float32"; "float64";
          "int"; "int8"; "int16"; "int32"; "int64"; "rune"; "string";
          "uint"; "uint8"; "uint16"; "uint32"; "uint64"; "uintptr";
          "true"; "false"; "iota"; "nil";
          "append"; "cap"; "clear"; "close"; "complex"; "copy"; "delete"; "imag"; "len"; "make"; "max"; "min";
          "new"; "panic"; "print"; "println"; "real"; "recover"]%string.

(* types.Universe.Lookup(n) != nil, for the universe whose names are [universe] *)
Definition name_in (universe : list bytes) (n : bytes) : bool := existsb (bytes_eqb n) universe.

(* the additional clause of C03: the local name does not shadow a predeclared identifier *)
Definition not_predeclared_b (universe : list bytes) (n : bytes) : bool := negb (name_in universe n).
