(* Model of pkg/types/ref.go (ParseTypeRef, TypeRef.String, TypeRef.Walk, ParseRef, Ref),
   pkg/gengo/helper.go (ImportGoPath, PkgImportPathAndExpose), pkg/namer/namer.go
   (rawNamer.Name for `Ref` type names, rawNamer.processName) and the string case of
   snippet.ID (pkg/gengo/snippet/snippet__id.go:96-107).  Definitions only.

   Conventions.  Go strings are byte lists.  The scanners only test for the ASCII bytes
   '[' ']' ',' '.' and every byte of a multi-byte UTF-8 sequence is >= 0x80, so the
   `for i, c := range typeListStr` loop over runes (i = byte offset) is the byte loop below.
   strings.Index / strings.LastIndex return -1 for "not found"; here that is [None] and the
   Go test `i > 0` becomes [Some i] with [0 <? i].  Every slice expression is the checked
   [substr] (Panic when out of range).  Recursion of ParseTypeRef is on explicit fuel.

   [fixed = false] is ParseTypeRef as it was before the "fix:" commit: nesting tracked by the
   boolean inTypeParam (encoded as depth 0/1: '[' sets 1, ']' sets 0).  [fixed = true] is the
   repaired code: an int depth counter ('[' increments, ']' decrements, may go negative). *)
Require Import Gengo.Base.Bytes.
Require Import ZArith.

Definition lbr : ascii := "["%char.
Definition rbr : ascii := "]"%char.
Definition comma : ascii := ","%char.
Definition dot : ascii := "."%char.

(* type TypeRef struct { Name, PkgPath string; TypeList []*TypeRef }   (ref.go:126-130) *)
Inductive tref := TRef (path name : bytes) (args : list tref).

Definition t_path (t : tref) : bytes := match t with TRef p _ _ => p end.
Definition t_name (t : tref) : bytes := match t with TRef _ n _ => n end.
Definition t_args (t : tref) : list tref := match t with TRef _ _ a => a end.

(* ---- string primitives ---- *)

(* s[lo:hi] *)
Definition substr (s : bytes) (lo hi : nat) : res bytes :=
  if (lo <=? hi) && (hi <=? length s) then Ok (firstn (hi - lo) (skipn lo s)) else Panic.

(* strings.Index(s, string(c)) *)
Fixpoint index_byte (c : ascii) (s : bytes) : option nat :=
  match s with
  | [] => None
  | x :: r => if Ascii.eqb x c then Some 0 else option_map S (index_byte c r)
  end.

(* strings.LastIndex(s, string(c)) *)
Fixpoint last_index_byte (c : ascii) (s : bytes) : option nat :=
  match s with
  | [] => None
  | x :: r =>
      match last_index_byte c r with
      | Some j => Some (S j)
      | None => if Ascii.eqb x c then Some 0 else None
      end
  end.

Fixpoint has_prefix (p s : bytes) : bool :=
  match p, s with
  | [], _ => true
  | a :: p', b :: s' => Ascii.eqb a b && has_prefix p' s'
  | _ :: _, [] => false
  end.

(* strings.LastIndex(s, needle) for a non-empty needle *)
Fixpoint last_index_sub (needle s : bytes) : option nat :=
  match s with
  | [] => None
  | _ :: r =>
      match last_index_sub needle r with
      | Some j => Some (S j)
      | None => if has_prefix needle s then Some 0 else None
      end
  end.

(* ---- TypeRef.String, ref.go:142-164 ---- *)

(* the loop  for i, x := range r.TypeList { if i > 0 { ',' }; x.String() }  over the printed items *)
Fixpoint join_comma (l : list bytes) : bytes :=
  match l with
  | [] => []
  | x :: r => x ++ match r with [] => [] | _ :: _ => comma :: join_comma r end
  end.

Definition head_str (p n : bytes) : bytes := (if is_nil p then [] else p ++ [dot]) ++ n.

Fixpoint print (t : tref) : bytes :=
  match t with
  | TRef p n args =>
      head_str p n ++
      (if is_nil args then [] else lbr :: join_comma (map print args) ++ [rbr])
  end.

(* ---- ParseTypeRef, ref.go:67-124 ---- *)

Inductive presult := PT (t : tref) | PErr (s : bytes).   (* ( TypeRef, nil ) | ( nil, "invalid type ref: " + s ) *)

(* ref.go:114-123 *)
Definition parse_base (s : bytes) : res presult :=
  match last_index_byte dot s with
  | Some i =>
      if 0 <? i then
        let! p := substr s 0 i in
        let! n := substr s (i + 1) (length s) in
        Ok (PT (TRef p n []))
      else Ok (PT (TRef [] s []))
  | None => Ok (PT (TRef [] s []))
  end.

(* strings.LastIndex(s, "]") == len(s)-1   (only evaluated on non-empty s) *)
Definition ends_with_rbr (s : bytes) : bool :=
  match last_index_byte rbr s with
  | Some j => j =? length s - 1
  | None => false
  end.

Definition enter (fixed : bool) (d : Z) : Z := if fixed then (d + 1)%Z else 1%Z.
Definition leave (fixed : bool) (d : Z) : Z := if fixed then (d - 1)%Z else 0%Z.
Definition at_top (d : Z) : bool := Z.eqb d 0.

(* state of the argument loop after a commit / at the end: the variables `started` and t.TypeList *)
Inductive lres := LOk (started : nat) (acc : list tref) | LErr (e : bytes).

Section ArgLoop.
  Variable rec : bytes -> res presult.      (* the recursive call ParseTypeRef(...) *)
  Variable fixed : bool.
  Variable tl : bytes.                       (* typeListStr *)

  (* the closure `commit`, ref.go:79-87 *)
  Definition commit (started i : nat) (acc : list tref) : res lres :=
    let! sub := substr tl started i in
    let! r := rec sub in
    match r with
    | PT t => Ok (LOk (i + 1) (acc ++ [t]))
    | PErr e => Ok (LErr e)
    end.

  (* ref.go:89-102; [rest] = typeListStr[i:] *)
  Fixpoint split_loop (rest : bytes) (i : nat) (d : Z) (started : nat) (acc : list tref) : res lres :=
    match rest with
    | [] => Ok (LOk started acc)
    | c :: rest' =>
        if Ascii.eqb c lbr then split_loop rest' (S i) (enter fixed d) started acc
        else if Ascii.eqb c rbr then split_loop rest' (S i) (leave fixed d) started acc
        else if Ascii.eqb c comma then
          if at_top d then
            let! r := commit started i acc in
            match r with
            | LOk st' acc' => split_loop rest' (S i) d st' acc'
            | LErr e => Ok (LErr e)
            end
          else split_loop rest' (S i) d started acc
        else split_loop rest' (S i) d started acc
    end.

  (* ref.go:89-106: the loop, then commit(len(typeListStr)) *)
  Definition type_list (acc0 : list tref) : res lres :=
    let! r := split_loop tl 0 0%Z 0 acc0 in
    match r with
    | LOk st acc => commit st (length tl) acc
    | LErr e => Ok (LErr e)
    end.
End ArgLoop.

Fixpoint parse (fixed : bool) (fuel : nat) (s : bytes) : res presult :=
  match fuel with
  | 0 => OutOfFuel
  | S f =>
      match index_byte lbr s with
      | Some i =>
          if 0 <? i then
            if ends_with_rbr s then
              let! pre := substr s 0 i in
              let! r0 := parse fixed f pre in
              match r0 with
              | PErr e => Ok (PErr e)
              | PT (TRef p n a0) =>
                  let! tl := substr s (i + 1) (length s - 1) in
                  let! r := type_list (parse fixed f) fixed tl a0 in
                  match r with
                  | LOk _ acc => Ok (PT (TRef p n acc))
                  | LErr e => Ok (PErr e)
                  end
              end
            else Ok (PErr s)
          else parse_base s
      | None => parse_base s
      end
  end.

(* enough fuel for every string (Proofs: parse_total) *)
Definition parse_type_ref (fixed : bool) (s : bytes) : res presult := parse fixed (S (length s)) s.

(* ---- ParseRef / Ref, ref.go:19-32, 51-53 ---- *)

(* `base`: the part before the first '[' when that is at an index > 0 *)
Definition cut_bracket (s : bytes) : res bytes :=
  match index_byte lbr s with
  | Some i => if 0 <? i then substr s 0 i else Ok s
  | None => Ok s
  end.

(* Some (pkgPath, name) | None = "unsupported ref" *)
Definition parse_ref (s : bytes) : res (option (bytes * bytes)) :=
  let! base := cut_bracket s in
  match last_index_byte dot base with
  | Some i =>
      if 0 <? i then
        let! p := substr s 0 i in
        let! n := substr s (i + 1) (length s) in
        Ok (Some (p, n))
      else Ok None
  | None => Ok None
  end.

(* ref.String *)
Definition ref_string (pn : bytes * bytes) : bytes := fst pn ++ dot :: snd pn.

(* ---- helper.go:18-34 ---- *)

Definition vendor_seg : bytes := bs "/vendor/".

Definition import_go_path (p : bytes) : res bytes :=
  match last_index_sub vendor_seg p with
  | Some i => if 0 <? i then substr p i (length p) else Ok p
  | None => Ok p
  end.

Definition pkg_import_path_and_expose (s0 : bytes) : res (bytes * bytes) :=
  let! s := cut_bracket s0 in
  match last_index_byte dot s with
  | Some i =>
      if 0 <? i then
        let! p := substr s 0 i in
        let! e := substr s (i + 1) (length s) in
        let! g := import_go_path p in
        Ok (g, e)
      else Ok ([], s)
  | None => Ok ([], s)
  end.

(* ---- rawNamer.processName / Name (namer.go:28-94) and snippet.ID of a string ---- *)

Section Namer.
  (* The import tracker is another property's subject (C03); here it is abstract:
     AddType(Ref(path, _)) = [add tr path],  LocalNameOf(path) = [local_name tr path]. *)
  Variable tracker : Type.
  Variable add : tracker -> bytes -> tracker.
  Variable local_name : tracker -> bytes -> bytes.
  Variable self : bytes.                    (* rawNamer.pkgPath *)

  (* body of the range-over-func loop, namer.go:80-91 *)
  Definition visit (p : bytes) (tr : tracker) : bytes * tracker :=
    if is_nil p then (p, tr)
    else if bytes_eqb p self then ([], tr)
    else let tr1 := add tr p in (local_name tr1 p, tr1).

  (* `for x := range t.Walk { ... }`: Walk (ref.go:132-140) visits the node, then its TypeList in
     order; the body never breaks, so the callback always returns true. *)
  Fixpoint walk (t : tref) (tr : tracker) : tref * tracker :=
    match t with
    | TRef p n args =>
        let '(p', tr1) := visit p tr in
        let '(args', tr2) :=
          (fix walk_list (l : list tref) (tr : tracker) : list tref * tracker :=
             match l with
             | [] => ([], tr)
             | a :: r =>
                 let '(a', tra) := walk a tr in
                 let '(r', trr) := walk_list r tra in
                 (a' :: r', trr)
             end) args tr1 in
        (TRef p' n args', tr2)
    end.

  Fixpoint walk_list (l : list tref) (tr : tracker) : list tref * tracker :=
    match l with
    | [] => ([], tr)
    | a :: r =>
        let '(a', tra) := walk a tr in
        let '(r', trr) := walk_list r tra in
        (a' :: r', trr)
    end.

  (* namer.go:70-94; `panic(err)` when ParseTypeRef fails *)
  Definition process_name (fixed : bool) (tr : tracker) (name : bytes) : res (bytes * tracker) :=
    let! r := parse_type_ref fixed name in
    match r with
    | PErr _ => Panic
    | PT t =>
        if is_nil (t_args t) then Ok (t_name t, tr)
        else let '(t', tr') := walk t tr in Ok (print t', tr')
    end.

  (* namer.go:28-68 for a type name made by Ref(p, n): not a *types.TypeName, so the
     type-parameter branch (lines 42-57) does nothing; the Names cache is never written. *)
  Definition namer_name (fixed : bool) (tr : tracker) (p n : bytes) : res (bytes * tracker) :=
    let! (tn, tr1) := process_name fixed tr n in
    if bytes_eqb p self then
      if negb (is_nil tn) then Ok (tn, tr1) else Ok (ref_string (p, n), tr1)
    else
      let tr2 := add tr1 p in
      Ok (local_name tr2 p ++ dot :: tn, tr2).

  (* snippet.ID(s) for a string s rendered by a writer whose "raw" namer is the above *)
  Definition snippet_id (fixed : bool) (tr : tracker) (s : bytes) : res (bytes * tracker) :=
    let! r := parse_ref s in
    match r with
    | None => Ok (s, tr)
    | Some (p, n) => namer_name fixed tr p n
    end.
End Namer.

(* ---- specification vocabulary (used by Props/C15.v and Corr/C15.v) ---- *)

Definition plain_b (c : ascii) : bool :=
  negb (Ascii.eqb c lbr) && negb (Ascii.eqb c rbr) && negb (Ascii.eqb c comma).
Definition ident_b (c : ascii) : bool := plain_b c && negb (Ascii.eqb c dot).

(* the grammar  ref ::= [path '.'] ident [ '[' ref {',' ref} ']' ] :
   ident non-empty and free of [ ] , .  ; path free of [ ] ,  *)
Fixpoint wf_b (t : tref) : bool :=
  match t with
  | TRef p n args => forallb plain_b p && (negb (is_nil n) && forallb ident_b n) && forallb wf_b args
  end.
Definition wf (t : tref) : Prop := wf_b t = true.

Fixpoint map_paths (f : bytes -> bytes) (t : tref) : tref :=
  match t with TRef p n args => TRef (f p) n (map (map_paths f) args) end.

Definition is_foreign (self p : bytes) : bool := negb (is_nil p) && negb (bytes_eqb p self).

(* package paths of other packages, in the order Walk meets them *)
Fixpoint foreign_pre (self : bytes) (t : tref) : list bytes :=
  match t with
  | TRef p n args => (if is_foreign self p then [p] else []) ++ flat_map (foreign_pre self) args
  end.

(* ... and in the order rawNamer.Name registers them: nested arguments first, then the reference's own package *)
Definition foreign (self : bytes) (t : tref) : list bytes :=
  flat_map (foreign_pre self) (t_args t) ++ (if is_foreign self (t_path t) then [t_path t] else []).

(* what a package path is replaced by: nothing for "no path" and for the target package itself,
   the import name otherwise *)
Definition ren_paths (local : bytes -> bytes) (self q : bytes) : bytes :=
  if is_nil q then [] else if bytes_eqb q self then [] else local q.

(* every PkgPath field of the tree *)
Fixpoint all_paths (t : tref) : list bytes :=
  match t with TRef p n args => p :: flat_map all_paths args end.
