(* C10 — the vocabulary of the property: the domain of types, well-typed values, deep equality
   with nil and empty slices/maps identified.  Definitions only. *)
Require Import Gengo.Base.Bytes Gengo.Model.ValueLit.
From Coq Require Import ZArith Permutation.

Definition not_named (t : gotype) : Prop := match t with TNamed _ _ _ => False | _ => True end.
Definition not_ptr (t : gotype) : Prop := match under t with TPtr _ => False | _ => True end.

(* map keys covered by the theorem: booleans, integers, strings and named versions of them
   (float, array and struct keys are exercised by the harness only) *)
Definition key_ok (t : gotype) : Prop :=
  match under t with TBool | TInt _ | TString => True | _ => False end.

(* the property's domain: booleans, integers, floats, strings, named versions, single-level pointers,
   slices, arrays, maps, structs with exported (distinct) fields *)
Inductive dom : gotype -> Prop :=
| DBool : dom TBool
| DInt k : dom (TInt k)
| DFloat k : dom (TFloat k)
| DString : dom TString
| DNamed p n u : p <> [] -> not_named u -> dom u -> dom (TNamed p n u)
| DPtr e : not_ptr e -> dom e -> dom (TPtr e)
| DSlice e : dom e -> dom (TSlice e)
| DArray n e : dom e -> dom (TArray n e)
| DMap k e : key_ok k -> dom k -> dom e -> dom (TMap k e)
| DStruct fs : Forall (fun f => is_exported (fst f) = true /\ dom (snd f)) fs ->
               NoDup (map fst fs) -> dom (TStruct fs).

Section Spec.
  Context {F : Type}.
  Variable frep : fkind -> F -> Prop.   (* x is a finite value of that float type *)
  Variable feq : F -> F -> Prop.        (* Go's == on floats (so -0 == +0) *)

  Notation goval := (goval F).

  Inductive typed : gotype -> goval -> Prop :=
  | TyBool t b : under t = TBool -> typed t (VBool b)
  | TyInt t k z : under t = TInt k -> irange k z = true -> typed t (VInt z)
  | TyFloat t k x : under t = TFloat k -> frep k x -> typed t (VFloat x)
  | TyStr t s : under t = TString -> typed t (VStr s)
  | TyNil t e : under t = TPtr e -> typed t VNilPtr
  | TyPtr t e v : under t = TPtr e -> typed e v -> typed t (VPtr v)
  | TySlice t e n l : under t = TSlice e -> Forall (typed e) l -> (n = true -> l = []) ->
                      typed t (VSlice n l)
  | TyArray t n e l : under t = TArray n e -> Forall (typed e) l -> length l = n -> typed t (VArray l)
  | TyMap t k e n m : under t = TMap k e ->
                      Forall (fun kv => typed k (fst kv) /\ typed e (snd kv)) m ->
                      NoDup (map fst m) -> (n = true -> m = []) -> typed t (VMap n m)
  | TyStruct t fs vs : under t = TStruct fs -> Forall2 (fun f v => typed (snd f) v) fs vs ->
                       typed t (VStruct vs).

  (* reflect.DeepEqual with nil and empty slices/maps identified *)
  Inductive deep_eq : goval -> goval -> Prop :=
  | EBool b : deep_eq (VBool b) (VBool b)
  | EInt z : deep_eq (VInt z) (VInt z)
  | EFloat x y : feq x y -> deep_eq (VFloat x) (VFloat y)
  | EStr s : deep_eq (VStr s) (VStr s)
  | ENil : deep_eq VNilPtr VNilPtr
  | EPtr a b : deep_eq a b -> deep_eq (VPtr a) (VPtr b)
  | ESlice n1 n2 l1 l2 : Forall2 deep_eq l1 l2 -> deep_eq (VSlice n1 l1) (VSlice n2 l2)
  | EArray l1 l2 : Forall2 deep_eq l1 l2 -> deep_eq (VArray l1) (VArray l2)
  | EStruct l1 l2 : Forall2 deep_eq l1 l2 -> deep_eq (VStruct l1) (VStruct l2)
  | EMap n1 n2 m1 m2 m2' :
      Permutation m2 m2' ->
      Forall2 (fun a b => deep_eq (fst a) (fst b) /\ deep_eq (snd a) (snd b)) m1 m2' ->
      deep_eq (VMap n1 m1) (VMap n2 m2).
End Spec.
