(* Model of pkg/types/function_result_resolver.go (+ FuncResults.Concat of function_result.go).
   Definitions only.

   The model follows the resolver function by function:

     ResultsOf / Results          -> results_of            (resolver.go:10-103)
     funcResultsFromSignature     -> from_signature        (105-114)
     visits.visited               -> visited               (28-47)
     resultsFromAst               -> results_from_ast      (149-169)
     resultsFromAstAt             -> scan / scan_body      (171-267)
     resultsAtReturnOrAssignment  -> raroa                 (269-308)
     callExprResultAt             -> call_at               (310-373)
     resultsAt                    -> the [c_target] match at the end of call_at (116-147)
     assignedResultsUntil         -> assigned_until        (375-418)
     namedResultObjectAt          -> named_obj             (420-435)
     FuncResults.Concat           -> concat_results

   Go's range-over-func iterators are push iterators: the consumer body runs at every yield, while the
   producer is suspended, and both mutate the one shared [visits] map.  The model is therefore written in
   continuation-passing style: a producer takes the consumer [k : alt -> state -> res state] and the state
   (the visits map and the alternatives collected so far by the outermost consumer).  The early exit
   "if !yield(..) { return }" never fires: the only outermost consumer (resultsFromAst) always continues.

   What the program is to the resolver (everything else of go/ast, go/types is input data computed by the
   harness): a table of function bodies (declarations, methods and function literals, the latter lifted out
   of the expression they occur in), each with its declared results and the statements the resolver looks at:
   return statements and assignments, in source order, with the source positions it compares.  Control
   structure (if / switch / for / blocks) is ignored by the resolver (ast.Inspect visits everything except
   function literals), so the statement tree only has a grouping constructor.

   [fixes] selects, per defect, the code as it was (false) or as repaired (true). *)
Require Import Gengo.Base.Bytes.

(* ---- the tiny type language ---- *)
Inductive ty :=
| TInt | TString | TBool
| TError                 (* prints "error" *)
| TAny                   (* prints "any" *)
| TEmptyIface            (* prints "interface{}" *)
| TNamed (k : N)         (* a named non-interface, non-pointer type without an Error method *)
| TPtr (k : N)           (* *T, no Error method *)
| TErrImpl (k : N)       (* a pointer type with an Error() string method *)
| TFunc (k : N)          (* some func type *)
| TNil                   (* untyped nil *)
| TUntyped.              (* the type of an untyped constant *)

Definition ty_eqb (a b : ty) : bool :=
  match a, b with
  | TInt, TInt | TString, TString | TBool, TBool | TError, TError | TAny, TAny
  | TEmptyIface, TEmptyIface | TNil, TNil | TUntyped, TUntyped => true
  | TNamed x, TNamed y | TPtr x, TPtr y | TErrImpl x, TErrImpl y | TFunc x, TFunc y => N.eqb x y
  | _, _ => false
  end.

Definition is_empty_iface (t : ty) : bool := match t with TAny | TEmptyIface => true | _ => false end.
Definition nilable (t : ty) : bool :=
  match t with TError | TAny | TEmptyIface | TPtr _ | TErrImpl _ | TFunc _ => true | _ => false end.

(* go/types.AssignableTo restricted to the tiny language (typed operands and untyped nil) *)
Definition assignable (a b : ty) : bool :=
  ty_eqb a b
  || (is_empty_iface b && negb (ty_eqb a TUntyped))
  || (match b with TError => match a with TErrImpl _ => true | _ => false end | _ => false end)
  || (match a with TNil => nilable b | _ => false end).

(* resolver.go:321-323: the result types whose producers are followed *)
Definition follows (t : ty) : bool := match t with TError | TAny | TEmptyIface => true | _ => false end.
Definition is_error (t : ty) : bool := match t with TError => true | _ => false end.

(* ---- alternatives (types.Result) ---- *)
(* what the callers on the way up see of Result.Expr (resolver.go:231-263) *)
Inductive xkind :=
| XOther
| XIdent (resolved : bool) (obj : N)    (* *ast.Ident; resolved = (Obj != nil), obj = what it denotes *)
| XSel (obj : N).                       (* *ast.SelectorExpr; obj = what Sel denotes *)

Record alt := mk_alt {
  a_txt : bytes;        (* Result.String() *)
  a_const : bool;       (* Value != nil *)
  a_ty : ty;            (* Type *)
  a_x : xkind;
  a_pkg : nat;          (* package whose file holds Expr *)
  a_pos : N             (* Expr.Pos() as offset in that file *)
}.

(* a declared result: type, its printed form, the object of its name (None: unnamed) *)
Record rdecl := mk_rdecl { r_ty : ty; r_txt : bytes; r_obj : option N }.

(* what r.signatures[TypeOf(call.Fun)] leads to in resultsAt (resolver.go:125-146) *)
Inductive target :=
| TgBody (f : nat)     (* FuncDecl / FuncLit of this package, or SelectorExpr -> Uses -> funcDecls of its package *)
| TgNone.              (* no entry, other node kinds, interface methods, function values, instantiations *)

Record call := mk_call {
  c_issig : bool;            (* TypeOf(call.Fun) is a *types.Signature (false: conversions) *)
  c_res : list rdecl;        (* its results *)
  c_perr : list bool;        (* per parameter: the type prints as "error" *)
  c_target : target;
  c_pkg : nat; c_pos : N     (* where the call expression is *)
}.

Inductive expr :=
| EVal (a : alt)                       (* any non-call expression: what Package.Eval gives for it *)
| ECall (c : call) (args : list expr)
| EFuncLit (f : nat) (a : alt).        (* function literal = entry f of the table; a = what Eval gives *)

Inductive lhs :=
| LIdent (o : option N)    (* ObjectOf(ident); None for the blank identifier of a plain assignment *)
| LSel (o : option N)
| LOther.

Record assign := mk_assign { as_pos : N; as_lhs : list lhs; as_rhs : list expr }.

Inductive stmt :=
| SAssign (a : assign)
| SReturn (endpos : N) (es : option (list expr))    (* None: bare return *)
| SGroup (ss : list stmt).                          (* if / else / switch / case / for / block *)

Inductive event := EvAssign (a : assign) | EvReturn (endpos : N) (es : option (list expr)).

Fixpoint flatten (s : stmt) : list event :=
  match s with
  | SAssign a => [EvAssign a]
  | SReturn p es => [EvReturn p es]
  | SGroup ss => (fix go (l : list stmt) : list event :=
                    match l with [] => [] | x :: r => flatten x ++ go r end) ss
  end.
Definition flatten_all (ss : list stmt) : list event := flatten (SGroup ss).

Record fdef := mk_fdef {
  f_pkg : nat;
  f_res : list rdecl;
  f_body : option (list stmt)       (* None: declaration without body *)
}.

Definition prog := list fdef.

(* how r.signatures[sig] of the package ResultsOf is called on resolves (resolver.go:68-100) *)
Inductive entry :=
| EnBody (f : nat)              (* FuncDecl / FuncLit *)
| EnSelector (f : option nat)   (* SelectorExpr whose Sel is a function; its funcDecls entry *)
| EnSig                         (* a CallExpr node, or no entry at all *)
| EnOther.                      (* any other node kind: falls out of the switch *)

Record fixes := mk_fixes {
  fx_visits : bool;     (* visited marks every (function, index) it is asked about *)
  fx_closure : bool;    (* the closure's own result tuple is indexed *)
  fx_concat : bool;     (* Concat returns the concatenation *)
  fx_fallback : bool    (* Results reports the declared types when the registered node is of a kind it does not handle *)
}.
Definition all_fixed := mk_fixes true true true true.
Definition unfixed := mk_fixes false false false false.

(* ---- visits (resolver.go:28-47) ---- *)
Definition visits := list (nat * list bool).     (* map[*ast.FuncType][]bool, keyed by table index *)

Fixpoint vs_get (vs : visits) (f : nat) : option (list bool) :=
  match vs with
  | [] => None
  | (g, bits) :: r => if Nat.eqb g f then Some bits else vs_get r f
  end.

Fixpoint vs_set (vs : visits) (f : nat) (bits : list bool) : visits :=
  match vs with
  | [] => [(f, bits)]
  | (g, b) :: r => if Nat.eqb g f then (g, bits) :: r else (g, b) :: vs_set r f bits
  end.

Fixpoint set_nth (l : list bool) (i : nat) : list bool :=
  match l, i with
  | [], _ => []
  | _ :: r, O => true :: r
  | b :: r, S j => b :: set_nth r j
  end.

(* n = number of declared results of the function type (0: t.Results is nil, a nil dereference) *)
Definition visited (fixed : bool) (vs : visits) (f : nat) (n : nat) (at_ : nat) : res (bool * visits) :=
  match vs_get vs f with
  | Some bits =>
      match nth_error bits at_ with
      | None => Panic                                       (* n[at] out of range *)
      | Some b =>
          if fixed then (if b then Ok (true, vs) else Ok (false, vs_set vs f (set_nth bits at_)))
          else Ok (b, vs)
      end
  | None =>
      if Nat.eqb n 0 then Panic
      else if Nat.ltb at_ n then Ok (false, vs_set vs f (set_nth (repeat false n) at_))
      else Panic                                            (* v[t][at] out of range *)
  end.

(* ---- state and continuations ---- *)
Record state := mk_state { st_vs : visits; st_out : list alt }.   (* st_out newest first *)
Definition cont := alt -> state -> res state.

Definition nres (fd : fdef) : nat := length (f_res fd).

Definition type_alt (r : rdecl) (pkg : nat) (pos : N) : alt :=
  mk_alt (r_txt r) false (r_ty r) XOther pkg pos.

(* assignedResultsUntil's search: the last (assignment, lhs index) before [until] whose lhs denotes target.
   until = None stands for a position before every position of this package (an Expr of a dependency:
   packages.Load parses a package only after all its imports, so its positions are larger). *)
Definition lhs_matches (target : option N) (l : lhs) : bool :=
  match l with
  | LIdent o | LSel o => option_eqb N.eqb o target
  | LOther => false
  end.

Fixpoint last_lhs (target : option N) (ls : list lhs) (i : nat) (acc : option nat) : option nat :=
  match ls with
  | [] => acc
  | l :: r => last_lhs target r (S i) (if lhs_matches target l then Some i else acc)
  end.

Fixpoint last_match (target : option N) (until : option N) (evs : list event)
         (acc : option (assign * nat)) : option (assign * nat) :=
  match evs with
  | [] => acc
  | EvAssign a :: r =>
      let acc' :=
        match until with
        | Some u => if N.ltb (as_pos a) u
                    then match last_lhs target (as_lhs a) 0 None with
                         | Some i => Some (a, i)
                         | None => acc
                         end
                    else acc
        | None => acc
        end in
      last_match target until r acc'
  | EvReturn _ _ :: r => last_match target until r acc
  end.

Fixpoint named_obj (rs : list rdecl) (at_ : nat) : option N :=
  match rs, at_ with
  | [], _ => None
  | r :: _, O => r_obj r
  | _ :: t, S j => named_obj t j
  end.

Section Resolver.
  Variable fx : fixes.
  Variable p : prog.

  Section Open.
    (* resultsFromAstAt of the next nesting level: resolver's Len, function, index *)
    Variable rec : nat -> nat -> nat -> cont -> state -> res state.

    Section Level.
      Variable rlen : nat.     (* r.Len() of the resolver in use (NOT the function literal's when one is scanned) *)

      (* the loop over the results of a function-literal argument (343-351); cres = the callee's results *)
      Definition closure_loop (cres : list rdecl) (f : nat) (k : cont) : list rdecl -> nat -> state -> res state :=
        fix go (rs : list rdecl) (j : nat) (s : state) {struct rs} : res state :=
          match rs with
          | [] => Ok s
          | own :: rs' =>
              let! t :=
                (if fx_closure fx then Ok (r_ty own)
                 else match nth_error cres j with           (* rets.At(inlineRetAt) *)
                      | Some r => Ok (r_ty r)
                      | None => Panic
                      end) in
              let! s' := (if is_error t then rec rlen f j k s else Ok s) in
              go rs' (S j) s'
          end.

      (* the loop over the arguments of a call whose result prints as "error" (324-354);
         self = callExprResultAt on an argument *)
      Definition args_loop (self : expr -> nat -> cont -> state -> res state) (c : call) (k : cont)
        : list expr -> nat -> state -> res state :=
        fix go (l : list expr) (i : nat) (s : state) {struct l} : res state :=
          match l with
          | [] => Ok s
          | arg :: rest =>
              let! s1 :=
                (if nth i (c_perr c) false then
                   (* resultsAtReturnOrAssignment(vs, []ast.Expr{arg}, 1, 0) *)
                   match arg with
                   | ECall _ _ => self arg 0 k s
                   | EVal a => k a s
                   | EFuncLit _ a => k a s
                   end
                 else Ok s) in
              let! s2 :=
                (match arg with
                 | EFuncLit f _ =>
                     match nth_error p f with
                     | None => Ok s1
                     | Some fd => closure_loop (c_res c) f k (f_res fd) 0 s1
                     end
                 | _ => Ok s1
                 end) in
              go rest (S i) s2
          end.

      (* callExprResultAt (310-373) followed by resultsAt (116-147) *)
      Fixpoint call_at (e : expr) (at_ : nat) (k : cont) (s : state) {struct e} : res state :=
        match e with
        | ECall c args =>
            if negb (c_issig c) then Ok s else
            match nth_error (c_res c) at_ with
            | None => Ok s
            | Some rt =>
                if follows (r_ty rt) then
                  let! s1 := (if is_error (r_ty rt) then args_loop call_at c k args 0 s else Ok s) in
                  match c_target c with
                  | TgBody f =>
                      match nth_error p f with
                      | Some fd => rec (nres fd) f at_ k s1
                      | None => Ok s1
                      end
                  | TgNone => Ok s1
                  end
                else k (type_alt rt (c_pkg c) (c_pos c)) s
            end
        | _ => Ok s
        end.

      (* the per-expression switch of resultsAtReturnOrAssignment (287-305) *)
      Definition value_or_call (e : expr) (k : cont) (s : state) : res state :=
        match e with
        | ECall _ _ => call_at e 0 k s
        | EVal a => k a s
        | EFuncLit _ a => k a s
        end.

      (* resultsAtReturnOrAssignment (269-308) *)
      Definition raroa (rhs : list expr) (retN at_ : nat) (k : cont) (s : state) : res state :=
        let n := length rhs in
        if Nat.ltb n retN && Nat.ltb 0 n then
          match rhs with
          | e :: _ => call_at e at_ k s            (* call_at yields nothing unless e is a call *)
          | [] => Ok s
          end
        else
          match nth_error rhs at_ with
          | Some e => value_or_call e k s
          | None => Ok s
          end.

      (* assignedResultsUntil (375-418): only the last matching assignment is evaluated *)
      Definition assigned_until (evs : list event) (target : option N) (until : option N)
                 (k : cont) (s : state) : res state :=
        match last_match target until evs None with
        | Some (a, i) => raroa (as_rhs a) (length (as_lhs a)) i k s
        | None => Ok s
        end.

      (* the switch on ret.Expr in resultsFromAstAt (231-263), as a consumer wrapped around k *)
      Definition post (pkg : nat) (evs : list event) (k : cont) : cont :=
        fun ret s =>
          let same := Nat.eqb (a_pkg ret) pkg in
          let until := if same then Some (a_pos ret) else None in
          match a_x ret with
          | XSel o =>
              let! s1 := k ret s in                              (* x.Sel.Obj == nil: always *)
              assigned_until evs (if same then Some o else None) until k s1
          | XIdent resolved o =>
              let! s1 := (if resolved then Ok s else k ret s) in
              assigned_until evs (if same then Some o else None) until k s1
          | XOther => k ret s
          end.

      (* the loop over the return statements of one body (212-265) *)
      Fixpoint returns_loop (fd : fdef) (all : list event) (evs : list event) (at_ : nat)
               (k : cont) (s : state) : res state :=
        match evs with
        | [] => Ok s
        | EvAssign _ :: r => returns_loop fd all r at_ k s
        | EvReturn endp None :: r =>
            let! s1 :=
              (match named_obj (f_res fd) at_ with
               | Some t => assigned_until all (Some t) (Some endp) k s
               | None => Ok s
               end) in
            returns_loop fd all r at_ k s1
        | EvReturn _ (Some es) :: r =>
            let! s1 := raroa es rlen at_ (post (f_pkg fd) all k) s in
            returns_loop fd all r at_ k s1
        end.
    End Level.

    (* resultsFromAstAt (171-267) *)
    Definition scan_body (rlen f at_ : nat) (k : cont) (s : state) : res state :=
      match nth_error p f with
      | None => Ok s                                    (* funcType == nil *)
      | Some fd =>
          match f_body fd with
          | None => Ok s                                (* body == nil *)
          | Some body =>
              let! (seen, vs1) := visited (fx_visits fx) (st_vs s) f (nres fd) at_ in
              let s1 := mk_state vs1 (st_out s) in
              if seen then Ok s1
              else let evs := flatten_all body in returns_loop rlen fd evs evs at_ k s1
          end
      end.
  End Open.

  Fixpoint scan (fuel : nat) (rlen f at_ : nat) (k : cont) (s : state) : res state :=
    match fuel with
    | O => OutOfFuel
    | S fuel' => scan_body (scan fuel') rlen f at_ k s
    end.

  (* the outermost consumer: append to finalResults[at] *)
  Definition collect : cont := fun a s => Ok (mk_state (st_vs s) (a :: st_out s)).

  (* resultsFromAst (149-169): r.Len() = n declared results of the resolver's signature [sigres] *)
  Fixpoint results_from_ast_loop (fuel : nat) (f : nat) (sigres : list rdecl) (rlen at_ : nat) (vs : visits)
    : res (list (list alt) * visits) :=
    match sigres with
    | [] => Ok ([], vs)
    | r :: rest =>
        let! s := scan fuel rlen f at_ collect (mk_state vs []) in
        let found := rev (st_out s) in
        let here := if is_nil found then [type_alt r 0 0%N] else found in
        let! (more, vs') := results_from_ast_loop fuel f rest rlen (S at_) (st_vs s) in
        Ok (here :: more, vs')
    end.

  Definition results_from_ast (fuel : nat) (f : nat) (sigres : list rdecl) (vs : visits) : res (list (list alt)) :=
    match nth_error p f with
    | None => Ok []                                         (* funcType == nil: return nil *)
    | Some _ =>
        let! (ls, _) := results_from_ast_loop fuel f sigres (length sigres) 0 vs in Ok ls
    end.

  (* funcResultsFromSignature (105-114) *)
  Definition from_signature (sigres : list rdecl) : list (list alt) :=
    map (fun r => [type_alt r 0 0%N]) sigres.

  (* FuncResults.Concat (function_result.go:30-37) *)
  Fixpoint zip_app (a b : list (list alt)) : list (list alt) :=
    match a, b with
    | x :: a', y :: b' => (x ++ y) :: zip_app a' b'
    | _, _ => a
    end.
  Definition concat_results (a b : list (list alt)) : list (list alt) :=
    if fx_concat fx then (if Nat.eqb (length a) (length b) then zip_app a b else a)
    else [].     (* the named result is still nil when its length is compared, and it is what is returned *)

  (* ResultsOf (10-15) + Results (60-103): the lists and n *)
  Definition results_of (fuel : nat) (en : entry) (sigres : list rdecl) : res (list (list alt) * nat) :=
    let n := length sigres in
    if Nat.eqb n 0 then Ok ([], 0) else
    match en with
    | EnBody f => let! ls := results_from_ast fuel f sigres [] in Ok (ls, n)
    | EnSelector fo =>
        let! inner :=
          (match fo with
           | Some f => results_from_ast fuel f sigres []
           | None => Ok []
           end) in
        Ok (concat_results (from_signature sigres) inner, n)
    | EnSig => Ok (from_signature sigres, n)
    | EnOther => Ok ((if fx_fallback fx then from_signature sigres else []), n)
    end.
End Resolver.

(* the nodes of the call graph: (function, result index) *)
Fixpoint nodes_from (p : prog) (i : nat) : list (nat * nat) :=
  match p with
  | [] => []
  | fd :: r => map (fun j => (i, j)) (seq 0 (nres fd)) ++ nodes_from r (S i)
  end.
Definition nodes (p : prog) : list (nat * nat) := nodes_from p 0.

(* ---- hypotheses of the theorems, as decidable predicates on the model's input ---- *)

(* the (static) type of the objects identifiers and selectors denote: TypesInfo data *)
Definition otys := list (N * ty).
Fixpoint oty (os : otys) (o : N) : option ty :=
  match os with
  | [] => None
  | (k, t) :: r => if N.eqb k o then Some t else oty r o
  end.

(* the property's "a constant or a type assignable to the declared result type" *)
Definition sound_b (a : alt) (T : ty) : bool := a_const a || assignable (a_ty a) T.

(* an alternative may flow into a place of type T: it is sound for T and, when its expression is an identifier or
   a selector, everything assigned to the object it denotes may flow there too *)
Definition good_alt (os : otys) (T : ty) (a : alt) : bool :=
  sound_b a T &&
  match a_x a with
  | XIdent _ o | XSel o => match oty os o with Some t => assignable t T | None => false end
  | XOther => true
  end.

Fixpoint opt_all {A} (l : list (option A)) : option (list A) :=
  match l with
  | [] => Some []
  | Some a :: r => match opt_all r with Some r' => Some (a :: r') | None => None end
  | None :: _ => None
  end.

Fixpoint forallb2 {A B} (f : A -> B -> bool) (l1 : list A) (l2 : list B) : bool :=
  match l1, l2 with
  | [], [] => true
  | a :: r1, b :: r2 => f a b && forallb2 f r1 r2
  | _, _ => false
  end.

Section Typing.
  Variable os : otys.
  Variable p : prog.

  Definition target_ok (c : call) : bool :=
    match c_target c with
    | TgBody f =>
        match nth_error p f with
        | Some fd => list_eqb ty_eqb (map r_ty (f_res fd)) (map r_ty (c_res c))
        | None => true
        end
    | TgNone => true
    end.

  (* the arguments the resolver looks at: those passed for a parameter whose type prints as "error" *)
  Definition wt_args_with (self : ty -> expr -> bool) (c : call) : list expr -> nat -> bool :=
    fix go (l : list expr) (i : nat) {struct l} : bool :=
      match l with
      | [] => true
      | a :: r => (if nth i (c_perr c) false then self TError a else true) && go r (S i)
      end.

  (* e is used where one value of type T is expected *)
  Fixpoint wt_expr (T : ty) (e : expr) {struct e} : bool :=
    match e with
    | EVal a => good_alt os T a
    | EFuncLit _ a => good_alt os T a
    | ECall c args =>
        target_ok c
        && wt_args_with wt_expr c args 0
        && (negb (c_issig c) || match c_res c with [r] => assignable (r_ty r) T | _ => false end)
    end.

  Definition wt_args (c : call) (args : list expr) : bool := wt_args_with wt_expr c args 0.

  (* es is the right-hand side of a return / assignment whose places have the types Ts *)
  Definition wt_tuple (Ts : list ty) (es : list expr) : bool :=
    if Nat.eqb (length es) (length Ts) then forallb2 wt_expr Ts es
    else match es with
         | [ECall c args] =>
             target_ok c && wt_args c args
             && (negb (c_issig c) || forallb2 (fun r T => assignable (r_ty r) T) (c_res c) Ts)
         | _ => false
         end.

  Definition lhs_ty (l : lhs) : option ty :=
    match l with
    | LIdent (Some o) | LSel (Some o) => oty os o
    | _ => Some TAny                       (* blank identifier, index expressions...: never looked up *)
    end.

  Definition wt_event (rs : list rdecl) (ev : event) : bool :=
    match ev with
    | EvReturn _ None => true
    | EvReturn _ (Some es) => wt_tuple (map r_ty rs) es
    | EvAssign a =>
        match opt_all (map lhs_ty (as_lhs a)) with
        | Some Ts => wt_tuple Ts (as_rhs a)
        | None => false
        end
    end.

  Definition wt_rdecl (r : rdecl) : bool :=
    match r_obj r with
    | Some o => match oty os o with Some t => ty_eqb t (r_ty r) | None => false end
    | None => true
    end.

  Definition wt_fdef (fd : fdef) : bool :=
    forallb wt_rdecl (f_res fd)
    && match f_body fd with
       | Some body => forallb (wt_event (f_res fd)) (flatten_all body)
       | None => true
       end.

  Definition wt_b : bool := forallb wt_fdef p.
End Typing.

(* how the entry of a ResultsOf call relates to the declared results it is asked about *)
Definition entry_ok (p : prog) (en : entry) (sigres : list rdecl) : bool :=
  match en with
  | EnBody f | EnSelector (Some f) =>
      match nth_error p f with
      | Some fd => list_eqb ty_eqb (map r_ty (f_res fd)) (map r_ty sigres)
      | None => false
      end
  | _ => true
  end.

(* ---- literal-only functions ---- *)

(* a function whose return statements list only "plain" expressions: anything whose Result.Expr is not re-inspected
   (literals and operators on them are of this kind), or an identifier that no assignment of the body mentions and
   that the parser does not resolve (nil, true, false) *)
Definition lhs_objs (evs : list event) : list N :=
  flat_map (fun ev => match ev with
                      | EvAssign a => flat_map (fun l => match l with LIdent (Some o) | LSel (Some o) => [o] | _ => [] end) (as_lhs a)
                      | _ => []
                      end) evs.

Definition plain_alt (assigned : list N) (a : alt) : bool :=
  match a_x a with
  | XOther => true
  | XIdent false o => negb (existsb (N.eqb o) assigned)
  | _ => false
  end.

Definition plain_expr (assigned : list N) (e : expr) : option alt :=
  match e with
  | EVal a => if plain_alt assigned a then Some a else None
  | _ => None
  end.

(* Some rows: the function is of that kind; rows = the values of its return statements, in source order *)
Definition plain_returns (fd : fdef) : option (list (list alt)) :=
  match f_body fd with
  | None => None
  | Some body =>
      let evs := flatten_all body in
      let assigned := lhs_objs evs in
      let rows := flat_map (fun ev => match ev with
                                      | EvReturn _ (Some es) =>
                                          if Nat.eqb (length es) (nres fd) then [opt_all (map (plain_expr assigned) es)] else [None]
                                      | EvReturn _ None => [None]
                                      | EvAssign _ => []
                                      end) evs in
      match opt_all rows with
      | Some (r :: rs) => Some (r :: rs)
      | _ => None
      end
  end.

Definition column (rows : list (list alt)) (i : nat) : list alt :=
  flat_map (fun row => match nth_error row i with Some a => [a] | None => [] end) rows.

