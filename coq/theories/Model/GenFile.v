(* Model of pkg/gengo/genfile.go: snippetWriter.Render (204-214), writeImports (158-178),
   genfile.Filename (56-58), genfile.WriteToFile (60-144) and the write loop of pkgExecute
   (context.go 223-231).  Definitions only.

   Go strings are byte lists.  The import table (a Go map path -> local name) is an association list
   taken in ARBITRARY order; the theorems quantify over its permutations.  The Go formatter pipeline
   (go/parser, ast.SortImports, gofumpt, go/format) is not modelled: it enters as the two section
   variables [fmt1] / [fmt2] of section WriteToFile. *)
Require Import Gengo.Base.Bytes.

Definition nl : ascii := ascii_of_N 10.
Definition tab : ascii := ascii_of_N 9.
Definition dquote : ascii := ascii_of_N 34.
Definition slash : ascii := ascii_of_N 47.
Definition star : ascii := ascii_of_N 42.

(* ------------------------------------------------------------------------------------------ *)
(* Snippets, as far as Render can tell them apart                                              *)
(* ------------------------------------------------------------------------------------------ *)

(* Block, Comment, GoDirective and Snippets follow snippet__block.go, snippet__comment.go,
   snippet__go_directive.go and snippet.go.  Everything that goes through the dumper / the template
   scanner (T, Sprintf, ID, PkgExpose, Value — properties C03, C09, C10, C11, C15) is [SOpaque]: its
   IsNil() answer and the fragments it yields are data. *)
Inductive snip :=
| SNil                                        (* a nil Snippet interface value *)
| SBlock (s : bytes)
| SComment (v : bytes)
| SDirective (d : bytes) (args : list bytes)
| SSnippets (l : list snip)
| SOpaque (isnil : bool) (frags : list bytes).

(* strings.Split(s, "\n") *)
Fixpoint split_nl (s : bytes) : list bytes :=
  match s with
  | [] => [[]]
  | c :: r =>
      if Ascii.eqb c nl then [] :: split_nl r
      else match split_nl r with
           | [] => [[c]]
           | l :: ls => (c :: l) :: ls
           end
  end.

(* snippet.Comment: for i, l := range lines { if i > 0 { yield "\n" }; yield "// " + l } *)
Fixpoint comment_lines (first : bool) (ls : list bytes) : list bytes :=
  match ls with
  | [] => []
  | l :: r => (if first then [] else [[nl]]) ++ (bs "// " ++ l) :: comment_lines false r
  end.

Definition comment_frags (v : bytes) : list bytes :=
  if is_nil v then [] else comment_lines true (split_nl v).

(* snippet.GoDirective *)
Definition directive_frags (d : bytes) (args : list bytes) : list bytes :=
  if is_nil d then []
  else bs "//go:" :: d :: flat_map (fun a => if is_nil a then [] else [bs " "; a]) args.

(* s.IsNil() *)
Definition is_nil_snip (s : snip) : bool :=
  match s with
  | SNil => true
  | SBlock b => is_nil b
  | SComment _ | SDirective _ _ | SSnippets _ => false
  | SOpaque b _ => b
  end.

(* s.Frag(ctx): the fragments in yield order *)
Fixpoint frag (s : snip) : list bytes :=
  match s with
  | SNil => []
  | SBlock b => [b]
  | SComment v => comment_frags v
  | SDirective d args => directive_frags d args
  | SSnippets l => flat_map (fun c => if is_nil_snip c then [] else frag c) l
  | SOpaque _ fr => fr
  end.

(* snippetWriter.Render: nil check, IsNil check, then io.WriteString of every fragment *)
Definition render (s : snip) : list bytes :=
  match s with
  | SNil => []
  | _ => if is_nil_snip s then [] else frag s
  end.

(* the fragments written by a sequence of Render calls, and the buffer they leave *)
Definition render_all (l : list snip) : list bytes := flat_map render l.
Definition body_of (l : list snip) : bytes := concat (render_all l).

(* ------------------------------------------------------------------------------------------ *)
(* writeImports                                                                                *)
(* ------------------------------------------------------------------------------------------ *)

Definition alist := list (bytes * bytes).      (* (import path, local name), keys unique *)

(* Go's < on strings: bytewise lexicographic *)
Fixpoint bytes_ltb (a b : bytes) : bool :=
  match a, b with
  | _, [] => false
  | [], _ :: _ => true
  | x :: a', y :: b' =>
      if N.ltb (N_of_ascii x) (N_of_ascii y) then true
      else if N.ltb (N_of_ascii y) (N_of_ascii x) then false
      else bytes_ltb a' b'
  end.
Definition bytes_leb (a b : bytes) : bool := negb (bytes_ltb b a).

(* sort.Sort(sort.StringSlice(importPaths)): modelled by insertion sort (the sorted permutation is unique) *)
Fixpoint insert_sorted (p : bytes) (l : list bytes) : list bytes :=
  match l with
  | [] => [p]
  | q :: r => if bytes_leb p q then p :: l else q :: insert_sorted p r
  end.
Definition sort_paths (l : list bytes) : list bytes := fold_right insert_sorted [] l.

(* pathToName[p] ("" when absent) *)
Fixpoint lookup (m : alist) (k : bytes) : bytes :=
  match m with
  | [] => []
  | (k', v) :: r => if bytes_eqb k k' then v else lookup r k
  end.

(* "\t%s \"%s\"\n" *)
Definition import_line (m : alist) (p : bytes) : bytes :=
  tab :: lookup m p ++ bs " " ++ [dquote] ++ p ++ [dquote; nl].

Definition import_block (m : alist) : bytes :=
  let paths := sort_paths (map fst m) in
  if is_nil paths then []
  else nl :: bs "import (" ++ [nl] ++ flat_map (import_line m) paths ++ bs ")" ++ [nl].

(* ------------------------------------------------------------------------------------------ *)
(* WriteToFile                                                                                 *)
(* ------------------------------------------------------------------------------------------ *)

(* the comment written first (genfile.go 70-73) ... *)
Definition header_comment (pkg gen : bytes) : bytes :=
  bs "/*" ++ [nl] ++ bs "Package " ++ pkg ++ bs " GENERATED BY gengo:" ++ gen ++ bs " " ++ [nl]
  ++ bs "DON'T EDIT THIS FILE" ++ [nl] ++ bs "*/".

(* ... and the package clause (74-75) *)
Definition package_clause (pkg : bytes) : bytes := bs "package " ++ pkg ++ [nl].

(* the source handed to the formatter: Fprintf of the header, writeImports, io.Copy of the body *)
Definition assemble (pkg gen : bytes) (m : alist) (body : bytes) : bytes :=
  header_comment pkg gen ++ [nl] ++ package_clause pkg ++ import_block m ++ body.

(* fmt.Sprintf("%s.%s.go", args.OutputFileBaseName, ff.name) *)
Definition filename (base gen : bytes) : bytes := base ++ bs "." ++ gen ++ bs ".go".

Record genfile := mk_genfile {
  gf_name : bytes;
  gf_imports : alist;          (* ff.imports.Imports() when WriteToFile runs *)
  gf_snips : list snip         (* every snippet rendered into ff.body, in call order *)
}.

Inductive wres :=
| WNothing                              (* body empty: return nil, nothing touched *)
| WErr                                  (* an error is returned *)
| WWrite (name : bytes) (data : bytes). (* the destination is (re)written with data *)

Definition fsys := list (bytes * bytes).        (* directory of the package: file name -> contents *)
Fixpoint fs_get (fs : fsys) (n : bytes) : option bytes :=
  match fs with
  | [] => None
  | (n', d) :: r => if bytes_eqb n n' then Some d else fs_get r n
  end.
Definition fs_set (fs : fsys) (n d : bytes) : fsys := (n, d) :: fs.

Section WriteToFile.
  (* parser.ParseFile + ast.SortImports + gofumpt's format.File (LangVersion, ModulePath) + go/format.Node;
     None = the parser (or the printer) returned an error *)
  Variable fmt1 : bytes -> option bytes.
  (* gofumpt's format.Source with the same options, applied to printed bytes (added by the repair of finding #32) *)
  Variable fmt2 : bytes -> option bytes.

  (* [fixed = false]: genfile.go as it was (one pass, printed straight into the truncated destination);
     [fixed = true]: the repaired code (print to a buffer, re-format until stable or 5 rounds, then open the destination). *)
  (* for range n { next, err := Source(output); if err != nil { return err };
                     if bytes.Equal(next, output) { break }; output = next } *)
  Fixpoint settle (n : nat) (output : bytes) : option bytes :=
    match n with
    | O => Some output
    | S k =>
        match fmt2 output with
        | None => None
        | Some next => if bytes_eqb next output then Some output else settle k next
        end
    end.

  Definition rounds : nat := 5.

  Definition fmt_src (fixed : bool) (s : bytes) : option bytes :=
    match fmt1 s with
    | None => None
    | Some printed => if fixed then settle rounds printed else Some printed
    end.

  Definition write_file (fixed : bool) (base pkg : bytes) (g : genfile) : wres :=
    let body := body_of (gf_snips g) in
    if is_nil body then WNothing
    else match fmt_src fixed (assemble pkg (gf_name g) (gf_imports g) body) with
         | None => WErr
         | Some out => WWrite (filename base (gf_name g)) out
         end.

  (* pkgExecute 223-231: the retained genfiles in the order sync.Map.Range happens to yield them;
     the first error aborts (files written so far stay).  None = Execute returns an error. *)
  Fixpoint write_all (fixed : bool) (base pkg : bytes) (gfs : list genfile) (fs : fsys) : option fsys :=
    match gfs with
    | [] => Some fs
    | g :: r =>
        match write_file fixed base pkg g with
        | WErr => None
        | WNothing => write_all fixed base pkg r fs
        | WWrite n d => write_all fixed base pkg r (fs_set fs n d)
        end
    end.
End WriteToFile.

(* ------------------------------------------------------------------------------------------ *)
(* Lexical observation used by the header theorem: the comment a Go source text opens with.     *)
(* Go spec, "Comments": a general comment starts with /* and stops at the first subsequent */.   *)
(* ------------------------------------------------------------------------------------------ *)

(* text up to and including the first "*/" *)
Fixpoint upto_close (s : bytes) : option bytes :=
  match s with
  | [] => None
  | c :: r =>
      match r with
      | d :: _ =>
          if Ascii.eqb c star && Ascii.eqb d slash then Some [c; d]
          else match upto_close r with Some t => Some (c :: t) | None => None end
      | [] => None
      end
  end.

Definition lead_comment (s : bytes) : option bytes :=
  match s with
  | c :: d :: r =>
      if Ascii.eqb c slash && Ascii.eqb d star then
        match upto_close r with Some t => Some (c :: d :: t) | None => None end
      else None
  | _ => None
  end.

Fixpoint prefix_b (w s : bytes) : bool :=
  match w, s with
  | [], _ => true
  | _ :: _, [] => false
  | x :: w', y :: s' => Ascii.eqb x y && prefix_b w' s'
  end.
Fixpoint infix_b (w s : bytes) : bool :=
  prefix_b w s || match s with [] => false | _ :: r => infix_b w r end.

Definition infix (w s : bytes) : Prop := exists a b, s = a ++ w ++ b.

(* generator names in the proved domain: [A-Za-z0-9_.-]+ is what tag keys and file names allow;
   only "no slash" matters for the header theorem, "plain" for the formatter hypothesis *)
Definition plain_byte (c : ascii) : bool :=
  is_letter c || is_digit c
  || Ascii.eqb c (ascii_of_N 95) || Ascii.eqb c (ascii_of_N 46) || Ascii.eqb c (ascii_of_N 45)
  || Ascii.eqb c (ascii_of_N 58).
Definition plain (w : bytes) : bool := forallb plain_byte w.
Definition no_slash (w : bytes) : bool := forallb (fun c => negb (Ascii.eqb c slash)) w.
(* package names: Go identifiers (ASCII letters, digits, '_', and any byte of a multi-byte UTF-8 letter) *)
Definition ident_byte (c : ascii) : bool :=
  is_letter c || is_digit c || Ascii.eqb c (ascii_of_N 95) || N.leb 128 (N_of_ascii c).
Definition ident (w : bytes) : bool := forallb ident_byte w.

(* Known-finding class "build_constraint_in_body" (textual over-approximation of "some rendered //-comment is a
   //go:build or // +build line"): go/printer moves such lines above the header comment. *)
Definition mentions_build (body : bytes) : bool :=
  infix_b (bs "//go:build") body || infix_b (bs "+build") body.
