(* Model of pkg/gengo/snippet: template.Frag (printer__template.go:79-154), printer.Frag
   (printer.go:32-110), Comment, GoDirective, Snippets, Fragments, Block, and
   snippetWriter.Render (genfile.go:204-214).  Definitions only.

   The model follows the Go loops.  [fixes] switches between the code as it was and the code
   after each "fix:" patch (fixes/C09-*.diff); the refutations for the old code stay checkable.

   Go strings are byte lists.  text/scanner decodes runes: every test in the two scanners is on
   an ASCII character and string(c) re-encodes the rune, so on well-formed UTF-8 the loops are
   byte-transparent; the two places where text/scanner is not (it drops ONE leading U+FEFF and
   replaces every byte that does not start a well-formed sequence by U+FFFD) are modelled
   explicitly by [sc_raw]; [sc_view] is what the repaired code gets out of it (it puts a U+FEFF
   of its own in front of the format).

   The Go value-literal / type-literal renderer (pkg/gengo/internal/dumper.go, properties C10/C11)
   is NOT modelled: what Value(x) / ID(x) render to is data observed by the harness
   ([SOpaque], [SVal]). *)
Require Import Gengo.Base.Bytes.

Definition c_at : ascii := "@"%char.
Definition c_apos : ascii := "'"%char.
Definition c_pct : ascii := "%"%char.
Definition c_v : ascii := "v"%char.
Definition c_T : ascii := "T"%char.
Definition c_us : ascii := "_"%char.
Definition c_nl : ascii := "010"%char.

(* printer__template.go:108-111 *)
Definition is_name (c : ascii) : bool :=
  is_upper c || is_lower c || is_digit c || Ascii.eqb c c_us.

(* ------------------------------------------------------------------------------------------ *)
(* text/scanner's view of the source: Scanner.next decodes with utf8.DecodeRune (a byte that
   does not start a well-formed sequence becomes U+FFFD, width 1) and Peek skips one leading
   U+FEFF.  [rune_len s] is the width of the well-formed sequence at the head of [s]
   (Unicode table 3-7 = utf8.DecodeRune's first/acceptRanges tables), 0 if there is none. *)

Definition nb (c : ascii) : N := N_of_ascii c.
Definition rng (lo hi : N) (c : ascii) : bool := N.leb lo (nb c) && N.leb (nb c) hi.
Definition cont : ascii -> bool := rng 128 191.
Definition wf2 (b0 b1 : ascii) : bool := rng 194 223 b0 && cont b1.
Definition wf3 (b0 b1 b2 : ascii) : bool :=
  ((rng 224 224 b0 && rng 160 191 b1) || (rng 225 236 b0 && cont b1)
   || (rng 237 237 b0 && rng 128 159 b1) || (rng 238 239 b0 && cont b1)) && cont b2.
Definition wf4 (b0 b1 b2 b3 : ascii) : bool :=
  ((rng 240 240 b0 && rng 144 191 b1) || (rng 241 243 b0 && cont b1)
   || (rng 244 244 b0 && rng 128 143 b1)) && cont b2 && cont b3.

Definition rune_len (s : bytes) : nat :=
  match s with
  | [] => 0
  | b0 :: r =>
      if N.ltb (nb b0) 128 then 1 else
      match r with
      | [] => 0
      | b1 :: r1 =>
          if wf2 b0 b1 then 2 else
          match r1 with
          | [] => 0
          | b2 :: r2 =>
              if wf3 b0 b1 b2 then 3 else
              match r2 with
              | [] => 0
              | b3 :: _ => if wf4 b0 b1 b2 b3 then 4 else 0
              end
          end
      end
  end.

Definition repl : bytes := [ascii_of_N 239; ascii_of_N 191; ascii_of_N 189].   (* U+FFFD *)
Definition bom : bytes := [ascii_of_N 239; ascii_of_N 187; ascii_of_N 191].    (* U+FEFF *)

(* [skip] = bytes of the current well-formed sequence still to be copied *)
Fixpoint sc_go (s : bytes) (skip : nat) : bytes :=
  match s with
  | [] => []
  | b :: r =>
      match skip with
      | S k => b :: sc_go r k
      | O => match rune_len s with
             | O => repl ++ sc_go r 0
             | S k => b :: sc_go r k
             end
      end
  end.

Definition has_bom (s : bytes) : bool :=
  match s with
  | a :: b :: c :: _ => bytes_eqb [a; b; c] bom
  | _ => false
  end.
Definition drop_bom (s : bytes) : bytes := if has_bom s then skipn 3 s else s.

(* what text/scanner makes of a source (the library as it is) *)
Definition sc_raw (s : bytes) : bytes := sc_go (drop_bom s) 0.

(* the repaired code (fixes/C09-5-leading-bom.diff) hands the scanner "\uFEFF" + text: the mark the
   scanner discards is that one, every U+FEFF of the text itself comes through *)
Definition sc_view (s : bytes) : bytes := sc_raw (bom ++ s).

(* strings.TrimLeft(format, "\n") *)
Fixpoint trim_nl (s : bytes) : bytes :=
  match s with
  | c :: r => if Ascii.eqb c c_nl then trim_nl r else s
  | [] => []
  end.

(* ------------------------------------------------------------------------------------------ *)
(* Which repairs are in.  [all_fixed] is the code with fixes/C09-*.diff applied. *)
Record fixes := mk_fixes {
  fx_pct : bool;     (* printer.go: "%%" no longer re-reads the second '%' as the start of a verb *)
  fx_delim : bool;   (* template: the apostrophe after a placeholder whose argument is nil is consumed *)
  fx_nilif : bool;   (* template / Snippets / Fragments: a Go-nil Snippet counts as nil instead of being dereferenced *)
  fx_at : bool;      (* template: '@' not followed by a name character is ordinary text *)
  fx_bom : bool      (* template / printer: the scanner is handed a byte order mark of its own in front of the format *)
}.
Definition all_fixed := mk_fixes true true true true true.
Definition none_fixed := mk_fixes false false false false false.

(* s.Init(bytes.NewBuffer([]byte("\uFEFF" + text))) after the repair, s.Init(bytes.NewBuffer([]byte(text))) before;
   [sc_in all_fixed s] is [sc_view s], [sc_in none_fixed s] is [sc_raw s] *)
Definition sc_in (fx : fixes) (s : bytes) : bytes := sc_raw (if fx_bom fx then bom ++ s else s).

(* what a scanner knows about an argument: a Go-nil interface, or IsNil() and the result of Frag *)
Inductive aview := AVNil | AV (isnil : bool) (out : res bytes).

(* an argument of Sprintf: a Snippet (result of Frag), or any other value (what Value(x).Frag and
   ID(x).Frag yield for it) *)
Inductive sview := SVSnip (out : res bytes) | SVRaw (vlit : res bytes) (tid : res bytes).

Definition emit (b : bytes) (k : res bytes) : res bytes := let! r := k in Ok (b ++ r).
Definition emitr (o : res bytes) (k : res bytes) : res bytes :=
  let! a := o in let! r := k in Ok (a ++ r).

(* map built by T(): later TArgs override earlier ones *)
Fixpoint lookup {A} (n : bytes) (l : list (bytes * A)) : option A :=
  match l with
  | [] => None
  | (k, v) :: r =>
      match lookup n r with
      | Some x => Some x
      | None => if bytes_eqb k n then Some v else None
      end
  end.

Section Template.
  Variable fx : fixes.
  Variable args : list (bytes * aview).

  (* top of the outer loop (printer__template.go:91-96,146-152) entered with the current rune [c]
     (None = EOF) that is NOT '@'-dispatched here: [k] is the rest of the run, i.e. the inner loop
     when c = '@', otherwise what follows  c = s.Next() *)
  Definition redispatch (c : option ascii) (k : res bytes) : res bytes :=
    match c with
    | None => Ok []
    | Some c => if Ascii.eqb c c_at then k else emit [c] k
    end.

  (* printer__template.go:136-146: after the placeholder has been dealt with *)
  Definition tail (named_nonempty : bool) (c : option ascii) (k : res bytes) : res bytes :=
    match c with
    | None => Ok []
    | Some c =>
        if Ascii.eqb c c_at then k
        else if Ascii.eqb c c_apos then
          (if fx_at fx && negb named_nonempty then emit [c] k else k)
        else emit [c] k
    end.

  (* printer__template.go:118-134: the inner loop has ended with [named] collected and the
     terminator [c] in hand *)
  Definition after_name (named : bytes) (c : option ascii) (k : res bytes) : res bytes :=
    match named with
    | [] => if fx_at fx then emit [c_at] (tail false c k) else tail false c k
    | _ =>
        match lookup named args with
        | None => Panic                               (* missing named arg *)
        | Some v =>
            let! isnil := match v with
                          | AVNil => if fx_nilif fx then Ok true else Panic   (* v.IsNil() on a nil interface *)
                          | AV n _ => Ok n
                          end in
            if isnil then
              (if fx_delim fx then tail true c k else redispatch c k)       (* old code: `continue` *)
            else
              match v with
              | AV _ out => emitr out (tail true c k)
              | AVNil => Panic
              end
        end
    end.

  (* outer loop / inner loop, both on the remaining input *)
  Fixpoint scan (s : bytes) : res bytes :=
    match s with
    | [] => Ok []
    | c :: r => if Ascii.eqb c c_at then name_loop r [] else emit [c] (scan r)
    end
  with name_loop (r : bytes) (named : bytes) : res bytes :=
    match r with
    | [] => after_name named None (Ok [])
    | c :: r' =>
        if Ascii.eqb c c_apos then after_name named (Some c) (scan r')
        else if is_name c then name_loop r' (named ++ [c])
        else after_name named (Some c) (if Ascii.eqb c c_at then name_loop r' [] else scan r')
    end.

  Definition tpl_impl (format : bytes) : res bytes := scan (sc_in fx (trim_nl format)).
End Template.

Section Sprintf.
  Variable fx : fixes.

  (* printer.go:49-108; getArg = the head of the remaining argument list *)
  Fixpoint sp_scan (s : bytes) (args : list sview) {struct s} : res bytes :=
    match s with
    | [] => Ok []
    | c :: r =>
        if Ascii.eqb c c_pct then
          match r with
          | [] => Panic                                   (* unsupported %-1 *)
          | d :: r' =>
              if Ascii.eqb d c_T then
                match args with
                | [] => Panic                             (* missing arg *)
                | a :: args' =>
                    emitr (match a with SVSnip o => o | SVRaw _ t => t end) (sp_scan r' args')
                end
              else if Ascii.eqb d c_v then
                match args with
                | [] => Panic
                | a :: args' =>
                    emitr (match a with SVSnip o => o | SVRaw v _ => v end) (sp_scan r' args')
                end
              else if Ascii.eqb d c_pct then
                (* old code: `continue` with c still the second '%' *)
                emit [c_pct] (if fx_pct fx then sp_scan r' args else sp_scan r args)
              else Panic                                  (* unsupported verb *)
          end
        else emit [c] (sp_scan r args)
    end.

  Definition sp_impl (format : bytes) (args : list sview) : res bytes := sp_scan (sc_in fx format) args.
End Sprintf.

(* ------------------------------------------------------------------------------------------ *)
(* strings.Split(v, "\n") *)
Fixpoint split_nl (s : bytes) : list bytes :=
  match s with
  | [] => [[]]
  | c :: r =>
      if Ascii.eqb c c_nl then [] :: split_nl r
      else match split_nl r with
           | h :: t => (c :: h) :: t
           | [] => [[c]]
           end
  end.

Definition slashes : bytes := bs "// ".

(* snippet__comment.go:16-26 *)
Fixpoint comment_loop (i : nat) (ls : list bytes) : bytes :=
  match ls with
  | [] => []
  | l :: r => (match i with O => [] | S _ => [c_nl] end) ++ slashes ++ l ++ comment_loop (S i) r
  end.
Definition comment_impl (v : bytes) : bytes :=
  if is_nil v then [] else comment_loop 0 (split_nl v).

(* snippet__go_directive.go:11-32 *)
Fixpoint directive_args (args : list bytes) : bytes :=
  match args with
  | [] => []
  | a :: r => if negb (is_nil a) then bs " " ++ a ++ directive_args r else directive_args r
  end.
Definition directive_impl (d : bytes) (args : list bytes) : bytes :=
  if is_nil d then [] else bs "//go:" ++ d ++ directive_args args.

(* ------------------------------------------------------------------------------------------ *)
(* The snippet vocabulary of the harness. *)
Inductive snip :=
| SNil                                            (* a Go-nil Snippet interface value *)
| SBlock (b : bytes)
| ST (f : bytes) (args : list (bytes * snip))     (* T(f, Arg(n1,s1), Arg(n2,s2), …) *)
| SSprintf (f : bytes) (args : list snip)         (* an [SVal] element is a non-Snippet argument *)
| SVal (vlit tid : option bytes)                  (* ONLY as a Sprintf argument: Value(x) / ID(x) rendered alone; None = panicked *)
| SComment (v : bytes)
| SDirective (d : bytes) (args : list bytes)
| SSnippets (l : list snip)
| SFragments (s : snip)                           (* Func(ctx => Fragments(ctx, s)) *)
| SOpaque (isnil : bool) (out : option bytes).    (* Value(x) / ID(x) as a snippet: IsNil(), what Frag yields (None = panics) *)

Definition o2r (o : option bytes) : res bytes := match o with Some b => Ok b | None => Panic end.

(* IsNil() of a non-nil interface value *)
Definition isnil_of (s : snip) : bool :=
  match s with
  | SNil => true
  | SBlock b => is_nil b
  | ST f _ => is_nil f
  | SSprintf f _ => is_nil f
  | SOpaque n _ => n
  | _ => false
  end.

Definition view_of (fr : snip -> res bytes) (v : snip) : aview :=
  match v with
  | SNil => AVNil
  | _ => AV (isnil_of v) (fr v)
  end.

(* [nolit] = what a missing value literal means: Panic in the model (that is what happens) *)
Definition sview_of (nolit : res bytes) (fr : snip -> res bytes) (v : snip) : sview :=
  match v with
  | SVal vl ti => SVRaw (match vl with Some b => Ok b | None => nolit end) (o2r ti)
  | _ => SVSnip (fr v)
  end.

Section Render.
  Variable fx : fixes.

  (* `if c == nil || c.IsNil()` after the repair, `c.IsNil()` before *)
  Definition is_nil_call (s : snip) : res bool :=
    match s with
    | SNil => if fx_nilif fx then Ok true else Panic
    | _ => Ok (isnil_of s)
    end.

  (* snippet.go:37-51, the range over the sequence *)
  Definition snippets_loop (fr : snip -> res bytes) : list snip -> res bytes :=
    fix go (l : list snip) : res bytes :=
      match l with
      | [] => Ok []
      | c :: r =>
          let! n := is_nil_call c in
          if n then go r else emitr (fr c) (go r)
      end.

  (* s.Frag(ctx), collected *)
  Fixpoint frag (s : snip) : res bytes :=
    match s with
    | SNil => Panic                                         (* method call through a nil interface *)
    | SBlock b => Ok b
    | ST f args => tpl_impl fx (map (fun p => (fst p, view_of frag (snd p))) args) f
    | SSprintf f args => sp_impl fx f (map (sview_of Panic frag) args)
    | SVal _ _ => Panic                                     (* not a snippet *)
    | SComment v => Ok (comment_impl v)
    | SDirective d args => Ok (directive_impl d args)
    | SSnippets l => snippets_loop frag l
    | SFragments x =>                                       (* snippet.go:13-25 *)
        let! n := is_nil_call x in
        if n then Ok [] else frag x
    | SOpaque _ out => o2r out
    end.

  (* snippetWriter.Render, genfile.go:204-214: bytes written, or Panic *)
  Definition render (s : snip) : res bytes :=
    match s with
    | SNil => Ok []
    | _ => if isnil_of s then Ok [] else frag s
    end.
End Render.
