(* C11 — model of the type-literal printer.

   Go code followed (control structure as it is):
     pkg/gengo/internal/dumper.go     Dumper.TypeLit            (lines 43-86)
     pkg/gengo/snippet/snippet__id.go ident.Frag                (lines 79-127)
     pkg/namer/namer.go               rawNamer.Name, processName (lines 28-94)
     pkg/types/ref.go                 ParseRef                  (lines 22-31)

   Treated abstractly (Section variables, named hypotheses live in Proofs/TypeLit.v):
     pick       : the local name the import tracker (pkg/namer/import_tracker.go, property C03) gives to a
                  path that is not registered yet, in a given tracker state (None: no candidate was free);
     parse_tref : types.ParseTypeRef (pkg/types/ref.go, property C15), None = error.

   The Go code produces text.  The model produces the *syntax tree* of that text ([tyast]) together with
   the printer [print]; the text of the model is [print] of the tree.  Definitions only. *)
Require Import Gengo.Base.Bytes.

(* ------------------------------------------------------------------------------------------ *)
(* byte helpers                                                                                *)

Definition dot : ascii := "."%char.
Definition comma : ascii := ","%char.
Definition lbrack : ascii := "["%char.
Definition rbrack : ascii := "]"%char.
Definition backquote : ascii := "`"%char.
Definition cr : ascii := ascii_of_N 13.
Definition nl : ascii := ascii_of_N 10.

Fixpoint index_of (c : ascii) (s : bytes) : option nat :=
  match s with
  | [] => None
  | x :: r => if Ascii.eqb x c then Some 0 else option_map S (index_of c r)
  end.

(* strings.LastIndex for a one-byte separator *)
Fixpoint last_index_of (c : ascii) (s : bytes) : option nat :=
  match s with
  | [] => None
  | x :: r =>
      match last_index_of c r with
      | Some i => Some (S i)
      | None => if Ascii.eqb x c then Some 0 else None
      end
  end.

Fixpoint mem_bytes (x : bytes) (l : list bytes) : bool :=
  match l with
  | [] => false
  | y :: r => bytes_eqb x y || mem_bytes x r
  end.

Fixpoint alookup {A} (k : bytes) (l : list (bytes * A)) : option A :=
  match l with
  | [] => None
  | (k', v) :: r => if bytes_eqb k k' then Some v else alookup k r
  end.

(* inverse lookup: the path registered under a local name (nameToPath) *)
Fixpoint rlookup (n : bytes) (l : list (bytes * bytes)) : option bytes :=
  match l with
  | [] => None
  | (p, n') :: r => if bytes_eqb n n' then Some p else rlookup n r
  end.

Definition is_ident_char (c : ascii) : bool :=
  is_letter c || is_digit c || Ascii.eqb c "_"%char.

Definition is_ident (s : bytes) : bool := negb (is_nil s) && forallb is_ident_char s.

(* strings.Join(l, ",") *)
Fixpoint join_comma (l : list bytes) : bytes :=
  match l with
  | [] => []
  | [x] => x
  | x :: r => x ++ ","%char :: join_comma r
  end.

(* ------------------------------------------------------------------------------------------ *)
(* the unified view the dumper consumes (github.com/octohelm/x/types.Type), restricted to what      *)
(* TypeLit reads: PkgPath, Name, Kind, Elem, Key, Len, NumField/Field(Name, Anonymous, Type, Tag), *)
(* String.                                                                                     *)

Inductive tyview :=
| VNamed (pkg name : bytes)        (* PkgPath() <> "" : nothing else is read *)
| VPtr (e : tyview)
| VChan (e : tyview)               (* the direction is not read *)
| VStruct (fs : vfields)
| VArray (n : N) (e : tyview)
| VSlice (e : tyview)
| VMap (k e : tyview)
| VIface (name : bytes)            (* Kind() = Interface, PkgPath() = "" ; Name() is "error" or "" *)
| VOther (str : bytes)             (* every other kind: String() *)
with vfields :=
| VFNil
| VFCons (name : bytes) (anon : bool) (t : tyview) (tag : bytes) (rest : vfields).

(* ------------------------------------------------------------------------------------------ *)
(* syntax of the rendered text                                                                 *)

Inductive atag := NoTag | RawTag (s : bytes) | QuotedTag (s : bytes).

Inductive tyast :=
| ANamed (q name : bytes) (args : tyasts)   (* q = "" : bare identifier; args <> nil : instantiation *)
| AStar (t : tyast)
| AChan (t : tyast)
| AArray (n : N) (t : tyast)
| ASlice (t : tyast)
| AMap (k v : tyast)
| AStruct (fs : afields)
| ARaw (s : bytes)                          (* text that is not analysed (func types, malformed names) *)
with tyasts :=
| ANil
| ACons (t : tyast) (r : tyasts)
with afields :=
| AFNil
| AFCons (name : bytes) (anon : bool) (t : tyast) (tag : atag) (rest : afields).

(* decimal text of a length (fmt %d) *)
Fixpoint dec_digits (fuel : nat) (n : N) (acc : bytes) : bytes :=
  match fuel with
  | O => acc
  | S f =>
      let d := ascii_of_N (48 + N.modulo n 10) in
      if N.ltb n 10 then d :: acc else dec_digits f (N.div n 10) (d :: acc)
  end.
Definition dec (n : N) : bytes := dec_digits 40 n [].

(* strconv.Quote is outside the model: the printer takes it as a parameter (the correspondence check
   instantiates it with what the real function returned for the tags of the case). *)
Section Print.
  Variable quote : bytes -> bytes.

  Definition print_tag (t : atag) : bytes :=
    match t with
    | NoTag => []
    | RawTag s => bs " `" ++ s ++ bs "`"
    | QuotedTag s => bs " " ++ quote s
    end.

  Fixpoint print (a : tyast) : bytes :=
    match a with
    | ANamed q name args =>
        (if is_nil q then [] else q ++ [dot]) ++ name ++
        (match args with ANil => [] | _ => [lbrack] ++ print_args args ++ [rbrack] end)
    | AStar t => bs "*" ++ print t
    | AChan t => bs "chan " ++ print t
    | AArray n t => [lbrack] ++ dec n ++ [rbrack] ++ print t
    | ASlice t => bs "[]" ++ print t
    | AMap k v => bs "map[" ++ print k ++ bs "]" ++ print v
    | AStruct fs => bs "struct {" ++ print_fields fs ++ bs "}"
    | ARaw s => s
    end
  with print_args (l : tyasts) : bytes :=
    match l with
    | ANil => []
    | ACons t ANil => print t
    | ACons t r => print t ++ [comma] ++ print_args r
    end
  with print_fields (fs : afields) : bytes :=
    match fs with
    | AFNil => []
    | AFCons name anon t tag rest =>
        (if anon then [] else name ++ bs " ") ++ print t ++ print_tag tag ++ [nl] ++ print_fields rest
    end.
End Print.

(* ------------------------------------------------------------------------------------------ *)
(* type references (pkg/types/ref.go TypeRef)                                                   *)

Inductive tref := TRef (pkg name : bytes) (args : trefs)
with trefs := TRNil | TRCons (t : tref) (r : trefs).

(* TypeRef.String *)
Fixpoint tref_string (t : tref) : bytes :=
  match t with
  | TRef pkg name args =>
      (if is_nil pkg then [] else pkg ++ [dot]) ++ name ++
      (match args with TRNil => [] | _ => [lbrack] ++ trefs_string args ++ [rbrack] end)
  end
with trefs_string (l : trefs) : bytes :=
  match l with
  | TRNil => []
  | TRCons t TRNil => tref_string t
  | TRCons t r => tref_string t ++ [comma] ++ trefs_string r
  end.

Fixpoint ast_of_tref (t : tref) : tyast :=
  match t with TRef pkg name args => ANamed pkg name (asts_of_trefs args) end
with asts_of_trefs (l : trefs) : tyasts :=
  match l with TRNil => ANil | TRCons t r => ACons (ast_of_tref t) (asts_of_trefs r) end.

(* text that the scanner of the harness reads back as one identifier is an identifier node *)
Definition raw_ast (s : bytes) : tyast := if is_ident s then ANamed [] s ANil else ARaw s.

(* gengotypes.ParseRef: (pkgPath, name) or error *)
Definition parse_ref (ref : bytes) : option (bytes * bytes) :=
  let base := match index_of lbrack ref with
              | Some (S i) => firstn (S i) ref
              | _ => ref
              end in
  match last_index_of dot base with
  | Some (S i) => Some (firstn (S i) ref, skipn (S (S i)) ref)
  | _ => None
  end.

(* ------------------------------------------------------------------------------------------ *)
(* the import tracker as the namer uses it: AddType / LocalNameOf / Imports                     *)

Definition renv := list (bytes * bytes).     (* pathToName in insertion order; nameToPath is [rlookup] *)

Section Namer.
  Variable pick : bytes -> renv -> option bytes.
  Variable parse_tref : bytes -> option tref.
  Variable self : bytes.                      (* rawNamer.pkgPath: the package the file is generated into *)

  Definition tr_add (p : bytes) (e : renv) : renv :=
    match alookup p e with
    | Some _ => e
    | None => match pick p e with
              | Some n => e ++ [(p, n)]
              | None => e                     (* no candidate free: nothing is recorded *)
              end
    end.

  Definition local_name_of (p : bytes) (e : renv) : bytes :=
    match alookup p e with Some n => n | None => [] end.

  (* processName: the loop  for x := range t.Walk { ... }  (pre-order) *)
  Fixpoint walk (t : tref) (e : renv) : tref * renv :=
    match t with
    | TRef pkg name args =>
        let '(pkg', e1) :=
          if is_nil pkg then (pkg, e)
          else if bytes_eqb pkg self then ([], e)
          else let e1 := tr_add pkg e in (local_name_of pkg e1, e1) in
        let '(args', e2) := walks args e1 in
        (TRef pkg' name args', e2)
    end
  with walks (l : trefs) (e : renv) : trefs * renv :=
    match l with
    | TRNil => (TRNil, e)
    | TRCons t r =>
        let '(t', e1) := walk t e in
        let '(r', e2) := walks r e1 in
        (TRCons t' r', e2)
    end.

  Definition process_name (name : bytes) (e : renv) : res (tref * renv) :=
    match parse_tref name with
    | None => Panic                                  (* panic(err) *)
    | Some (TRef _ n TRNil) => Ok (TRef [] n TRNil, e)   (* len(t.TypeList) == 0: return t.Name *)
    | Some t => Ok (walk t e)
    end.

  (* the text  q + "." + tn  /  tn  as a tree *)
  Definition named_ast (foreign : bool) (q : bytes) (t : tref) (tps : list bytes) : tyast :=
    match tps with
    | [] =>
        match t with
        | TRef [] n args =>
            if foreign && is_nil q then ARaw ([dot] ++ tref_string t)
            else ANamed q n (asts_of_trefs args)
        | _ => ARaw ((if foreign then q ++ [dot] else []) ++ tref_string t)
        end
    | _ =>
        match t with
        | TRef [] n TRNil =>
            if foreign && is_nil q then ARaw ([dot] ++ n ++ [lbrack] ++ join_comma tps ++ [rbrack])
            else ANamed q n (fold_right (fun x acc => ACons (ANamed [] x ANil) acc) ANil tps)
        | _ => ARaw ((if foreign then q ++ [dot] else []) ++ tref_string t ++ [lbrack] ++ join_comma tps ++ [rbrack])
        end
    end.

  (* rawNamer.Name; [tps] = names of the type parameters when the argument is a generic *types.TypeName
     (the cache n.Names is never written, so it plays no role) *)
  Definition namer_name (pkg name : bytes) (tps : list bytes) (e : renv) : res (tyast * renv) :=
    let! (t, e1) := process_name name e in
    if bytes_eqb pkg self then
      match t, tps with
      | TRef [] [] TRNil, [] => Ok (ARaw (pkg ++ [dot] ++ name), e1)    (* tn.Len() == 0: typeName.String() *)
      | _, _ => Ok (named_ast false [] t tps, e1)
      end
    else
      let e2 := tr_add pkg e1 in
      Ok (named_ast true (local_name_of pkg e2) t tps, e2).

  (* Dumper.TypeLit.
     [fx_err] = with fixes/C11-error-type-literal.diff applied (error stays error);
     [fx_tag] = with fixes/C11-struct-tag-literal.diff applied (tags that cannot be raw strings are quoted). *)
  Variable can_backquote : bytes -> bool.      (* strconv.CanBackquote *)
  Variables fx_err fx_tag : bool.

  Definition tag_lit (tag : bytes) : atag :=
    if is_nil tag then NoTag
    else if fx_tag && negb (can_backquote tag) then QuotedTag tag
    else RawTag tag.

  Fixpoint type_lit (t : tyview) (e : renv) : res (tyast * renv) :=
    match t with
    | VNamed pkg name => namer_name pkg name [] e
    | VPtr x => let! (a, e1) := type_lit x e in Ok (AStar a, e1)
    | VChan x => let! (a, e1) := type_lit x e in Ok (AChan a, e1)
    | VStruct fs => let! (afs, e1) := fields_lit fs e in Ok (AStruct afs, e1)
    | VArray n x => let! (a, e1) := type_lit x e in Ok (AArray n a, e1)
    | VSlice x => let! (a, e1) := type_lit x e in Ok (ASlice a, e1)
    | VMap k x =>
        let! (ak, e1) := type_lit k e in
        let! (ax, e2) := type_lit x e1 in
        Ok (AMap ak ax, e2)
    | VIface name =>
        if fx_err && bytes_eqb name (bs "error") then Ok (ANamed [] (bs "error") ANil, e)
        else Ok (ANamed [] (bs "any") ANil, e)
    | VOther s => Ok (raw_ast s, e)
    end
  with fields_lit (fs : vfields) (e : renv) : res (afields * renv) :=
    match fs with
    | VFNil => Ok (AFNil, e)
    | VFCons name anon t tag rest =>
        let! (a, e1) := type_lit t e in
        let! (r, e2) := fields_lit rest e1 in
        Ok (AFCons (if anon then [] else name) anon a (tag_lit tag) r, e2)
    end.

  (* ident.Frag: the type switch on the argument of snippet.ID / %T *)
  Inductive idarg :=
  | IdAlias (s : bytes)                        (* *types.Alias: x.String() *)
  | IdStr (s : bytes)                          (* string *)
  | IdName (pkg name : bytes) (tps : list bytes) (* gengotypes.TypeName *)
  | IdR (v : tyview)                           (* reflect.Type *)
  | IdT (v : tyview)                           (* types.Type *)
  | IdOther.                                   (* anything else: panic *)

  Definition ident_frag (x : idarg) (e : renv) : res (tyast * renv) :=
    match x with
    | IdAlias s | IdStr s =>
        match parse_ref s with
        | None => Ok (raw_ast s, e)
        | Some (p, n) => namer_name p n [] e
        end
    | IdName p n tps => namer_name p n tps e
    | IdR v | IdT v => type_lit v e
    | IdOther => Panic
    end.
End Namer.
