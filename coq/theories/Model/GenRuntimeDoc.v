(* C16 — model of the runtimedoc generator (devpkg/runtimedocgen/runtimedoc.go), of the doc helper
   Context.Doc (pkg/gengo/context.go), and of the Go semantics of the text it generates.
   Definitions only.

   Input: an abstract package — what the generator can see of a Go package through go/types and
   Package.Doc: per type its name, whether it is exported, whether the generator is enabled for it,
   its kind (struct with fields / interface / anything else) and its doc lines AS Package.Doc RETURNS
   THEM (tag lines already removed, lines trimmed of blanks: that part belongs to C12); per field its
   name, exportedness, whether it is embedded (by value / by pointer), the class of its type as the
   generator's type tests see it, and its doc lines.

   Output: an IR of the generated file (one entry per emitted RuntimeDoc method, in file order, and
   one entry per emitted copy of the helper func runtimeDoc).  [run] is the semantics of that
   generated Go text: what  x.RuntimeDoc(names...)  returns for a receiver value x.

   [fd] / [fs] select the code before (false) / after (true) the two repairs:
     fd  Context.Doc strips the declared name only when it stands as a word of its own;
     fs  the method generated for a non-struct type answers (nil,false) for any name. *)
Require Import Gengo.Base.Bytes.

Definition name := bytes.
Definition line := bytes.

(* ------------------------------------------------------------------------------------------ *)
(* strings.CutPrefix / TrimPrefix / TrimSpace                                                 *)

Fixpoint cut_prefix (p s : bytes) : option bytes :=
  match p with
  | [] => Some s
  | a :: p' =>
      match s with
      | [] => None
      | b :: s' => if Ascii.eqb a b then cut_prefix p' s' else None
      end
  end.

Definition trim_prefix (p s : bytes) : bytes :=
  match cut_prefix p s with Some r => r | None => s end.

(* UTF-8 encodings of the runes for which unicode.IsSpace holds (strings.TrimSpace trims exactly
   these; on valid UTF-8 — Go source text always is — trimming runes = trimming these sequences). *)
Definition ws_seqs : list bytes :=
  map hx ["09"; "0a"; "0b"; "0c"; "0d"; "20"; "c285"; "c2a0"; "e19a80";
          "e28080"; "e28081"; "e28082"; "e28083"; "e28084"; "e28085"; "e28086"; "e28087";
          "e28088"; "e28089"; "e2808a"; "e280a8"; "e280a9"; "e280af"; "e2819f"; "e38080"]%string.

Fixpoint strip_one (seqs : list bytes) (s : bytes) : option bytes :=
  match seqs with
  | [] => None
  | q :: seqs' =>
      match q, cut_prefix q s with
      | _ :: _, Some r => Some r
      | _, _ => strip_one seqs' s
      end
  end.

Fixpoint trim_left_fuel (seqs : list bytes) (fuel : nat) (s : bytes) : bytes :=
  match fuel with
  | O => s
  | S k => match strip_one seqs s with Some r => trim_left_fuel seqs k r | None => s end
  end.

Definition trim_left (s : bytes) : bytes := trim_left_fuel ws_seqs (length s) s.
Definition trim_right (s : bytes) : bytes :=
  rev (trim_left_fuel (map (@rev ascii) ws_seqs) (length s) (rev s)).
Definition trim_space (s : bytes) : bytes := trim_right (trim_left s).

Definition sp : ascii := ascii_of_N 32.

(* Context.Doc (context.go:255-266), the part after Package.Doc: the declared name is removed from
   the first line, and the first line is dropped when nothing is left of it. *)
Definition ctx_doc (fd : bool) (n : name) (raw : list line) : list line :=
  match raw with
  | [] => []
  | l0 :: rest =>
      let l0' :=
        if fd then
          match cut_prefix n l0 with
          | Some [] => []
          | Some (c :: r) => if Ascii.eqb c sp then trim_space (c :: r) else l0
          | None => l0
          end
        else trim_space (trim_prefix n l0) in
      match l0' with
      | [] => rest
      | _ :: _ => l0' :: rest
      end
  end.

(* ------------------------------------------------------------------------------------------ *)
(* the abstract package                                                                       *)

Inductive fclass :=
| FInline        (* f.Type() is a *types.Struct: an anonymous struct type (struct{} included) *)
| FEmptyNamed    (* f.Type().Underlying() is a struct with no fields at all *)
| FOrdinary.     (* anything else *)

Inductive etarget :=
| ELocal                                   (* a named type of this package: its name is the field name *)
| EForeign (struct_without_exposed : bool). (* a type of another package *)

Inductive fkind :=
| FNamed (c : fclass)
| FEmbedded (ptr : bool) (tg : etarget).

Record field := mk_field {
  f_name : name;
  f_exported : bool;        (* ast.IsExported(f.Name()) — computed by Go's own function *)
  f_kind : fkind;
  f_doc : list line         (* Package.Doc(f.Pos()) : tag-free lines *)
}.

Inductive tkind := TStruct (fs : list field) | TInterface | TOther.

Record tydesc := mk_ty {
  t_name : name;
  t_exported : bool;
  t_enabled : bool;         (* IsGeneratorEnabled(runtimedoc, tags of the type) *)
  t_kind : tkind;
  t_doc : list line
}.

Definition package := list tydesc.

Fixpoint lookup_ty (p : package) (n : name) : option tydesc :=
  match p with
  | [] => None
  | t :: p' => if bytes_eqb (t_name t) n then Some t else lookup_ty p' n
  end.

(* ------------------------------------------------------------------------------------------ *)
(* the IR of the generated file                                                               *)

Inductive docel :=
| DLit (l : line)            (* a string literal *)
| DEmbed (path : bytes).     (* a variable filled by //go:embed path *)

Record embed_ir := mk_embed { e_name : name; e_ptr : bool; e_prefix : bytes }.

Inductive method_ir :=
| Simple (guard : bool) (doc : list line)
    (* func (ptr T) RuntimeDoc(names ...string) ([]string, bool) { [if len(names) > 0 { return nil, false }] return doc, true } *)
| StructDoc (doc : list docel) (cases : list (name * list line)) (embeds : list embed_ir).
    (* if len(names) > 0 { switch names[0] { cases }; delegations in order; return nil, false }; return doc, true *)

Inductive item := IMethod (t : name) (m : method_ir) | IHelper.
Definition ir := list item.

(* ------------------------------------------------------------------------------------------ *)
(* the generator                                                                              *)

Definition has_expose (fs : list field) : bool := existsb f_exported fs.   (* hasExposeField *)

(* reEmbedDoc = \[\[(?P<path>[^]]+)]]  (leftmost match) *)
Definition rb : ascii := ascii_of_N 93.
Definition lb : ascii := ascii_of_N 91.

Fixpoint span_not_rb (s : bytes) : bytes * bytes :=
  match s with
  | [] => ([], [])
  | c :: r => if Ascii.eqb c rb then ([], s) else let (a, b) := span_not_rb r in (c :: a, b)
  end.

Definition match_at (s : bytes) : option bytes :=
  match s with
  | c1 :: c2 :: r =>
      if Ascii.eqb c1 lb && Ascii.eqb c2 lb then
        match span_not_rb r with
        | ((_ :: _) as body, d1 :: d2 :: _) => if Ascii.eqb d1 rb && Ascii.eqb d2 rb then Some body else None
        | _ => None
        end
      else None
  | _ => None
  end.

Fixpoint re_embed (s : bytes) : option bytes :=
  match s with
  | [] => None
  | _ :: r => match match_at s with Some p => Some p | None => re_embed r end
  end.

Definition parse_embed (doc : list line) : list docel :=
  map (fun l => match re_embed l with Some p => DEmbed p | None => DLit l end) doc.

Fixpoint filter_map {A B} (f : A -> option B) (l : list A) : list B :=
  match l with
  | [] => []
  | x :: r => match f x with Some y => y :: filter_map f r | None => filter_map f r end
  end.

(* the "cases" loop, runtimedoc.go:163-205 *)
Definition case_of (fd : bool) (f : field) : option (name * list line) :=
  if negb (f_exported f) then None else
  match f_kind f with
  | FEmbedded _ _ => None
  | FNamed FInline => None
  | FNamed FEmptyNamed => None
  | FNamed FOrdinary => Some (f_name f, ctx_doc fd (f_name f) (f_doc f))
  end.

(* f.Type().Underlying() is a struct without an exported field *)
Definition struct_without_exposed (p : package) (f : field) (tg : etarget) : bool :=
  match tg with
  | EForeign b => b
  | ELocal =>
      match lookup_ty p (f_name f) with
      | Some t => match t_kind t with TStruct fs => negb (has_expose fs) | _ => false end
      | None => false
      end
  end.

Definition first_line (d : list line) : bytes := match d with [] => [] | x :: _ => x end.

(* the "embeds" loop, runtimedoc.go:206-251 *)
Definition embed_of (fd : bool) (p : package) (f : field) : option embed_ir :=
  match f_kind f with
  | FNamed _ => None
  | FEmbedded ptr tg =>
      if negb ptr && struct_without_exposed p f tg then None
      else Some (mk_embed (f_name f) ptr (first_line (ctx_doc fd (f_name f) (f_doc f))))
  end.

Record gstate := mk_gs {
  gs_processed : list name;    (* g.processed *)
  gs_body : list item;         (* what has been rendered into the genfile so far *)
  gs_defers : nat;             (* number of registered c.Defer callbacks *)
  gs_helper : bool             (* g.helperWritten *)
}.

Definition gs_init : gstate := mk_gs [] [] 0 false.

Definition emit (st : gstate) (i : item) : gstate :=
  mk_gs (gs_processed st) (gs_body st ++ [i]) (gs_defers st) (gs_helper st).

Definition mark (st : gstate) (n : name) : gstate :=
  mk_gs (n :: gs_processed st) (gs_body st) (gs_defers st) (gs_helper st).

Definition method_of (fd fs : bool) (p : package) (t : tydesc) : option method_ir :=
  match t_kind t with
  | TStruct fields =>
      if negb (has_expose fields) then None
      else Some (StructDoc (parse_embed (ctx_doc fd (t_name t) (t_doc t)))
                           (filter_map (case_of fd) fields)
                           (filter_map (embed_of fd p) fields))
  | _ => Some (Simple fs (ctx_doc fd (t_name t) (t_doc t)))
  end.

(* generateType, runtimedoc.go:122-274 (the `defers` list only ever holds the type itself, which is
   already marked as processed, so the trailing loop does nothing) *)
Definition generate_type (fd fs : bool) (p : package) (t : tydesc) (st : gstate) : gstate :=
  if existsb (bytes_eqb (t_name t)) (gs_processed st) then st else
  let st := mark st (t_name t) in
  match method_of fd fs p t with
  | Some m => emit st (IMethod (t_name t) m)
  | None => st
  end.

(* GenerateType, runtimedoc.go:29-56 *)
Definition GenerateType (fd fs : bool) (p : package) (t : tydesc) (st : gstate) : gstate :=
  match t_kind t with
  | TInterface => st                                       (* ErrSkip *)
  | _ =>
      if negb (t_exported t) then st else                  (* ErrSkip *)
      let st' := generate_type fd fs p t st in
      match gs_body st' with
      | [] => st'                                          (* c.IsZero() *)
      | _ :: _ => mk_gs (gs_processed st') (gs_body st') (S (gs_defers st')) (gs_helper st')
      end
  end.

(* doGenerate (context.go:268-307): the package's types in the order given (the harness presents
   them sorted by name, as doGenerate does; the theorems hold for every order) *)
Definition do_generate (fd fs : bool) (p : package) : gstate :=
  fold_left (fun st t => if t_enabled t then GenerateType fd fs p t st else st) p gs_init.

Definition create_helper_once (st : gstate) : gstate :=
  if gs_helper st then st
  else mk_gs (gs_processed st) (gs_body st ++ [IHelper]) (gs_defers st) true.

Fixpoint run_defers (n : nat) (st : gstate) : gstate :=
  match n with O => st | S k => run_defers k (create_helper_once st) end.

Definition gen (fd fs : bool) (p : package) : ir :=
  let st := do_generate fd fs p in gs_body (run_defers (gs_defers st) st).

(* ------------------------------------------------------------------------------------------ *)
(* semantics of the generated Go text                                                         *)

(* a receiver value, as far as the generated code looks at it: nil, or a struct value with the
   values of its embedded fields (by name; a pointer field absent from the list is nil) *)
Inductive rv := RNil | RNode (kids : list (name * rv)).

Fixpoint find_method (e : ir) (t : name) : option method_ir :=
  match e with
  | [] => None
  | IMethod n m :: e' => if bytes_eqb n t then Some m else find_method e' t
  | IHelper :: e' => find_method e' t
  end.

Fixpoint assoc {B} (k : name) (l : list (name * B)) : option B :=
  match l with
  | [] => None
  | (k', v) :: r => if bytes_eqb k' k then Some v else assoc k r
  end.

Definition eval_doc (files : list (bytes * bytes)) (d : list docel) : list line :=
  map (fun x => match x with
                | DLit l => l
                | DEmbed p => match assoc p files with Some c => c | None => [] end
                end) d.

(* runtimeDoc's  doc[0] = prefix + doc[0] *)
Definition patch (prefix : bytes) (d : list line) : list line :=
  match prefix, d with
  | _ :: _, x :: r => (prefix ++ x) :: r
  | _, _ => d
  end.

(* Ok (Some doc) = (doc, true);  Ok None = (nil, false);  Panic = nil pointer dereference *)
Definition outcome := res (option (list line)).

(* the method called on a nil receiver: it answers from its literals and dereferences v only when
   it reaches the delegations *)
Definition run_nil (files : list (bytes * bytes)) (e : ir) (t : name) (names : list name) : outcome :=
  match find_method e t with
  | None => Ok None
  | Some (Simple g doc) =>
      if g then match names with [] => Ok (Some doc) | _ :: _ => Ok None end else Ok (Some doc)
  | Some (StructDoc doc cases embeds) =>
      match names with
      | [] => Ok (Some (eval_doc files doc))
      | n0 :: _ =>
          match assoc n0 cases with
          | Some d => Ok (Some d)
          | None => match embeds with [] => Ok None | _ :: _ => Panic end
          end
      end
  end.

(* x.RuntimeDoc(names...) for x a pointer to the value v of type t; a type without a generated method
   (the type assertion in runtimeDoc fails) gives Ok None *)
Fixpoint run (files : list (bytes * bytes)) (e : ir) (v : rv) (t : name) (names : list name) {struct v} : outcome :=
  match v with
  | RNil => run_nil files e t names
  | RNode kids =>
      match find_method e t with
      | None => Ok None
      | Some (Simple g doc) =>
          if g then match names with [] => Ok (Some doc) | _ :: _ => Ok None end else Ok (Some doc)
      | Some (StructDoc doc cases embeds) =>
          match names with
          | [] => Ok (Some (eval_doc files doc))
          | n0 :: _ =>
              match assoc n0 cases with
              | Some d => Ok (Some d)
              | None =>
                  (fix deleg (es : list embed_ir) : outcome :=
                     match es with
                     | [] => Ok None
                     | em :: es' =>
                         let r :=
                           (fix find (ks : list (name * rv)) : outcome :=
                              match ks with
                              | [] => run_nil files e (e_name em) names
                              | (k, sv) :: ks' =>
                                  if bytes_eqb k (e_name em) then run files e sv (e_name em) names
                                  else find ks'
                              end) kids in
                         match r with
                         | Ok (Some d) => Ok (Some (patch (e_prefix em) d))
                         | Ok None => deleg es'
                         | Panic => Panic
                         | OutOfFuel => OutOfFuel
                         end
                     end) embeds
              end
          end
      end
  end.

(* ------------------------------------------------------------------------------------------ *)
(* the property's sentence as a function over the SOURCE package (no IR, no receiver)          *)

Definition covered (t : tydesc) : bool :=
  t_enabled t && t_exported t &&
  match t_kind t with
  | TInterface => false
  | TStruct fs => has_expose fs
  | TOther => true
  end.

(* the doc lines of a declaration: leading declared name removed *)
Definition doc_of (n : name) (raw : list line) : list line := ctx_doc true n raw.

Definition listed (f : field) : bool :=
  f_exported f && match f_kind f with FNamed FOrdinary => true | _ => false end.

Fixpoint find_listed (n : name) (fs : list field) : option field :=
  match fs with
  | [] => None
  | f :: r => if listed f && bytes_eqb (f_name f) n then Some f else find_listed n r
  end.

(* embedded fields the generated method delegates to *)
Definition delegating (p : package) (f : field) : bool :=
  match f_kind f with
  | FEmbedded ptr tg => negb (negb ptr && struct_without_exposed p f tg)
  | FNamed _ => false
  end.

Fixpoint first_some {A B} (f : A -> option B) (l : list A) : option B :=
  match l with
  | [] => None
  | x :: r => match f x with Some y => Some y | None => first_some f r end
  end.

(* rd_spec k p t names: what RuntimeDoc on a pointer to t with(names...) has to return; None = (nil,false).
   k bounds the depth of delegation (any k >= number of types is enough when embedding is acyclic). *)
Fixpoint rd_spec (k : nat) (p : package) (tn : name) (names : list name) : option (list line) :=
  match k with
  | O => None
  | S k' =>
      match lookup_ty p tn with
      | None => None
      | Some t =>
          if negb (covered t) then None else
          match names with
          | [] => Some (doc_of (t_name t) (t_doc t))
          | n0 :: _ =>
              match t_kind t with
              | TStruct fs =>
                  match find_listed n0 fs with
                  | Some f => Some (doc_of (f_name f) (f_doc f))
                  | None =>
                      first_some
                        (fun f =>
                           if delegating p f then
                             option_map (patch (first_line (doc_of (f_name f) (f_doc f))))
                                        (rd_spec k' p (f_name f) names)
                           else None)
                        fs
                  end
              | _ => None
              end
          end
      end
  end.

(* "answered by delegation": the embedded fields the method delegates to are asked in field order,
   the first one that answers wins, and the first doc line of the embedding field (if any) is put
   in front of the first line of that answer *)
Fixpoint deleg_fields (p : package) (call : field -> outcome) (fs : list field) : outcome :=
  match fs with
  | [] => Ok None
  | f :: r =>
      if delegating p f then
        match call f with
        | Ok (Some d) => Ok (Some (patch (first_line (doc_of (f_name f) (f_doc f))) d))
        | Ok None => deleg_fields p call r
        | Panic => Panic
        | OutOfFuel => OutOfFuel
        end
      else deleg_fields p call r
  end.

(* the value of the embedded field n of a struct value (absent = nil pointer) *)
Definition kid (kids : list (name * rv)) (n : name) : rv :=
  match assoc n kids with Some sv => sv | None => RNil end.

(* a struct type whose (name-stripped) doc contains a [[path]] reference: RuntimeDoc() then returns the
   content of that file in place of the line (a feature the property's statement does not cover) *)
Definition has_embed_ref (p : package) (tn : name) : bool :=
  match lookup_ty p tn with
  | Some t => match t_kind t with
              | TStruct _ => existsb (fun l => match re_embed l with Some _ => true | None => false end)
                                     (doc_of (t_name t) (t_doc t))
              | _ => false
              end
  | None => false
  end.

(* ------------------------------------------------------------------------------------------ *)
(* the known-finding class: a query whose delegation reaches, through a nil embedded pointer,  *)
(* a method that has delegations of its own (the generated code dereferences the nil receiver) *)

(* does the type named tn have a generated method with at least one delegation? *)
Definition has_delegations (p : package) (tn : name) : bool :=
  match lookup_ty p tn with
  | Some t =>
      covered t && match t_kind t with TStruct fs => existsb (delegating p) fs | _ => false end
  | None => false
  end.

(* v (a value of the type named tn) contains, along the delegations, a nil embedded pointer whose
   type has delegations *)
Fixpoint nil_chain (p : package) (tn : name) (v : rv) {struct v} : bool :=
  match v with
  | RNil => has_delegations p tn
  | RNode kids =>
      match lookup_ty p tn with
      | Some t =>
          match t_kind t with
          | TStruct fs =>
              (fix each (fs : list field) : bool :=
                 match fs with
                 | [] => false
                 | f :: fs' =>
                     (if delegating p f then
                        (fix find (ks : list (name * rv)) : bool :=
                           match ks with
                           | [] => has_delegations p (f_name f)
                           | (k, sv) :: ks' => if bytes_eqb k (f_name f) then nil_chain p (f_name f) sv else find ks'
                           end) kids
                      else false) || each fs'
                 end) fs
          | _ => false
          end
      | None => false
      end
  end.
