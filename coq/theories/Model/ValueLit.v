(* C10 — model of Dumper.ValueLit (pkg/gengo/internal/dumper.go:133-279) over a universe of Go
   values restricted to the property's domain, rendering to a literal AST ([lit]) plus the exact
   printer ([print_lit]) the Go code implements with byte buffers, and [denote], the meaning Go gives
   to such a literal where a value of type [t] is expected (composite-literal semantics).

   Definitions only.  The switch [fixed] selects the code before (false) / after (true) the
   repairs fixes/C10-*.diff.

   External components are Section variables:
     quote            strconv.Quote
     ffmt, gfmt       strconv.FormatFloat(x,'f',-1,bits) and (x,'g',-1,bits)
     fbig             |x| >= 1e21
     fzero            x == 0
     fparse           conversion of a decimal constant to a float type by the Go compiler
     local            import-tracker local name of a package path ("" = the package being generated) *)
Require Import Gengo.Base.Bytes.
From Coq Require Import ZArith DecimalString DecimalZ.

Definition nl : ascii := ascii_of_N 10.
Definition sq : ascii := ascii_of_N 39.

Inductive ikind := KInt | KInt8 | KInt16 | KInt32 | KInt64
                 | KUint | KUint8 | KUint16 | KUint32 | KUint64 | KUintptr.
Inductive fkind := KF32 | KF64.

(* reflect.Type, restricted.  [TNamed pkg name u]: a defined type with PkgPath pkg <> "" and underlying u *)
Inductive gotype :=
| TBool | TInt (k : ikind) | TFloat (k : fkind) | TString
| TNamed (pkg name : bytes) (u : gotype)
| TPtr (e : gotype) | TSlice (e : gotype) | TArray (n : nat) (e : gotype)
| TMap (k e : gotype) | TStruct (fs : list (bytes * gotype)).

Definition under (t : gotype) : gotype := match t with TNamed _ _ u => u | _ => t end.

(* type expressions as they appear as composite-literal prefixes *)
Inductive tyast :=
| YName (pkg name : bytes)            (* pkg = [] : predeclared *)
| YPtr (e : tyast) | YSlice (e : tyast) | YArray (n : nat) (e : tyast)
| YMap (k e : tyast) | YStruct (fs : list (bytes * tyast)).

Definition ikind_name (k : ikind) : bytes :=
  bs match k with
     | KInt => "int" | KInt8 => "int8" | KInt16 => "int16" | KInt32 => "int32" | KInt64 => "int64"
     | KUint => "uint" | KUint8 => "uint8" | KUint16 => "uint16" | KUint32 => "uint32"
     | KUint64 => "uint64" | KUintptr => "uintptr"
     end.
Definition fkind_name (k : fkind) : bytes := bs match k with KF32 => "float32" | KF64 => "float64" end.

(* reflect.Kind.String() of an underlying type (only used for basic kinds) *)
Definition kind_name (u : gotype) : bytes :=
  match u with
  | TBool => bs "bool" | TInt k => ikind_name k | TFloat k => fkind_name k | TString => bs "string"
  | TPtr _ => bs "ptr" | TSlice _ => bs "slice" | TArray _ _ => bs "array" | TMap _ _ => bs "map"
  | TStruct _ => bs "struct" | TNamed _ _ _ => bs "?"
  end.

(* Dumper.TypeLit on reflect types of the universe (C11 owns that function; here: no tags, no embedding) *)
Fixpoint type_lit (t : gotype) : tyast :=
  match t with
  | TNamed p n _ => YName p n
  | TBool | TInt _ | TFloat _ | TString => YName [] (kind_name t)
  | TPtr e => YPtr (type_lit e)
  | TSlice e => YSlice (type_lit e)
  | TArray n e => YArray n (type_lit e)
  | TMap k e => YMap (type_lit k) (type_lit e)
  | TStruct fs => YStruct (map (fun f => (fst f, type_lit (snd f))) fs)
  end.

Fixpoint tyast_eqb (a b : tyast) {struct a} : bool :=
  match a, b with
  | YName p n, YName q m => bytes_eqb p q && bytes_eqb n m
  | YPtr x, YPtr y | YSlice x, YSlice y => tyast_eqb x y
  | YArray n x, YArray m y => Nat.eqb n m && tyast_eqb x y
  | YMap k x, YMap l y => tyast_eqb k l && tyast_eqb x y
  | YStruct fs, YStruct gs =>
      (fix go (fs gs : list (bytes * tyast)) {struct fs} : bool :=
         match fs, gs with
         | [], [] => true
         | f :: fs', g :: gs' => bytes_eqb (fst f) (fst g) && tyast_eqb (snd f) (snd g) && go fs' gs'
         | _, _ => false
         end) fs gs
  | _, _ => false
  end.

(* the literal AST.  Entries of a composite are (key, value) pairs; in key position [LKNone] = no key,
   [LKField n] = field name, anything else = key expression. *)
Inductive lit :=
| LEmpty                               (* the empty text (a zero struct below SubValue) *)
| LNil | LBool (b : bool)
| LNum (s : bytes)                     (* INT / FLOAT token with optional '-' *)
| LChar (c : Z)                        (* CHAR token, its code point *)
| LStr (s : bytes)                     (* STRING token, its value *)
| LAddr (l : lit)                      (* &(l) *)
| LPtrClosure (ty : tyast) (a : lit)   (* func(v ty) *ty { return &v }(a) *)
| LComposite (ty : tyast) (es : list (lit * lit))
| LKNone | LKField (n : bytes)
| LOther.                              (* anything the renderer never produces *)

Definition is_knone (l : lit) : bool := match l with LKNone => true | _ => false end.
Definition is_lempty (l : lit) : bool := match l with LEmpty => true | _ => false end.

(* ---- decimal integers ---- *)
Definition dec (z : Z) : bytes := of_string (NilZero.string_of_int (Z.to_int z)).
Definition parse_int (s : bytes) : option Z := option_map Z.of_int (NilZero.int_of_string (to_string s)).
Definition dec_nat (n : nat) : bytes := dec (Z.of_nat n).

Definition irange (k : ikind) (z : Z) : bool :=
  let within lo hi := (Z.leb lo z && Z.leb z hi)%bool in
  match k with
  | KInt8 => within (-128) 127 | KInt16 => within (-32768) 32767
  | KInt32 => within (-2147483648) 2147483647
  | KInt | KInt64 => within (-9223372036854775808) 9223372036854775807
  | KUint8 => within 0 255 | KUint16 => within 0 65535 | KUint32 => within 0 4294967295
  | KUint | KUint64 | KUintptr => within 0 18446744073709551615
  end%Z.

(* len(strconv.QuoteRune(r)) == 3 : printable ASCII other than ' and \ *)
Definition rune_short (z : Z) : bool := (Z.leb 32 z && Z.leb z 126 && negb (Z.eqb z 39) && negb (Z.eqb z 92))%Z.

(* the gc compiler rejects integer constants of more than 512 bits ("constant overflow") *)
Definition int_const_ok (z : Z) : bool := Z.ltb (Z.abs z) (2 ^ 512).

(* ---- sorting strings (sort.Strings) ---- *)
Fixpoint bytes_leb (a b : bytes) : bool :=
  match a, b with
  | [], _ => true
  | _ :: _, [] => false
  | x :: a', y :: b' =>
      let n := N_of_ascii x in let m := N_of_ascii y in
      if N.ltb n m then true else if N.eqb n m then bytes_leb a' b' else false
  end.

Fixpoint insert (x : bytes) (l : list bytes) : list bytes :=
  match l with
  | [] => [x]
  | y :: r => if bytes_leb x y then x :: l else y :: insert x r
  end.
Definition isort (l : list bytes) : list bytes := fold_right insert [] l.

(* map[string]V written in iteration order: the last write wins *)
Fixpoint assoc_last {A} (k : bytes) (l : list (bytes * A)) : option A :=
  match l with
  | [] => None
  | (k', v) :: r =>
      match assoc_last k r with
      | Some w => Some w
      | None => if bytes_eqb k k' then Some v else None
      end
  end.

Fixpoint assoc {A} (k : bytes) (l : list (bytes * A)) : option A :=
  match l with
  | [] => None
  | (k', v) :: r => if bytes_eqb k k' then Some v else assoc k r
  end.

(* ---- list helpers (recursion parameter outside the fix: usable in nested fixpoints) ---- *)
Definition mapr {A B} (f : A -> res B) : list A -> res (list B) :=
  fix go (l : list A) : res (list B) :=
    match l with
    | [] => Ok []
    | x :: r => match f x with
                | Ok y => match go r with Ok ys => Ok (y :: ys) | _ => Panic end
                | _ => Panic
                end
    end.

Definition map2r {A B C} (f : A -> B -> res C) : list A -> list B -> res (list C) :=
  fix go (ts : list A) (vs : list B) {struct vs} : res (list C) :=
    match vs, ts with
    | [], [] => Ok []
    | x :: vr, t :: tr => match f t x with
                          | Ok y => match go tr vr with Ok ys => Ok (y :: ys) | _ => Panic end
                          | _ => Panic
                          end
    | _, _ => Panic
    end.

Fixpoint somes {A} (l : list (option A)) : list A :=
  match l with [] => [] | Some x :: r => x :: somes r | None :: r => somes r end.

Fixpoint all_some {A} (l : list (option A)) : option (list A) :=
  match l with
  | [] => Some []
  | Some x :: r => match all_some r with Some xs => Some (x :: xs) | None => None end
  | None :: _ => None
  end.

(* ast.IsExported on ASCII names *)
Definition is_exported (n : bytes) : bool := match n with c :: _ => is_upper c | [] => false end.

Section Model.
  Context {F : Type}.

  Inductive goval :=
  | VBool (b : bool) | VInt (z : Z) | VFloat (x : F) | VStr (s : bytes)
  | VNilPtr | VPtr (v : goval)
  | VSlice (isnil : bool) (l : list goval)
  | VArray (l : list goval)
  | VMap (isnil : bool) (m : list (goval * goval))
  | VStruct (l : list goval).

  Variable fzero : F -> bool.
  Variables ffmt gfmt : fkind -> F -> bytes.
  Variable fbig : F -> bool.
  Variable fparse : fkind -> bytes -> option F.
  Variable f0 : F.
  Variable quote : bytes -> bytes.
  Variable local : bytes -> bytes.
  Variable fixed : bool.

  (* ---- the printer (what the byte buffers of ValueLit / TypeLit contain) ---- *)
  Fixpoint print_ty (t : tyast) : bytes :=
    match t with
    | YName p n => match local p with [] => n | q => q ++ bs "." ++ n end
    | YPtr e => bs "*" ++ print_ty e
    | YSlice e => bs "[]" ++ print_ty e
    | YArray n e => bs "[" ++ dec_nat n ++ bs "]" ++ print_ty e
    | YMap k e => bs "map[" ++ print_ty k ++ bs "]" ++ print_ty e
    | YStruct fs => bs "struct {" ++ concat (map (fun f => fst f ++ bs " " ++ print_ty (snd f) ++ [nl]) fs) ++ bs "}"
    end.

  Fixpoint print_lit (l : lit) : bytes :=
    match l with
    | LEmpty | LKNone => []
    | LNil => bs "nil"
    | LBool b => bs (if b then "true" else "false")
    | LNum s => s
    | LChar c => [sq; ascii_of_N (Z.to_N c); sq]
    | LStr s => quote s
    | LAddr x => bs "&(" ++ print_lit x ++ bs ")"
    | LPtrClosure ty a =>
        bs "func(v " ++ print_ty ty ++ bs ") *" ++ print_ty ty ++ bs " { return &v }(" ++ print_lit a ++ bs ")"
    | LComposite ty es =>
        print_ty ty ++ bs "{" ++ (if is_nil es then [] else [nl])
        ++ concat (map (fun e => (if is_knone (fst e) then [] else print_lit (fst e) ++ bs ":")
                                 ++ print_lit (snd e) ++ bs "," ++ [nl]) es)
        ++ bs "}"
    | LKField n => n
    | LOther => bs "?"
    end.

  (* reflectx.IsEmptyValue on values of the universe (no ZeroChecker implementations in it) *)
  Definition is_empty (v : goval) : bool :=
    match v with
    | VNilPtr => true | VPtr _ => false
    | VBool b => negb b | VInt z => Z.eqb z 0 | VFloat x => fzero x | VStr s => is_nil s
    | VSlice _ l => is_nil l | VArray l => is_nil l | VMap _ m => is_nil m
    | VStruct _ => false
    end.

  (* basicKinds (complex kinds are outside the universe); String joins it in the repaired code *)
  Definition basic_kind (u : gotype) : bool :=
    match u with TBool | TInt _ | TFloat _ => true | TString => fixed | _ => false end.

  Definition is_rune_type (t : gotype) : bool := match t with TInt KInt32 => true | _ => false end.

  (* Dumper.ValueLit(rv, SubValue(sub)) with rv of type t *)
  Fixpoint value_lit (sub : bool) (t : gotype) (v : goval) {struct v} : res lit :=
    match v with
    | VNilPtr => Ok LNil                                       (* rv.Kind() == Ptr && rv.IsNil() *)
    | VPtr x =>
        match under t with
        | TPtr e =>
            if basic_kind (under e) then
              let! a := value_lit sub e x in
              Ok (LPtrClosure (if fixed then type_lit e else YName [] (kind_name (under e))) a)
            else
              let! a := value_lit (if fixed then false else sub) e x in
              Ok (LAddr a)
        | _ => Panic
        end
    | VStruct vs =>
        match under t with
        | TStruct fs =>
            let! outs := map2r (fun (f : bytes * gotype) (x : goval) =>
                                  if is_exported (fst f) && negb (is_empty x) then
                                    let! l := value_lit true (snd f) x in
                                    Ok (if is_lempty l then None else Some (LKField (fst f), l))
                                  else Ok None) fs vs in
            let es := somes outs in
            if sub && is_nil es then Ok LEmpty else Ok (LComposite (type_lit t) es)
        | _ => Panic
        end
    | VMap _ m =>
        match under t with
        | TMap kt et =>
            let sub' := if fixed then false else sub in
            let! tbl := mapr (fun kv =>
                                let! kl := value_lit sub' kt (fst kv) in
                                let! vl := value_lit sub' et (snd kv) in
                                Ok (print_lit kl, (kl, vl))) m in
            let keys := isort (map fst tbl) in                  (* sort.Strings(keyLits) *)
            Ok (LComposite (type_lit t)
                  (map (fun k => match assoc_last k tbl with Some e => e | None => (LOther, LOther) end) keys))
        | _ => Panic
        end
    | VSlice _ l =>
        match under t with
        | TSlice e =>
            let! ls := mapr (value_lit false e) l in
            Ok (LComposite (type_lit t) (map (fun x => (LKNone, x)) ls))
        | _ => Panic
        end
    | VArray l =>
        match under t with
        | TArray _ e =>
            let! ls := mapr (value_lit false e) l in
            Ok (LComposite (type_lit t) (map (fun x => (LKNone, x)) ls))
        | _ => Panic
        end
    | VInt z =>
        match under t with
        | TInt KUintptr => if fixed then Ok (LNum (dec z)) else Panic   (* "uintptr is an unsupported type" *)
        | TInt KInt32 =>
            if is_rune_type t && rune_short z then Ok (LChar z) else Ok (LNum (dec z))
        | TInt _ => Ok (LNum (dec z))
        | _ => Panic
        end
    | VBool b => match under t with TBool => Ok (LBool b) | _ => Panic end
    | VFloat x =>
        match under t with
        | TFloat k => Ok (LNum (if fixed && fbig x then gfmt k x else ffmt k x))
        | _ => Panic
        end
    | VStr s => match under t with TString => Ok (LStr s) | _ => Panic end
    end.

  (* ---- meaning of a literal where a value of type t is expected ---- *)

  Fixpoint zero (t : gotype) : goval :=
    match t with
    | TBool => VBool false | TInt _ => VInt 0 | TFloat _ => VFloat f0 | TString => VStr []
    | TNamed _ _ u => zero u
    | TPtr _ => VNilPtr | TSlice _ => VSlice true [] | TMap _ _ => VMap true []
    | TArray n e => VArray (repeat (zero e) n)
    | TStruct fs => VStruct (map (fun f => zero (snd f)) fs)
    end.

  (* equality of map keys that are constants of basic types (false on anything else) *)
  Definition key_eqb (a b : goval) : bool :=
    match a, b with
    | VBool x, VBool y => Bool.eqb x y
    | VInt x, VInt y => Z.eqb x y
    | VStr x, VStr y => bytes_eqb x y
    | _, _ => false
    end.

  Fixpoint key_nodupb (l : list goval) : bool :=
    match l with
    | [] => true
    | x :: r => negb (existsb (key_eqb x) r) && key_nodupb r
    end.

  Definition field_name (k : lit) : option bytes := match k with LKField n => Some n | _ => None end.

  Fixpoint names_nodupb (l : list bytes) : bool :=
    match l with
    | [] => true
    | x :: r => negb (existsb (bytes_eqb x) r) && names_nodupb r
    end.

  Fixpoint denote (t : gotype) (l : lit) {struct l} : option goval :=
    match l with
    | LEmpty | LKNone | LKField _ | LOther => None
    | LNil => match under t with
              | TPtr _ => Some VNilPtr | TSlice _ => Some (VSlice true []) | TMap _ _ => Some (VMap true [])
              | _ => None
              end
    | LBool b => match under t with TBool => Some (VBool b) | _ => None end
    | LNum s =>
        match under t with
        | TInt k => match parse_int s with
                    | Some z => if irange k z then Some (VInt z) else None
                    | None => None
                    end
        | TFloat k => match parse_int s with
                      | Some z => if int_const_ok z then option_map VFloat (fparse k s) else None
                      | None => option_map VFloat (fparse k s)
                      end
        | _ => None
        end
    | LChar c => match under t with
                 | TInt k => if irange k c then Some (VInt c) else None
                 | _ => None
                 end
    | LStr s => match under t with TString => Some (VStr s) | _ => None end
    | LAddr x =>                                   (* only composite literals are addressable here *)
        match under t, x with
        | TPtr e, LComposite _ _ => option_map VPtr (denote e x)
        | _, _ => None
        end
    | LPtrClosure ty a =>
        match under t with
        | TPtr e => if tyast_eqb ty (type_lit e) then option_map VPtr (denote e a) else None
        | _ => None
        end
    | LComposite ty es =>
        if tyast_eqb ty (type_lit t) then
          match under t with
          | TSlice e =>
              option_map (VSlice false)
                (all_some (map (fun kv => match fst kv with LKNone => denote e (snd kv) | _ => None end) es))
          | TArray n e =>
              match all_some (map (fun kv => match fst kv with LKNone => denote e (snd kv) | _ => None end) es) with
              | Some vs => if Nat.leb (length vs) n
                           then Some (VArray (vs ++ repeat (zero e) (n - length vs))) else None
              | None => None
              end
          | TMap kt et =>
              match all_some (map (fun kv => match denote kt (fst kv), denote et (snd kv) with
                                             | Some k, Some v => Some (k, v)
                                             | _, _ => None
                                             end) es) with
              | Some m => if key_nodupb (map fst m) then Some (VMap false m) else None
              | None => None
              end
          | TStruct fs =>
              match all_some (map (fun kv => match field_name (fst kv) with
                                             | Some n => match assoc n fs with
                                                         | Some ft => option_map (pair n) (denote ft (snd kv))
                                                         | None => None
                                                         end
                                             | None => None
                                             end) es) with
              | Some nvs =>
                  if names_nodupb (map fst nvs) then
                    Some (VStruct (map (fun f => match assoc (fst f) nvs with
                                                 | Some v => v
                                                 | None => zero (snd f)
                                                 end) fs))
                  else None
              | None => None
              end
          | _ => None
          end
        else None
    end.

End Model.

Arguments goval : clear implicits.
