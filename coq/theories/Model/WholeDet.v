(* Adapter 4: Model/Determinism.v (C04: one run with every map range taken from an order oracle) on the pipeline's data.
   From the pipeline's input (arguments, loaded world, generators as state machines, global tags, file system) this
   file derives Determinism's input: its world (TypesInfo.Defs = the type table, one file of package tags, no methods),
   its arguments, its generators (the state machine folded over the call list it is given) and its external
   components (render = the pipeline's formatter on the assembled source; parse_sum = the byte-level sumfile.Load).
   Definitions only; the agreement is Proofs/WholeDet.v. *)
Require Import Gengo.Base.Bytes Gengo.Model.Pipeline Gengo.Model.Whole.
Require Gengo.Model.SumFile Gengo.Model.Determinism.

Module Det := Gengo.Model.Determinism.

(* tags: Determinism keeps strings.Join(values, "") per key *)
Definition dt (t : tags) : Det.alist bytes := map (fun kv => (fst kv, concat (snd kv))) t.

Definition dkind (k : tykind) : Det.kind :=
  match k with KNamed => Det.KNamed | KAlias => Det.KAlias | KOther => Det.KOther end.

Definition det_tdef (t : tyinfo) : Det.tdef :=
  Det.mk_tdef (ty_name t) 0 (dkind (ty_kind t)) true false (dt (ty_tags t)).

Definition doc_file : bytes := bs "doc.go".

Definition det_pkg (p : pkginfo) : Det.pkg :=
  Det.mk_pkg (pk_path p) (pk_name p) (pk_dir p) (pk_files p) [(doc_file, dt (pk_tags p))]
             (map det_tdef (pk_types p)) [] (pk_hash p).

Definition det_world (w : world) : Det.world := Det.mk_world (w_modroot w) (map det_pkg (w_pkgs w)).

Definition det_args (G : tags) (a : args) : Det.args := Det.mk_args (dt G) (a_base a) (a_all a) (a_force a).

(* ---------- generators ---------- *)

(* one generator on one package, for a given list of types to be called for: gen_run is [session] on the sorted table *)
Definition session (E : env) (g : generator) (p : pkginfo) (tys : list tyinfo) : gen_out :=
  let c := call_loop E g p (g_new g p) tys in
  match ro_out c with
  | Done =>
      let d := defer_loop (g_fuel g) g p (ro_state c) (ro_defers c) in
      {| go_body := ro_body c ++ ro_body d; go_ignore := ro_ignore c;
         go_trace := ro_trace c ++ ro_trace d; go_out := ro_out d |}
  | bad => {| go_body := ro_body c; go_ignore := ro_ignore c; go_trace := ro_trace c; go_out := bad |}
  end.

(* "call for every type of the list" (dispatch has been done by Determinism) *)
Definition env_all : env := {|
  e_fmt := fun _ => None; e_sum_load := fun _ => []; e_sum_bytes := fun _ => [];
  e_enabled := fun _ _ _ => true; e_order := fun _ l => l; e_rm_rank := fun _ _ => 0; e_fixed := true |}.

Fixpoint find_ty (n : bytes) (tys : list tyinfo) : option tyinfo :=
  match tys with
  | [] => None
  | t :: r => if bytes_eqb (ty_name t) n then Some t else find_ty n r
  end.

Definition tys_of_calls (p : pkginfo) (cs : list Det.call) : list tyinfo :=
  flat_map (fun c => match find_ty (Det.c_name c) (pk_types p) with Some t => [t] | None => [] end) cs.

Definition is_done (o : outcome) : bool := match o with Done => true | _ => false end.

(* Determinism's generator: any function of the package and of the call sequence; here the state machine run over it.
   An error, a failing callback or a death is "the run fails" (go_err): Determinism does not tell them apart. *)
Definition det_gen (w : world) (g : generator) : Det.gen :=
  Det.mk_gen (g_name g) (g_alias g)
    (fun dp _ cs =>
       match find_pkg w (Det.pk_path dp) with
       | None => Det.mk_genout false false [] []
       | Some p =>
           let o := session env_all g p (tys_of_calls p cs) in
           Det.mk_genout (negb (is_done (go_out o))) (go_ignore o) (go_body o) []
       end).

(* ---------- external components ---------- *)

Definition det_render (fmt : bytes -> option bytes) (gf : Det.gfile) : option bytes :=
  fmt (assemble (Det.gf_pkgname gf) (Det.gf_gen gf) (Det.gf_body gf)).

Definition det_parse_sum (b : bytes) : Det.alist bytes := SumFile.sumfile_load b.

Definition det_fs (s : fs) : Det.fs := fun q => fs_lookup q s.

(* ---------- the order oracle ---------- *)

Definition gfs_site : bytes := bs "gfs".
Definition is_gfs_site (site : list bytes) : bool :=
  match site with k :: _ => bytes_eqb k gfs_site | [] => false end.

(* the pipeline has ONE range whose order is a parameter (the sync.Map of retained genfiles); every other range of
   Determinism is consumed through a sort or an insertion of distinct keys.  [only_gfs o] behaves as o there and takes
   every other map in the order given. *)
Definition only_gfs (o : Det.oracle) : Det.oracle :=
  fun A site l => if is_gfs_site site then o A site l else l.

(* the pipeline's e_order induced by an oracle *)
Definition order_of (o : Det.oracle) (p : pkginfo) (l : list (bytes * bytes)) : list (bytes * bytes) :=
  o _ [gfs_site; pk_path p] l.

(* an iteration order is a rearrangement of positions: it does not look at the contents *)
Definition natural (o : Det.oracle) : Prop :=
  forall (A B : Type) (f : A -> B) site l, o B site (map f l) = map f (o A site l).

(* the call log, flattened: (package, generator, type name) per GenerateType / GenerateAliasType call *)
Definition flat_log (l : Det.calllog) : list (bytes * bytes * bytes) :=
  flat_map (fun e => map (fun c => (fst (fst e), snd (fst e), Det.c_name c)) (snd e)) l.
Definition flat_trace (tr : trace) : list (bytes * bytes * bytes) :=
  flat_map (fun e => match e with EvCall g p t _ _ => [(p, g, t)] | EvDefer _ _ _ _ _ => [] end) tr.
