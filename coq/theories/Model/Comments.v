(* Model of pkg/types/comments.go (ExtractCommentTags, splitKV, oneOf) and of the comment
   part of pkg/types/package.go (collectCommentGroup, the ast.Inspect walk that fills the two
   (file,line) -> comment-group indexes, Doc, Comment, priorCommentLines, commentLinesFrom).
   Definitions only.  The model follows the Go loops and state variables.

   Three repairs are switchable so that the refutations for the code as it was stay checkable:
     fix_trail = false : every *ast.CommentGroup reached by the walk - trailing ones included -
                         is entered in the leading index (package.go:179-180 before the fix);
     fix_empty = false : a comment group whose Text() is empty yields one empty line
                         (strings.Split("", "\n") = [""], package.go:401 before the fix);
     fix_kv = false    : splitKV ranges over runes and re-encodes them (bytes that are not valid
                         UTF-8 come back as U+FFFD, comments.go:49-69 before the fix).

   External components (go/parser's Doc/Comment attachment, the order of ast.Inspect,
   CommentGroup.Text) are input data: an [event] list in walk order, groups carrying the
   result of Text(). *)
Require Import Gengo.Base.Bytes.
From Coq Require Import ZArith.

(* ------------------------------------------------------------------ *)
(* comments.go                                                         *)
(* ------------------------------------------------------------------ *)

Definition c_sp : ascii := ascii_of_N 32.
Definition c_eq : ascii := ascii_of_N 61.
Definition c_plus : ascii := ascii_of_N 43.
Definition c_at : ascii := ascii_of_N 64.
Definition c_nl : ascii := ascii_of_N 10.

Definition is_sp (c : ascii) : bool := Ascii.eqb c c_sp.

(* strings.Trim(line, " ") = TrimRight(TrimLeft(line)) with a one-byte cutset *)
Fixpoint trim_left_sp (s : bytes) : bytes :=
  match s with
  | c :: r => if is_sp c then trim_left_sp r else s
  | [] => []
  end.
Definition trim_right_sp (s : bytes) : bytes := rev (trim_left_sp (rev s)).
Definition trim_sp (s : bytes) : bytes := trim_right_sp (trim_left_sp s).

(* comments.go:71-78 *)
Fixpoint one_of (markers : bytes) (b : ascii) : bool :=
  match markers with
  | [] => false
  | m :: r => if Ascii.eqb b m then true else one_of r b
  end.

(* the separator test of splitKV:  c == '=' || c == ' ' *)
Definition is_sep (c : ascii) : bool := Ascii.eqb c c_eq || is_sp c.

(* splitKV after the repair: strings.IndexAny(line, "= "), then line[:i] and line[i+1:]
   (i < len(line), so neither slice expression can fail) *)
Fixpoint index_sep (s : bytes) : option nat :=
  match s with
  | [] => None
  | c :: r => if is_sep c then Some 0 else option_map S (index_sep r)
  end.
Definition split_kv_cut (s : bytes) : bytes * bytes :=
  match index_sep s with
  | Some i => (firstn i s, skipn (S i) s)
  | None => (s, [])
  end.

(* splitKV before the repair, comments.go:49-69: two buffers, the forValue flag, a loop over the
   RUNES of the line, each written back with WriteRune.  Go's decoding of the rune at the head of
   c :: rest: the number of continuation bytes it takes, or None when the byte does not start a
   valid sequence (then the rune is U+FFFD and one byte is consumed). *)
Definition in_range (lo hi : N) (c : ascii) : bool :=
  let n := N_of_ascii c in ((lo <=? n) && (n <=? hi))%N.
Definition rune_extra (c : ascii) (rest : bytes) : option nat :=
  let n := N_of_ascii c in
  if (n <? 128)%N then Some 0
  else if (n <? 194)%N then None
  else if (n <? 224)%N then
    match rest with
    | c1 :: _ => if in_range 128 191 c1 then Some 1 else None
    | _ => None
    end
  else if (n <? 240)%N then
    let lo := if (n =? 224)%N then 160%N else 128%N in
    let hi := if (n =? 237)%N then 159%N else 191%N in
    match rest with
    | c1 :: c2 :: _ => if in_range lo hi c1 && in_range 128 191 c2 then Some 2 else None
    | _ => None
    end
  else if (n <? 245)%N then
    let lo := if (n =? 240)%N then 144%N else 128%N in
    let hi := if (n =? 244)%N then 143%N else 191%N in
    match rest with
    | c1 :: c2 :: c3 :: _ =>
        if in_range lo hi c1 && in_range 128 191 c2 && in_range 128 191 c3 then Some 3 else None
    | _ => None
    end
  else None.

Definition fffd : bytes := [ascii_of_N 239; ascii_of_N 191; ascii_of_N 189].

(* [pending] = continuation bytes of the current (valid) rune still to be copied *)
Fixpoint split_kv_runes (s : bytes) (pending : nat) (k v : bytes) (for_value : bool) : bytes * bytes :=
  match s with
  | [] => (k, v)
  | c :: r =>
      match pending with
      | S p =>
          if for_value then split_kv_runes r p k (v ++ [c]) true
          else split_kv_runes r p (k ++ [c]) v false
      | O =>
          if negb for_value && is_sep c then split_kv_runes r 0 k v true
          else
            let '(out, p) := match rune_extra c r with Some p => ([c], p) | None => (fffd, 0) end in
            if for_value then split_kv_runes r p k (v ++ out) true
            else split_kv_runes r p (k ++ out) v false
      end
  end.

Definition split_kv (fix_kv : bool) (s : bytes) : bytes * bytes :=
  if fix_kv then split_kv_cut s else split_kv_runes s 0 [] [] false.

(* map[string][]string as an association list;  tags[k] = append(tags[k], v) *)
Definition tagmap := list (bytes * list bytes).
Fixpoint tag_append (k v : bytes) (m : tagmap) : tagmap :=
  match m with
  | [] => [(k, [v])]
  | (k', vs) :: r => if bytes_eqb k k' then (k', vs ++ [v]) :: r else (k', vs) :: tag_append k v r
  end.
Fixpoint tag_lookup (k : bytes) (m : tagmap) : option (list bytes) :=
  match m with
  | [] => None
  | (k', vs) :: r => if bytes_eqb k k' then Some vs else tag_lookup k r
  end.

Definition default_markers : bytes := [c_plus; c_at].

(* comments.go:34-44, one iteration per line; line[0] is guarded by len(line) != 0 and
   line[1:] is taken on a non-empty line only, so no access can fail. *)
Fixpoint extract_loop (fix_kv : bool) (markers : bytes) (lines : list bytes) (tags : tagmap) (others : list bytes)
  : tagmap * list bytes :=
  match lines with
  | [] => (tags, others)
  | line0 :: rest =>
      let line := trim_sp line0 in
      match line with
      | c :: payload =>
          if one_of markers c then
            let '(k, v) := split_kv fix_kv payload in
            extract_loop fix_kv markers rest (tag_append k v tags) others
          else extract_loop fix_kv markers rest tags (others ++ [line])
      | [] => extract_loop fix_kv markers rest tags (others ++ [line])
      end
  end.

(* comments.go:27-47 *)
Definition extract_tags (fix_kv : bool) (markers : bytes) (lines : list bytes) : tagmap * list bytes :=
  extract_loop fix_kv (if is_nil markers then default_markers else markers) lines [] [].

(* ------------------------------------------------------------------ *)
(* package.go: commentLinesFrom                                        *)
(* ------------------------------------------------------------------ *)

(* strings.TrimSpace: ASCII white space, and the Unicode White_Space characters in their UTF-8
   encoding (U+0085, U+00A0, U+1680, U+2000-U+200A, U+2028, U+2029, U+202F, U+205F, U+3000). *)
Definition is_ascii_space (c : ascii) : bool :=
  let n := N_of_ascii c in ((9 <=? n) && (n <=? 13))%N || (n =? 32)%N.

Definition b (n : N) : ascii := ascii_of_N n.

(* length of the white-space character at the head of s (0 = none) *)
Definition space_head (s : bytes) : nat :=
  match s with
  | [] => 0
  | c :: r =>
      if is_ascii_space c then 1 else
      let n := N_of_ascii c in
      match r with
      | c1 :: r1 =>
          let n1 := N_of_ascii c1 in
          if (n =? 194)%N && ((n1 =? 133) || (n1 =? 160))%N then 2 else
          match r1 with
          | c2 :: _ =>
              let n2 := N_of_ascii c2 in
              if (n =? 225)%N && (n1 =? 154)%N && (n2 =? 128)%N then 3
              else if (n =? 226)%N && (n1 =? 128)%N &&
                      (((128 <=? n2) && (n2 <=? 138)) || (n2 =? 168) || (n2 =? 169) || (n2 =? 175))%N then 3
              else if (n =? 226)%N && (n1 =? 129)%N && (n2 =? 159)%N then 3
              else if (n =? 227)%N && (n1 =? 128)%N && (n2 =? 128)%N then 3
              else 0
          | [] => 0
          end
      | [] => 0
      end
  end.

Fixpoint trim_left_space (fuel : nat) (s : bytes) : bytes :=
  match fuel with
  | O => s
  | S f => match space_head s with
           | O => s
           | n => trim_left_space f (skipn n s)
           end
  end.

(* the same test on the reversed string: the multi-byte sequences are matched back to front *)
Definition space_last (r : bytes) : nat :=
  match r with
  | [] => 0
  | c :: _ =>
      if is_ascii_space c then 1 else
      match r with
      | c1 :: c0 :: r1 =>
          if Nat.eqb (space_head [c0; c1]) 2 then 2 else
          match r1 with
          | cm :: _ => if Nat.eqb (space_head [cm; c0; c1]) 3 then 3 else 0
          | [] => 0
          end
      | _ => 0
      end
  end.

Fixpoint trim_left_space_rev (fuel : nat) (r : bytes) : bytes :=
  match fuel with
  | O => r
  | S f => match space_last r with
           | O => r
           | n => trim_left_space_rev f (skipn n r)
           end
  end.

Definition trim_space (s : bytes) : bytes :=
  let l := trim_left_space (length s) s in
  rev (trim_left_space_rev (length l) (rev l)).

(* strings.Split(s, "\n"): always at least one element *)
Fixpoint split_nl_acc (s cur : bytes) : list bytes :=
  match s with
  | [] => [rev cur]
  | c :: r => if Ascii.eqb c c_nl then rev cur :: split_nl_acc r [] else split_nl_acc r (c :: cur)
  end.
Definition split_nl (s : bytes) : list bytes := split_nl_acc s [].

Fixpoint has_prefix (p s : bytes) : bool :=
  match p, s with
  | [], _ => true
  | a :: p', c :: s' => Ascii.eqb a c && has_prefix p' s'
  | _ :: _, [] => false
  end.

Definition go_colon : bytes := [b 103; b 111; b 58].   (* "go:" *)

(* package.go:396-408 for one non-nil group, given the result of commentGroup.Text() *)
Definition group_lines (fix_empty : bool) (text : bytes) : list bytes :=
  let t := trim_space text in
  if fix_empty && is_nil t then []
  else filter (fun l => negb (has_prefix go_colon l)) (split_nl t).

(* ------------------------------------------------------------------ *)
(* package.go: the two indexes                                         *)
(* ------------------------------------------------------------------ *)

Record pos := mk_pos { p_file : N; p_line : Z; p_col : N }.
Definition pos_eqb (a c : pos) : bool :=
  N.eqb (p_file a) (p_file c) && Z.eqb (p_line a) (p_line c) && N.eqb (p_col a) (p_col c).

(* ast.CommentGroup: where it starts, the line it ends on, and Text() *)
Record group := mk_group { g_pos : pos; g_end : Z; g_text : bytes }.
Definition group_eqb (a c : group) : bool :=
  pos_eqb (g_pos a) (g_pos c) && Z.eqb (g_end a) (g_end c) && bytes_eqb (g_text a) (g_text c).

(* ValueSpec / ImportSpec / TypeSpec / Field: x.Pos(), the lines of its names, x.Doc, x.Comment *)
Record decl := mk_decl { d_pos : pos; d_names : list Z; d_doc : option group; d_cmt : option group }.

(* what the ast.Inspect callback (package.go:149-195) reacts to, in walk order *)
Inductive event := EGroup (g : group) | EDecl (d : decl).

Definition key := (N * Z)%type.                       (* fileLine *)
Definition key_eqb (a c : key) : bool := N.eqb (fst a) (fst c) && Z.eqb (snd a) (snd c).

(* map[fileLine]*ast.CommentGroup; a present key may hold nil *)
Definition gmap := list (key * option group).
Fixpoint glookup (k : key) (m : gmap) : option (option group) :=
  match m with
  | [] => None
  | (k', v) :: r => if key_eqb k k' then Some v else glookup k r
  end.
Fixpoint gset (k : key) (v : option group) (m : gmap) : gmap :=
  match m with
  | [] => [(k, v)]
  | (k', v') :: r => if key_eqb k k' then (k', v) :: r else (k', v') :: gset k v r
  end.
(* m[k] in Go: nil when the key is absent or holds nil *)
Definition gget (k : key) (m : gmap) : option group :=
  match glookup k m with Some v => v | None => None end.

Record index := mk_index {
  ix_lead : gmap;            (* endLineToCommentGroup *)
  ix_trail : gmap;           (* endLineToTrailingCommentGroup *)
  ix_seen : list group       (* the repair: groups registered as trailing *)
}.
Definition empty_index : index := mk_index [] [] [].

Fixpoint gmem (g : group) (l : list group) : bool :=
  match l with [] => false | x :: r => group_eqb g x || gmem g r end.

(* the key computed at package.go:96-103 *)
Definition key_for (c : option group) (is_trailing : bool) (stmt : pos) : key :=
  match c with
  | Some g =>
      if pos_eqb (g_pos g) stmt then (p_file (g_pos g), g_end g)       (* stmt is the CommentGroup *)
      else if negb is_trailing then (p_file stmt, (p_line stmt - 1)%Z)
      else (p_file stmt, p_line stmt)
  | None =>
      if negb is_trailing then (p_file stmt, (p_line stmt - 1)%Z) else (p_file stmt, p_line stmt)
  end.

(* collectCommentGroup, package.go:95-114 (first writer wins; a nil value may be overwritten;
   nil is inserted when nothing was there) *)
Definition collect (fix_trail : bool) (ix : index) (c : option group) (is_trailing : bool) (stmt : pos)
  : index :=
  let seen :=
    match c with
    | Some g => if fix_trail && is_trailing then g :: ix_seen ix else ix_seen ix
    | None => ix_seen ix
    end in
  let fl := key_for c is_trailing stmt in
  if is_trailing then
    match gget fl (ix_trail ix) with
    | None => mk_index (ix_lead ix) (gset fl c (ix_trail ix)) seen
    | Some _ => mk_index (ix_lead ix) (ix_trail ix) seen
    end
  else
    match gget fl (ix_lead ix) with
    | None => mk_index (gset fl c (ix_lead ix)) (ix_trail ix) seen
    | Some _ => mk_index (ix_lead ix) (ix_trail ix) seen
    end.

(* one callback of the walk, package.go:179-192 *)
Definition step (fix_trail : bool) (ix : index) (e : event) : index :=
  match e with
  | EGroup g =>
      if fix_trail && gmem g (ix_seen ix) then ix      (* a trailing comment is not a doc *)
      else collect fix_trail ix (Some g) false (g_pos g)
  | EDecl d =>
      collect fix_trail (collect fix_trail ix (d_doc d) false (d_pos d)) (d_cmt d) true (d_pos d)
  end.

Definition build (fix_trail : bool) (evs : list event) : index := fold_left (step fix_trail) evs empty_index.

(* priorCommentLines, package.go:373-384 *)
Definition prior (ix : index) (file : N) (line : Z) (delta : Z) : option group :=
  let k := (file, (line + delta)%Z) in
  if Z.eqb delta 0 then
    match glookup k (ix_trail ix) with
    | Some v => v
    | None => gget k (ix_lead ix)
    end
  else gget k (ix_lead ix).

(* commentLinesFrom applied to the one group priorCommentLines returned (nil is skipped) *)
Definition lines_of (fix_empty : bool) (g : option group) : list bytes :=
  match g with
  | None => []
  | Some g => group_lines fix_empty (g_text g)
  end.

(* Doc and Comment, package.go:365-371 *)
Definition doc_of (fix_empty fix_kv : bool) (ix : index) (file : N) (line : Z) : tagmap * list bytes :=
  extract_tags fix_kv [] (lines_of fix_empty (prior ix file line (-1))).
Definition comment_of (fix_empty : bool) (ix : index) (file : N) (line : Z) : list bytes :=
  lines_of fix_empty (prior ix file line 0).
