(* RenderStack — the rendering-side models CONNECTED.

   Until now the rendering properties were proved over separately written models that treat each
   other abstractly:
     Model/Snippet.v   (C09)  T / Sprintf / Comment / ... ; what %v, %T, ID(x), Value(x) render to is DATA
     Model/ValueLit.v  (C10)  Dumper.ValueLit ; the import names are a function [local]
     Model/TypeLit.v   (C11)  Dumper.TypeLit / ident.Frag / rawNamer.Name ; tracker = [pick], ParseTypeRef = [parse_tref]
     Model/TypeRef.v   (C15)  ParseTypeRef / processName / snippet.ID(string) ; tracker = abstract [add], [local_name]
     Model/Tracker.v   (C03)  the real import tracker
     Model/GenFile.v   (C01)  assemble(header, package clause, import block, body)
   This file contains NO new model of Go code below the snippet level: it instantiates the abstract
   parameters of one model with the definitions of another, and (part 2) gives the snippet scanners
   of C09 the tracker state to thread.  Definitions only; proofs in Proofs/RenderStack*.v.

   Part 1: the concrete tracker.
     [cadd], [cname], [cpaths]    C15's abstract tracker := C03's [add] / [lookup_or_empty .. p2n] / keys of p2n
     [tr_of], [pick_c03]          C11's [pick] := the name C03's [add] binds in the tracker that the renv stands for
     [parse_c15]                  C11's [parse_tref] := C15's [parse_type_ref true]
   The real tracker of the tree is the instance  pre := universe_names, std := Some std_tr
   (Gen/StdList.v, regenerated from the repository and the toolchain on every run). *)
Require Import Gengo.Base.Bytes.
Require Gengo.Model.GoIdent Gengo.Model.Tracker Gengo.Model.TrackerSpec.
Require Gengo.Model.TypeLit Gengo.Model.TypeRef Gengo.Gen.StdList.

Module Tk := Gengo.Model.Tracker.
Module TL := Gengo.Model.TypeLit.
Module TR := Gengo.Model.TypeRef.

(* ------------------------------------------------------------------------------------------ *)
(* Part 1 — the concrete import tracker behind C11's and C15's abstract ones                    *)
(* ------------------------------------------------------------------------------------------ *)

Section Concrete.
  Variable pre : list bytes.              (* the names bind refuses outright (types.Universe) *)
  Variable std : option Tk.tracker.       (* the reserved-name table (std.go) *)

  (* ImportTracker.AddType(Ref(p, _)) of the repaired code.  [Tk.add] is total (Proofs/Tracker.v
     add_total: never Panic, the numbered loop never runs out of fuel), so the second branch is dead. *)
  Definition cadd (tr : Tk.tracker) (p : bytes) : Tk.tracker :=
    match Tk.add true pre std tr p with Ok tr' => tr' | _ => tr end.

  (* LocalNameOf(p) *)
  Definition cname (tr : Tk.tracker) (p : bytes) : bytes := Tk.lookup_or_empty p (Tk.p2n tr).

  (* the registered paths: the keys of Imports() *)
  Definition cpaths (tr : Tk.tracker) : list bytes := map fst (Tk.p2n tr).

  (* C11 keeps the tracker as the association list Imports() in insertion order (new entries at the
     END); C03's record conses new entries at the FRONT of both maps. *)
  Definition swap (e : bytes * bytes) : bytes * bytes := (snd e, fst e).
  Definition tr_of (e : TL.renv) : Tk.tracker := Tk.mk_tracker (rev e) (map swap (rev e)).

  (* the name the tracker gives a path that is not registered yet *)
  Definition pick_c03 (p : bytes) (e : TL.renv) : option bytes :=
    match TL.alookup p e with
    | Some _ => None                      (* registered: [TL.tr_add] never asks *)
    | None =>
        match Tk.add true pre std (tr_of e) p with
        | Ok tr' => Tk.lookup p (Tk.p2n tr')
        | _ => None
        end
    end.
End Concrete.

(* the tracker of the current tree *)
Definition the_pre : list bytes := Gengo.Gen.StdList.universe_names.
Definition the_std : option Tk.tracker := Some Gengo.Gen.StdList.std_tr.
Definition the_add := cadd the_pre the_std.
Definition the_pick := pick_c03 the_pre the_std.

(* ---- C11's tref (mutual inductive) <-> C15's tref (list of arguments) ---- *)
Fixpoint to15 (t : TL.tref) : TR.tref :=
  match t with TL.TRef p n a => TR.TRef p n (to15s a) end
with to15s (l : TL.trefs) : list TR.tref :=
  match l with TL.TRNil => [] | TL.TRCons t r => to15 t :: to15s r end.

Fixpoint of15 (t : TR.tref) : TL.tref :=
  match t with
  | TR.TRef p n a =>
      TL.TRef p n ((fix go (l : list TR.tref) : TL.trefs :=
                      match l with [] => TL.TRNil | x :: r => TL.TRCons (of15 x) (go r) end) a)
  end.
Fixpoint of15s (l : list TR.tref) : TL.trefs :=
  match l with [] => TL.TRNil | x :: r => TL.TRCons (of15 x) (of15s r) end.

(* types.ParseTypeRef of the repaired code (C15), as C11's model consumes it: None = error *)
Definition parse_c15 (s : bytes) : option TL.tref :=
  match TR.parse_type_ref true s with
  | Ok (TR.PT t) => Some (of15 t)
  | _ => None
  end.
