(* RenderStack — the rendering-side models CONNECTED.

   Until now the rendering properties were proved over separately written models that treat each
   other abstractly:
     Model/Snippet.v   (C09)  T / Sprintf / Comment / ... ; what %v, %T, ID(x), Value(x) render to is DATA
     Model/ValueLit.v  (C10)  Dumper.ValueLit ; the import names are a function [local]
     Model/TypeLit.v   (C11)  Dumper.TypeLit / ident.Frag / rawNamer.Name ; tracker = [pick], ParseTypeRef = [parse_tref]
     Model/TypeRef.v   (C15)  ParseTypeRef / processName / snippet.ID(string) ; tracker = abstract [add], [local_name]
     Model/Tracker.v   (C03)  the real import tracker
     Model/GenFile.v   (C01)  assemble(header, package clause, import block, body)
   This file contains NO new model of Go code below the snippet level: it instantiates the abstract
   parameters of one model with the definitions of another, and (part 2) gives the snippet scanners
   of C09 the tracker state to thread.  Definitions only; proofs in Proofs/RenderStack*.v.

   Part 1: the concrete tracker.
     [cadd], [cname], [cpaths]    C15's abstract tracker := C03's [add] / [lookup_or_empty .. p2n] / keys of p2n
     [tr_of], [pick_c03]          C11's [pick] := the name C03's [add] binds in the tracker that the renv stands for
     [parse_c15]                  C11's [parse_tref] := C15's [parse_type_ref true]
   The real tracker of the tree is the instance  pre := universe_names, std := Some std_tr
   (Gen/StdList.v, regenerated from the repository and the toolchain on every run). *)
Require Import Gengo.Base.Bytes.
Require Gengo.Model.GoIdent Gengo.Model.Tracker Gengo.Model.TrackerSpec.
Require Gengo.Model.TypeLit Gengo.Model.TypeRef Gengo.Gen.StdList.

Module Tk := Gengo.Model.Tracker.
Module TL := Gengo.Model.TypeLit.
Module TR := Gengo.Model.TypeRef.

(* ------------------------------------------------------------------------------------------ *)
(* Part 1 — the concrete import tracker behind C11's and C15's abstract ones                    *)
(* ------------------------------------------------------------------------------------------ *)

Section Concrete.
  Variable pre : list bytes.              (* the names bind refuses outright (types.Universe) *)
  Variable std : option Tk.tracker.       (* the reserved-name table (std.go) *)

  (* ImportTracker.AddType(Ref(p, _)) of the repaired code.  [Tk.add] is total (Proofs/Tracker.v
     add_total: never Panic, the numbered loop never runs out of fuel), so the second branch is dead. *)
  Definition cadd (tr : Tk.tracker) (p : bytes) : Tk.tracker :=
    match Tk.add true pre std tr p with Ok tr' => tr' | _ => tr end.

  (* LocalNameOf(p) *)
  Definition cname (tr : Tk.tracker) (p : bytes) : bytes := Tk.lookup_or_empty p (Tk.p2n tr).

  (* the registered paths: the keys of Imports() *)
  Definition cpaths (tr : Tk.tracker) : list bytes := map fst (Tk.p2n tr).

  (* C11 keeps the tracker as the association list Imports() in insertion order (new entries at the
     END); C03's record conses new entries at the FRONT of both maps. *)
  Definition swap (e : bytes * bytes) : bytes * bytes := (snd e, fst e).
  Definition tr_of (e : TL.renv) : Tk.tracker := Tk.mk_tracker (rev e) (map swap (rev e)).

  (* the name the tracker gives a path that is not registered yet *)
  Definition pick_c03 (p : bytes) (e : TL.renv) : option bytes :=
    match TL.alookup p e with
    | Some _ => None                      (* registered: [TL.tr_add] never asks *)
    | None =>
        match Tk.add true pre std (tr_of e) p with
        | Ok tr' => Tk.lookup p (Tk.p2n tr')
        | _ => None
        end
    end.
End Concrete.

(* the tracker of the current tree *)
Definition the_pre : list bytes := Gengo.Gen.StdList.universe_names.
Definition the_std : option Tk.tracker := Some Gengo.Gen.StdList.std_tr.
Definition the_add := cadd the_pre the_std.
Definition the_pick := pick_c03 the_pre the_std.

(* ---- C11's tref (mutual inductive) <-> C15's tref (list of arguments) ---- *)
Fixpoint to15 (t : TL.tref) : TR.tref :=
  match t with TL.TRef p n a => TR.TRef p n (to15s a) end
with to15s (l : TL.trefs) : list TR.tref :=
  match l with TL.TRNil => [] | TL.TRCons t r => to15 t :: to15s r end.

Fixpoint of15 (t : TR.tref) : TL.tref :=
  match t with
  | TR.TRef p n a =>
      TL.TRef p n ((fix go (l : list TR.tref) : TL.trefs :=
                      match l with [] => TL.TRNil | x :: r => TL.TRCons (of15 x) (go r) end) a)
  end.
Fixpoint of15s (l : list TR.tref) : TL.trefs :=
  match l with [] => TL.TRNil | x :: r => TL.TRCons (of15 x) (of15s r) end.

(* types.ParseTypeRef of the repaired code (C15), as C11's model consumes it: None = error *)
Definition parse_c15 (s : bytes) : option TL.tref :=
  match TR.parse_type_ref true s with
  | Ok (TR.PT t) => Some (of15 t)
  | _ => None
  end.

(* ------------------------------------------------------------------------------------------ *)
(* Part 2 — C09's scanners with the tracker state threaded through                              *)
(* ------------------------------------------------------------------------------------------ *)
(* Model/Snippet.v treats what an argument renders to as a value [res bytes].  In the code an
   argument is rendered AT THE MOMENT the scanner reaches its placeholder / verb (Frag returns a
   lazy iter.Seq), and rendering a Value / ID / PkgExpose leaf calls ImportTracker.AddType: an
   argument that is bound but never referenced registers nothing, one that is referenced twice is
   rendered twice (the second time against the state the first left).  So here an argument is a
   state transformer [St -> res (bytes * St)]; the loops are those of Model/Snippet.v for the
   repaired code ([all_fixed] — the tree this development checks has every fixes/C09-*.diff in),
   same names with the suffix _st.  [St] is generic (the proofs never look into it). *)
Require Gengo.Model.Snippet.
Module Sn := Gengo.Model.Snippet.

Section Stateful.
  Variable St : Type.

  Definition rs := St -> res (bytes * St).

  Definition ret_st (b : bytes) : rs := fun e => Ok (b, e).
  Definition panic_st : rs := fun _ => Panic.
  Definition emit_st (b : bytes) (k : rs) : rs := fun e => let! (r, e') := k e in Ok (b ++ r, e').
  Definition emitr_st (o k : rs) : rs :=
    fun e => let! (a, e1) := o e in let! (r, e2) := k e1 in Ok (a ++ r, e2).

  (* what a scanner knows about an argument (Sn.aview / Sn.sview with state) *)
  Inductive aview_st := AVNilS | AVS (isnil : bool) (out : rs).
  Inductive sview_st := SVSnipS (out : rs) | SVRawS (vlit tid : rs).

  Section TemplateSt.
    Variable args : list (bytes * aview_st).

    (* printer__template.go:136-146 *)
    Definition tail_st (named_nonempty : bool) (c : option ascii) (k : rs) : rs :=
      match c with
      | None => ret_st []
      | Some c =>
          if Ascii.eqb c Sn.c_at then k
          else if Ascii.eqb c Sn.c_apos then (if negb named_nonempty then emit_st [c] k else k)
          else emit_st [c] k
      end.

    (* printer__template.go:118-134 *)
    Definition after_name_st (named : bytes) (c : option ascii) (k : rs) : rs :=
      match named with
      | [] => emit_st [Sn.c_at] (tail_st false c k)
      | _ =>
          match Sn.lookup named args with
          | None => panic_st                                   (* missing named arg *)
          | Some AVNilS => tail_st true c k                    (* v == nil *)
          | Some (AVS isnil out) =>
              if isnil then tail_st true c k else emitr_st out (tail_st true c k)
          end
      end.

    Fixpoint scan_st (s : bytes) : rs :=
      match s with
      | [] => ret_st []
      | c :: r => if Ascii.eqb c Sn.c_at then name_loop_st r [] else emit_st [c] (scan_st r)
      end
    with name_loop_st (r : bytes) (named : bytes) : rs :=
      match r with
      | [] => after_name_st named None (ret_st [])
      | c :: r' =>
          if Ascii.eqb c Sn.c_apos then after_name_st named (Some c) (scan_st r')
          else if Sn.is_name c then name_loop_st r' (named ++ [c])
          else after_name_st named (Some c) (if Ascii.eqb c Sn.c_at then name_loop_st r' [] else scan_st r')
      end.

    Definition tpl_st (format : bytes) : rs := scan_st (Sn.sc_view (Sn.trim_nl format)).
  End TemplateSt.

  (* printer.go:49-108 *)
  Fixpoint sp_scan_st (s : bytes) (args : list sview_st) {struct s} : rs :=
    match s with
    | [] => ret_st []
    | c :: r =>
        if Ascii.eqb c Sn.c_pct then
          match r with
          | [] => panic_st
          | d :: r' =>
              if Ascii.eqb d Sn.c_T then
                match args with
                | [] => panic_st
                | a :: args' => emitr_st (match a with SVSnipS o => o | SVRawS _ t => t end) (sp_scan_st r' args')
                end
              else if Ascii.eqb d Sn.c_v then
                match args with
                | [] => panic_st
                | a :: args' => emitr_st (match a with SVSnipS o => o | SVRawS v _ => v end) (sp_scan_st r' args')
                end
              else if Ascii.eqb d Sn.c_pct then emit_st [Sn.c_pct] (sp_scan_st r' args)
              else panic_st
          end
        else emit_st [c] (sp_scan_st r args)
    end.
  Definition sp_st (format : bytes) (args : list sview_st) : rs := sp_scan_st (Sn.sc_view format) args.

  (* ---- the term language: Sn.snip with structured leaves ---- *)
  Variable leaf : Type.                  (* Value(x) / ID(x) / PkgExpose(p, n) as a snippet *)
  Variable raw : Type.                   (* a non-Snippet argument of Sprintf *)
  Variable leaf_isnil : leaf -> bool.    (* IsNil() *)
  Variable leaf_frag : leaf -> rs.       (* Frag, forced *)
  Variable raw_v : raw -> rs.            (* Value(x).Frag : what %v does with it *)
  Variable raw_t : raw -> rs.            (* ID(x).Frag    : what %T does with it *)

  Inductive rsnip :=
  | RNil
  | RBlock (b : bytes)
  | RT (f : bytes) (args : list (bytes * rsnip))
  | RSprintf (f : bytes) (args : list rsnip)       (* an [RRaw] element is a non-Snippet argument *)
  | RRaw (a : raw)                                 (* ONLY as a Sprintf argument *)
  | RComment (v : bytes)
  | RDirective (d : bytes) (args : list bytes)
  | RSnippets (l : list rsnip)
  | RFragments (s : rsnip)
  | RLeaf (l : leaf).

  Definition risnil_of (s : rsnip) : bool :=
    match s with
    | RNil => true
    | RBlock b => is_nil b
    | RT f _ => is_nil f
    | RSprintf f _ => is_nil f
    | RLeaf l => leaf_isnil l
    | _ => false
    end.

  Definition view_of_st (fr : rsnip -> rs) (v : rsnip) : aview_st :=
    match v with
    | RNil => AVNilS
    | _ => AVS (risnil_of v) (fr v)
    end.

  Definition sview_of_st (fr : rsnip -> rs) (v : rsnip) : sview_st :=
    match v with
    | RRaw a => SVRawS (raw_v a) (raw_t a)
    | _ => SVSnipS (fr v)
    end.

  (* snippet.go:37-51 (repaired: a nil element is skipped) *)
  Definition snippets_loop_st (fr : rsnip -> rs) : list rsnip -> rs :=
    fix go (l : list rsnip) : rs :=
      match l with
      | [] => ret_st []
      | c :: r => if risnil_of c then go r else emitr_st (fr c) (go r)
      end.

  Fixpoint rfrag (s : rsnip) : rs :=
    match s with
    | RNil => panic_st
    | RBlock b => ret_st b
    | RT f args => tpl_st (map (fun p => (fst p, view_of_st rfrag (snd p))) args) f
    | RSprintf f args => sp_st f (map (sview_of_st rfrag) args)
    | RRaw _ => panic_st
    | RComment v => ret_st (Sn.comment_impl v)
    | RDirective d args => ret_st (Sn.directive_impl d args)
    | RSnippets l => snippets_loop_st rfrag l
    | RFragments x => if risnil_of x then ret_st [] else rfrag x
    | RLeaf l => leaf_frag l
    end.

  (* snippetWriter.Render *)
  Definition rrender (s : rsnip) : rs :=
    match s with
    | RNil => ret_st []
    | _ => if risnil_of s then ret_st [] else rfrag s
    end.

  (* a sequence of Render calls into one writer: the body of a generated file *)
  Fixpoint rrender_all (l : list rsnip) : rs :=
    match l with
    | [] => ret_st []
    | s :: r => emitr_st (rrender s) (rrender_all r)
    end.

  (* ---- erasure: the C09 term whose observed sub-renderings are what the leaves render to in [tbl] ---- *)
  Definition r2o (r : res (bytes * St)) : option bytes := match r with Ok (b, _) => Some b | _ => None end.

  Fixpoint erase (tbl : St) (s : rsnip) : Sn.snip :=
    match s with
    | RNil => Sn.SNil
    | RBlock b => Sn.SBlock b
    | RT f args => Sn.ST f (map (fun p => (fst p, erase tbl (snd p))) args)
    | RSprintf f args => Sn.SSprintf f (map (erase tbl) args)
    | RRaw a => Sn.SVal (r2o (raw_v a tbl)) (r2o (raw_t a tbl))
    | RComment v => Sn.SComment v
    | RDirective d args => Sn.SDirective d args
    | RSnippets l => Sn.SSnippets (map (erase tbl) l)
    | RFragments x => Sn.SFragments (erase tbl x)
    | RLeaf l => Sn.SOpaque (leaf_isnil l) (r2o (leaf_frag l tbl))
    end.
End Stateful.

(* ---- the declarative side, with state: C09's tokenise-then-substitute (Model/SnippetSpec.v) where a hole /
   a verb stands for a state transformer.  Nothing here follows the scanner loops. ---- *)
Require Gengo.Model.SnippetSpec.
Module SS := Gengo.Model.SnippetSpec.

Section StatefulSpec.
  Variable St : Type.
  Notation rs := (rs St).

  Definition piece_st (args : list (bytes * aview_st St)) (t : SS.tok) : rs :=
    match t with
    | SS.Lit c => ret_st St [c]
    | SS.Hole n _ =>
        match Sn.lookup n args with
        | None => panic_st St
        | Some (AVNilS _) => ret_st St []
        | Some (AVS _ isnil out) => if isnil then ret_st St [] else out
        end
    end.
  Fixpoint subst_st (args : list (bytes * aview_st St)) (ts : list SS.tok) : rs :=
    match ts with
    | [] => ret_st St []
    | t :: r => emitr_st St (piece_st args t) (subst_st args r)
    end.

  Fixpoint ssubst_st (ts : list SS.stok) (args : list (sview_st St)) : rs :=
    match ts with
    | [] => ret_st St []
    | t :: r =>
        match t with
        | SS.KLit c => emit_st St [c] (ssubst_st r args)
        | SS.KPct => emit_st St [Sn.c_pct] (ssubst_st r args)
        | SS.KV => match args with
                   | [] => panic_st St
                   | a :: args' => emitr_st St (match a with SVSnipS _ o => o | SVRawS _ v _ => v end) (ssubst_st r args')
                   end
        | SS.KT => match args with
                   | [] => panic_st St
                   | a :: args' => emitr_st St (match a with SVSnipS _ o => o | SVRawS _ _ t => t end) (ssubst_st r args')
                   end
        | SS.KBad _ => panic_st St
        end
    end.

  (* ---- which packages a term refers to: the packages of the leaves that are RENDERED — a leaf bound to a name
     no placeholder mentions, or left over after the last verb, is not; one mentioned twice counts once (sets) ---- *)
  Variables leaf raw : Type.
  Variable leaf_isnil : leaf -> bool.
  Variable leaf_pkgs : leaf -> list bytes.        (* foreign packages a leaf refers to *)
  Variable raw_v_pkgs raw_t_pkgs : raw -> list bytes.   (* ... a raw argument under %v / under %T *)
  Notation rsnip := (rsnip leaf raw).

  (* packages per verb: the verbs consume the arguments left to right *)
  Fixpoint verb_pkgs (ts : list SS.stok) (args : list (list bytes * list bytes)) : list bytes :=
    match ts with
    | [] => []
    | SS.KV :: r => match args with [] => [] | a :: args' => fst a ++ verb_pkgs r args' end
    | SS.KT :: r => match args with [] => [] | a :: args' => snd a ++ verb_pkgs r args' end
    | SS.KBad _ :: _ => []
    | _ :: r => verb_pkgs r args
    end.

  Fixpoint rpkgs (s : rsnip) : list bytes :=
    match s with
    | RT _ _ f args =>
        let tbl := map (fun p => (fst p, if risnil_of leaf raw leaf_isnil (snd p) then [] else rpkgs (snd p))) args in
        flat_map (fun t => match t with
                           | SS.Hole n _ => match Sn.lookup n tbl with Some l => l | None => [] end
                           | SS.Lit _ => []
                           end) (SS.tokenize (Sn.sc_view (Sn.trim_nl f)))
    | RSprintf _ _ f args =>
        verb_pkgs (SS.stokenize (Sn.sc_view f))
          (map (fun a => match a with
                         | RRaw _ _ x => (raw_v_pkgs x, raw_t_pkgs x)
                         | _ => (rpkgs a, rpkgs a)
                         end) args)
    | RSnippets _ _ l => flat_map (fun c => if risnil_of leaf raw leaf_isnil c then [] else rpkgs c) l
    | RFragments _ _ x => if risnil_of leaf raw leaf_isnil x then [] else rpkgs x
    | RLeaf _ _ l => leaf_pkgs l
    | _ => []
    end.

  Definition rpkgs_render (s : rsnip) : list bytes :=
    if risnil_of leaf raw leaf_isnil s then [] else rpkgs s.
End StatefulSpec.

(* ------------------------------------------------------------------------------------------ *)
(* Part 3 — the leaves: C10's ValueLit and C11's ident.Frag / TypeLit against the tracker state  *)
(* ------------------------------------------------------------------------------------------ *)
Require Gengo.Model.ValueLit.
Module VL := Gengo.Model.ValueLit.

(* what github.com/octohelm/x/types.FromRType shows of a reflect.Type of C10's universe: the bridge from C10's
   [gotype] to the [tyview] C11's TypeLit consumes (no tags, no embedded fields in that universe) *)
Fixpoint gview (t : VL.gotype) : TL.tyview :=
  match t with
  | VL.TNamed p n _ => TL.VNamed p n
  | VL.TPtr e => TL.VPtr (gview e)
  | VL.TSlice e => TL.VSlice (gview e)
  | VL.TArray n e => TL.VArray (N.of_nat n) (gview e)
  | VL.TMap k e => TL.VMap (gview k) (gview e)
  | VL.TStruct fs =>
      TL.VStruct ((fix go (l : list (bytes * VL.gotype)) : TL.vfields :=
                     match l with
                     | [] => TL.VFNil
                     | f :: r => TL.VFCons (fst f) false (gview (snd f)) [] (go r)
                     end) fs)
  | _ => TL.VOther (VL.kind_name t)
  end.

(* the packages named in a type literal of C10, left to right = the order Dumper.TypeLit asks the namer *)
Fixpoint ty_pkgs (t : VL.tyast) : list bytes :=
  match t with
  | VL.YName p _ => [p]
  | VL.YPtr e | VL.YSlice e | VL.YArray _ e => ty_pkgs e
  | VL.YMap k e => ty_pkgs k ++ ty_pkgs e
  | VL.YStruct fs => flat_map (fun f => ty_pkgs (snd f)) fs
  end.

(* ... and in a value literal, in textual order *)
Fixpoint lit_pkgs (l : VL.lit) : list bytes :=
  match l with
  | VL.LAddr x => lit_pkgs x
  | VL.LPtrClosure ty a => ty_pkgs ty ++ lit_pkgs a
  | VL.LComposite ty es => ty_pkgs ty ++ flat_map (fun e => lit_pkgs (fst e) ++ lit_pkgs (snd e)) es
  | _ => []
  end.

Definition all2 {A B} (f : A -> B -> bool) : list A -> list B -> bool :=
  fix go (ts : list A) (vs : list B) {struct vs} : bool :=
    match vs, ts with
    | x :: vr, t :: tr => f t x && go tr vr
    | _, _ => true
    end.

Definition cat2 {A B C} (f : A -> B -> list C) : list A -> list B -> list C :=
  fix go (ts : list A) (vs : list B) {struct vs} : list C :=
    match vs, ts with
    | x :: vr, t :: tr => f t x ++ go tr vr
    | _, _ => []
    end.

(* entries sorted by key text (stable insertion sort, the order sort.Strings gives the keys) *)
Fixpoint insert_kv {A} (e : bytes * A) (l : list (bytes * A)) : list (bytes * A) :=
  match l with
  | [] => [e]
  | y :: r => if VL.bytes_leb (fst e) (fst y) then e :: l else y :: insert_kv e r
  end.
Definition sort_kv {A} (l : list (bytes * A)) : list (bytes * A) := fold_right insert_kv [] l.

(* ---- the package paths ident.Frag hands to AddType, in call order, read off the argument alone ---- *)
Section IdRegs.
  Variable self : bytes.
  Variable parse : bytes -> option TL.tref.

  (* processName's Walk: pre-order; own package and path-less nodes are not registered *)
  Fixpoint tref_regs (t : TL.tref) : list bytes :=
    match t with
    | TL.TRef pkg _ args =>
        (if is_nil pkg then [] else if bytes_eqb pkg self then [] else [pkg]) ++ trefs_regs args
    end
  with trefs_regs (l : TL.trefs) : list bytes :=
    match l with
    | TL.TRNil => []
    | TL.TRCons t r => tref_regs t ++ trefs_regs r
    end.

  (* rawNamer.Name: the type arguments first, then the type's own package *)
  Definition name_regs (pkg name : bytes) : list bytes :=
    match parse name with
    | None => []
    | Some (TL.TRef _ _ TL.TRNil) => []
    | Some t => tref_regs t
    end ++ (if bytes_eqb pkg self then [] else [pkg]).

  Fixpoint view_regs (v : TL.tyview) : list bytes :=
    match v with
    | TL.VNamed p n => name_regs p n
    | TL.VPtr x | TL.VChan x | TL.VArray _ x | TL.VSlice x => view_regs x
    | TL.VMap k x => view_regs k ++ view_regs x
    | TL.VStruct fs => fields_regs fs
    | TL.VIface _ | TL.VOther _ => []
    end
  with fields_regs (fs : TL.vfields) : list bytes :=
    match fs with
    | TL.VFNil => []
    | TL.VFCons _ _ t _ rest => view_regs t ++ fields_regs rest
    end.

  Definition idarg_regs (x : TL.idarg) : list bytes :=
    match x with
    | TL.IdAlias s | TL.IdStr s =>
        match TL.parse_ref s with
        | None => []
        | Some (p, n) => name_regs p n
        end
    | TL.IdName p n _ => name_regs p n
    | TL.IdR v | TL.IdT v => view_regs v
    | TL.IdOther => []
    end.
End IdRegs.

Section Leaves.
  Context {F : Type}.
  Variable fzero : F -> bool.
  Variables ffmt gfmt : VL.fkind -> F -> bytes.
  Variable fbig : F -> bool.
  Variable quote : bytes -> bytes.                     (* strconv.Quote *)
  Variable can_backquote : bytes -> bool.              (* strconv.CanBackquote *)
  Variable pick : bytes -> TL.renv -> option bytes.    (* the tracker: [pick_c03 pre std] *)
  Variable self : bytes.                               (* rawNamer.pkgPath *)
  (* [fx6 = true]: with fixes/C10-6-zero-struct-import.diff — a struct that renders as nothing (SubValue, no field
     rendered) no longer asks for its type literal; [false]: the code before (the package of the struct's type, and
     of its field types if it is unnamed, is imported although the text does not mention it) *)
  Variable fx6 : bool.

  Notation renv := TL.renv.
  Notation goval := (VL.goval F).

  Definition is_foreign (p : bytes) : bool := negb (is_nil p) && negb (bytes_eqb p self).

  (* C10's [local]: the qualifier a package path is printed with *)
  Definition local_of (e : renv) (p : bytes) : bytes := if is_foreign p then TL.local_name_of p e else [].
  Definition no_local (_ : bytes) : bytes := [].

  Definition vlit (local : bytes -> bytes) := @VL.value_lit F fzero ffmt gfmt fbig quote local true.

  (* the helper of the repair: ValueLit(rv, SubValue(true)) is the empty text *)
  Fixpoint renders_nothing (t : VL.gotype) (v : goval) {struct v} : bool :=
    match v with
    | VL.VStruct vs =>
        match VL.under t with
        | VL.TStruct fs =>
            all2 (fun (f : bytes * VL.gotype) (x : goval) =>
                    negb (VL.is_exported (fst f)) || VL.is_empty fzero x || renders_nothing (snd f) x) fs vs
        | _ => false
        end
    | _ => false
    end.

  Definition key_text (kt : VL.gotype) (k : goval) : bytes :=
    match vlit no_local false kt k with
    | Ok kl => VL.print_lit quote no_local kl
    | _ => []
    end.

  (* the package paths Dumper.ValueLit hands to the namer (through TypeLit), in call order: the type literal of a
     composite first, then its parts; map keys (in the given order), then the map values in the order of the key texts *)
  Fixpoint value_regs (sub : bool) (t : VL.gotype) (v : goval) {struct v} : list bytes :=
    match v with
    | VL.VPtr x =>
        match VL.under t with
        | VL.TPtr e =>
            if VL.basic_kind true (VL.under e) then ty_pkgs (VL.type_lit e) ++ value_regs sub e x
            else value_regs false e x
        | _ => []
        end
    | VL.VStruct vs =>
        match VL.under t with
        | VL.TStruct fs =>
            if fx6 && sub && renders_nothing t v then []
            else ty_pkgs (VL.type_lit t)
                 ++ cat2 (fun (f : bytes * VL.gotype) (x : goval) =>
                            if VL.is_exported (fst f) && negb (VL.is_empty fzero x) then value_regs true (snd f) x else [])
                      fs vs
        | _ => []
        end
    | VL.VMap _ m =>
        match VL.under t with
        | VL.TMap kt et =>
            ty_pkgs (VL.type_lit t)
            ++ flat_map (fun kv => value_regs false kt (fst kv)) m
            ++ concat (map snd (sort_kv (map (fun kv => (key_text kt (fst kv), value_regs false et (snd kv))) m)))
        | _ => []
        end
    | VL.VSlice _ l =>
        match VL.under t with
        | VL.TSlice e => ty_pkgs (VL.type_lit t) ++ flat_map (value_regs false e) l
        | _ => []
        end
    | VL.VArray l =>
        match VL.under t with
        | VL.TArray _ e => ty_pkgs (VL.type_lit t) ++ flat_map (value_regs false e) l
        | _ => []
        end
    | _ => []
    end.

  (* side condition of "none unused" for maps: the key texts of every map in the value are pairwise distinct (then no
     entry is dropped by the last-write-wins table keyValues).  True of every map whose keys are of a scalar kind
     (C10: key_text_inj). *)
  Definition ktext (local : bytes -> bytes) (kt : VL.gotype) (k : goval) : bytes :=
    match vlit local false kt k with
    | Ok kl => VL.print_lit quote local kl
    | _ => []
    end.

  Fixpoint nodupb (l : list bytes) : bool :=
    match l with
    | [] => true
    | x :: r => negb (existsb (bytes_eqb x) r) && nodupb r
    end.

  Fixpoint keys_distinct (local : bytes -> bytes) (t : VL.gotype) (v : goval) {struct v} : bool :=
    match v with
    | VL.VPtr x => match VL.under t with VL.TPtr e => keys_distinct local e x | _ => true end
    | VL.VStruct vs =>
        match VL.under t with
        | VL.TStruct fs => all2 (fun (f : bytes * VL.gotype) (x : goval) => keys_distinct local (snd f) x) fs vs
        | _ => true
        end
    | VL.VMap _ m =>
        match VL.under t with
        | VL.TMap kt et =>
            nodupb (map (fun kv => ktext local kt (fst kv)) m)
            && forallb (fun kv => keys_distinct local kt (fst kv) && keys_distinct local et (snd kv)) m
        | _ => true
        end
    | VL.VSlice _ l => match VL.under t with VL.TSlice e => forallb (keys_distinct local e) l | _ => true end
    | VL.VArray l => match VL.under t with VL.TArray _ e => forallb (keys_distinct local e) l | _ => true end
    | _ => true
    end.

  Definition add_all (ps : list bytes) (e : renv) : renv := fold_left (fun e p => TL.tr_add pick p e) ps e.

  (* snippet.Value(x).Frag / %v: the literal is C10's, printed with the names of the tracker AFTER the packages of its
     type literals were registered (a name, once handed out, never changes: Proofs C03 stability) *)
  Definition value_frag (t : VL.gotype) (v : goval) : rs renv :=
    fun e =>
      let e' := add_all (filter is_foreign (value_regs false t v)) e in
      let! l := vlit (local_of e') false t v in
      Ok (VL.print_lit quote (local_of e') l, e').

  (* snippet.ID(x).Frag / %T / PkgExpose: C11's model, text = the printed tree *)
  Definition id_frag (x : TL.idarg) : rs renv :=
    fun e =>
      let! (a, e') := TL.ident_frag pick parse_c15 self can_backquote true true x e in
      Ok (TL.print quote a, e').

  Inductive leaf :=
  | LValue (x : option (VL.gotype * goval))      (* snippet.Value(x); None = Value(nil) *)
  | LID (x : option TL.idarg)                    (* snippet.ID(x);    None = ID(nil) *)
  | LExpose (p n : bytes).                       (* snippet.PkgExpose(p, n) *)

  Inductive rawarg :=
  | AVal (t : VL.gotype) (v : goval)             (* a Go value of C10's universe (a string is also a reference for %T) *)
  | ANil                                         (* untyped nil *)
  | AType (x : TL.idarg).                        (* reflect.Type / types.Type / TypeName: meant for %T *)

  Definition leaf_isnil (l : leaf) : bool :=
    match l with LValue None | LID None => true | _ => false end.

  Definition leaf_frag (l : leaf) : rs renv :=
    match l with
    | LValue (Some (t, v)) => value_frag t v
    | LValue None => ret_st renv (bs "nil")      (* ValueLit(nil): !rv.IsValid() *)
    | LID (Some x) => id_frag x
    | LID None => panic_st renv                  (* ident.Frag: default branch, "unspported <nil>" *)
    | LExpose p n => id_frag (TL.IdName p n [])
    end.

  Definition raw_v (a : rawarg) : rs renv :=
    match a with
    | AVal t v => value_frag t v
    | ANil => ret_st renv (bs "nil")
    | AType _ => panic_st renv                   (* NOT MODELLED: ValueLit of a reflect.Type / types.Type value *)
    end.

  Definition raw_t (a : rawarg) : rs renv :=
    match a with
    | AVal VL.TString (VL.VStr s) => id_frag (TL.IdStr s)     (* ident.Frag: case string *)
    | AVal _ _ => panic_st renv                               (* "unspported <type>" *)
    | ANil => panic_st renv
    | AType x => id_frag x
    end.

  (* ---- the packages a leaf refers to, read off the leaf alone ---- *)
  Definition value_pkgs (t : VL.gotype) (v : goval) : list bytes :=
    match vlit no_local false t v with
    | Ok l => filter is_foreign (lit_pkgs l)
    | _ => []
    end.

  Definition leaf_value_regs (t : VL.gotype) (v : goval) : list bytes := filter is_foreign (value_regs false t v).

  (* the packages a leaf hands to AddType when it is rendered (ID / %T leaves: Section IdRegs below) *)
  Definition leaf_regs (l : leaf) : list bytes :=
    match l with
    | LValue (Some (t, v)) => leaf_value_regs t v
    | LID (Some x) => idarg_regs self parse_c15 x
    | LExpose p n => idarg_regs self parse_c15 (TL.IdName p n [])
    | _ => []
    end.
  Definition raw_v_regs (a : rawarg) : list bytes :=
    match a with AVal t v => leaf_value_regs t v | _ => [] end.
  Definition raw_t_regs (a : rawarg) : list bytes :=
    match a with
    | AVal VL.TString (VL.VStr s) => idarg_regs self parse_c15 (TL.IdStr s)
    | AType x => idarg_regs self parse_c15 x
    | _ => []
    end.

  (* the term language and its rendering: everything above plugged into the generic part *)
  Definition csnip := rsnip leaf rawarg.
  Definition crender : csnip -> rs renv := rrender renv leaf rawarg leaf_isnil leaf_frag raw_v raw_t.
  Definition crender_all : list csnip -> rs renv := rrender_all renv leaf rawarg leaf_isnil leaf_frag raw_v raw_t.
  Definition cerase : renv -> csnip -> Sn.snip := erase renv leaf rawarg leaf_isnil leaf_frag raw_v raw_t.
End Leaves.



(* ------------------------------------------------------------------------------------------ *)
(* Part 4 — the generated file: C01's [assemble] over the composed rendering                     *)
(* ------------------------------------------------------------------------------------------ *)
Require Gengo.Model.GenFile.

(* genfile: every Render call of a generator goes into one body buffer through one tracker (fresh per file);
   WriteToFile then assembles header, package clause, the import block of THAT tracker and the body.
   [pkg] = the package's name, [self] = its path, [gen] = the generator's name. *)
Definition cfile {F : Type} (fzero : F -> bool) (ffmt gfmt : VL.fkind -> F -> bytes) (fbig : F -> bool)
    (quote : bytes -> bytes) (cbq : bytes -> bool) (pre : list bytes) (std : option Tk.tracker)
    (self : bytes) (fx6 : bool) (pkg gen : bytes) (frags : list (@csnip F)) : res bytes :=
  let! (body, e') := crender_all fzero ffmt gfmt fbig quote cbq (pick_c03 pre std) self fx6 frags [] in
  Ok (Gengo.Model.GenFile.assemble pkg gen e' body).

(* ---- side condition of the agreement between C10's and C11's models of Dumper.TypeLit on C10's universe:
   named types have a package path and an identifier as name (then ParseTypeRef returns the bare name), and the two
   decimal printers agree on the array lengths that occur (C11 prints with 40 digits of fuel, C10 with Coq's
   decimal conversion; decided by computation for any concrete type) ---- *)
Fixpoint ty_okb (t : VL.gotype) : bool :=
  match t with
  | VL.TNamed p n _ => negb (is_nil p) && TL.is_ident n
  | VL.TPtr e | VL.TSlice e => ty_okb e
  | VL.TArray n e => bytes_eqb (TL.dec (N.of_nat n)) (VL.dec_nat n) && ty_okb e
  | VL.TMap k e => ty_okb k && ty_okb e
  | VL.TStruct fs => forallb (fun f => ty_okb (snd f)) fs
  | _ => true
  end.
