(* The ordered suffix rules of pkg/inflector (internal/rules.go: Rule.Rules, 22 plural + 34 singular
   RuleItem{Pattern, Replacement}) and the part of Rule.inflected that applies them
   (internal/rule.go:72-78):

       for _, re := range r.compiledRules {
           if re.Regexp.MatchString(s) { return re.Regexp.ReplaceAllString(s, re.Replacement) }
       }
       return s

   This file is an executable model of Go's regexp package for exactly the pattern language those
   rules are written in, with Go's (RE2) leftmost-first semantics:

     pattern   ::=  ["(?i)"] alt                      the flag only at the very beginning
     alt       ::=  cat { "|" cat }
     cat       ::=  { atom [ "*" | "+" | "?" ] }      greedy only; no counted repetition
     atom      ::=  "(" alt ")"  |  "(?:" alt ")"  |  "[" ["^"] members "]"  |  "."  |  "^"  |  "$"  |  literal
     members   ::=  ASCII characters, no ranges, no escapes, no nested brackets
     literal   ::=  any ASCII character that is not one of  \ . + * ? ( ) | [ ] { } ^ $

   and of Regexp.expand for the replacement templates ("$1", "${1}", "$$", "$name").

   Patterns and templates are the SOURCE STRINGS of rules.go (Gen/InflectorTables.v); they are parsed
   here, in Coq.  Whatever is outside the language above does not parse and makes [tables_wf] false
   (Model/InflectorApi.v), which fails the build: the model never silently guesses.

   Text is bytes.  The engine steps through the text the way Go's does: rune by rune, where a rune
   is what utf8.DecodeRuneInString returns (an invalid byte is one rune, U+FFFD, of width 1).

   Definitions only. *)
Require Import Gengo.Base.Bytes Gengo.Model.Inflector.

(* ---- abstract syntax ------------------------------------------------------------------- *)

Inductive re :=
| REmpty                               (* matches the empty string *)
| RChar (c : ascii)                    (* one literal ASCII character *)
| RAny                                 (* "."  : any rune but '\n' (flag s is off) *)
| RClass (neg : bool) (members : bytes)(* "[abc]" / "[^abc]" *)
| RBol                                 (* "^"  : beginning of the text (flag m is off) *)
| REol                                 (* "$"  : end of the text *)
| RCat (a b : re)
| RAlt (a b : re)                      (* a preferred over b *)
| RStar (a : re)                       (* greedy *)
| ROpt (a : re)                        (* greedy *)
| RGroup (n : nat) (a : re).           (* capturing group number n (>= 1) *)

(* ---- utf8.DecodeRuneInString: the WIDTH of the first rune of [t] (0 for the empty text) ------ *)

Definition nb (c : ascii) : N := N_of_ascii c.
Definition in_range (lo hi : N) (c : ascii) : bool := N.leb lo (nb c) && N.leb (nb c) hi.
Definition is_cont (c : ascii) : bool := in_range 128 191 c.

Definition rune_width (t : bytes) : nat :=
  match t with
  | [] => 0
  | b0 :: r =>
      if N.ltb (nb b0) 128 then 1
      else if in_range 194 223 b0 then
        match r with b1 :: _ => if is_cont b1 then 2 else 1 | _ => 1 end
      else if in_range 224 239 b0 then
        match r with
        | b1 :: b2 :: _ =>
            let lo : N := (if N.eqb (nb b0) 224 then 160 else 128)%N in
            let hi : N := (if N.eqb (nb b0) 237 then 159 else 191)%N in
            if in_range lo hi b1 && is_cont b2 then 3 else 1
        | _ => 1
        end
      else if in_range 240 244 b0 then
        match r with
        | b1 :: b2 :: b3 :: _ =>
            let lo : N := (if N.eqb (nb b0) 240 then 144 else 128)%N in
            let hi : N := (if N.eqb (nb b0) 244 then 143 else 191)%N in
            if in_range lo hi b1 && is_cont b2 && is_cont b3 then 4 else 1
        | _ => 1
        end
      else 1
  end.

(* ---- one pattern element against the front of the text: Some (bytes consumed, rest) ------ *)

Definition has_prefix (pre t : bytes) : bool :=
  match strip_prefix pre t with Some _ => true | None => false end.

(* a literal: without (?i) the byte itself; with (?i) [eat_fold] (both ASCII cases and, for s and k,
   U+017F and U+212A: unicode.SimpleFold orbits) *)
Definition eat_lit (fold : bool) (c : ascii) (t : bytes) : option (nat * bytes) :=
  if fold then
    match eat_fold c t with
    | Some t' => Some (length t - length t', t')
    | None => None
    end
  else
    match t with
    | x :: r => if byte_eqb x c then Some (1, r) else None
    | [] => None
    end.

(* "." *)
Definition eat_any (t : bytes) : option (nat * bytes) :=
  match t with
  | [] => None
  | x :: _ => if byte_eqb x nl then None else let w := rune_width t in Some (w, skipn w t)
  end.

(* is the first rune of [t] (non-empty) a member of the class?  With (?i) the parser adds to the
   class every rune that folds to a member: the other ASCII case, U+017F for s/S, U+212A for k/K. *)
Definition class_member (fold : bool) (members : bytes) (t : bytes) : bool :=
  match t with
  | [] => false
  | x :: _ =>
      if is_ascii x then
        existsb (fun c => byte_eqb c x || (fold && is_letter c && byte_eqb (to_lower c) (to_lower x))) members
      else
        fold && ((has_prefix long_s t && existsb (fun c => byte_eqb (to_lower c) (b_ 115)) members)
                 || (has_prefix kelvin t && existsb (fun c => byte_eqb (to_lower c) (b_ 107)) members))
  end.

(* "[...]" / "[^...]": a negated class also matches '\n' (syntax.ClassNL is part of syntax.Perl) *)
Definition eat_class (fold neg : bool) (members : bytes) (t : bytes) : option (nat * bytes) :=
  match t with
  | [] => None
  | _ :: _ =>
      if xorb (class_member fold members t) neg
      then let w := rune_width t in Some (w, skipn w t)
      else None
  end.

(* ---- the matcher ------------------------------------------------------------------------ *)

(* submatches: group number -> captured text, most recent first (a group inside a repetition keeps
   what its last iteration captured) *)
Definition caps := list (nat * bytes).

Fixpoint cap_lookup (n : N) (cs : caps) : option bytes :=
  match cs with
  | [] => None
  | (g, x) :: r => if N.eqb (N.of_nat g) n then Some x else cap_lookup n r
  end.

Inductive mres (A : Type) : Type :=
| MYes (a : A)        (* matched *)
| MNo                 (* no match *)
| MFuel.              (* the repetition counter ran out: proved impossible (Proofs/InflectorRegexp.v) *)
Arguments MYes {A} a.
Arguments MNo {A}.
Arguments MFuel {A}.

(* what follows a piece of a pattern: called with the position reached, the rest of the text and the submatches *)
Definition kont (A : Type) := nat -> bytes -> caps -> mres A.

(* Greedy repetition of [step] (one iteration of the body): one more iteration first, then what
   follows.  An iteration that consumes nothing is cut (the engine never revisits the same
   instruction at the same position); every iteration that is not cut shortens the text, so
   [S (length t)] rounds are enough and [MFuel] is never produced here. *)
Fixpoint star_loop (A : Type) (step : kont A -> kont A) (k : kont A) (n : nat) (pos : nat) (t : bytes) (cs : caps)
  {struct n} : mres A :=
  match n with
  | O => MFuel
  | S n' =>
      match step (fun pos' t' cs' =>
                    if Nat.ltb (length t') (length t) then star_loop A step k n' pos' t' cs' else MNo)
                 pos t cs with
      | MNo => k pos t cs
      | x => x
      end
  end.

Section Match.
  Variable fold : bool.                 (* the pattern started with (?i) *)
  Variable A : Type.

  (* Backtracking, continuation passing: alternatives in order, repetition greedy — the first
     success found is the leftmost-first match.  [pos] is the byte offset of [t] in the whole text
     ("^" needs it, and the submatch positions). *)
  Fixpoint rmatch (r : re) (k : kont A) (pos : nat) (t : bytes) (cs : caps) {struct r} : mres A :=
    match r with
    | REmpty => k pos t cs
    | RChar c =>
        match eat_lit fold c t with Some (w, t') => k (pos + w) t' cs | None => MNo end
    | RAny =>
        match eat_any t with Some (w, t') => k (pos + w) t' cs | None => MNo end
    | RClass neg ms =>
        match eat_class fold neg ms t with Some (w, t') => k (pos + w) t' cs | None => MNo end
    | RBol => if Nat.eqb pos 0 then k pos t cs else MNo
    | REol => if is_nil t then k pos t cs else MNo
    | RCat a b => rmatch a (fun pos' t' cs' => rmatch b k pos' t' cs') pos t cs
    | RAlt a b =>
        match rmatch a k pos t cs with
        | MNo => rmatch b k pos t cs
        | x => x
        end
    | ROpt a =>
        match rmatch a k pos t cs with
        | MNo => k pos t cs
        | x => x
        end
    | RStar a => star_loop A (rmatch a) k (S (length t)) pos t cs
    | RGroup g a =>
        rmatch a (fun pos' t' cs' => k pos' t' ((g, firstn (pos' - pos) t) :: cs')) pos t cs
    end.
End Match.

(* a match: start offset, end offset, submatches *)
Definition found := (nat * nat * caps)%type.

(* the pattern at exactly this position *)
Definition match_at (fold : bool) (r : re) (pos : nat) (t : bytes) : mres found :=
  rmatch fold found r (fun e _ cs => MYes (pos, e, cs)) pos t [].

(* Regexp.doExecute(…, pos, …): the leftmost match starting at or after [pos]; candidates are tried
   at every rune boundary from [pos] up to and including the end of the text.  [t] is the text from
   [pos] on; [skip] bytes of it belong to the rune just stepped over. *)
Fixpoint search_from (fold : bool) (r : re) (pos : nat) (t : bytes) (skip : nat) : mres found :=
  match skip with
  | S k =>
      match t with
      | [] => MNo
      | _ :: t' => search_from fold r (S pos) t' k
      end
  | O =>
      match match_at fold r pos t with
      | MNo =>
          match t with
          | [] => MNo
          | _ :: t' => search_from fold r (S pos) t' (rune_width t - 1)
          end
      | x => x
      end
  end.

Definition search (fold : bool) (r : re) (s : bytes) (pos : nat) : mres found :=
  search_from fold r pos (skipn pos s) 0.

(* ---- replacement templates: Regexp.expand / extract ---------------------------------------- *)

Inductive titem :=
| TLit (c : ascii)
| TGroup (n : N)        (* $n, ${n} *)
| TNamed.               (* $name, ${name}: the rule language has no named groups, expands to nothing *)

Definition is_name_byte (c : ascii) : bool := is_letter c || is_digit c || byte_eqb c (b_ 95).

Fixpoint take_name (s : bytes) : bytes * bytes :=
  match s with
  | c :: r => if is_name_byte c then let (n, rest) := take_name r in (c :: n, rest) else ([], s)
  | [] => ([], [])
  end.

(* "Parse number" in extract: digits only, the accumulator checked against 1e8 before each digit, no
   leading zero; None = the name is not a number *)
Fixpoint name_num (name : bytes) (acc : N) : option N :=
  match name with
  | [] => Some acc
  | c :: r =>
      if negb (is_digit c) || N.leb 100000000 acc then None
      else name_num r (acc * 10 + (nb c - 48))
  end.

Definition name_item (name : bytes) : titem :=
  match name_num name 0 with
  | Some n =>
      match name with
      | z :: _ :: _ => if byte_eqb z (b_ 48) then TNamed else TGroup n
      | _ => TGroup n
      end
  | None => TNamed
  end.

(* the text after a "$" (extract): Some (item, rest) or None = malformed, the "$" is literal *)
Definition extract (s : bytes) : option (titem * bytes) :=
  match s with
  | [] => None
  | c :: r =>
      if byte_eqb c (b_ 123) then                                   (* "{" *)
        let (name, rest) := take_name r in
        match name, rest with
        | _ :: _, close :: rest' => if byte_eqb close (b_ 125) then Some (name_item name, rest') else None
        | _, _ => None
        end
      else
        let (name, rest) := take_name s in
        match name with
        | _ :: _ => Some (name_item name, rest)
        | [] => None
        end
  end.

Fixpoint parse_template (fuel : nat) (s : bytes) : option (list titem) :=
  match fuel with
  | O => None
  | S fuel' =>
      match s with
      | [] => Some []
      | c :: r =>
          if byte_eqb c (b_ 36) then                                (* "$" *)
            match r with
            | d :: r' =>
                if byte_eqb d (b_ 36) then option_map (cons (TLit (b_ 36))) (parse_template fuel' r')
                else
                  match extract r with
                  | Some (it, rest) => option_map (cons it) (parse_template fuel' rest)
                  | None => option_map (cons (TLit c)) (parse_template fuel' r)
                  end
            | [] => Some [TLit c]
            end
          else option_map (cons (TLit c)) (parse_template fuel' r)
      end
  end.

(* src[a:b]; the offsets come from the engine and are in range *)
Definition slice (s : bytes) (a b : nat) : bytes := firstn (b - a) (skipn a s).

Fixpoint expand (tmpl : list titem) (s : bytes) (m : found) : bytes :=
  match tmpl with
  | [] => []
  | TLit c :: r => c :: expand r s m
  | TGroup n :: r =>
      let '(a0, a1, cs) := m in
      (if N.eqb n 0 then slice s a0 a1
       else match cap_lookup n cs with Some x => x | None => [] end) ++ expand r s m
  | TNamed :: r => expand r s m
  end.

(* ---- Regexp.ReplaceAllString (regexp.go: replaceAll) ----------------------------------------- *)

Section Replace.
  Variable fold : bool.
  Variable r : re.
  Variable tmpl : list titem.
  Variable s : bytes.

  (* the loop "for searchPos <= end"; [last_end] = lastMatchEnd.  Every round moves searchPos
     forward, so [length s + 2] rounds are enough. *)
  Fixpoint replace_loop (fuel : nat) (last_end search_pos : nat) (buf : bytes) : res bytes :=
    match fuel with
    | O => OutOfFuel
    | S fuel' =>
        if Nat.ltb (length s) search_pos then Ok (buf ++ skipn last_end s)
        else
          match search fold r s search_pos with
          | MFuel => OutOfFuel
          | MNo => Ok (buf ++ skipn last_end s)
          | MYes (a0, a1, cs) =>
              let buf1 := buf ++ slice s last_end a0 in
              (* no replacement for an empty match immediately after another match *)
              let buf2 := if Nat.ltb last_end a1 || Nat.eqb a0 0
                          then buf1 ++ expand tmpl s (a0, a1, cs) else buf1 in
              let width := rune_width (skipn search_pos s) in
              let next := if Nat.ltb a1 (search_pos + width) then search_pos + width
                          else if Nat.ltb a1 (search_pos + 1) then search_pos + 1
                          else a1 in
              replace_loop fuel' a1 next buf2
          end
    end.

  Definition replace_all : res bytes := replace_loop (length s + 2) 0 0 [].
End Replace.

(* Regexp.MatchString *)
Definition match_string (fold : bool) (r : re) (s : bytes) : mres found := search fold r s 0.

(* ---- the loop over compiledRules ------------------------------------------------------------- *)

Record crule := mk_crule { cr_fold : bool; cr_re : re; cr_tmpl : list titem }.

Fixpoint suffix_res (rules : list crule) (s : bytes) : res bytes :=
  match rules with
  | [] => Ok s                                                   (* rule.go:78  return s *)
  | c :: rest =>
      match match_string (cr_fold c) (cr_re c) s with
      | MFuel => OutOfFuel
      | MYes _ => replace_all (cr_fold c) (cr_re c) (cr_tmpl c) s
      | MNo => suffix_res rest s
      end
  end.

(* the same as a plain function (what [inflected] takes); Proofs/InflectorRegexp.v:
   suffix_res rules s = Ok (suffix_fn rules s) for every rule list and every string *)
Definition suffix_fn (rules : list crule) (s : bytes) : bytes :=
  match suffix_res rules s with Ok x => x | _ => s end.

(* the first rule whose pattern matches, with the offset at which its leftmost match starts *)
Fixpoint first_matching (rules : list crule) (s : bytes) : option (crule * nat) :=
  match rules with
  | [] => None
  | c :: rest =>
      match match_string (cr_fold c) (cr_re c) s with
      | MYes (a0, _, _) => Some (c, a0)
      | MNo => first_matching rest s
      | MFuel => None
      end
  end.

(* ---- parser of the pattern language --------------------------------------------------------- *)

Definition ch (s : string) : ascii := match s with String c _ => c | EmptyString => b_ 0 end.

(* members of a class up to the closing bracket: ASCII, no "\", no "[", no range, "^" only as the
   negation mark in front (the existing [parse_class] of Model/Inflector.v does exactly this) *)
Definition parse_members (s : bytes) : option (bool * bytes * bytes) :=
  match s with
  | c :: r =>
      if byte_eqb c (ch "^")
      then match parse_class (S (length r)) r [] with Some (ms, rest) => Some (true, ms, rest) | None => None end
      else match parse_class (S (length s)) s [] with Some (ms, rest) => Some (false, ms, rest) | None => None end
  | [] => None
  end.

Definition is_rep (c : ascii) : bool := byte_eqb c (ch "*") || byte_eqb c (ch "+") || byte_eqb c (ch "?").

(* [g] is the number the next capturing group gets; results: (expression, unread input, next group number) *)
Fixpoint parse_alt (fuel : nat) (s : bytes) (g : nat) : option (re * bytes * nat) :=
  match fuel with
  | O => None
  | S f =>
      match parse_cat f s g with
      | Some (a, r, g1) =>
          match r with
          | c :: r' =>
              if byte_eqb c (ch "|") then
                match parse_alt f r' g1 with
                | Some (b, r'', g2) => Some (RAlt a b, r'', g2)
                | None => None
                end
              else Some (a, r, g1)
          | [] => Some (a, r, g1)
          end
      | None => None
      end
  end
with parse_cat (fuel : nat) (s : bytes) (g : nat) : option (re * bytes * nat) :=
  match fuel with
  | O => None
  | S f =>
      match s with
      | [] => Some (REmpty, [], g)
      | c :: _ =>
          if byte_eqb c (ch "|") || byte_eqb c (ch ")") then Some (REmpty, s, g)
          else
            match parse_atom f s g with
            | Some (a, r, g1) =>
                (* at most one repetition operator; "**", "*?" ... are outside the language *)
                let '(a', r') :=
                  match r with
                  | q :: rq =>
                      if byte_eqb q (ch "*") then (Some (RStar a), rq)
                      else if byte_eqb q (ch "+") then (Some (RCat a (RStar a)), rq)
                      else if byte_eqb q (ch "?") then (Some (ROpt a), rq)
                      else (Some a, r)
                  | [] => (Some a, r)
                  end in
                match a', r' with
                | Some a'', q :: _ =>
                    if is_rep q || byte_eqb q (ch "{") then None
                    else match parse_cat f r' g1 with
                         | Some (REmpty, r'', g2) => Some (a'', r'', g2)
                         | Some (b, r'', g2) => Some (RCat a'' b, r'', g2)
                         | None => None
                         end
                | Some a'', [] => Some (a'', [], g1)
                | None, _ => None
                end
            | None => None
            end
      end
  end
with parse_atom (fuel : nat) (s : bytes) (g : nat) : option (re * bytes * nat) :=
  match fuel with
  | O => None
  | S f =>
      match s with
      | [] => None
      | c :: r =>
          if byte_eqb c (ch "(") then
            match r with
            | q :: r1 =>
                if byte_eqb q (ch "?") then
                  match r1 with
                  | col :: r2 =>
                      if byte_eqb col (ch ":") then
                        match parse_alt f r2 g with
                        | Some (a, close :: r3, g1) => if byte_eqb close (ch ")") then Some (a, r3, g1) else None
                        | _ => None
                        end
                      else None                                (* other flags / named groups: outside *)
                  | [] => None
                  end
                else
                  match parse_alt f r (S g) with
                  | Some (a, close :: r3, g1) => if byte_eqb close (ch ")") then Some (RGroup g a, r3, g1) else None
                  | _ => None
                  end
            | [] => None
            end
          else if byte_eqb c (ch "[") then
            match parse_members r with
            | Some (neg, ms, rest) => Some (RClass neg ms, rest, g)
            | None => None
            end
          else if byte_eqb c (ch ".") then Some (RAny, r, g)
          else if byte_eqb c (ch "^") then Some (RBol, r, g)
          else if byte_eqb c (ch "$") then Some (REol, r, g)
          else if is_meta c || negb (is_ascii c) then None
          else Some (RChar c, r, g)
      end
  end.

(* a repetition whose body can match the empty string is outside the language (there the engines
   of Go and a backtracking matcher may disagree on submatches) *)
Fixpoint nullable (r : re) : bool :=
  match r with
  | REmpty | RBol | REol | RStar _ | ROpt _ => true
  | RChar _ | RAny | RClass _ _ => false
  | RCat a b => nullable a && nullable b
  | RAlt a b => nullable a || nullable b
  | RGroup _ a => nullable a
  end.

Fixpoint stars_ok (r : re) : bool :=
  match r with
  | RStar a => negb (nullable a) && stars_ok a
  | RCat a b | RAlt a b => stars_ok a && stars_ok b
  | ROpt a | RGroup _ a => stars_ok a
  | _ => true
  end.

Definition flag_i : bytes := bs "(?i)".

(* regexp.MustCompile(pattern), for the language above *)
Definition compile_pattern (p : bytes) : option (bool * re) :=
  let (fold, body) := match strip_prefix flag_i p with Some b => (true, b) | None => (false, p) end in
  match parse_alt (3 * length body + 3) body 1 with
  | Some (r, [], _) => if stars_ok r then Some (fold, r) else None
  | _ => None
  end.

Definition compile_rule (pr : bytes * bytes) : option crule :=
  let (p, t) := pr in
  if forallb is_ascii t then
    match compile_pattern p, parse_template (S (length t)) t with
    | Some (fold, r), Some tm => Some (mk_crule fold r tm)
    | _, _ => None
    end
  else None.

Fixpoint compile_rules (l : list (bytes * bytes)) : option (list crule) :=
  match l with
  | [] => Some []
  | pr :: rest =>
      match compile_rule pr, compile_rules rest with
      | Some c, Some cs => Some (c :: cs)
      | _, _ => None
      end
  end.

(* ---- declarative meaning of a pattern (no priorities, no fuel): "from offset [pos] with text [t]
   ahead, the pattern can match up to offset [pos'] leaving [t']".  The matcher is proved sound for
   it (Proofs/InflectorRegexp.v: match_at_sound); WHICH of the possible matches Go prefers
   (leftmost-first) is what the differential check compares on every case. *)
Inductive matches (fold : bool) : re -> nat -> bytes -> nat -> bytes -> Prop :=
| M_empty : forall pos t, matches fold REmpty pos t pos t
| M_char : forall c pos t w t', eat_lit fold c t = Some (w, t') -> matches fold (RChar c) pos t (pos + w) t'
| M_any : forall pos t w t', eat_any t = Some (w, t') -> matches fold RAny pos t (pos + w) t'
| M_class : forall neg ms pos t w t', eat_class fold neg ms t = Some (w, t') -> matches fold (RClass neg ms) pos t (pos + w) t'
| M_bol : forall t, matches fold RBol 0 t 0 t
| M_eol : forall pos, matches fold REol pos [] pos []
| M_cat : forall a b p t p1 t1 p2 t2,
    matches fold a p t p1 t1 -> matches fold b p1 t1 p2 t2 -> matches fold (RCat a b) p t p2 t2
| M_alt_l : forall a b p t p1 t1, matches fold a p t p1 t1 -> matches fold (RAlt a b) p t p1 t1
| M_alt_r : forall a b p t p1 t1, matches fold b p t p1 t1 -> matches fold (RAlt a b) p t p1 t1
| M_star_nil : forall a p t, matches fold (RStar a) p t p t
| M_star_more : forall a p t p1 t1 p2 t2,
    matches fold a p t p1 t1 -> matches fold (RStar a) p1 t1 p2 t2 -> matches fold (RStar a) p t p2 t2
| M_opt_none : forall a p t, matches fold (ROpt a) p t p t
| M_opt_some : forall a p t p1 t1, matches fold a p t p1 t1 -> matches fold (ROpt a) p t p1 t1
| M_group : forall g a p t p1 t1, matches fold a p t p1 t1 -> matches fold (RGroup g a) p t p1 t1.
