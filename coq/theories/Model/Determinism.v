(* C04 — one run of gengo.Execute in which EVERY range over a Go map / sync.Map is a list
   taken in an arbitrary order (an "oracle" chooses the order at every range site).

   Go code followed (definitions only, no proofs in this file):
     pkg/types/load.go:56-118      register: localPkgPaths / sumFile.Data filled in registration order
     pkg/types/load.go:134-142     LocalPkgPaths: slices.Sorted(maps.Keys(..))
     pkg/types/package.go:116-144  tables filled from TypesInfo.Defs (a map): types, methods
     pkg/gengo/context.go:95-129   Execute (previous sum, package loop, sum save)
     pkg/gengo/context.go:131-141  pkgChanged
     pkg/gengo/context.go:143-242  pkgExecute (generatedFiles, pkgTags, per generator dispatch,
                                   gfs sync.Map range -> WriteToFile, removal of stale files)
     pkg/gengo/context.go:255-307  Doc/merge, doGenerate (names sorted), IsGeneratorEnabled (354-371)
     pkg/gengo/genfile.go:146-178  merge, writeImports (sorted)
     pkg/sumfile/file.go:50-59     Bytes (sorted)
   External (section variables / record fields): the generators (deterministic functions of the
   loaded package and of the sequence of calls they receive), render (header + imports + body ->
   go/parser -> gofumpt -> go/format), parse_sum (sumfile.Load's line parser).
   Scope: runs that return without error; a failing run is [None] (C02 is about those). *)
Require Import Gengo.Base.Bytes.
From Coq Require Import Permutation.

(* ---------- byte-wise lexicographic order (Go's string <) and insertion sort ---------- *)

Fixpoint bytes_leb (a b : bytes) : bool :=
  match a, b with
  | [], _ => true
  | _ :: _, [] => false
  | x :: a', y :: b' =>
      if N.ltb (N_of_ascii x) (N_of_ascii y) then true
      else if N.ltb (N_of_ascii y) (N_of_ascii x) then false
      else bytes_leb a' b'
  end.

Section SortBy.
  Context {A K : Type}.
  Variable key : A -> K.
  Variable leb : K -> K -> bool.
  Fixpoint insert_by (x : A) (l : list A) : list A :=
    match l with
    | [] => [x]
    | y :: r => if leb (key x) (key y) then x :: l else y :: insert_by x r
    end.
  Definition sort_by (l : list A) : list A := fold_right insert_by [] l.
End SortBy.

(* sort.Strings / slices.Sorted on strings *)
Definition sort_strings : list bytes -> list bytes := sort_by (fun x => x) bytes_leb.

(* ---------- Go maps with string keys: association lists ---------- *)

Definition alist (V : Type) := list (bytes * V).

Fixpoint lookup {V} (k : bytes) (m : alist V) : option V :=
  match m with
  | [] => None
  | (k', v) :: r => if bytes_eqb k k' then Some v else lookup k r
  end.

(* m[k] = v *)
Fixpoint aset {V} (k : bytes) (v : V) (m : alist V) : alist V :=
  match m with
  | [] => [(k, v)]
  | (k', v') :: r => if bytes_eqb k k' then (k, v) :: r else (k', v') :: aset k v r
  end.

(* delete(m, k) *)
Fixpoint adel {V} (k : bytes) (m : alist V) : alist V :=
  match m with
  | [] => []
  | (k', v') :: r => if bytes_eqb k k' then adel k r else (k', v') :: adel k r
  end.

Definition keys {V} (m : alist V) : list bytes := map fst m.

Definition mem (k : bytes) (l : list bytes) : bool := existsb (bytes_eqb k) l.

Fixpoint has_prefix (p s : bytes) : bool :=
  match p, s with
  | [], _ => true
  | _ :: _, [] => false
  | x :: p', y :: s' => Ascii.eqb x y && has_prefix p' s'
  end.

(* ---------- the order oracle: one range over a map = one call ---------- *)

(* [o A site l] is the order in which the runtime yields the entries [l] of a map at range
   site [site] (the site key names the Go statement and its dynamic context: package,
   generator, type).  The only thing known about it is [shuffles]. *)
Definition oracle := forall A : Type, list bytes -> list A -> list A.
Definition shuffles (o : oracle) : Prop := forall A site (l : list A), Permutation l (o A site l).
Definition oid : oracle := fun _ _ l => l.

(* ---------- the loaded world (go/packages + go/types results are data) ---------- *)

Inductive kind := KNamed | KAlias | KOther.   (* dynamic type of obj.Type(): *types.Named, *types.Alias, anything else *)

Record tdef := mk_tdef {
  td_name : bytes;
  td_uid : N;                       (* identity of the object (its position) *)
  td_kind : kind;
  td_pkgscope : bool;               (* obj.Parent() == pkg.Types.Scope() *)
  td_gen : bool;                    (* declared in a file <base>.*.go (a previously generated file) *)
  td_tags : alist bytes             (* tags of the declaration's doc comment: key -> strings.Join(values, "") *)
}.

Record meth := mk_meth { m_recv : N; m_name : bytes; m_pos : N; m_gen : bool }.

Record pkg := mk_pkg {
  pk_path : bytes;
  pk_name : bytes;
  pk_dir : bytes;
  pk_files : list bytes;                     (* base names, p.Files() order (a slice) *)
  pk_filetags : list (bytes * alist bytes);  (* per file with a package doc: its tags (a map) *)
  pk_defs : list tdef;                       (* the *types.TypeName entries of TypesInfo.Defs — a map *)
  pk_meths : list meth;                      (* the method entries of TypesInfo.Defs — a map *)
  pk_hash : bytes                            (* dirhash.HashDir at load time *)
}.

Record world := mk_world { w_moddir : bytes; w_pkgs : list pkg }.   (* w_pkgs: local packages reached by register *)

Record args := mk_args {
  a_globals : alist bytes;
  a_base : bytes;           (* OutputFileBaseName *)
  a_all : bool;
  a_force : bool
}.

Inductive ckind := CType | CAlias.
Record call := mk_call { c_kind : ckind; c_name : bytes; c_uid : N }.

Record genout := mk_genout {
  go_err : bool;                 (* some GenerateType / deferred callback returned an error *)
  go_ignore : bool;              (* ErrIgnore seen: c.ignore *)
  go_body : bytes;               (* genfile.body after all calls and deferred callbacks *)
  go_imports : alist bytes       (* tracker.Imports(): path -> local name (a map) *)
}.

(* what MethodsOf answers, per receiver object *)
Definition methview := list (N * list bytes).

Record gen := mk_gen {
  g_name : bytes;
  g_alias : bool;                                      (* implements AliasGenerator *)
  g_run : pkg -> methview -> list call -> genout       (* fresh instance per (package, generator): context.go:191-204 *)
}.

Record gfile := mk_gfile {
  gf_pkgname : bytes;
  gf_gen : bytes;
  gf_imports : list (bytes * bytes);   (* in the order writeImports emits them *)
  gf_body : bytes
}.

(* ---------- file system and effects ---------- *)

Definition path := (bytes * bytes)%type.   (* directory, base name *)
Definition path_eqb (p q : path) : bool := bytes_eqb (fst p) (fst q) && bytes_eqb (snd p) (snd q).
Definition fs := path -> option bytes.

Inductive effect := EWrite (p : path) (b : bytes) | ERemove (p : path).
Definition eff_path (e : effect) : path := match e with EWrite p _ => p | ERemove p => p end.

Definition apply1 (f : fs) (e : effect) : fs :=
  fun q =>
    match e with
    | EWrite p b => if path_eqb q p then Some b else f q
    | ERemove p => if path_eqb q p then None else f q
    end.
Definition apply (es : list effect) (f : fs) : fs := fold_left apply1 es f.

Definition sum_name : bytes := bs "gengo.sum".
Definition calllog := list (bytes * bytes * list call).   (* package path, generator name, its calls in order *)

Section Exec.
  Variable fixed : bool.            (* package.go: only package-scope objects enter the name tables *)
  Variable fixed_methods : bool.    (* package.go: method lists ordered by position *)
  Variable render : gfile -> option bytes.
  Variable parse_sum : bytes -> alist bytes.
  Variable o : oracle.

  (* --- package.go:116-144 --- *)
  Definition table_add (t : alist tdef) (d : tdef) : alist tdef :=
    if fixed && negb (td_pkgscope d) then t else aset (td_name d) d t.

  Definition type_table (p : pkg) : alist tdef :=
    fold_left table_add (o _ [bs "defs"; pk_path p] (pk_defs p)) [].

  (* p.methods[named] = append(p.methods[named], x) in range order; MethodsOf(named, true) *)
  Definition methods_of (p : pkg) (uid : N) : list bytes :=
    let l := filter (fun m => N.eqb (m_recv m) uid) (o _ [bs "meths"; pk_path p] (pk_meths p)) in
    map m_name (if fixed_methods then sort_by m_pos N.leb l else l).

  Definition meth_view (p : pkg) : methview :=
    map (fun d => (td_uid d, methods_of p (td_uid d))) (pk_defs p).

  (* --- context.go:174-187 --- *)
  Definition generated_files (a : args) (p : pkg) : alist path :=
    fold_left (fun m f => if has_prefix (a_base a ++ bs ".") f then aset f (pk_dir p, f) m else m) (pk_files p) [].

  Definition set_all (site : list bytes) (tags : alist bytes) (m : alist bytes) : alist bytes :=
    fold_left (fun m kv => aset (fst kv) (snd kv) m) (o _ site tags) m.

  Definition pkg_tags (p : pkg) : alist bytes :=
    fold_left (fun m ft => set_all [bs "ftags"; pk_path p; fst ft] (snd ft) m) (pk_filetags p) [].

  (* --- genfile.go:146-156, context.go:265 --- *)
  Definition merge (site : list bytes) (g p d : alist bytes) : alist bytes :=
    set_all (bs "merge3" :: site) d (set_all (bs "merge2" :: site) p (set_all (bs "merge1" :: site) g [])).

  (* --- context.go:354-371 --- *)
  Fixpoint enabled_loop (prefix : bytes) (l : alist bytes) (en : bool) : bool :=
    match l with
    | [] => en
    | (k, v) :: r =>
        if bytes_eqb k prefix then negb (bytes_eqb v (bs "false"))
        else enabled_loop prefix r (if has_prefix (prefix ++ bs ":") k then true else en)
    end.
  Definition enabled (site : list bytes) (gname : bytes) (tags : alist bytes) : bool :=
    enabled_loop (bs "gengo:" ++ gname) (o _ (bs "enabled" :: site) tags) false.

  (* --- context.go:268-307 --- *)
  Definition dispatch_one (a : args) (p : pkg) (ptags : alist bytes) (g : gen) (d : tdef) : list call :=
    let site := [pk_path p; g_name g; td_name d] in
    match td_kind d with
    | KAlias =>
        if enabled site (g_name g) (merge site (a_globals a) ptags (td_tags d)) then
          if g_alias g then [mk_call CAlias (td_name d) (td_uid d)] else []
        else []
    | KNamed =>
        if enabled site (g_name g) (merge site (a_globals a) ptags (td_tags d))
        then [mk_call CType (td_name d) (td_uid d)] else []
    | KOther => []
    end.

  Definition dispatch (a : args) (p : pkg) (ptags : alist bytes) (g : gen) : list call :=
    let t := type_table p in
    let names := sort_strings (keys (o _ [bs "names"; pk_path p; g_name g] t)) in
    flat_map (fun n => match lookup n t with
                       | Some d => dispatch_one a p ptags g d
                       | None => []        (* unreachable: n is a key of t *)
                       end) names.

  (* --- genfile.go:56-58, 158-178 --- *)
  Definition filename (a : args) (gname : bytes) : bytes := a_base a ++ bs "." ++ gname ++ bs ".go".

  Definition sorted_entries (site : list bytes) (m : alist bytes) : list (bytes * bytes) :=
    map (fun k => (k, match lookup k m with Some v => v | None => [] end)) (sort_strings (keys (o _ site m))).

  Definition mk_file (p : pkg) (gname : bytes) (out : genout) : gfile :=
    mk_gfile (pk_name p) gname (sorted_entries [bs "imports"; pk_path p; gname] (go_imports out)) (go_body out).

  (* --- context.go:191-221: one generator on one package.  None = error *)
  Definition gen_one (a : args) (p : pkg) (ptags : alist bytes) (g : gen)
    : option (list call * option genout) :=
    let calls := dispatch a p ptags g in
    let out := g_run g p (meth_view p) calls in
    if go_err out then None
    else
      let zero := is_nil (go_body out) && negb (go_ignore out) in
      Some (calls, if zero then None else Some out).

  Fixpoint gens_loop (a : args) (p : pkg) (ptags : alist bytes) (gs : list gen)
           (gfs : alist genout) (log : calllog) : option (alist genout * calllog) :=
    match gs with
    | [] => Some (gfs, log)
    | g :: r =>
        match gen_one a p ptags g with
        | None => None
        | Some (calls, og) =>
            gens_loop a p ptags r
                      (match og with Some out => aset (g_name g) out gfs | None => gfs end)
                      (log ++ [(pk_path p, g_name g, calls)])
        end
    end.

  (* --- context.go:223-231: range over gfs; WriteToFile; delete(generatedFiles, ..) --- *)
  Fixpoint write_loop (a : args) (p : pkg) (l : alist genout) (stale : alist path) (acc : list effect)
    : option (list effect * alist path) :=
    match l with
    | [] => Some (acc, stale)
    | (gname, out) :: r =>
        if is_nil (go_body out) then write_loop a p r (adel (filename a gname) stale) acc
        else match render (mk_file p gname out) with
             | None => None
             | Some b => write_loop a p r (adel (filename a gname) stale)
                                    (acc ++ [EWrite (pk_dir p, filename a gname) b])
             end
    end.

  Definition pkg_execute (a : args) (gens : list gen) (p : pkg) : option (list effect * calllog) :=
    match gens_loop a p (pkg_tags p) gens [] [] with
    | None => None
    | Some (gfs, log) =>
        match write_loop a p (o _ [bs "gfs"; pk_path p] gfs) (generated_files a p) [] with
        | None => None
        | Some (ws, stale) =>
            Some (ws ++ map (fun kv => ERemove (snd kv)) (o _ [bs "stale"; pk_path p] stale), log)
        end
    end.

  (* --- load.go:56-118 (tables filled in registration order) --- *)
  (* [entry]: package paths of the entrypoints, in the order given (directPkgPaths) *)
  Definition local_pkgs (entry : list bytes) (w : world) : alist bool :=
    fold_left (fun m p => aset (pk_path p) (mem (pk_path p) entry) m) (o _ [bs "reg"] (w_pkgs w)) [].

  Definition sum_data (w : world) : alist bytes :=
    fold_left (fun m p => aset (pk_path p) (pk_hash p) m) (o _ [bs "reg"] (w_pkgs w)) [].

  (* --- load.go:134-142 --- *)
  Definition sorted_local (entry : list bytes) (w : world) : list (bytes * bool) :=
    let m := local_pkgs entry w in
    map (fun k => (k, match lookup k m with Some b => b | None => false end)) (sort_strings (keys (o _ [bs "local"] m))).

  Definition find_pkg (k : bytes) (w : world) : option pkg :=
    find (fun p => bytes_eqb k (pk_path p)) (w_pkgs w).

  (* --- sumfile/file.go:50-59 --- *)
  Definition sum_bytes (m : alist bytes) : bytes :=
    concat (map (fun kv => fst kv ++ bs " " ++ snd kv ++ bs (String "010"%char EmptyString))
                (sorted_entries [bs "sum"] m)).

  Definition sum_get (k : bytes) (m : alist bytes) : bytes :=
    match lookup k m with Some v => v | None => [] end.

  (* --- context.go:131-142 (an empty current hash = the directory could not be hashed: never cached) --- *)
  Definition pkg_changed (a : args) (prev : option (alist bytes)) (cur : alist bytes) (k : bytes) : bool :=
    if a_force a then true
    else match prev with
         | None => true
         | Some pv => is_nil (sum_get k cur) || negb (bytes_eqb (sum_get k pv) (sum_get k cur))
         end.

  (* --- context.go:108-116 --- *)
  Fixpoint pkgs_loop (a : args) (w : world) (gens : list gen) (prev : option (alist bytes)) (cur : alist bytes)
           (l : list (bytes * bool)) (es : list effect) (log : calllog) : option (list effect * calllog) :=
    match l with
    | [] => Some (es, log)
    | (k, direct) :: r =>
        if negb (a_all a) && negb direct then pkgs_loop a w gens prev cur r es log
        else if negb (pkg_changed a prev cur k) then pkgs_loop a w gens prev cur r es log
        else match find_pkg k w with
             | None => None                           (* "invalid pkg" *)
             | Some p =>
                 match pkg_execute a gens p with
                 | None => None
                 | Some (es', log') => pkgs_loop a w gens prev cur r (es ++ es') (log ++ log')
                 end
             end
    end.

  (* --- context.go:95-129 --- *)
  Definition plan (a : args) (entry : list bytes) (w : world) (gens : list gen) (f : fs) : option (list effect * calllog) :=
    let sl := sorted_local entry w in
    let cur := sum_data w in
    let prev :=
      if a_all a && existsb snd sl then
        match f (w_moddir w, sum_name) with Some b => Some (parse_sum b) | None => None end
      else None in
    match pkgs_loop a w gens prev cur sl [] [] with
    | None => None
    | Some (es, log) =>
        Some (if a_all a then es ++ [EWrite (w_moddir w, sum_name) (sum_bytes cur)] else es, log)
    end.

  Definition run (a : args) (entry : list bytes) (w : world) (gens : list gen) (f : fs) : option (fs * calllog) :=
    match plan a entry w gens f with
    | None => None
    | Some (es, log) => Some (apply es f, log)
    end.
End Exec.

(* ---------- a scripted generator (what the harness registers) ---------- *)

Inductive outcome := ORender | OSkip | OIgnore | OErr.

Record frag := mk_frag {
  fr_outcome : outcome;
  fr_decls : list bytes;          (* names of the top-level declarations rendered by the call, in order *)
  fr_imports : list bytes;        (* import paths referenced by the call, in order *)
  fr_methods : option bytes;      (* a declaration listing the method names MethodsOf returns, in that order *)
  fr_defer : list bytes;          (* declarations rendered by a deferred callback registered by the call *)
  fr_defer_imports : list bytes
}.

Definition script := list (N * frag).   (* object uid -> what the generator does for it *)

Fixpoint nlookup {V} (k : N) (m : list (N * V)) : option V :=
  match m with
  | [] => None
  | (k', v) :: r => if N.eqb k k' then Some v else nlookup k r
  end.

Definition decl_line (d : bytes) : bytes := d ++ bs ";".

Definition methods_decl (name : bytes) (ms : list bytes) : bytes :=
  name ++ bs "(" ++ concat (map (fun m => m ++ bs ",") ms) ++ bs ");".

Definition add_imports (imps ps : list bytes) : list bytes :=
  fold_left (fun acc p => if mem p acc then acc else acc ++ [p]) ps imps.

(* [dimps]: imports of the deferred callbacks, referenced after every call has been made *)
Fixpoint script_run (s : script) (mv : methview) (cs : list call)
         (ign : bool) (body : bytes) (imps : list bytes) (defers : bytes) (dimps : list bytes) : genout :=
  match cs with
  | [] => mk_genout false ign (body ++ defers) (map (fun p => (p, [])) (add_imports imps dimps))
  | c :: r =>
      match nlookup (c_uid c) s with
      | None => script_run s mv r ign body imps defers dimps
      | Some f =>
          match fr_outcome f with
          | OErr => mk_genout true ign body []
          | OSkip => script_run s mv r ign body imps defers dimps
          | OIgnore => script_run s mv r true body imps defers dimps
          | ORender =>
              let ms := match nlookup (c_uid c) mv with Some e => e | None => [] end in
              let b := concat (map decl_line (fr_decls f))
                       ++ (match fr_methods f, c_kind c with
                           | Some name, CType => methods_decl name ms
                           | _, _ => []
                           end) in
              script_run s mv r ign (body ++ b) (add_imports imps (fr_imports f))
                         (defers ++ concat (map decl_line (fr_defer f))) (dimps ++ fr_defer_imports f)
          end
      end
  end.

Definition scripted (name : bytes) (alias : bool) (per_pkg : list (bytes * script)) : gen :=
  mk_gen name alias
         (fun p mv cs =>
            match lookup (pk_path p) per_pkg with
            | Some s => script_run s mv cs false [] [] [] []
            | None => mk_genout false false [] []
            end).
