(* C10 — the concrete instance of the external components used by the case files and by the
   examples: floats are carried as the texts strconv produced for them (computed by the harness
   with the reference calls the model's Section variables stand for), strconv.Quote and the
   import-tracker names as per-case tables.  Definitions only. *)
Require Import Gengo.Base.Bytes Gengo.Model.ValueLit.
From Coq Require Import ZArith.

Record fl := mk_fl {
  fl_canon : bytes;   (* FormatFloat(x,'g',-1,bits): identifies the value *)
  fl_f : bytes;       (* FormatFloat(x,'f',-1,bits) *)
  fl_g : bytes;       (* FormatFloat(x,'g',-1,bits) as the repaired code prints it *)
  fl_big : bool       (* |x| >= 1e21 *)
}.

Definition is_zero_text (s : bytes) : bool := bytes_eqb s (bs "0") || bytes_eqb s (bs "-0").
Definition i_fzero (x : fl) : bool := is_zero_text (fl_canon x).
Definition i_ffmt (_ : fkind) (x : fl) : bytes := fl_f x.
Definition i_gfmt (_ : fkind) (x : fl) : bytes := fl_g x.
Definition i_fbig (x : fl) : bool := fl_big x.
Definition i_f0 : fl := mk_fl (bs "0") (bs "0") (bs "0") false.
Definition i_feqb (x y : fl) : bool :=
  bytes_eqb (fl_canon x) (fl_canon y) || (is_zero_text (fl_canon x) && is_zero_text (fl_canon y)).

Definition ftag (k : fkind) : bytes := bs match k with KF32 => "32:" | KF64 => "64:" end.
(* conversion of a numeric token to a float type: table computed by the harness with strconv.ParseFloat *)
Definition i_fparse (tab : list (bytes * bytes)) (k : fkind) (s : bytes) : option fl :=
  match assoc (ftag k ++ s) tab with
  | Some c => Some (mk_fl c [] [] false)
  | None => None
  end.

Definition i_quote (tab : list (bytes * bytes)) (s : bytes) : bytes :=
  match assoc s tab with Some q => q | None => bs "?unquoted?" end.

(* import path -> local name; the package being generated maps to "" *)
Definition i_local (tab : list (bytes * bytes)) (p : bytes) : bytes :=
  match p with
  | [] => []
  | _ => match assoc p tab with Some l => l | None => bs "?unregistered?" end
  end.

Definition forall2b {A B} (f : A -> B -> bool) : list A -> list B -> bool :=
  fix go (l1 : list A) (l2 : list B) {struct l1} : bool :=
    match l1, l2 with
    | [], [] => true
    | x :: r, y :: s => f x y && go r s
    | _, _ => false
    end.

(* reflect.DeepEqual with nil and empty identified, as a boolean *)
Fixpoint deep_eqb (a b : goval fl) {struct a} : bool :=
  match a, b with
  | VBool x, VBool y => Bool.eqb x y
  | VInt x, VInt y => Z.eqb x y
  | VFloat x, VFloat y => i_feqb x y
  | VStr x, VStr y => bytes_eqb x y
  | VNilPtr, VNilPtr => true
  | VPtr x, VPtr y => deep_eqb x y
  | VSlice _ l1, VSlice _ l2 => forall2b deep_eqb l1 l2
  | VArray l1, VArray l2 => forall2b deep_eqb l1 l2
  | VStruct l1, VStruct l2 => forall2b deep_eqb l1 l2
  | VMap _ m1, VMap _ m2 =>
      Nat.eqb (length m1) (length m2) &&
      forallb (fun kv => existsb (fun kv' => deep_eqb (fst kv) (fst kv') && deep_eqb (snd kv) (snd kv')) m2) m1
  | _, _ => false
  end.

Fixpoint lit_eqb (a b : lit) {struct a} : bool :=
  match a, b with
  | LEmpty, LEmpty | LNil, LNil | LKNone, LKNone | LOther, LOther => true
  | LBool x, LBool y => Bool.eqb x y
  | LNum x, LNum y | LStr x, LStr y | LKField x, LKField y => bytes_eqb x y
  | LChar x, LChar y => Z.eqb x y
  | LAddr x, LAddr y => lit_eqb x y
  | LPtrClosure t x, LPtrClosure u y => tyast_eqb t u && lit_eqb x y
  | LComposite t es, LComposite u fs =>
      tyast_eqb t u && forall2b (fun e f => lit_eqb (fst e) (fst f) && lit_eqb (snd e) (snd f)) es fs
  | _, _ => false
  end.

(* the literal contains the empty text somewhere (then the printed text is not an expression) *)
Fixpoint has_empty (l : lit) : bool :=
  match l with
  | LEmpty => true
  | LAddr x | LPtrClosure _ x => has_empty x
  | LComposite _ es => existsb (fun e => has_empty (fst e) || has_empty (snd e)) es
  | _ => false
  end.

(* all floats of a value, for checking the instance against the hypotheses of the theorems *)
Fixpoint floats_of (v : goval fl) : list fl :=
  match v with
  | VFloat x => [x]
  | VPtr x => floats_of x
  | VSlice _ l | VArray l | VStruct l => flat_map floats_of l
  | VMap _ m => flat_map (fun kv => floats_of (fst kv) ++ floats_of (snd kv)) m
  | _ => []
  end.

Definition i_value_lit (qtab ltab : list (bytes * bytes)) (fixed : bool) :=
  @value_lit fl i_fzero i_ffmt i_gfmt i_fbig (i_quote qtab) (i_local ltab) fixed.
Definition i_print (qtab ltab : list (bytes * bytes)) := @print_lit (i_quote qtab) (i_local ltab).
Definition i_denote (ftab : list (bytes * bytes)) := @denote fl (i_fparse ftab) i_f0.
