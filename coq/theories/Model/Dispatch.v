(* Model of the code C06 is anchored in (definitions only):

     pkg/gengo/context.go   IsGeneratorEnabled (354-371), Doc (255-266), package tags (174-187),
                            doGenerate / doGenerateNamedType / doGenerateAliasType (268-345),
                            the per-generator part of pkgExecute incl. the defer loop (191-231), the package loop of Execute (108-116)
     pkg/gengo/genfile.go   merge (146-156)
     pkg/types/package.go   the type table filled from TypesInfo.Defs (116-144)

   Go maps are association lists.  Wherever the Go code ranges over a map the function below takes the
   list in the order it is given and the theorems (Props/C06.v) quantify over every permutation of it.

   Two switches select between the code as it was found and the repaired code:
     fx_scope  — pkg/types/package.go: only objects whose Parent() is the package scope enter the table
                 (prerequisite fix owned by C13, DESIGN.md section 4 #16);
     fx_defer  — context.go defer loop: index loop instead of `range` over a snapshot of the slice, so
                 callbacks registered by a callback also run (fixes/C06-nested-defer.diff). *)
Require Import Gengo.Base.Bytes.

Definition tags := list (bytes * list bytes).          (* map[string][]string *)

Fixpoint has_prefix (p s : bytes) : bool :=             (* strings.HasPrefix(s, p) *)
  match p, s with
  | [], _ => true
  | a :: p', b :: s' => Ascii.eqb a b && has_prefix p' s'
  | _ :: _, [] => false
  end.

Section Maps.
  Context {V : Type}.
  Fixpoint lookup (k : bytes) (m : list (bytes * V)) : option V :=
    match m with
    | [] => None
    | (k', v) :: r => if bytes_eqb k' k then Some v else lookup k r
    end.
  (* m[k] = v *)
  Fixpoint map_set (k : bytes) (v : V) (m : list (bytes * V)) : list (bytes * V) :=
    match m with
    | [] => [(k, v)]
    | (k', v') :: r => if bytes_eqb k' k then (k, v) :: r else (k', v') :: map_set k v r
    end.
  Definition keys (m : list (bytes * V)) : list bytes := map fst m.
End Maps.

(* ---- IsGeneratorEnabled (context.go:354-371) ----
     prefix := "gengo:" + g.Name(); enabled := false
     for k, values := range tags {
        if k == prefix { enabled = strings.Join(values, "") != "false"; return enabled }
        if strings.HasPrefix(k, prefix+":") { enabled = true }
     }
     return enabled                                                                        *)
Definition str_false : bytes := bs "false".
Definition gengo_prefix (g : bytes) : bytes := bs "gengo:" ++ g.
Definition colon : bytes := bs ":".

Fixpoint enabled_loop (prefix : bytes) (t : tags) (enabled : bool) : bool :=
  match t with
  | [] => enabled
  | (k, values) :: r =>
      if bytes_eqb k prefix then negb (bytes_eqb (concat values) str_false)
      else if has_prefix (prefix ++ colon) k then enabled_loop prefix r true
      else enabled_loop prefix r enabled
  end.

Definition is_generator_enabled (g : bytes) (t : tags) : bool := enabled_loop (gengo_prefix g) t false.

(* ---- merge (genfile.go:146-156): for each map in turn, for k, values := range tags { merged[k] = values } ---- *)
Definition merge_into (m t : tags) : tags := fold_left (fun m kv => map_set (fst kv) (snd kv) m) t m.
Definition merge (tl : list tags) : tags := fold_left merge_into tl [].

(* package tags (context.go:181-186): for every file with a package doc, in file order,
   for k := range tags { pkgTags[k] = tags[k] } — the same operation as merge *)
Definition pkg_tags (filetags : list tags) : tags := merge filetags.

(* ---- the type table (package.go:116-144) ---- *)
Inductive kind := KNamed | KAlias | KOther.        (* what obj.Type() is: *types.Named, *types.Alias, anything else (type parameter) *)
Inductive action := ANil | AQuiet | ASkip | AIgnore | AErr.
   (* what the generator does for the type: renders and returns nil; returns nil without rendering; ErrSkip; ErrIgnore; another error *)
(* a callback handed to Context.Defer: identity, whether it returns an error, the callbacks it registers itself when it runs *)
Inductive dspec := DS (id : N) (err : bool) (nested : list dspec).

Record tdef := mk_tdef {
  td_id : N;                 (* identity of the declaration *)
  td_name : bytes;           (* obj.Name() *)
  td_kind : kind;
  td_pkgscope : bool;        (* obj.Parent() == pkg.Types.Scope(); false for function-local types, type parameters, `_` *)
  td_tags : tags;            (* tags of the declaration's doc comment (what ExtractCommentTags returns) *)
  td_action : action;        (* script of the recording generator *)
  td_defers : list dspec     (* callbacks it registers when called for this type (only when it returns nil) *)
}.

Record fixes := mk_fixes { fx_scope : bool; fx_defer : bool }.

(* case *types.TypeName: p.types[x.Name()] = x       (repaired: only if x.Parent() == pkg.Types.Scope()) *)
Definition table_add (scope_fix : bool) (tbl : list (bytes * tdef)) (d : tdef) : list (bytes * tdef) :=
  if scope_fix && negb (td_pkgscope d) then tbl else map_set (td_name d) d tbl.
(* for ident := range TypesInfo.Defs — [defs] in ANY order *)
Definition type_table (scope_fix : bool) (defs : list tdef) : list (bytes * tdef) :=
  fold_left (table_add scope_fix) defs [].

(* ---- sort.Strings ---- *)
Fixpoint bytes_leb (a b : bytes) : bool :=
  match a, b with
  | [], _ => true
  | _ :: _, [] => false
  | x :: a', y :: b' =>
      let nx := N_of_ascii x in let ny := N_of_ascii y in
      if N.ltb nx ny then true else if N.ltb ny nx then false else bytes_leb a' b'
  end.

Section Sort.
  Context {A : Type} (key : A -> bytes).
  Fixpoint insert_by (x : A) (l : list A) : list A :=
    match l with
    | [] => [x]
    | y :: r => if bytes_leb (key x) (key y) then x :: l else y :: insert_by x r
    end.
  Definition isort_by (l : list A) : list A := fold_right insert_by [] l.
End Sort.
Definition sort_strings : list bytes -> list bytes := isort_by (fun s => s).

(* ---- doGenerate (context.go:268-307) ---- *)
Record gen := mk_gen { g_idx : N; g_name : bytes; g_alias : bool (* implements AliasGenerator *) }.

(* Context.Doc: merge(c.args.Globals, c.pkgTags, declaration tags) *)
Definition doc_tags (globals pkgtags : tags) (d : tdef) : tags := merge [globals; pkgtags; td_tags d].

Inductive ckind := CT | CA.                     (* GenerateType / GenerateAliasType *)
Definition call := (ckind * tdef)%type.
Definition is_err (a : action) : bool := match a with AErr => true | _ => false end.
Definition is_nil_action (a : action) : bool := match a with ANil | AQuiet => true | _ => false end.   (* returns nil *)
Definition renders (a : action) : bool := match a with ANil => true | _ => false end.

(* for _, n := range names { tpe := pkgTypes[n].Type(); switch … }   returns the calls made, in order,
   and whether the loop was left through `return err` *)
Fixpoint gen_loop (g : gen) (globals pkgtags : tags) (tbl : list (bytes * tdef)) (names : list bytes)
  : res (list call * bool) :=
  match names with
  | [] => Ok ([], false)
  | n :: r =>
      match lookup n tbl with
      | None => Panic                              (* pkgTypes[n] == nil: nil dereference *)
      | Some d =>
          let continue := gen_loop g globals pkgtags tbl r in
          let invoke (k : ckind) :=
            if is_err (td_action d) then Ok ([(k, d)], true)       (* ErrSkip / ErrIgnore are swallowed, others returned *)
            else let! (cs, e) := continue in Ok ((k, d) :: cs, e) in
          match td_kind d with
          | KAlias =>
              if is_generator_enabled (g_name g) (doc_tags globals pkgtags d)
              then (if g_alias g then invoke CA else continue)
              else continue
          | KNamed =>
              if is_generator_enabled (g_name g) (doc_tags globals pkgtags d) then invoke CT else continue
          | KOther => continue
          end
      end
  end.

(* names := keys of the table (range order [ns], arbitrary); sort.Strings(names); loop *)
Definition do_generate (g : gen) (globals pkgtags : tags) (tbl : list (bytes * tdef)) (ns : list bytes)
  : res (list call * bool) :=
  gen_loop g globals pkgtags tbl (sort_strings ns).

(* ---- the defer queue (context.go:75-77, 212-216) ---- *)
(* what the calls appended to c.defers, in order (the recording generator registers only when it returns nil) *)
Definition registered (cs : list call) : list dspec :=
  flat_map (fun c => if is_nil_action (td_action (snd c)) then td_defers (snd c) else []) cs.

(* as found: `for _, fn := range c.defers` ranges over the slice as it was when the loop started;
   what a callback appends is never run.  Returns the ids run, in order, and whether one failed. *)
Fixpoint run_defers_snapshot (q : list dspec) : list N * bool :=
  match q with
  | [] => ([], false)
  | DS id err _ :: r =>
      if err then ([id], true)
      else let (l, e) := run_defers_snapshot r in (id :: l, e)
  end.

(* repaired: `for i := 0; i < len(c.defers); i++` — what a callback appends is run too *)
Fixpoint run_defers_queue (fuel : nat) (q : list dspec) : res (list N * bool) :=
  match q with
  | [] => Ok ([], false)
  | DS id err nested :: r =>
      if err then Ok ([id], true)
      else match fuel with
           | O => OutOfFuel
           | S f => let! (l, e) := run_defers_queue f (r ++ nested) in Ok (id :: l, e)
           end
  end.

Fixpoint dsize (d : dspec) : nat :=
  match d with DS _ _ nested => S (fold_right (fun x n => dsize x + n) O nested) end.
Definition qsize (q : list dspec) : nat := fold_right (fun d n => dsize d + n) O q.
(* every callback in the forest, registered directly or by another callback *)
Fixpoint ids_tree (d : dspec) : list N :=
  match d with DS id _ nested => id :: flat_map ids_tree nested end.
Definition ids_all (q : list dspec) : list N := flat_map ids_tree q.
Fixpoint no_err_tree (d : dspec) : bool :=
  match d with DS _ err nested => negb err && forallb no_err_tree nested end.
Definition root_id (d : dspec) : N := match d with DS id _ _ => id end.

(* ---- one generator on one package (context.go:191-220) ---- *)
Inductive event :=
| EType (pkg gen id : N) (t : tags)      (* GenerateType called; t = what Context.Doc returns for the type, sorted by key *)
| EAlias (pkg gen id : N) (t : tags)
| EDefer (pkg gen did : N)
| EWrites (pkg : N) (gens : list N).     (* the files of the package are written (write phase, set of generators) *)
Inductive outcome := Done | GenFailed | DeferFailed.

Definition sort_tags (t : tags) : tags := isort_by (fun kv : bytes * list bytes => fst kv) t.

Definition event_of_call (pkg : N) (g : gen) (globals pkgtags : tags) (c : call) : event :=
  let t := sort_tags (doc_tags globals pkgtags (snd c)) in
  match fst c with
  | CT => EType pkg (g_idx g) (td_id (snd c)) t
  | CA => EAlias pkg (g_idx g) (td_id (snd c)) t
  end.

Definition rendered (cs : list call) : bool := existsb (fun c => renders (td_action (snd c))) cs.

(* result: events, outcome, "the generator's buffer is not empty" *)
Definition session (fx : fixes) (pkg : N) (g : gen) (globals pkgtags : tags) (defs : list tdef) (ns : list bytes)
  : res (list event * outcome * bool) :=
  let tbl := type_table (fx_scope fx) defs in
  let! (cs, e) := do_generate g globals pkgtags tbl ns in
  let evs := map (event_of_call pkg g globals pkgtags) cs in
  if e then Ok (evs, GenFailed, false)
  else
    let q := registered cs in
    let! (ds, e2) := (if fx_defer fx then run_defers_queue (qsize q) q else Ok (run_defers_snapshot q)) in
    let devs := map (EDefer pkg (g_idx g)) ds in
    if e2 then Ok (evs ++ devs, DeferFailed, false)
    else Ok (evs ++ devs, Done, rendered cs || negb (is_nil ds)).      (* every callback that returns nil renders *)

(* ---- one package (pkgExecute), all packages (Execute) ---- *)
Record pkg := mk_pkg {
  pk_id : N;
  pk_direct : bool;                (* named by an entrypoint *)
  pk_filetags : list tags;         (* tags of the package doc of each file that has one, file order *)
  pk_defs : list tdef              (* TypesInfo.Defs restricted to type names, ANY order *)
}.

(* range order of the table's keys used when evaluating: the order the table was built in *)
Definition session_default fx p g globals : res (list event * outcome * bool) :=
  session fx (pk_id p) g globals (pkg_tags (pk_filetags p)) (pk_defs p)
          (keys (type_table (fx_scope fx) (pk_defs p))).

Fixpoint pkg_gens (fx : fixes) (p : pkg) (gens : list gen) (globals : tags) : res (list event * outcome * list N) :=
  match gens with
  | [] => Ok ([], Done, [])
  | g :: r =>
      let! (evs, o, body) := session_default fx p g globals in
      match o with
      | Done =>
          let! (evs', o', ws) := pkg_gens fx p r globals in
          Ok (evs ++ evs', o', if body then g_idx g :: ws else ws)
      | _ => Ok (evs, o, [])
      end
  end.

Definition pkg_execute (fx : fixes) (p : pkg) (gens : list gen) (globals : tags) : res (list event * outcome) :=
  let! (evs, o, ws) := pkg_gens fx p gens globals in
  match o with
  | Done => Ok (evs ++ (if is_nil ws then [] else [EWrites (pk_id p) ws]), Done)
  | _ => Ok (evs, o)
  end.

(* for pkgPath, direct := range LocalPkgPaths() (sorted) { if !All && !direct { continue }; pkgExecute … }
   (no previous gengo.sum, or Force: every package counts as changed — the cache is C08's subject) *)
Fixpoint execute (fx : fixes) (all : bool) (pkgs : list pkg) (gens : list gen) (globals : tags) : res (list event * outcome) :=
  match pkgs with
  | [] => Ok ([], Done)
  | p :: r =>
      if all || pk_direct p then
        let! (evs, o) := pkg_execute fx p gens globals in
        match o with
        | Done => let! (evs', o') := execute fx all r gens globals in Ok (evs ++ evs', o')
        | _ => Ok (evs, o)
        end
      else execute fx all r gens globals
  end.

Definition fixed_all : fixes := mk_fixes true true.
Definition as_found : fixes := mk_fixes false false.
