(* Model of the deepcopy generator:
     devpkg/deepcopygen/deepcopy.go            (generateType, the per-kind templates, on-demand dependencies)
     devpkg/deepcopygen/helper/copy_fields.go  (createFieldSnippet: statement chosen per field)
   plus a heap semantics of the generated statement IR.  Definitions only.

   The Go code is modelled as it is; each repair that was made to it is a boolean of [fixes]
   ([no_fix] = the code before the repairs, [all_fixed] = the code with fixes/C17-*.diff applied). *)
Require Import Gengo.Base.Bytes.

(* ------------------------------------------------------------------------------------------ *)
(* The type graph, as go/types presents a package to the generator                             *)
(* ------------------------------------------------------------------------------------------ *)

(* a method as the scan at copy_fields.go:77-96 sees it *)
Record msig := mk_msig {
  ms_name : bytes;
  ms_params : nat;
  ms_results : nat;
  ms_ptr : bool            (* the single result (DeepCopy) / the single parameter (DeepCopyInto) is a pointer *)
}.

(* element types of slices and maps: only their rendering matters *)
Inductive ety :=
| EBasic (n : bytes)                 (* int, string, ... *)
| EForeign (pkg n : bytes).          (* pkg.n, a defined scalar of another package *)

Inductive fty :=
| FBasic (n : bytes)                       (* *types.Basic                         -> default branch *)
| FSlice (e : ety)                         (* *types.Slice *)
| FMap (k : bytes) (e : ety)               (* *types.Map *)
| FNamed (n : bytes) (args : list bytes)   (* *types.Named of the same package, possibly instantiated *)
| FError                                   (* *types.Named without package: the predeclared error *)
| FIface                                   (* any (an alias) / interface{}         -> default branch *)
| FTParam (n : bytes)                      (* *types.TypeParam                     -> default branch *)
| FForeign (ms : list msig).               (* *types.Named of another package with these methods *)

Inductive dkind :=
| DStruct (tparams : list bytes) (fields : list (bytes * fty))
| DMap (k e : bytes)
| DScalar
| DIface.

Record decl := mk_decl {
  d_name : bytes;
  d_kind : dkind;
  d_tag : bool;                 (* +gengo:deepcopy on the type *)
  d_ifaces : option bytes;      (* +gengo:deepcopy:interfaces=<name> *)
  d_hand : list msig            (* hand-written methods, in source order *)
}.

Record pkg := mk_pkg {
  p_tag : bool;                 (* +gengo:deepcopy in the package doc *)
  p_decls : list decl
}.

Fixpoint find_decl (ds : list decl) (n : bytes) : option decl :=
  match ds with
  | [] => None
  | d :: r => if bytes_eqb (d_name d) n then Some d else find_decl r n
  end.

Definition lookup (G : pkg) (n : bytes) : option decl := find_decl (p_decls G) n.

(* gengo.IsGeneratorEnabled on merge(globals, package tags, type tags) *)
Definition enabled (G : pkg) (d : decl) : bool :=
  p_tag G || d_tag d || match d_ifaces d with Some _ => true | None => false end.

(* ------------------------------------------------------------------------------------------ *)
(* The generated code, abstracted                                                              *)
(* ------------------------------------------------------------------------------------------ *)

Inductive stmt :=
| SAssign (f : bytes)                    (* out.F = in.F *)
| SCopySlice (f : bytes) (ty : bytes)    (* if in.F != nil { i, o := &in.F, &out.F; *o = make(ty, len( *i)); copy( *o, *i) } *)
| SCopyMap (f : bytes) (ty : bytes)      (* if in.F != nil { ...; *o = make(ty, len( *i)); for key, val := range *i { ( *o)[key] = val } } *)
| SCallInto (f : bytes)                  (* in.F.DeepCopyInto(&out.F) *)
| SCallCopyVal (f : bytes)               (* out.F = in.F.DeepCopy() *)
| SCallCopyDeref (f : bytes)             (* out.F = *in.F.DeepCopy() *)
| SStar                                  (* *out = *in *)
| SOther.

Inductive method :=
| MObject (t : bytes) (tp : list bytes) (iface : bytes) (ptr : bool)  (* func (in [*]T) DeepCopyObject() iface *)
| MPtrCopy (t : bytes) (tp : list bytes)                              (* func (in *T) DeepCopy() *T *)
| MPtrInto (t : bytes) (tp : list bytes) (body : list stmt)           (* func (in *T) DeepCopyInto(out *T) { body } *)
| MMapCopy (t : bytes)                                                (* func (in T) DeepCopy() T *)
| MMapInto (t : bytes)                                                (* func (in T) DeepCopyInto(out T) *)
| MUnknown.

(* the identity of a declared method: receiver type name and method name (Go rejects a second declaration) *)
Definition method_id (m : method) : option (bytes * nat) :=
  match m with
  | MObject t _ _ _ => Some (t, 0)
  | MPtrCopy t _ | MMapCopy t => Some (t, 1)
  | MPtrInto t _ _ | MMapInto t => Some (t, 2)
  | MUnknown => None
  end.

Definition n_copy : bytes := bs "DeepCopy".
Definition n_into : bytes := bs "DeepCopyInto".
Definition n_object : bytes := bs "DeepCopyObject".

(* what the type checker of a later run sees of an earlier run's file: the methods of type n *)
Definition sig_of (n : bytes) (m : method) : list msig :=
  match m with
  | MObject t _ _ _ => if bytes_eqb t n then [mk_msig n_object 0 1 false] else []
  | MPtrCopy t _ => if bytes_eqb t n then [mk_msig n_copy 0 1 true] else []
  | MPtrInto t _ _ => if bytes_eqb t n then [mk_msig n_into 1 0 true] else []
  | MMapCopy t => if bytes_eqb t n then [mk_msig n_copy 0 1 false] else []
  | MMapInto t => if bytes_eqb t n then [mk_msig n_into 1 0 false] else []
  | MUnknown => []
  end.

Definition sigs_of (vis : list method) (n : bytes) : list msig := flat_map (sig_of n) vis.

(* ------------------------------------------------------------------------------------------ *)
(* Repairs                                                                                     *)
(* ------------------------------------------------------------------------------------------ *)

Record fixes := mk_fixes {
  fx_nilpkg : bool;    (* copy_fields.go: a named type without package (error) is not in the same package *)
  fx_iface : bool;     (* copy_fields.go: a same-package interface type is no dependency; its fields are assigned *)
  fx_mapptr : bool;    (* copy_fields.go: same-package map types: methods take and return the map itself *)
  fx_deps : bool;      (* deepcopy.go: a same-package dependency is generated even when it carries no tag *)
  fx_origin : bool;    (* deepcopy.go: an instantiated generic type is generated as its origin, once *)
  fx_objrecv : bool    (* deepcopy.go: DeepCopyObject of a map type has a value receiver *)
}.

Definition no_fix := mk_fixes false false false false false false.
Definition all_fixed := mk_fixes true true true true true true.

(* ------------------------------------------------------------------------------------------ *)
(* copy_fields.go: createFieldSnippet                                                          *)
(* ------------------------------------------------------------------------------------------ *)

(* lines 77-96: note that HasDeepCopy / HasDeepCopyInto are OVERWRITTEN per method (the last method wins),
   PtrResultOrParam is accumulated *)
Definition scan_step (st : bool * bool * bool) (m : msig) : bool * bool * bool :=
  let '(_, _, ptr) := st in
  let hc := bytes_eqb (ms_name m) n_copy && Nat.eqb (ms_results m) 1 && Nat.eqb (ms_params m) 0 in
  let hi := bytes_eqb (ms_name m) n_into && Nat.eqb (ms_params m) 1 && Nat.eqb (ms_results m) 0 in
  let ptr1 := if hc then (if ms_ptr m then ptr else false) else ptr in
  let ptr2 := if hi then (if ms_ptr m then ptr1 else false) else ptr1 in
  (hc, hi, ptr2).

Definition scan (ms : list msig) : bool * bool * bool := fold_left scan_step ms (false, false, true).

(* lines 108-132 *)
Definition choose (f : bytes) (hc hi ptr : bool) : stmt :=
  if ptr && hi then SCallInto f
  else if negb ptr && hc then SCallCopyVal f
  else if ptr && hc then SCallCopyDeref f
  else SAssign f.

Definition key := (bytes * list bytes)%type.   (* identity of a *types.Named: origin name + type arguments *)

Definition render_ety (e : ety) : bytes :=
  match e with
  | EBasic n => n
  | EForeign p n => p ++ bs "." ++ n
  end.

Definition is_iface (d : option decl) : bool :=
  match d with Some (mk_decl _ DIface _ _ _) => true | _ => false end.
Definition is_map (d : option decl) : bool :=
  match d with Some (mk_decl _ (DMap _ _) _ _ _) => true | _ => false end.

Definition hand_of (d : option decl) : list msig :=
  match d with Some d => d_hand d | None => [] end.

(* the statement for one field, and the local dependency reported through OnLocalDep *)
Definition field_stmt (fx : fixes) (G : pkg) (vis : list method) (f : bytes) (t : fty) : res (stmt * option key) :=
  match t with
  | FNamed n args =>
      let d := lookup G n in
      (* repaired: `fc.InSamePkg && !isInterface` — for an interface type nothing is reported through
         OnLocalDep and nothing is forced; a named interface type has no explicit methods (NumMethods() = 0), so
         the scan leaves HasDeepCopy = HasDeepCopyInto = false and the final else branch assigns *)
      if fx_iface fx && is_iface d then Ok (SAssign f, None)
      else
        (* the methods of the named type: hand-written ones (earlier files) then those of the generated file *)
        let '(_, _, ptr) := scan (hand_of d ++ sigs_of vis n) in
        (* InSamePkg: OnLocalDep; "always gen" *)
        let ptr' := if fx_mapptr fx && is_map d then false else ptr in
        Ok (choose f true true ptr', Some (n, args))
  | FError =>
      if fx_nilpkg fx then
        (* not in the same package; the predeclared error type has no explicit methods *)
        let '(hc, hi, ptr) := scan [] in Ok (choose f hc hi ptr, None)
      else Panic                                   (* x.Obj().Pkg().Path() on a nil package *)
  | FForeign ms =>
      let '(hc, hi, ptr) := scan ms in Ok (choose f hc hi ptr, None)
  | FMap k e => Ok (SCopyMap f (bs "map[" ++ k ++ bs "]" ++ render_ety e), None)
  | FSlice e => Ok (SCopySlice f (bs "[]" ++ render_ety e), None)
  | FBasic _ | FIface | FTParam _ => Ok (SAssign f, None)
  end.

(* StructFieldsCopy.Frag: the fields in order; dependencies are appended to defers in order *)
Fixpoint fields_copy (fx : fixes) (G : pkg) (vis : list method) (fs : list (bytes * fty))
  : res (list stmt * list key) :=
  match fs with
  | [] => Ok ([], [])
  | (f, t) :: r =>
      let! (s, dep) := field_stmt fx G vis f t in
      let! (ss, deps) := fields_copy fx G vis r in
      Ok (s :: ss, match dep with Some k => k :: deps | None => deps end)
  end.

(* ------------------------------------------------------------------------------------------ *)
(* deepcopy.go: generateType                                                                   *)
(* ------------------------------------------------------------------------------------------ *)

(* what one type contributes to the file (lines 57-140), and its defers *)
Definition render (fx : fixes) (G : pkg) (vis : list method) (d : decl) : res (list method * list key) :=
  let n := d_name d in
  match d_kind d with
  | DIface => Ok ([], [])                                   (* not reached: ErrSkip earlier *)
  | DMap _ _ =>
      let obj := match d_ifaces d with
                 | Some i => [MObject n [] i (negb (fx_objrecv fx))]
                 | None => [] end in
      Ok (obj ++ [MMapCopy n; MMapInto n], [])
  | DStruct tp fs =>
      let obj := match d_ifaces d with Some i => [MObject n tp i true] | None => [] end in
      let! (body, deps) := fields_copy fx G vis fs in
      (* OnLocalDep: defers = append(defers, named[.Origin()]) *)
      let deps' := if fx_origin fx then map (fun k : key => (fst k, [])) deps else deps in
      Ok (obj ++ [MPtrCopy n tp; MPtrInto n tp body], deps')
  | DScalar =>
      let obj := match d_ifaces d with Some i => [MObject n [] i true] | None => [] end in
      Ok (obj ++ [MPtrCopy n []; MPtrInto n [] [SStar]], [])
  end.

Definition key_eqb (a b : key) : bool :=
  bytes_eqb (fst a) (fst b) && list_eqb bytes_eqb (snd a) (snd b).

Definition mem_key (k : key) (l : list key) : bool := existsb (key_eqb k) l.

Inductive gres := GNil | GSkip.       (* nil | gengo.ErrSkip *)

(* generator state: g.processed and the body of the generated file *)
Record gstate := mk_gstate { gs_processed : list key; gs_out : list method }.

(* the loop over defers (lines 142-146): the first error (ErrSkip) is returned at once *)
Definition loop_defers (rec : key -> gstate -> res (gres * gstate)) : list key -> gstate -> res (gres * gstate) :=
  fix loop (ds : list key) (st : gstate) : res (gres * gstate) :=
    match ds with
    | [] => Ok (GNil, st)
    | dk :: r =>
        let! (g, st') := rec dk st in
        match g with
        | GSkip => Ok (GSkip, st')                (* if err != nil { return err } *)
        | GNil => loop r st'
        end
    end.

(* generateType; [asdep] = reached through defers (only the repaired code distinguishes).
   fuel bounds the nesting depth of the on-demand chain. *)
Fixpoint gen_type (fuel : nat) (fx : fixes) (G : pkg) (vis : list method) (asdep : bool) (k : key) (st : gstate)
  : res (gres * gstate) :=
  match fuel with
  | O => OutOfFuel
  | S fuel' =>
      if mem_key k (gs_processed st) then Ok (GNil, st)
      else
        let st1 := mk_gstate (k :: gs_processed st) (gs_out st) in
        match lookup G (fst k) with
        | None => Ok (GNil, st1)                                   (* cannot happen for a type-checked package *)
        | Some d =>
            match d_kind d with
            | DIface => Ok (GSkip, st1)
            | _ =>
                if negb (asdep && fx_deps fx) && negb (enabled G d) then Ok (GNil, st1)
                else
                  let! (ms, defers) := render fx G vis d in
                  let st2 := mk_gstate (gs_processed st1) (gs_out st1 ++ ms) in
                  loop_defers (gen_type fuel' fx G vis true) defers st2
            end
        end
  end.

(* gengoCtx.doGenerate: the package's types in sorted order; GenerateType only for enabled ones;
   ErrSkip is swallowed (doGenerateNamedType) *)
Fixpoint gen_all (fuel : nat) (fx : fixes) (G : pkg) (vis : list method) (order : list bytes) (st : gstate)
  : res gstate :=
  match order with
  | [] => Ok st
  | n :: r =>
      match lookup G n with
      | None => gen_all fuel fx G vis r st
      | Some d =>
          if enabled G d then
            let! (_, st') := gen_type fuel fx G vis false (n, []) st in
            gen_all fuel fx G vis r st'
          else gen_all fuel fx G vis r st
      end
  end.

(* one run of the generator: [vis] = the methods of the generated file left by the previous run *)
Definition gen_deepcopy (fuel : nat) (fx : fixes) (G : pkg) (order : list bytes) (vis : list method)
  : res (list method) :=
  let! st := gen_all fuel fx G vis order (mk_gstate [] []) in
  Ok (gs_out st).

(* run number k (0 = first run, nothing generated yet) *)
Fixpoint run (fuel : nat) (fx : fixes) (G : pkg) (order : list bytes) (k : nat) : res (list method) :=
  match k with
  | O => gen_deepcopy fuel fx G order []
  | S k' => let! prev := run fuel fx G order k' in gen_deepcopy fuel fx G order prev
  end.

(* ------------------------------------------------------------------------------------------ *)
(* Heap semantics of the generated methods                                                     *)
(* ------------------------------------------------------------------------------------------ *)

Definition loc := nat.

Inductive cell :=
| CSlice (elems : list N)               (* backing array of a slice of scalars *)
| CMap (entries : list (N * N)).        (* a map of scalars *)

Definition heap := list cell.            (* location = index; allocation appends *)

Inductive value :=
| VScalar (n : N)
| VSlice (l : option loc)                (* None = nil *)
| VMap (l : option loc)
| VIface (id : N)                        (* an interface value: copied as a word, its dynamic value is shared *)
| VStruct (fs : list (bytes * value)).

Definition alloc (h : heap) (c : cell) : heap * loc := (h ++ [c], List.length h).

Fixpoint get_field (f : bytes) (fs : list (bytes * value)) : option value :=
  match fs with
  | [] => None
  | (g, v) :: r => if bytes_eqb g f then Some v else get_field f r
  end.

Fixpoint set_field (f : bytes) (v : value) (fs : list (bytes * value)) : list (bytes * value) :=
  match fs with
  | [] => []
  | (g, w) :: r => if bytes_eqb g f then (g, v) :: r else (g, w) :: set_field f v r
  end.

(* the zero value of a value's type: what new(T) holds *)
Fixpoint zero_like (v : value) : value :=
  match v with
  | VScalar _ => VScalar 0
  | VSlice _ => VSlice None
  | VMap _ => VMap None
  | VIface _ => VIface 0
  | VStruct fs => VStruct ((fix go (l : list (bytes * value)) :=
                              match l with
                              | [] => []
                              | (f, x) :: r => (f, zero_like x) :: go r
                              end) fs)
  end.

Fixpoint find_into (ms : list method) (n : bytes) : option (list stmt) :=
  match ms with
  | [] => None
  | MPtrInto t _ body :: r => if bytes_eqb t n then Some body else find_into r n
  | _ :: r => find_into r n
  end.

Fixpoint has_ptr_copy (ms : list method) (n : bytes) : bool :=
  match ms with
  | [] => false
  | MPtrCopy t _ :: r => bytes_eqb t n || has_ptr_copy r n
  | _ :: r => has_ptr_copy r n
  end.

Definition has_map_methods (ms : list method) (n : bytes) : bool :=
  existsb (fun m => match m with MMapCopy t => bytes_eqb t n | _ => false end) ms
  && existsb (fun m => match m with MMapInto t => bytes_eqb t n | _ => false end) ms.

(* the static type of field f of struct type n: what the Go type checker resolves the callee from *)
Definition field_type (G : pkg) (n : bytes) (f : bytes) : option fty :=
  match lookup G n with
  | Some (mk_decl _ (DStruct _ fs) _ _ _) =>
      (fix go (l : list (bytes * fty)) :=
         match l with
         | [] => None
         | (g, t) :: r => if bytes_eqb g f then Some t else go r
         end) fs
  | _ => None
  end.

(* in.DeepCopyInto(out) for a map type: for k := range in { out[k] = in[k] }, out freshly made *)
Definition copy_map_cell (h : heap) (l : option loc) : res (value * heap) :=
  match l with
  | None => Ok (VMap None, h)
  | Some a =>
      match nth_error h a with
      | Some (CMap es) => let '(h', a') := alloc h (CMap es) in Ok (VMap (Some a'), h')
      | _ => Panic
      end
  end.

Definition copy_slice_cell (h : heap) (l : option loc) : res (value * heap) :=
  match l with
  | None => Ok (VSlice None, h)
  | Some a =>
      match nth_error h a with
      | Some (CSlice es) => let '(h', a') := alloc h (CSlice es) in Ok (VSlice (Some a'), h')
      | _ => Panic
      end
  end.

(* one statement of a DeepCopyInto body of type n; [rec c v o h] = (&v).DeepCopyInto(&o) for the type named c.
   A call that does not resolve to an emitted method, or a statement that does not fit the value, is Panic
   ("does not compile / ill-typed"). *)
Definition exec_stmt (rec : bytes -> value -> value -> heap -> res (value * heap))
    (G : pkg) (ms : list method) (n : bytes) (fin : list (bytes * value))
    (s : stmt) (fout : list (bytes * value)) (h : heap) : res (list (bytes * value) * heap) :=
  match s with
  | SAssign f =>
      match get_field f fin with
      | Some v => Ok (set_field f v fout, h)
      | None => Panic
      end
  | SCopySlice f _ =>
      match get_field f fin with
      | Some (VSlice None) => Ok (fout, h)             (* if in.F != nil *)
      | Some (VSlice l) => let! (v, h') := copy_slice_cell h l in Ok (set_field f v fout, h')
      | _ => Panic
      end
  | SCopyMap f _ =>
      match get_field f fin with
      | Some (VMap None) => Ok (fout, h)
      | Some (VMap l) => let! (v, h') := copy_map_cell h l in Ok (set_field f v fout, h')
      | _ => Panic
      end
  | SCallInto f =>
      match field_type G n f, get_field f fin, get_field f fout with
      | Some (FNamed c _), Some v, Some o =>
          let! (v', h') := rec c v o h in Ok (set_field f v' fout, h')
      | _, _, _ => Panic
      end
  | SCallCopyVal f =>
      match field_type G n f, get_field f fin with
      | Some (FNamed c _), Some (VMap l) =>
          if has_map_methods ms c then
            let! (v', h') := copy_map_cell h l in Ok (set_field f v' fout, h')
          else Panic
      | _, _ => Panic
      end
  | SCallCopyDeref f =>
      match field_type G n f, get_field f fin with
      | Some (FNamed c _), Some v =>
          if has_ptr_copy ms c then
            let! (v', h') := rec c v (zero_like v) h in Ok (set_field f v' fout, h')
          else Panic
      | _, _ => Panic
      end
  | SStar | SOther => Panic
  end.

Definition exec_body (rec : bytes -> value -> value -> heap -> res (value * heap))
    (G : pkg) (ms : list method) (n : bytes) (fin : list (bytes * value))
  : list stmt -> list (bytes * value) -> heap -> res (list (bytes * value) * heap) :=
  fix loop (ss : list stmt) (fout : list (bytes * value)) (h : heap) :=
    match ss with
    | [] => Ok (fout, h)
    | s :: r => let! (fout', h') := exec_stmt rec G ms n fin s fout h in loop r fout' h'
    end.

(* (in *T).DeepCopyInto(out) with *out = vout, for the type named n; fuel bounds the call depth *)
Fixpoint exec_into (fuel : nat) (G : pkg) (ms : list method) (n : bytes) (vin vout : value) (h : heap)
  : res (value * heap) :=
  match fuel with
  | O => OutOfFuel
  | S fuel' =>
      match find_into ms n with
      | None => Panic
      | Some [SStar] => Ok (vin, h)
      | Some body =>
          match vin, vout with
          | VStruct fin, VStruct fout =>
              let! (fout', h') := exec_body (exec_into fuel' G ms) G ms n fin body fout h in
              Ok (VStruct fout', h')
          | _, _ => Panic
          end
      end
  end.

(* (in *T).DeepCopy() on a non-nil receiver: out := new(T); in.DeepCopyInto(out); return out *)
Definition exec_copy (fuel : nat) (G : pkg) (ms : list method) (n : bytes) (v : value) (h : heap)
  : res (value * heap) :=
  if has_ptr_copy ms n then exec_into fuel G ms n v (zero_like v) h else Panic.

(* (in T).DeepCopy() for a map type *)
Definition exec_copy_map (ms : list method) (n : bytes) (v : value) (h : heap) : res (value * heap) :=
  match v with
  | VMap l => if has_map_methods ms n then copy_map_cell h l else Panic
  | _ => Panic
  end.

(* ---- what a value denotes: its contents read out of the heap (deep equality = equal snapshots) ---- *)

Inductive snap :=
| PScalar (n : N)
| PNil
| PSlice (es : list N)
| PMap (es : list (N * N))
| PIface (id : N)
| PStruct (fs : list (bytes * snap))
| PDangling.

Fixpoint snapshot (h : heap) (v : value) : snap :=
  match v with
  | VScalar n => PScalar n
  | VSlice None | VMap None => PNil
  | VSlice (Some a) => match nth_error h a with Some (CSlice es) => PSlice es | _ => PDangling end
  | VMap (Some a) => match nth_error h a with Some (CMap es) => PMap es | _ => PDangling end
  | VIface i => PIface i
  | VStruct fs => PStruct ((fix go (l : list (bytes * value)) :=
                              match l with
                              | [] => []
                              | (f, x) :: r => (f, snapshot h x) :: go r
                              end) fs)
  end.

(* the container locations reachable from a value (cells hold scalars only) *)
Fixpoint locs (v : value) : list loc :=
  match v with
  | VSlice (Some a) | VMap (Some a) => [a]
  | VStruct fs => (fix go (l : list (bytes * value)) :=
                     match l with
                     | [] => []
                     | (_, x) :: r => locs x ++ go r
                     end) fs
  | _ => []
  end.

(* a mutation through a slice/map of some value: the cell at a is replaced (append within capacity, index
   assignment, map insert/delete) *)
Fixpoint write (h : heap) (a : loc) (c : cell) : heap :=
  match h, a with
  | [], _ => []
  | _ :: r, O => c :: r
  | x :: r, S a' => x :: write r a' c
  end.

(* ---- the DeepCopy methods themselves, statement by statement ----
   The three templates of deepcopy.go that declare a DeepCopy method (map case :80-88, struct case :91-99, default
   case :131-140) are fixed texts:
       func (in *T) DeepCopy() *T { if in == nil { return nil }; out := new(T);  in.DeepCopyInto(out); return out }
       func (in T)  DeepCopy() T  { if in == nil { return nil }; out := make(T); in.DeepCopyInto(out); return out }
   and the harness abstracts a generated function to [MPtrCopy] / [MMapCopy] only when its text is exactly that statement
   list (harness/internal/c17/parse.go rePtrCopy / reMapCopy; anything else is [MUnknown]).  [copy_body] is that
   statement list; [run_ptr_copy] / [run_map_copy] execute it, the receiver being possibly nil.  [exec_copy] /
   [exec_copy_map] above are the non-nil paths (Proofs/DeepCopySem.v deep_copy_some, deep_copy_map_is_exec_copy_map). *)
Inductive cstmt :=
| CNilGuard      (* if in == nil { return nil } *)
| CNew           (* out := new(T) *)
| CMake          (* out := make(T) *)
| CCallInto      (* in.DeepCopyInto(out) *)
| CReturnOut.    (* return out *)

Definition copy_body (m : method) : list cstmt :=
  match m with
  | MPtrCopy _ _ => [CNilGuard; CNew; CCallInto; CReturnOut]
  | MMapCopy _ => [CNilGuard; CMake; CCallInto; CReturnOut]
  | _ => []
  end.

(* the declared DeepCopy method of type n with a pointer receiver / with a map receiver: its body *)
Fixpoint find_ptr_copy (ms : list method) (n : bytes) : option (list cstmt) :=
  match ms with
  | [] => None
  | m :: r =>
      match m with
      | MPtrCopy t _ => if bytes_eqb t n then Some (copy_body m) else find_ptr_copy r n
      | _ => find_ptr_copy r n
      end
  end.

Fixpoint find_map_copy (ms : list method) (n : bytes) : option (list cstmt) :=
  match ms with
  | [] => None
  | m :: r =>
      match m with
      | MMapCopy t => if bytes_eqb t n then Some (copy_body m) else find_map_copy r n
      | _ => find_map_copy r n
      end
  end.

Definition has_map_into (ms : list method) (n : bytes) : bool :=
  existsb (fun m => match m with MMapInto t => bytes_eqb t n | _ => false end) ms.

(* the local variable out of a DeepCopy body with a pointer receiver *)
Inductive ostate :=
| OUndeclared                 (* not declared yet: a use does not compile *)
| ONew                        (* out = new(T): points to the zero value of T *)
| OVal (v : value).           (* *out = v *)

(* a body with receiver [inp] (None = the nil pointer); [into v o h] = (&v).DeepCopyInto(&o).
   Panic = "does not compile" or a run-time panic.  DeepCopyInto on a nil receiver reads *in / in.F: a nil dereference
   (conservative for a struct without fields, whose DeepCopyInto reads nothing). *)
Fixpoint run_ptr_copy (into : value -> value -> heap -> res (value * heap)) (inp : option value)
    (ss : list cstmt) (out : ostate) (h : heap) : res (option value * heap) :=
  match ss with
  | [] => Panic                                             (* missing return *)
  | CNilGuard :: r =>
      match inp with
      | None => Ok (None, h)                                (* in == nil: return nil *)
      | Some _ => run_ptr_copy into inp r out h
      end
  | CNew :: r => run_ptr_copy into inp r ONew h
  | CMake :: _ => Panic                                     (* make of a struct / scalar type *)
  | CCallInto :: r =>
      match inp, out with
      | _, OUndeclared => Panic
      | None, _ => Panic                                    (* nil dereference inside DeepCopyInto *)
      | Some v, ONew => let! (v', h') := into v (zero_like v) h in run_ptr_copy into inp r (OVal v') h'
      | Some v, OVal o => let! (v', h') := into v o h in run_ptr_copy into inp r (OVal v') h'
      end
  | CReturnOut :: _ =>
      match out, inp with
      | OVal v', _ => Ok (Some v', h)
      | ONew, Some v => Ok (Some (zero_like v), h)
      | ONew, None => Panic       (* a non-nil pointer to a zero T: not nil; T's shape is only known from *in here *)
      | OUndeclared, _ => Panic
      end
  end.

(* (in *T).DeepCopy() for the type named n, the receiver possibly nil: the declared method's body is executed *)
Definition deep_copy (fuel : nat) (G : pkg) (ms : list method) (n : bytes) (p : option value) (h : heap)
  : res (option value * heap) :=
  match find_ptr_copy ms n with
  | Some body => run_ptr_copy (exec_into fuel G ms n) p body OUndeclared h
  | None => Panic                                           (* no such method *)
  end.

(* a body with a map receiver [inp] (None = the nil map); out: the location make(T) returned.
   in.DeepCopyInto(out) is MMapInto's fixed body `for k := range in { out[k] = in[k] }` (no iteration on a nil map) *)
Fixpoint run_map_copy (into_declared : bool) (inp : option loc) (ss : list cstmt) (out : option loc) (h : heap)
  : res (value * heap) :=
  match ss with
  | [] => Panic
  | CNilGuard :: r =>
      match inp with
      | None => Ok (VMap None, h)
      | Some _ => run_map_copy into_declared inp r out h
      end
  | CMake :: r => let '(h', a) := alloc h (CMap []) in run_map_copy into_declared inp r (Some a) h'
  | CNew :: _ => Panic                                      (* new(T) is a *T, not a T *)
  | CCallInto :: r =>
      if into_declared then
        match out, inp with
        | None, _ => Panic
        | Some _, None => run_map_copy into_declared inp r out h
        | Some a, Some b =>
            match nth_error h b with
            | Some (CMap es) => run_map_copy into_declared inp r out (write h a (CMap es))
            | _ => Panic
            end
        end
      else Panic
  | CReturnOut :: _ =>
      match out with
      | Some a => Ok (VMap (Some a), h)
      | None => Panic
      end
  end.

(* (in T).DeepCopy() for a map type, the receiver possibly nil *)
Definition deep_copy_map (ms : list method) (n : bytes) (v : value) (h : heap) : res (value * heap) :=
  match v with
  | VMap l =>
      match find_map_copy ms n with
      | Some body => run_map_copy (has_map_into ms n) l body None h
      | None => Panic
      end
  | _ => Panic
  end.
