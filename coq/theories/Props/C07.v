(* C07 — gengo only touches its own output files.  Statements only; every proof is [exact <lemma>]. *)
Require Import Gengo.Base.Bytes Gengo.Model.Pipeline Gengo.Proofs.Pipeline.

(* The two forms of the model agree: running Execute on a file system is applying its effect list. *)
Theorem C07_exec_is_effects :
  forall (E : env) a w gens s,
    exec E a w gens s = (apply_all (effects E a w gens s) s, exec_trace E a w gens s, exec_outcome E a w gens s).
Proof. exact exec_eq. Qed.
Print Assumptions C07_exec_is_effects.

(* Frame: for every formatter, sum parser, enabling rule, sync.Map order, every world, every list of (stateful)
   generators and every initial tree: a path that is not <base>.<something> inside a processed package, nor
   gengo.sum under All, holds the same bytes (or is equally absent) afterwards - whether Execute succeeded,
   failed or the process died, and after every prefix of the effects. *)
Theorem C07_frame :
  forall (E : env) a w gens s q,
    ~ own_output E a w s q -> fs_lookup q (exec_fs E a w gens s) = fs_lookup q s.
Proof. exact frame. Qed.
Print Assumptions C07_frame.

Theorem C07_frame_every_prefix :
  forall (E : env) a w gens s q k,
    ~ own_output E a w s q -> fs_lookup q (apply_all (firstn k (effects E a w gens s)) s) = fs_lookup q s.
Proof. exact frame_prefix. Qed.
Print Assumptions C07_frame_every_prefix.
