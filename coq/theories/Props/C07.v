(* C07 — gengo only touches its own output files.  Statements only; every proof is [exact <lemma>].

   The model (Model/Pipeline.v) is gengo.Execute / pkgExecute / doGenerate / WriteToFile as written, over
     E     : env      formatter, sum parser/printer, enabling rule, sync.Map iteration order, repair switch
     a     : args     All, Force, OutputFileBaseName
     w     : world    what the loader reported: local packages (path, dir, name, compiled Go files, types, hash),
                      which of them are direct
     gens  : list generator   arbitrary state machines (any state type, any step function)
     s     : fs       the module tree before the run
   Every theorem below quantifies over all of them. *)
Require Import Gengo.Base.Bytes Gengo.Model.Pipeline Gengo.Proofs.Pipeline Gengo.Proofs.PipelinePkg
  Gengo.Proofs.PipelineC07 Gengo.Proofs.PipelineWitness Gengo.Proofs.PipelineWitnessC07 Gengo.Corr.Pipe.

(* The two forms of the model agree: running Execute on a file system is applying its effect list. *)
Theorem C07_exec_is_effects :
  forall (E : env) a w gens s,
    exec E a w gens s = (apply_all (effects E a w gens s) s, exec_trace E a w gens s, exec_outcome E a w gens s).
Proof. exact exec_eq. Qed.
Print Assumptions C07_exec_is_effects.

(* Frame.  own_output a w s q  :=  q is <dir of a processed package>/<base>.<something>  or  (All and q is
   <module root>/gengo.sum);  processed = selected (All or direct) and not skipped through gengo.sum.
   Every other path holds the same bytes (or is equally absent) afterwards - whether Execute succeeded, failed
   or the process died. *)
Theorem C07_frame :
  forall (E : env) a w gens s q,
    ~ own_output E a w s q -> fs_lookup q (exec_fs E a w gens s) = fs_lookup q s.
Proof. exact frame. Qed.
Print Assumptions C07_frame.

(* ... and after every prefix of the effects (a run interrupted anywhere). *)
Theorem C07_frame_every_prefix :
  forall (E : env) a w gens s q k,
    ~ own_output E a w s q -> fs_lookup q (apply_all (firstn k (effects E a w gens s)) s) = fs_lookup q s.
Proof. exact frame_prefix. Qed.
Print Assumptions C07_frame_every_prefix.

(* After a successful run, for every processed package p and every generator g of the run: g's file exists iff g
   rendered something, or g signalled ErrIgnore (from GenerateType or GenerateAliasType), rendered nothing and
   had a file before.  Hypotheses: the repaired code (e_fixed); the sync.Map order is a permutation; generator
   names are distinct (gengo.Register keys by name); package dirs / paths are distinct; a file that exists at g's
   path is one of the package's compiled Go files (p.Files() is input data from go/packages). *)
Theorem C07_exists_iff :
  forall (E : env) a w gens s p g,
    e_fixed E = true -> order_ok E -> NoDup (map g_name gens) -> world_ok w ->
    exec_outcome E a w gens s = Done ->
    In p (w_pkgs w) -> processed E a w s p = true -> In g gens ->
    (fs_lookup (gen_file a p (g_name g)) s <> None -> In (fname a (g_name g)) (pk_files p)) ->
    (fs_lookup (gen_file a p (g_name g)) (exec_fs E a w gens s) <> None
     <-> go_body (gen_run E g p) <> [] \/
         (signalled_ignore E g p = true /\ fs_lookup (gen_file a p (g_name g)) s <> None)).
Proof. exact exists_iff. Qed.
Print Assumptions C07_exists_iff.

(* what is in a written file: the formatter's output for header + package clause + what g rendered *)
Theorem C07_written_content :
  forall (E : env) a w gens s p g,
    order_ok E -> NoDup (map g_name gens) -> world_ok w ->
    exec_outcome E a w gens s = Done ->
    In p (w_pkgs w) -> processed E a w s p = true -> In g gens ->
    go_body (gen_run E g p) <> [] ->
    exists out, e_fmt E (assemble (pk_name p) (g_name g) (go_body (gen_run E g p))) = Some out /\
                fs_lookup (gen_file a p (g_name g)) (exec_fs E a w gens s) = Some out.
Proof. exact written_content. Qed.
Print Assumptions C07_written_content.

(* Stale files: every compiled Go file <base>.* of a processed package that is not the file of a generator that
   rendered (or was kept by ErrIgnore) in this run is absent afterwards. *)
Theorem C07_stale_removed :
  forall (E : env) a w gens s p f,
    order_ok E -> NoDup (map g_name gens) -> world_ok w -> files_ok w ->
    exec_outcome E a w gens s = Done ->
    In p (w_pkgs w) -> processed E a w s p = true ->
    In f (pk_files p) -> prefixb (out_prefix a) f = true ->
    (~ exists g, In g gens /\ kept E g p = true /\ f = fname a (g_name g)) ->
    fs_lookup (pk_dir p, f) (exec_fs E a w gens s) = None.
Proof. exact stale_removed. Qed.
Print Assumptions C07_stale_removed.

(* Without All: gengo.sum is untouched and only directories of directly requested packages can change
   (whatever the outcome). *)
Theorem C07_not_all :
  forall (E : env) a w gens s,
    a_all a = false -> files_ok w ->
    fs_lookup (sum_path w) (exec_fs E a w gens s) = fs_lookup (sum_path w) s
    /\ forall q, (~ exists p, In p (w_pkgs w) /\ is_direct w p = true /\ in_pkg_output a p q) ->
                 fs_lookup q (exec_fs E a w gens s) = fs_lookup q s.
Proof. exact not_all. Qed.
Print Assumptions C07_not_all.

(* a package skipped through gengo.sum keeps its whole directory *)
Theorem C07_cached_untouched :
  forall (E : env) a w gens s p f,
    world_ok w -> In p (w_pkgs w) -> processed E a w s p = false -> (pk_dir p, f) <> sum_path w ->
    fs_lookup (pk_dir p, f) (exec_fs E a w gens s) = fs_lookup (pk_dir p, f) s.
Proof. exact cached_untouched. Qed.
Print Assumptions C07_cached_untouched.

(* History (defect #26): before doGenerateAliasType set the ignore flag, C07_exists_iff failed for an
   AliasGenerator that signals ErrIgnore, renders nothing and has a previous file: the file was removed. *)
Theorem C07_exists_iff_refuted_before_fix :
  exists (E : env) a w gens s p g,
    e_fixed E = false /\ order_ok E /\ NoDup (map g_name gens) /\ world_ok w /\
    exec_outcome E a w gens s = Done /\ In p (w_pkgs w) /\ processed E a w s p = true /\ In g gens /\
    (fs_lookup (gen_file a p (g_name g)) s <> None -> In (fname a (g_name g)) (pk_files p)) /\
    signalled_ignore E g p = true /\ go_body (gen_run E g p) = [] /\
    fs_lookup (gen_file a p (g_name g)) s <> None /\
    fs_lookup (gen_file a p (g_name g)) (exec_fs E a w gens s) = None.
Proof. exact exists_iff_refuted_before_fix. Qed.
Print Assumptions C07_exists_iff_refuted_before_fix.

(* non-vacuity: the same run on the repaired code keeps the previous file *)
Example C07_example_alias_ignore_kept :
  fs_lookup (gen_file wa_args wa_pkg (bs "al")) (exec_fs (wit_env true) wa_args wa_world [wa_gen] wa_fs)
  = Some (bs "package a").
Proof. vm_compute. reflexivity. Qed.

(* non-vacuity: a run with a rendering generator, a stale file, a look-alike and a user file *)
Example C07_example_run :
  let p := mk_pkg (bs "m/a") (bs "a") (bs "a") [bs "a.go"; bs "zz_generated.old.go"; bs "zz_generatedx.go"]
                  [mk_ty (bs "T") KNamed (tag "g1")] (bs "h1:a") in
  let g := script_gen (mk_sgen (bs "g1") false [((bs "m/a", bs "T"), mk_step (bs "var V = 1") RNil false false [])]) in
  let s := [((bs "a", bs "a.go"), bs "A"); ((bs "a", bs "zz_generated.old.go"), bs "O");
            ((bs "a", bs "zz_generatedx.go"), bs "X"); ((bs "", bs "README.md"), bs "R")] in
  let s' := exec_fs (wit_env true) wa_args (mk_world [p] [bs "m/a"]) [g] s in
  map (fun q => fs_lookup q s') [(bs "a", bs "a.go"); (bs "a", bs "zz_generated.old.go"); (bs "a", bs "zz_generatedx.go");
                                 (bs "", bs "README.md"); (bs "", bs "gengo.sum")]
  = [Some (bs "A"); None; Some (bs "X"); Some (bs "R"); None]
  /\ is_some (fs_lookup (bs "a", bs "zz_generated.g1.go") s') = true.
Proof. vm_compute. split; reflexivity. Qed.

(* non-vacuity of C07_exists_iff with EVERY case of the equivalence in one run (Proofs/PipelineWitnessC07.v): an All
   run over package m/a (processed: gengo.sum records another hash) and m/b (skipped: recorded hash = current hash);
   m/a had previous files of g1, old, keep and keepal, all listed among its compiled Go files, next to the user's a.go
   and notes.txt.  Generators: g1 renders; old is called and renders nothing (its listed previous file is STALE: removed);
   keep signals ErrIgnore and renders nothing (previous file kept, byte-identical); ign does the same without a previous
   file (none appears); keepal does it from GenerateAliasType.  The hypotheses of the theorem hold ... *)
Example C07_exists_iff_hypotheses_satisfiable :
  e_fixed we_E = true /\ order_ok we_E /\ NoDup (map g_name we_gens) /\ world_ok we_world
  /\ exec_outcome we_E we_args we_world we_gens we_fs = Done
  /\ In we_a (w_pkgs we_world) /\ processed we_E we_args we_world we_fs we_a = true
  /\ processed we_E we_args we_world we_fs we_b = false
  /\ Forall (fun g => fs_lookup (gen_file we_args we_a (g_name g)) we_fs <> None ->
                      In (fname we_args (g_name g)) (pk_files we_a)) we_gens.
Proof. exact we_hypotheses. Qed.

(* ... per generator: had a file before / rendered something / signalled ErrIgnore / has a file afterwards ... *)
Example C07_exists_iff_cases :
  map (fun g => (g_name g,
                 (is_some (fs_lookup (gen_file we_args we_a (g_name g)) we_fs),
                  negb (is_nil (go_body (gen_run we_E g we_a))),
                  signalled_ignore we_E g we_a,
                  is_some (fs_lookup (gen_file we_args we_a (g_name g)) we_after)))) we_gens
  = [(bs "g1",     (true,  true,  false, true));
     (bs "old",    (true,  false, false, false));
     (bs "keep",   (true,  false, true,  true));
     (bs "ign",    (false, false, true,  false));
     (bs "keepal", (true,  false, true,  true))].
Proof. exact we_table. Qed.

(* ... the bytes afterwards: the stale file gone, the kept files and the user's files as they were, the skipped
   package's directory untouched (its zz_generated.g1.go included), gengo.sum rewritten ... *)
Example C07_exists_iff_files :
  map (fun q => fs_lookup q we_after)
      [(bs "a", bs "zz_generated.g1.go"); (bs "a", bs "zz_generated.old.go"); (bs "a", bs "zz_generated.keep.go");
       (bs "a", bs "zz_generated.ign.go"); (bs "a", bs "zz_generated.keepal.go");
       (bs "a", bs "a.go"); (bs "a", bs "notes.txt"); (bs "", bs "README.md");
       (bs "b", bs "b.go"); (bs "b", bs "zz_generated.g1.go"); (bs "", bs "gengo.sum")]
  = [Some (assemble (bs "a") (bs "g1") (bs "var V = 1")); None; Some (bs "old a keep");
     None; Some (bs "old a keepal");
     Some (bs "package a"); Some (bs "mine"); Some (bs "R");
     Some (bs "package b"); Some (bs "old b g1"); Some (bs "m/a h1:a" ++ nl ++ bs "m/b h1:b" ++ nl)].
Proof. exact we_files. Qed.

(* ... and C07_exists_iff applied to each of the five generators (hypotheses discharged) *)
Example C07_exists_iff_instances :
  Forall (fun g =>
            fs_lookup (gen_file we_args we_a (g_name g)) we_after <> None
            <-> go_body (gen_run we_E g we_a) <> [] \/
                (signalled_ignore we_E g we_a = true /\ fs_lookup (gen_file we_args we_a (g_name g)) we_fs <> None))
         we_gens.
Proof. exact we_exists_iff_instances. Qed.
Print Assumptions C07_exists_iff_instances.

(* ---- the real generators (Model/Generators.v: deepcopy, partialstruct, runtimedoc as instances of the abstract
   generator, built from the generator models of C17 / C18 / C16): the frame holds of a run with exactly these three,
   for every type graph, every previous output, every printing of their IR ---- *)
Require Gengo.Model.Generators Gengo.Proofs.GeneratorsPipe.

(* (an INSTANCE of C07_frame, which holds for ANY list of generators: the frame is a property of Execute's own writes,
   and generators are assumed to do no file I/O of their own.  Nothing about the three generators is used beyond their
   being generators of the model; stated separately only so that the claim is visible for the real ones.) *)
Theorem C07_frame_real_generators :
  forall (E : env) fx graph vis pm fuel fd fs desc pi rfuel cfg tracker tin pg a w s q,
    ~ own_output E a w s q ->
    fs_lookup q (exec_fs E a w (Gengo.Proofs.GeneratorsPipe.real_gens fx graph vis pm fuel fd fs desc pi rfuel cfg tracker tin pg) s)
    = fs_lookup q s.
Proof. exact Gengo.Proofs.GeneratorsPipe.real_gens_frame. Qed.
Print Assumptions C07_frame_real_generators.

(* their names are distinct (the hypothesis NoDup (map g_name gens) of the theorems above) *)
Theorem C07_real_generators_names :
  forall fx graph vis pm fuel fd fs desc pi rfuel cfg tracker tin pg,
    NoDup (map g_name (Gengo.Proofs.GeneratorsPipe.real_gens fx graph vis pm fuel fd fs desc pi rfuel cfg tracker tin pg)).
Proof. exact Gengo.Proofs.GeneratorsPipe.real_gens_names. Qed.
Print Assumptions C07_real_generators_names.
