(* C10 — Value literals evaluate back to the value they were rendered from.
   Statements only; every proof is [exact <lemma>].

   Level: the literal AST.  [value_lit] is the model of Dumper.ValueLit (repaired code: fixed = true),
   [denote t l] the value Go gives to the literal l where a value of type t is expected.  That the
   printed text is parsed by Go to this AST and evaluated as [denote] says is tested per run (the
   generated programs are compiled and run), not proved.

   External components (strconv.FormatFloat in the two formats used, the compiler's conversion of a
   decimal constant to a float type, strconv.Quote) are universally quantified, with the hypotheses
   below; the harness tests them on every case. *)
Require Import Gengo.Base.Bytes Gengo.Model.ValueLit Gengo.Model.ValueLitSpec Gengo.Model.ValueLitInst
               Gengo.Proofs.ValueLit Gengo.Proofs.ValueLitWitness.
From Coq Require Import ZArith Permutation.

Section Statements.
  Context {F : Type}.
  Variable fzero : F -> bool.                      (* x == 0 *)
  Variables ffmt gfmt : fkind -> F -> bytes.       (* FormatFloat(x,'f',-1,bits), FormatFloat(x,'g',-1,bits) *)
  Variable fbig : F -> bool.                       (* |x| >= 1e21 *)
  Variable fparse : fkind -> bytes -> option F.    (* constant conversion by the compiler *)
  Variable f0 : F.
  Variable quote : bytes -> bytes.                 (* strconv.Quote *)
  Variable local : bytes -> bytes.                 (* import tracker *)
  Variable frep : fkind -> F -> Prop.              (* finite value of the float type *)
  Variable feq : F -> F -> Prop.                   (* == *)

  Definition strconv_hyps : Prop :=
    (forall x, fzero x = true -> feq x f0) /\
    (forall k x, frep k x -> exists y, fparse k (ffmt k x) = Some y /\ feq x y) /\
    (forall k x, frep k x -> exists y, fparse k (gfmt k x) = Some y /\ feq x y) /\
    (forall k x z, frep k x -> fbig x = false -> parse_int (ffmt k x) = Some z -> int_const_ok z = true) /\
    (forall k x, frep k x -> fbig x = true -> parse_int (gfmt k x) = None).

  (* Every in-domain value of every in-domain type renders (no panic) to a literal that denotes, at
     that type, a deeply equal value (nil and empty slices/maps identified, omitted fields zero). *)
  Theorem C10_roundtrip :
    strconv_hyps -> (forall a b, quote a = quote b -> a = b) ->
    forall (t : gotype) (v : goval F), dom t -> typed frep t v ->
    exists l v', value_lit fzero ffmt gfmt fbig quote local true false t v = Ok l /\
                 denote fparse f0 t l = Some v' /\ deep_eq feq v v'.
  Proof.
    intros (H1 & H2 & H3 & H4 & H5) Hq.
    exact (roundtrip_top fzero ffmt gfmt fbig fparse f0 quote local frep feq H1 H2 H3 H4 H5 Hq).
  Qed.

  (* Deterministic text: the literal of a map does not depend on the iteration order. *)
  Theorem C10_map_order :
    (forall a b, quote a = quote b -> a = b) ->
    forall sub t n1 n2 (m1 m2 : list (goval F * goval F)),
      dom t -> typed frep t (VMap n1 m1) -> Permutation m1 m2 ->
      value_lit fzero ffmt gfmt fbig quote local true sub t (VMap n1 m1) =
      value_lit fzero ffmt gfmt fbig quote local true sub t (VMap n2 m2).
  Proof. intros Hq. exact (map_order fzero ffmt gfmt fbig fparse f0 quote local frep Hq). Qed.

  (* ... for all types and values, before and after the repairs, as soon as the rendered key texts are
     pairwise distinct *)
  Theorem C10_map_order_general :
    forall fx sub t n1 n2 (m1 m2 : list (goval F * goval F)),
      Permutation m1 m2 ->
      (forall kt et tbl, under t = TMap kt et ->
         mapr (row fzero ffmt gfmt fbig quote local fx (if fx then false else sub) kt et) m1 = Ok tbl ->
         NoDup (map fst tbl)) ->
      value_lit fzero ffmt gfmt fbig quote local fx sub t (VMap n1 m1) =
      value_lit fzero ffmt gfmt fbig quote local fx sub t (VMap n2 m2).
  Proof. exact (map_order_gen fzero ffmt gfmt fbig quote local). Qed.

  (* The type prefix of a composite literal is the type literal of the value's type; the pointer
     closure is typed by the type literal of the pointee.  No domain restriction; since every nested
     literal is itself [value_lit] of a sub-value at its type, this covers every composite. *)
  Theorem C10_type_prefix :
    forall fx sub t (v : goval F) ty es,
      value_lit fzero ffmt gfmt fbig quote local fx sub t v = Ok (LComposite ty es) -> ty = type_lit t.
  Proof. exact (type_prefix fzero ffmt gfmt fbig quote local). Qed.

  Theorem C10_closure_prefix :
    forall sub t (v : goval F) ty a,
      value_lit fzero ffmt gfmt fbig quote local true sub t v = Ok (LPtrClosure ty a) ->
      exists e, under t = TPtr e /\ ty = type_lit e.
  Proof. exact (closure_prefix fzero ffmt gfmt fbig quote local). Qed.

  (* History: the code before the repairs (fixed = false) fails the round trip on in-domain values. *)
  Theorem C10_roundtrip_refuted_before_fix :
    fails fzero ffmt gfmt fbig fparse f0 quote local frep false (TPtr TString) (VPtr (VStr (bs "x"))) /\
    fails fzero ffmt gfmt fbig fparse f0 quote local frep false (TPtr T_Color) (VPtr (VInt 3)) /\
    fails fzero ffmt gfmt fbig fparse f0 quote local frep false
          (TStruct [(bs "Z", TPtr T_In)]) (VStruct [VPtr (VStruct [VInt 0])]) /\
    fails fzero ffmt gfmt fbig fparse f0 quote local frep false
          (TStruct [(bs "M", TMap TString T_In)]) (VStruct [VMap false [(VStr (bs "a"), VStruct [VInt 0])]]) /\
    fails fzero ffmt gfmt fbig fparse f0 quote local frep false (TInt KUintptr) (VInt 3) /\
    (forall x, frep KF64 x -> ffmt KF64 x = max_float64_f ->
               fails fzero ffmt gfmt fbig fparse f0 quote local frep false (TFloat KF64) (VFloat x)).
  Proof.
    exact (conj (old_ptr_string fzero ffmt gfmt fbig fparse f0 quote local frep)
          (conj (old_ptr_named fzero ffmt gfmt fbig fparse f0 quote local frep)
          (conj (old_ptr_zero_struct fzero ffmt gfmt fbig fparse f0 quote local frep)
          (conj (old_map_zero_struct fzero ffmt gfmt fbig fparse f0 quote local frep)
          (conj (old_uintptr fzero ffmt gfmt fbig fparse f0 quote local frep)
                (old_big_float fzero ffmt gfmt fbig fparse f0 quote local frep)))))).
  Qed.
End Statements.

Print Assumptions C10_roundtrip.
Print Assumptions C10_map_order.
Print Assumptions C10_map_order_general.
Print Assumptions C10_type_prefix.
Print Assumptions C10_closure_prefix.
Print Assumptions C10_roundtrip_refuted_before_fix.

(* non-vacuity 1: the hypotheses are satisfiable.  This is the MINIMAL instance (integers below 2^53 as
   "floats", printed in decimal, quote = identity): its [fbig] is constantly false, so the last clause of
   [strconv_hyps] holds vacuously in it.  The instances below it do not have that defect. *)
Theorem C10_hypotheses_satisfiable :
  @strconv_hyps Z (fun x => Z.eqb x 0) (fun _ => dec) (fun _ => dec) (fun _ => false)
                (fun _ => parse_int) 0%Z z_frep eq /\
  (forall a b : bytes, (fun s => s) a = (fun s => s) b -> a = b) /\ z_frep KF64 42%Z.
Proof.
  destruct z_instance as (H1 & H2 & H3 & H4 & H5 & H6).
  exact (conj (conj H1 (conj H2 (conj H2 (conj H3 H4)))) (conj H5 H6)).
Qed.
Print Assumptions C10_hypotheses_satisfiable.

(* non-vacuity 1b: decimal floats (m, e) = m * 10^e (Proofs/ValueLitWitness.v).  [d_fbig x] is |x| >= 1e21;
   the 'f' format writes all the digits, the 'g' format is scientific ("15e+20") exactly when the value is big,
   and the constant conversion [d_fparse] reads INT and INT "e+" INT.  The quote function escapes backslash,
   double quote and newline.  The concrete facts: a big value, one that is not, a big float32, zero with an
   exponent, and three values [d_frep] rejects. *)
Theorem C10_hypotheses_satisfiable_decimal_floats :
  @strconv_hyps df d_fzero d_ffmt d_gfmt d_fbig d_fparse d_f0 d_frep d_feq /\
  (forall a b, esc_quote a = esc_quote b -> a = b) /\
  (d_frep KF64 (15%Z, 20) /\ d_fbig (15%Z, 20) = true /\ d_gfmt KF64 (15%Z, 20) = bs "15e+20" /\
   d_ffmt KF64 (15%Z, 20) = bs "1500000000000000000000" /\
   parse_int (bs "15e+20") = None /\ d_fparse KF64 (bs "15e+20") = Some (15%Z, 20)) /\
  (d_frep KF64 (42%Z, 1) /\ d_fbig (42%Z, 1) = false /\ d_gfmt KF64 (42%Z, 1) = bs "420" /\
   d_ffmt KF64 (42%Z, 1) = bs "420" /\ d_fparse KF64 (bs "420") = Some (420%Z, 0)) /\
  (d_frep KF32 ((-1)%Z, 30) /\ d_fbig ((-1)%Z, 30) = true /\ d_gfmt KF32 ((-1)%Z, 30) = bs "-1e+30") /\
  (d_frep KF64 (0%Z, 5) /\ d_fzero (0%Z, 5) = true /\ d_fzero (42%Z, 1) = false) /\
  (d_frepb KF32 (1%Z, 39) = false /\ d_frepb KF64 ((2 ^ 53)%Z, 0) = false /\ d_frepb KF64 (2%Z, 308) = false).
Proof. exact (conj d_instance (conj esc_quote_inj d_facts)). Qed.
Print Assumptions C10_hypotheses_satisfiable_decimal_floats.

Example C10_esc_quote_example :
  esc_quote ["a"%char; dq; bsl; nl] = ["""" ; "a"; "\"; """"; "\"; "\"; "\"; "n"; """"]%char.
Proof. vm_compute. reflexivity. Qed.

(* non-vacuity 1c: the harness's own float record [fl] (the texts strconv produced) with a finite table of real
   strconv data ([fl_tab64], [fl_tab32]: 1.5, 1e21, -3.5e22, 0, -0, 100, 2.5e-7, 123456789, 9.99999999999999e20,
   MaxFloat64; MaxFloat32, float32(0.1) ...), [fl_frep k x] = x is a row of the table of that bit size,
   [fl_feq] = [i_feqb], [fl_ptab] = ParseFloat of every text of the tables. *)
Theorem C10_hypotheses_satisfiable_strconv_table :
  @strconv_hyps fl i_fzero i_ffmt i_gfmt i_fbig (i_fparse fl_ptab) i_f0 fl_frep fl_feq /\
  fl_frep KF64 (fl_mk "1e+21" "1000000000000000000000" "1e+21" true) /\
  fl_frep KF32 (fl_mk "3.4028235e+38" "340282350000000000000000000000000000000" "3.4028235e+38" true) /\
  parse_int (bs "1000000000000000000000") = Some (10 ^ 21)%Z /\ parse_int (bs "1e+21") = None /\
  fl_feq (fl_mk "-0" "-0" "-0" false) i_f0 /\
  i_fparse fl_ptab KF64 (bs "0.00000025") = Some (mk_fl (bs "2.5e-07") [] [] false) /\
  i_fparse fl_ptab KF32 max_float64_f = None.
Proof. exact (conj fl_instance fl_facts). Qed.
Print Assumptions C10_hypotheses_satisfiable_strconv_table.

(* ... and the main theorem on all the rows of the 64-bit table as a []float64, with the text *)
Example C10_strconv_table_roundtrip :
  forall local,
  exists l v', value_lit i_fzero i_ffmt i_gfmt i_fbig esc_quote local true false (TSlice (TFloat KF64)) fl_slice = Ok l /\
               denote (i_fparse fl_ptab) i_f0 (TSlice (TFloat KF64)) l = Some v' /\ deep_eq fl_feq fl_slice v'.
Proof. exact fl_slice_roundtrip. Qed.
Print Assumptions C10_strconv_table_roundtrip.

Example C10_strconv_table_text :
  option_map (print_lit esc_quote wit_local)
    (match value_lit i_fzero i_ffmt i_gfmt i_fbig esc_quote wit_local true false (TSlice (TFloat KF64)) fl_slice with
     | Ok l => Some l | _ => None end)
  = Some (concat (map (fun s => bs s ++ [nl])
            ["[]float64{"; "1.5,"; "1e+21,"; "-3.5e+22,"; "0,"; "-0,"; "100,"; "0.00000025,"; "123456789,";
             "999999999999999000000,"; "1.7976931348623157e+308,"]%string) ++ bs "}").
Proof. exact fl_slice_text. Qed.

(* non-vacuity 2: a concrete nested value, its literal under the repaired code, and the round trip *)
Definition ex_S : gotype :=
  TNamed (bs "m") (bs "S")
    (TStruct [(bs "Z", TPtr T_In); (bs "M", TMap TString T_In); (bs "P", TPtr TString);
              (bs "C", TPtr T_Color); (bs "L", TSlice (TInt KInt32))]).
Definition ex_v : goval fl :=
  VStruct [VPtr (VStruct [VInt 0]);
           VMap false [(VStr (bs "b"), VStruct [VInt 0]); (VStr (bs "a"), VStruct [VInt 7])];
           VPtr (VStr (bs "x")); VPtr (VInt 3); VSlice false [VInt 97; VInt 39]].

(* the example is in the domain and well typed, whatever the float carrier is *)
Example C10_example_dom : dom ex_S.
Proof. exact wit_S_dom. Qed.
Example C10_example_typed : forall frep, @typed fl frep ex_S ex_v.
Proof. exact (wit_v_typed fl). Qed.

(* the main theorem instantiated: the decimal floats and the escaping quote of non-vacuity 1b, this type and
   this value (over [df]: [wit_S] = [ex_S], [wit_v df] = the term of [ex_v]), every import tracker *)
Example C10_example_roundtrip_instantiated :
  forall local,
  exists l v', value_lit d_fzero d_ffmt d_gfmt d_fbig esc_quote local true false ex_S (wit_v df) = Ok l /\
               denote d_fparse d_f0 ex_S l = Some v' /\ deep_eq d_feq (wit_v df) v'.
Proof. exact wit_v_roundtrip. Qed.
Print Assumptions C10_example_roundtrip_instantiated.

(* ... and on [ex_v] itself, with the harness's float record and the table of real strconv data of non-vacuity 1c *)
Example C10_example_roundtrip_on_ex_v :
  forall local,
  exists l v', value_lit i_fzero i_ffmt i_gfmt i_fbig esc_quote local true false ex_S ex_v = Ok l /\
               denote (i_fparse fl_ptab) i_f0 ex_S l = Some v' /\ deep_eq fl_feq ex_v v'.
Proof.
  exact (fun local => C10_roundtrip i_fzero i_ffmt i_gfmt i_fbig (i_fparse fl_ptab) i_f0 esc_quote local fl_frep fl_feq
                        fl_instance esc_quote_inj ex_S ex_v wit_S_dom (wit_v_typed fl fl_frep)).
Qed.

Definition ex_q := [(bs "a", bs """a"""); (bs "b", bs """b"""); (bs "x", bs """x""")].

Definition ex_l : list (bytes * bytes) := [(bs "m", [])].   (* "m" is the package being generated *)

Example C10_example_text :
  option_map (fun l => to_string (i_print ex_q ex_l l))
             (match i_value_lit ex_q ex_l true false ex_S ex_v with Ok l => Some l | _ => None end)
  = Some ("S{" ++ String nl "Z:&(In{})," ++ String nl "M:map[string]In{" ++ String nl
          """a"":In{" ++ String nl "A:7," ++ String nl "}," ++ String nl """b"":In{}," ++ String nl "}," ++ String nl
          "P:func(v string) *string { return &v }(""x"")," ++ String nl
          "C:func(v Color) *Color { return &v }(3)," ++ String nl
          "L:[]int32{" ++ String nl "'a'," ++ String nl "39," ++ String nl "}," ++ String nl "}")%string.
Proof. vm_compute. reflexivity. Qed.

Example C10_example_roundtrip :
  match i_value_lit ex_q ex_l true false ex_S ex_v with
  | Ok l => option_map (deep_eqb ex_v) (i_denote [] ex_S l)
  | _ => None
  end = Some true.
Proof. vm_compute. reflexivity. Qed.

Example C10_example_before_fix :
  match i_value_lit ex_q ex_l false false ex_S ex_v with
  | Ok l => option_map (deep_eqb ex_v) (i_denote [] ex_S l)
  | _ => None
  end = None.
Proof. vm_compute. reflexivity. Qed.

(* non-vacuity 3: a nested value WITH floats ([wit_T], [wit_fv] in Proofs/ValueLitWitness.v): a named struct
   m.Rec { Rows []map[string]float64; C *Color; K Color; X float32; P, Q *string; Z0 float64; In In; A [2]float64 }
   holding 1.5e21 (big), 420, 0 (in a map), an empty and a nil map, a non-nil *Color, a big float32, a *string
   whose text needs all three escapes, a nil pointer, a zero float and a zero struct (omitted), 1e21 and -2.5e20. *)
Example C10_float_example_dom : dom wit_T.
Proof. exact wit_T_dom. Qed.
Example C10_float_example_typed : typed d_frep wit_T wit_fv.
Proof. exact wit_fv_typed. Qed.

Example C10_float_example_roundtrip :
  forall local,
  exists l v', value_lit d_fzero d_ffmt d_gfmt d_fbig esc_quote local true false wit_T wit_fv = Ok l /\
               denote d_fparse d_f0 wit_T l = Some v' /\ deep_eq d_feq wit_fv v'.
Proof. exact wit_fv_roundtrip. Qed.
Print Assumptions C10_float_example_roundtrip.

(* its text, computed ([wit_local]: "m" is the package being generated): big floats in scientific form, the
   others with all their digits, escaped strings *)
Example C10_float_example_text :
  option_map (print_lit esc_quote wit_local)
    (match value_lit d_fzero d_ffmt d_gfmt d_fbig esc_quote wit_local true false wit_T wit_fv with
     | Ok l => Some l | _ => None end)
  = Some (concat (map (fun s => bs s ++ [nl])
    ["Rec{";
     "Rows:[]map[string]float64{";
     "map[string]float64{";
     """big"":15e+20,";
     """k\""\\"":420,";
     """zero"":0,";
     "},";
     "map[string]float64{},";
     "map[string]float64{},";
     "},";
     "C:func(v Color) *Color { return &v }(3),";
     "K:-7,";
     "X:-1e+30,";
     "P:func(v string) *string { return &v }(""say \""hi\""\\\n""),";
     "A:[2]float64{";
     "1e+21,";
     "-250000000000000000000,";
     "},"]%string) ++ bs "}").
Proof. exact wit_fv_text. Qed.

(* ... and what that literal denotes, computed: 420 comes back as (420, 0), the nil map as an empty one, the
   omitted fields as zero values — a different term, deeply equal *)
Example C10_float_example_denote :
  match value_lit d_fzero d_ffmt d_gfmt d_fbig esc_quote wit_local true false wit_T wit_fv with
  | Ok l => denote d_fparse d_f0 wit_T l
  | _ => None
  end = Some wit_fv'
  /\ deep_eq d_feq wit_fv wit_fv' /\ wit_fv <> wit_fv'.
Proof. exact (conj wit_fv_denote wit_fv_deep_eq). Qed.

(* ------------------------------------------------------------------------------------------------------------ *)
(* RenderStack: which imports a value literal registers.
   [local] of this file is no longer a free function: in the composed rendering (Model/RenderStack.v [value_frag]) it is
   the table of C03's tracker after the packages of the literal's type prefixes were handed to it, in the order
   Dumper.ValueLit asks for them ([value_regs]: a composite's type literal first, then its parts).
   [vlit local sub t v] = [value_lit] of the repaired code;  [fx6 = true]: with fixes/C10-6-zero-struct-import.diff. *)
Require Import Gengo.Model.RenderStack Gengo.Proofs.RenderStackTracker Gengo.Proofs.RenderStackLeaves Gengo.Proofs.RenderStack.

(* none missing (both code versions): every package the literal mentions was registered — so the literal, and its
   text, depend on the names of registered packages only, and a later rendering in a grown tracker gives the same text *)
Theorem C10_literal_packages_registered :
  forall (F : Type) (fzero : F -> bool) (ffmt gfmt : fkind -> F -> bytes) (fbig : F -> bool) (quote : bytes -> bytes)
         (fx6 : bool) (v : goval F) (local : bytes -> bytes) (sub : bool) (t : gotype) (l : lit),
    vlit fzero ffmt gfmt fbig quote local sub t v = Ok l ->
    incl (lit_pkgs l) (value_regs fzero ffmt gfmt fbig quote fx6 sub t v).
Proof. exact @value_lit_pkgs. Qed.
Print Assumptions C10_literal_packages_registered.

Theorem C10_value_leaf_stable :
  forall (F : Type) (fzero : F -> bool) (ffmt gfmt : fkind -> F -> bytes) (fbig : F -> bool) (quote : bytes -> bytes)
         (pre : list bytes) (std : option Tk.tracker) (self : bytes) (fx6 : bool)
         (t : gotype) (v : goval F) (e : TL.renv) (txt : bytes) (e1 : TL.renv),
    value_frag fzero ffmt gfmt fbig quote (pick_c03 pre std) self fx6 t v e = Ok (txt, e1) ->
    e1 = add_all (pick_c03 pre std) (filter (is_foreign self) (value_regs fzero ffmt gfmt fbig quote fx6 false t v)) e /\
    forall e2, ext e1 e2 -> value_frag fzero ffmt gfmt fbig quote (pick_c03 pre std) self fx6 t v e2 = Ok (txt, e2).
Proof.
  exact (fun F fzero ffmt gfmt fbig quote pre std self fx6 =>
           value_frag_spec fzero ffmt gfmt fbig quote (pick_c03 pre std) (pick_total pre std) self fx6).
Qed.
Print Assumptions C10_value_leaf_stable.

(* none unused (repaired code): exactly the foreign packages the literal mentions are registered.  Side condition
   [keys_distinct]: in every map of the value the key texts are pairwise distinct (true of the keys of this file's
   domain: key_text_inj) — two keys with one text share one entry of the Go table keyValues. *)
Theorem C10_literal_packages_exact :
  forall (F : Type) (fzero : F -> bool) (ffmt gfmt : fkind -> F -> bytes) (fbig : F -> bool) (quote : bytes -> bytes)
         (self : bytes) (fx6 : bool) (local : bytes -> bytes) (t : gotype) (v : goval F) (l : lit),
    fx6 = true ->
    vlit fzero ffmt gfmt fbig quote local false t v = Ok l ->
    keys_distinct fzero ffmt gfmt fbig quote local t v = true ->
    forall p, In p (leaf_value_regs fzero ffmt gfmt fbig quote self fx6 t v) <-> In p (filter (is_foreign self) (lit_pkgs l)).
Proof. exact @value_regs_exact. Qed.
Print Assumptions C10_literal_packages_exact.

(* History: before fixes/C10-6 the type literal of a struct field was asked for BEFORE finding out that the field renders
   as nothing: Box{} with Box struct{ P image.Point; N int } imported "image" for the text Box{} (found by the composed
   correspondence check; the generated file does not compile: imported and not used). *)
Definition t_point : gotype := TNamed (bs "image") (bs "Point") (TStruct [(bs "X", TInt KInt); (bs "Y", TInt KInt)]).
Definition t_box : gotype := TNamed (bs "c10types") (bs "Box") (TStruct [(bs "P", t_point); (bs "N", TInt KInt)]).
Definition v_box_zero : goval unit := VStruct [VStruct [VInt 0; VInt 0]; VInt 0].

Theorem C10_unused_import_refuted_before_fix :
  let vl := vlit (fun _ : unit => true) (fun _ _ => []) (fun _ _ => []) (fun _ => false) (fun s => s) (fun _ => []) false t_box v_box_zero in
  vl = Ok (LComposite (YName (bs "c10types") (bs "Box")) [])
  /\ value_regs (fun _ : unit => true) (fun _ _ => []) (fun _ _ => []) (fun _ => false) (fun s => s) false false t_box v_box_zero
     = [bs "c10types"; bs "image"]
  /\ value_regs (fun _ : unit => true) (fun _ _ => []) (fun _ _ => []) (fun _ => false) (fun s => s) true false t_box v_box_zero
     = [bs "c10types"].
Proof. vm_compute. repeat split; reflexivity. Qed.
Print Assumptions C10_unused_import_refuted_before_fix.

(* Two models of Dumper.TypeLit: this file's [type_lit] / [print_ty local] (a tree with package paths, printed with a
   free [local]) and C11's [TL.type_lit] (rawNamer, ParseTypeRef, the tracker).  On the universe of this file they
   agree: C11's model, run on the view [gview t] of a type through C03's tracker, registers exactly the foreign
   packages of this file's tree, left to right, and its text is — in that state and every later one — what this
   file's printer gives with the tracker's names.  Side condition [ty_okb]: named types have a package path and an
   identifier as name, and the two decimal printers agree on the array lengths that occur (decidable; see the Example). *)
Require Import Gengo.Proofs.RenderStackTypes.

Theorem C10_C11_type_literal_agree :
  forall (pre : list bytes) (std : option Tk.tracker) (self : bytes) (cbq : bytes -> bool) (fe ft : bool)
         (quote : bytes -> bytes) (t : gotype) (e : TL.renv),
    ty_okb t = true -> Forall (fun n => n <> []) (map snd e) ->
    let e1 := add_all (pick_c03 pre std) (filter (is_foreign self) (ty_pkgs (type_lit t))) e in
    exists a, TL.type_lit (pick_c03 pre std) parse_c15 self cbq fe ft (gview t) e = Ok (a, e1) /\
              forall e2, ext e1 e2 -> TL.print quote a = print_ty (local_of self e2) (type_lit t).
Proof.
  exact (fun pre std self cbq fe ft quote t e Hok Hn =>
           type_lit_agree (pick_c03 pre std) (pick_total pre std)
             (fun p e n H => Gengo.Proofs.Tracker.valid_name_nonempty n (proj1 (proj2 (proj2 (proj2 (proj2 (pick_spec pre std p e n H)))))))
             self cbq fe ft quote t Hok e Hn).
Qed.
Print Assumptions C10_C11_type_literal_agree.

Example C10_C11_side_condition :
  forallb (fun n => bytes_eqb (TL.dec (N.of_nat n)) (dec_nat n)) (seq 0 2000) = true
  /\ ty_okb (TMap TString (TArray 16 (TStruct [(bs "P", t_point); (bs "B", TPtr t_box)]))) = true.
Proof. vm_compute. split; reflexivity. Qed.
