Require Import Gengo.Base.Bytes Gengo.Model.ResultsOf.
