(* C14 — ResultsOf terminates and reports only possible results, one set per result.
   Statements only; every proof is [exact <lemma>].

   The theorems are about the model Gengo.Model.ResultsOf (pkg/types/function_result_resolver.go function by
   function, push iterators in continuation-passing style, the visits map threaded as state).  [all_fixed] is the
   repaired code, [unfixed] the code before the three "fix:" patches; the refutations keep the defects checkable. *)
Require Import Gengo.Base.Bytes Gengo.Model.ResultsOf.
Require Import Gengo.Proofs.ResultsOf Gengo.Proofs.ResultsOfSound Gengo.Proofs.ResultsOfLiteral Gengo.Proofs.ResultsOfMain
  Gengo.Proofs.ResultsOfWitness.

(* Termination: for EVERY program (any call graph: self recursion, mutual recursion, closures; well-typed or not),
   every entry kind and every declared result tuple, fuel = number of (function, result index) pairs + 1 is enough:
   the traversal enters each pair at most once per nesting chain. *)
Theorem C14_terminates :
  forall (p : prog) (en : entry) (sigres : list rdecl),
    exists n, forall m, n <= m -> results_of all_fixed p m en sigres <> OutOfFuel.
Proof. exact terminates_exists. Qed.
Print Assumptions C14_terminates.

(* ... with the explicit bound, and for every combination of the other two repairs *)
Theorem C14_terminates_bound :
  forall (fx : fixes) (p : prog) (fuel : nat) (en : entry) (sigres : list rdecl),
    fx_visits fx = true -> length (nodes p) < fuel -> results_of fx p fuel en sigres <> OutOfFuel.
Proof. exact terminates_bound. Qed.
Print Assumptions C14_terminates_bound.

(* Before the repair of visits.visited:  func Rec(n int) (int, error) { return Rec(n - 1) }  never returns, whatever
   the fuel (the real code exhausts the stack). *)
Theorem C14_terminates_refuted_before_fix :
  exists (p : prog) (en : entry) (sigres : list rdecl),
    forall fuel, results_of unfixed p fuel en sigres = OutOfFuel.
Proof. exact terminates_refuted. Qed.
Print Assumptions C14_terminates_refuted_before_fix.

(* Shape: the declared number of results n and exactly n lists, none empty (n = 0: no list) — for every program,
   every entry kind (own declaration, imported function asked of the importer, interface method, a signature
   registered under any other node kind). *)
Theorem C14_shape :
  forall (p : prog) (fuel : nat) (en : entry) (sigres : list rdecl) ls n,
    (forall f, en = EnBody f -> f < length p) ->
    results_of all_fixed p fuel en sigres = Ok (ls, n) ->
    n = length sigres /\ length ls = n /\ Forall (fun l => l <> []) ls.
Proof. exact shape_fixed. Qed.
Print Assumptions C14_shape.

(* Before the repair of Concat: asking the importer about an imported function gives no list at all for n > 0. *)
Theorem C14_shape_refuted_before_fix :
  forall (p : prog) (fuel : nat) (fo : option nat) (sigres : list rdecl) ls n,
    sigres <> [] -> results_of unfixed p fuel (EnSelector fo) sigres = Ok (ls, n) ->
    ls = [] /\ n = length sigres /\ 0 < n.
Proof. exact shape_refuted. Qed.
Print Assumptions C14_shape_refuted_before_fix.

(* ... and before the fallback at the end of Results: a function the importer calls as a dot-imported name, in
   parentheses or through an alias gets no list either. *)
Theorem C14_shape_refuted_before_fix_other :
  forall (p : prog) (fuel : nat) (sigres : list rdecl),
    sigres <> [] -> results_of unfixed p fuel EnOther sigres = Ok ([], length sigres) /\ 0 < length sigres.
Proof. exact shape_refuted_other. Qed.
Print Assumptions C14_shape_refuted_before_fix_other.

(* No panic and soundness, on well-typed programs of the mini-language: ResultsOf does not panic, and every
   alternative reported for result i is a constant or assignable to the declared type of result i. *)
Theorem C14_no_panic :
  forall (os : otys) (p : prog) (fuel : nat) (en : entry) (sigres : list rdecl),
    wt_b os p = true -> entry_ok p en sigres = true ->
    results_of all_fixed p fuel en sigres <> Panic.
Proof. exact no_panic_fixed. Qed.
Print Assumptions C14_no_panic.

(* HOW TO READ C14_sound.  [wt_b os p] ("p is a well-typed program") checks every return statement and every
   assignment with [wt_expr], and at every LEAF expression (EVal / EFuncLit: anything that is not a call) that is
   [good_alt os T a], which contains [sound_b a T] — the very predicate of the conclusion, for the type T of the
   place the leaf is written to.  So leaf soundness is a HYPOTHESIS on the typed program: "the expression written
   at a return / assignment position is a constant or assignable to the type of that position".  Go's type checker
   guarantees it for every program that compiles (and the harness recomputes it from go/types on every case); the
   theorem does not prove it.  What the theorem proves is that ResultsOf's PROPAGATION preserves it: an alternative
   found at a leaf of some other function, and carried to result i of the function asked about through any chain
   of calls (single- and multi-result, recursive or not, cut by the visits map), assignments to locals and named
   results, bare returns and function-literal arguments, is still a constant or assignable to the DECLARED type of
   result i — i.e. the resolver never follows an edge along which the types stop being assignable (it follows only
   results printed "error"/"any"/"interface{}", matches assignments by object, indexes multi-result calls by
   position).  C14_example_sound_witness below proves [wt_b] for a concrete program with all these features and
   instantiates the theorem; C14_example_leaf_hypothesis_needed shows that with an ill-typed leaf (rejected by
   [wt_b]) the conclusion fails, so the hypothesis is not idle. *)
Theorem C14_sound :
  forall (os : otys) (p : prog) (fuel : nat) (en : entry) (sigres : list rdecl) ls n,
    wt_b os p = true -> entry_ok p en sigres = true ->
    results_of all_fixed p fuel en sigres = Ok (ls, n) ->
    forall i l r a, nth_error ls i = Some l -> nth_error sigres i = Some r -> In a l ->
                    a_const a = true \/ assignable (a_ty a) (r_ty r) = true.
Proof. exact sound_fixed. Qed.
Print Assumptions C14_sound.

(* Together: on a well-typed program ResultsOf returns. *)
Theorem C14_total :
  forall (os : otys) (p : prog) (en : entry) (sigres : list rdecl),
    wt_b os p = true -> entry_ok p en sigres = true ->
    exists ls n, results_of all_fixed p (S (length (nodes p))) en sigres = Ok (ls, n).
Proof. exact total_fixed. Qed.
Print Assumptions C14_total.

(* Before the repair of the closure index:  return wrap(func() (int, error) {...})  with wrap returning one result
   panics (index out of range) although the program is well-typed. *)
Theorem C14_no_panic_refuted_before_fix :
  wt_b otys_clos prog_clos = true /\ entry_ok prog_clos (EnBody 2) [rd_err] = true /\
  results_of unfixed prog_clos 10 (EnBody 2) [rd_err] = Panic.
Proof. exact no_panic_refuted. Qed.
Print Assumptions C14_no_panic_refuted_before_fix.

(* Literal-only functions: when every return statement lists only plain expressions (literals, operators on them,
   nil / true / false), the alternatives at each position are exactly those values in source order — already before
   the repairs ([fx] arbitrary). *)
Theorem C14_literal_exact :
  forall (fx : fixes) (p : prog) (fuel : nat) (f : nat) (fd : fdef) (rows : list (list alt)),
    nth_error p f = Some fd -> plain_returns fd = Some rows -> 0 < fuel ->
    results_of fx p fuel (EnBody f) (f_res fd) = Ok (map (column rows) (seq 0 (nres fd)), nres fd).
Proof. exact literal_exact. Qed.
Print Assumptions C14_literal_exact.

(* ---- non-vacuity ---- *)

(* the repaired code on the closure program: the closure's error result is followed, its int result is not *)
Example C14_example_closure :
  results_of all_fixed prog_clos 10 (EnBody 2) [rd_err] = Ok ([[alt_nil; alt_e; alt_nil]], 1).
Proof. vm_compute. reflexivity. Qed.

(* the repaired code on Rec: it returns; nothing is found for the error result, so the declared type is reported *)
Example C14_example_rec :
  results_of all_fixed prog_rec 3 (EnBody 0) [rd_int; rd_err]
  = Ok ([[type_alt rd_int 0 0%N]; [type_alt rd_err 0 0%N]], 2).
Proof. vm_compute. reflexivity. Qed.

(* a literal-only function: func Lit() (any, any) { if .. { return 1, nil }; return "s", true } *)
Definition rd_any := mk_rdecl TAny (bs "any") None.
Definition alt_s := mk_alt (bs """s""") true TUntyped XOther 0 0%N.
Definition alt_true := mk_alt (bs "true") true TUntyped (XIdent false 2%N) 0 0%N.
Definition prog_lit : prog :=
  [ mk_fdef 0 [rd_any; rd_any]
      (Some [SGroup [SReturn 0%N (Some [EVal alt_one; EVal alt_nil])]; SReturn 0%N (Some [EVal alt_s; EVal alt_true])]) ].
Example C14_example_literal :
  exists fd rows, nth_error prog_lit 0 = Some fd /\ plain_returns fd = Some rows /\
                  map (column rows) (seq 0 (nres fd)) = [[alt_one; alt_s]; [alt_nil; alt_true]].
Proof. eexists. eexists. split; [reflexivity|]. split; vm_compute; reflexivity. Qed.

Example C14_example_wt : wt_b [(1%N, TNil); (2%N, TBool)] prog_lit = true /\ wt_b [] prog_rec = true.
Proof. vm_compute. split; reflexivity. Qed.

(* ---- non-vacuity of C14_sound / C14_no_panic / C14_total on a program with structure ----
   Proofs/ResultsOfWitness.v, [w_prog]: nine functions of one package —
     Leaf (returns &MyErr{}), Mid -> Leaf, Top -> Mid                      (call chain)
     Entry:  err := Top(); return err                                      (assignment through a local)
     Pair:   return 1, Entry()          Multi:  return 0, nil / return Pair()   (multi-result call as the whole tuple)
     Even <-> Odd                                                           (mutually recursive pair)
     All:    n, err := Multi(); return 0, err; e2 := Even(n); return n, e2  (multi-result call assigned to two locals)
   ResultsOf(All) reaches Leaf at call depth 7.  [wt_b] is a boolean function: it is proved by computation. *)
Example C14_example_wt_witness :
  wt_b w_otys w_prog = true /\ entry_ok w_prog (EnBody 8) [w_int; w_err] = true /\
  results_of all_fixed w_prog w_fuel (EnBody 8) [w_int; w_err] = Ok (w_results, 2).
Proof. exact (conj w_wt (conj w_entry_ok w_run)). Qed.

(* C14_sound instantiated on it (hypotheses discharged by the Example above) *)
Example C14_example_sound_witness :
  forall i l r a,
    nth_error w_results i = Some l -> nth_error [w_int; w_err] i = Some r -> In a l ->
    a_const a = true \/ assignable (a_ty a) (r_ty r) = true.
Proof. exact (C14_sound w_otys w_prog w_fuel (EnBody 8) [w_int; w_err] w_results 2 w_wt w_entry_ok w_run). Qed.

Example C14_example_no_panic_total_witness :
  (forall fuel, results_of all_fixed w_prog fuel (EnBody 8) [w_int; w_err] <> Panic) /\
  (exists ls n, results_of all_fixed w_prog w_fuel (EnBody 8) [w_int; w_err] = Ok (ls, n)).
Proof.
  exact (conj (fun fuel => C14_no_panic w_otys w_prog fuel (EnBody 8) [w_int; w_err] w_wt w_entry_ok)
              (C14_total w_otys w_prog (EnBody 8) [w_int; w_err] w_wt w_entry_ok)).
Qed.

(* the same program with  func Leaf() error { return s }  (s a string): [wt_b] rejects it, and the resolver carries
   the string up to All's error result — the leaf hypothesis is what C14_sound needs, and nothing more *)
Example C14_example_leaf_hypothesis_needed :
  wt_b w_otys w_prog_bad = false /\
  exists ls l, results_of all_fixed w_prog_bad w_fuel (EnBody 8) [w_int; w_err] = Ok (ls, 2) /\
               nth_error ls 1 = Some l /\ In w_bad_leaf l /\
               a_const w_bad_leaf = false /\ assignable (a_ty w_bad_leaf) TError = false.
Proof. exact (conj w_bad_rejected w_bad_propagates). Qed.
