(* WHOLE — the separately written models of gengo.Execute are models of ONE system.
   Statements only; every proof is [exact <lemma>].

   Model/Whole.v instantiates the pipeline model (Model/Pipeline.v, properties C07 C05 C02) with the component
   models of the other pipeline properties:
     whole_env fmt order rank G :=  e_sum_load / e_sum_bytes = the byte-level gengo.sum of Model/SumFile.v (C08),
                               e_enabled = Dispatch's IsGeneratorEnabled on merge(G, package tags, declaration tags) (C06),
                               e_fmt = fmt (the Go formatter, C01), e_order = order (sync.Map of retained genfiles),
                               e_rm_rank = rank (Go map of stale files: removal order), repaired code.
   The theorems below are (1) AGREEMENT theorems: two independently written readings of the same Go lines compute
   the same thing on the same data, and (2) COMPOSITES that need more than one of the models.
   Corr/Pipe.v evaluates [exec] under this environment on every case of the C07 / C05 / C02 checks. *)
Require Import Gengo.Base.Bytes Gengo.Model.Pipeline Gengo.Model.Whole.
Require Import Gengo.Proofs.Pipeline Gengo.Proofs.PipelinePkg Gengo.Proofs.PipelineC02.
Require Import Gengo.Proofs.WholeSum Gengo.Proofs.WholeDispatch Gengo.Proofs.WholeTrace Gengo.Proofs.WholeGenFile
  Gengo.Proofs.WholeCrash.
Require Import Gengo.Model.WholeDet Gengo.Proofs.WholeDet.
Require Gengo.Model.SumFile Gengo.Model.SumCache Gengo.Model.Dispatch Gengo.Model.GenFile Gengo.Model.Determinism.
Require Gengo.Proofs.Determinism.
Require Gengo.Proofs.SumFile Gengo.Proofs.SumCache Gengo.Proofs.Dispatch Gengo.Proofs.WholeTorn.
From Coq Require Import Permutation.

(* ================= 1. agreement ================= *)

(* ---- 1a. SumCache (C08) and Pipeline: context.go 95-142 read twice ----
   SumCache.run is generic in the world (tree, content, H, dirc, gen, locals).  Take tree := the pipeline's file
   system, gen := the pipeline's package step ([pkg_step]: the effects of pkg_effects), r_fail := the first package
   the pipeline executes that does not come back with Done ([run_args]), and ANY content / H / dirc / locals that are
   the same data as the loaded world (same local packages with their direct flag; H(dir p) = the load-time hash).
   Then the one run of SumCache and Pipeline.exec agree on: the packages executed and their order (the call log is
   the concatenation of the executed packages' logs), success vs failure, what gengo.sum holds afterwards (also in
   failed and in non-All runs), and every other file — up to the files the failing package had already written,
   which SumCache does not model ([fail_effects], empty when the run succeeds).  SumCache's "gengo.sum unreadable"
   never arises (ESave): the pipeline has no I/O errors. *)
Theorem Whole_sumcache_is_pipeline :
  forall (E : env) (a : args) (w : world) (gens : list generator),
    e_sum_load E = SumFile.sumfile_load -> e_sum_bytes E = SumFile.sumfile_bytes ->
    forall (content : Type) (H : content -> option bytes) (dirc : fs -> option bytes -> bytes -> content)
           (locals : fs -> list bytes -> list (bytes * bool)) (entry : list bytes) (s : fs),
    locals s entry = world_locals w ->
    (forall p, In p (w_pkgs w) ->
       SumCache.hash_of fs content H dirc SumCache.fixed_all (abs_state w s) (pk_path p) = pk_hash p) ->
    NoDup (map pk_path (w_pkgs w)) -> files_ok w ->
    let r := SumCache.run fs content H dirc (pkg_step E a w gens) locals SumCache.fixed_all
                          (run_args E a w gens entry s) (abs_state w s) in
    exec_trace E a w gens s = flat_map (pkg_trace E a w gens) (SumCache.executed (fst (snd r)))
    /\ snd (snd r) <> SumCache.ESave
    /\ (snd (snd r) = SumCache.ENone <-> exec_outcome E a w gens s = Done)
    /\ (exec_outcome E a w gens s = Done -> fail_effects E a w gens (fst (snd r)) = [])
    /\ SumCache.st_sum (fst r) = sum_state w (exec_fs E a w gens s)
    /\ (forall q, q <> sum_path w ->
          fs_lookup q (exec_fs E a w gens s)
          = fs_lookup q (apply_all (fail_effects E a w gens (fst (snd r))) (SumCache.st_tree (fst r)))).
Proof. exact run_agree. Qed.
Print Assumptions Whole_sumcache_is_pipeline.

(* the composed environment satisfies the two equations by definition *)
Example Whole_env_uses_the_real_sumfile :
  forall fmt order rank G, e_sum_load (whole_env fmt order rank G) = SumFile.sumfile_load
                           /\ e_sum_bytes (whole_env fmt order rank G) = SumFile.sumfile_bytes.
Proof. intros. split; reflexivity. Qed.

(* ---- 1b. Dispatch (C06) and Pipeline: context.go 108-116, 191-220, 268-345 read twice ----
   One description [wps] of the packages gives Dispatch's packages ([disp_pkgs]: in the order Execute visits them)
   and the pipeline's world ([to_world]: the type TABLE, the merged package tags); C06's recording generator is run
   by the pipeline as a state machine ([disp_gen]).  Then Dispatch.execute lists, position by position ([ev_match]:
   same generator, same package, same declaration and kind of call / a callback of the same session), the
   GenerateType / GenerateAliasType / Defer-callback events of Pipeline.exec_trace, and both end alike.
   Side conditions (modelling scope, not disagreement): Dispatch has no gengo.sum cache (no package is skipped:
   Force, no previous sums, ...) and no formatter (everything rendered parses); [fuel] bounds the callback forests. *)
Theorem Whole_dispatch_is_pipeline :
  forall fmt order rank G wps fuel gens a modroot s,
    NoDup (map wp_path wps) ->
    (forall src, fmt src <> None) ->
    let E := whole_env fmt order rank G in
    let w := to_world modroot wps in
    (forall wp, In wp wps -> pkg_changed a w (load_prev E a w s) (to_pkginfo wp) = true) ->
    (forall wp g, In wp wps -> In g gens -> fuel_ok G fuel wp g) ->
    exists devs o,
      Dispatch.execute Dispatch.fixed_all (a_all a) (disp_pkgs wps) gens G = Ok (devs, o)
      /\ Forall2 (ev_match G wps gens) (exec_trace E a w (map (disp_gen wps fuel) gens) s)
                 (filter Gengo.Proofs.Dispatch.is_callback devs)
      /\ out_match (exec_outcome E a w (map (disp_gen wps fuel) gens) s) o.
Proof. exact dispatch_agree. Qed.
Print Assumptions Whole_dispatch_is_pipeline.

(* ... and the write phase: Dispatch's one write event per package (EWrites pid ws: "the files of these generators are
   written", after every callback) names exactly the generators whose destinations the pipeline opens (ETruncate, in the
   order of the sync.Map: a permutation). *)
Theorem Whole_dispatch_writes_are_pipeline_writes :
  forall fmt order rank G wps fuel gens a wp,
    NoDup (map wp_path wps) -> (forall src, fmt src <> None) -> (forall p l, Permutation (order p l) l) ->
    In wp wps -> (forall g, In g gens -> fuel_ok G fuel wp g) ->
    let E := whole_env fmt order rank G in
    let gs := map (disp_gen wps fuel) gens in
    snd (pkg_effects E a gs (to_pkginfo wp)) = Done ->
    exists devs ws,
      Dispatch.pkg_execute Dispatch.fixed_all (wp_d wp) gens G
      = Ok (devs ++ (if is_nil ws then [] else [Dispatch.EWrites (Dispatch.pk_id (wp_d wp)) ws]), Dispatch.Done)
      /\ ws = map Dispatch.g_idx (filter (renders_on fmt order rank G wps fuel wp) gens)
      /\ Permutation (truncated (fst (fst (pkg_effects E a gs (to_pkginfo wp)))))
                     (map (fun g => gen_file a (to_pkginfo wp) (Dispatch.g_name g))
                          (filter (renders_on fmt order rank G wps fuel wp) gens)).
Proof. exact dispatch_writes_agree. Qed.
Print Assumptions Whole_dispatch_writes_are_pipeline_writes.

(* ---- 1c. Determinism (C04) and Pipeline: gengo.Execute end to end read twice ----
   From the pipeline's input Model/WholeDet.v derives Determinism's (its world: Defs = the type table, one file of
   package tags, no methods; its generators: the pipeline's state machines folded over the call list; render = the
   pipeline's formatter on the assembled source; parse_sum = the byte-level sumfile.Load).  For EVERY order oracle o
   that shuffles and is a rearrangement of positions ([natural]: it commutes with map), Determinism.run — taking the
   one order the pipeline leaves open, the sync.Map of retained genfiles, from o ([only_gfs o]; C04_order_independent
   says every other oracle gives the same result) — fails exactly when Pipeline.exec under e_order := [order_of o]
   does not return Done, and otherwise yields the same content at every path (gengo.sum included) and the same
   sequence of GenerateType / GenerateAliasType calls.
   [world_wf]: distinct package paths; per package distinct type names, tag maps with distinct keys. *)
Theorem Whole_determinism_is_pipeline :
  forall fmt G (o : Determinism.oracle) rank a w,
    world_wf w -> Determinism.shuffles o -> natural o ->
    forall gens, NoDup (map g_name gens) -> forall s,
    let E := whole_env fmt (order_of o) rank G in
    match Determinism.run true true (det_render fmt) det_parse_sum (only_gfs o) (det_args G a) (w_direct w) (det_world w)
                          (map (det_gen w) gens) (det_fs s) with
    | None => exec_outcome E a w gens s <> Done
    | Some (f', log) =>
        exec_outcome E a w gens s = Done
        /\ (forall q, f' q = fs_lookup q (exec_fs E a w gens s))
        /\ flat_log log = flat_trace (exec_trace E a w gens s)
    end.
Proof. exact det_agree. Qed.
Print Assumptions Whole_determinism_is_pipeline.

(* C04's order independence transfers: Pipeline.exec of the composed system does not depend on the iteration orders of
   the sync.Map of retained genfiles and of the map of stale files — both runs succeed or neither does, and successful runs leave the same content at
   every path and make the same calls.  (Proved through 1c and C04_order_independent, not on the pipeline model.) *)
Theorem Whole_pipeline_order_independent :
  forall fmt G (o1 o2 : Determinism.oracle) rank1 rank2 a w gens s,
    world_wf w -> Determinism.shuffles o1 -> Determinism.shuffles o2 -> natural o1 -> natural o2 ->
    NoDup (Dispatch.keys G) -> NoDup (map g_name gens) ->
    let E1 := whole_env fmt (order_of o1) rank1 G in
    let E2 := whole_env fmt (order_of o2) rank2 G in
    (exec_outcome E1 a w gens s = Done <-> exec_outcome E2 a w gens s = Done)
    /\ (exec_outcome E1 a w gens s = Done ->
        (forall q, fs_lookup q (exec_fs E1 a w gens s) = fs_lookup q (exec_fs E2 a w gens s))
        /\ flat_trace (exec_trace E1 a w gens s) = flat_trace (exec_trace E2 a w gens s)).
Proof. exact pipeline_order_independent. Qed.
Print Assumptions Whole_pipeline_order_independent.

(* ... and C07 / C02 transfer the other way: of Determinism.run on such inputs, a failing run (None) is a pipeline run
   that did not return Done (C02's theorems say what it has and has not done), and a successful run leaves every path
   that is not gengo's own output as it was (C07_frame). *)
Theorem Whole_determinism_fails_iff_pipeline_fails :
  forall fmt G (o : Determinism.oracle) rank a w,
    world_wf w -> Determinism.shuffles o -> natural o ->
    forall gens, NoDup (map g_name gens) -> forall s,
    Determinism.run true true (det_render fmt) det_parse_sum (only_gfs o) (det_args G a) (w_direct w) (det_world w)
                    (map (det_gen w) gens) (det_fs s) = None
    <-> exec_outcome (whole_env fmt (order_of o) rank G) a w gens s <> Done.
Proof. exact det_fails_iff. Qed.
Print Assumptions Whole_determinism_fails_iff_pipeline_fails.

Theorem Whole_determinism_frame :
  forall fmt G (o : Determinism.oracle) rank a w,
    world_wf w -> Determinism.shuffles o -> natural o ->
    forall gens, NoDup (map g_name gens) -> forall s f' log q,
    Determinism.run true true (det_render fmt) det_parse_sum (only_gfs o) (det_args G a) (w_direct w) (det_world w)
                    (map (det_gen w) gens) (det_fs s) = Some (f', log) ->
    ~ own_output (whole_env fmt (order_of o) rank G) a w s q -> f' q = det_fs s q.
Proof. exact det_frame. Qed.
Print Assumptions Whole_determinism_frame.

(* the identity and the reversing oracle are legal and natural *)
Example Whole_natural_oracles :
  natural Determinism.oid /\ natural Gengo.Proofs.Determinism.rev_oracle
  /\ Determinism.shuffles Determinism.oid /\ Determinism.shuffles Gengo.Proofs.Determinism.rev_oracle.
Proof.
  split; [intros A B f site l; reflexivity|]. split; [intros A B f site l; symmetry; apply map_rev|].
  split; [exact Gengo.Proofs.Determinism.oid_shuffles | exact Gengo.Proofs.Determinism.rev_oracle_shuffles].
Qed.

(* ---- 1d. GenFile (C01) and Pipeline: genfile.go 60-144, context.go 223-231 read twice ----
   The pipeline's assembled source is GenFile's with an empty import table; with e_fmt := C01's formatter
   (fmt1, then fmt2 until stable) one WriteToFile decides alike (nothing / error / this name, these bytes) and the
   write loops leave the same package directory ([dir_rel]) or both fail. *)
Theorem Whole_assemble_is_genfile_assemble :
  forall pkg gen body, assemble pkg gen body = GenFile.assemble pkg gen [] body.
Proof. exact assemble_same. Qed.
Print Assumptions Whole_assemble_is_genfile_assemble.

Theorem Whole_write_file_is_genfile_write_file :
  forall (E : env) fmt1 fmt2, e_fmt E = genfile_fmt fmt1 fmt2 ->
  forall a p gf,
    GenFile.write_file fmt1 fmt2 true (a_base a) (pk_name p) (genfile_of gf)
    = if is_nil (snd gf) then GenFile.WNothing
      else match e_fmt E (assemble (pk_name p) (fst gf) (snd gf)) with
           | None => GenFile.WErr
           | Some out => GenFile.WWrite (fname a (fst gf)) out
           end.
Proof. exact write_file_same. Qed.
Print Assumptions Whole_write_file_is_genfile_write_file.

Theorem Whole_write_loop_is_genfile_write_all :
  forall (E : env) fmt1 fmt2, e_fmt E = genfile_fmt fmt1 fmt2 ->
  forall a p gfs rem fsys s,
    dir_rel p fsys s ->
    match GenFile.write_all fmt1 fmt2 true (a_base a) (pk_name p) (map genfile_of gfs) fsys,
          write_loop_fs E a p gfs rem s with
    | None, (_, _, Some (EParse _)) => True
    | Some fsys', (s', _, None) => dir_rel p fsys' s'
    | _, _ => False
    end.
Proof. exact write_all_same. Qed.
Print Assumptions Whole_write_loop_is_genfile_write_all.

(* ================= 2. composites ================= *)

(* ---- C06's exactly-once, OF the pipeline trace ----
   In a successful run of the composed system, for a processed package and a generator of the run, the call log
   contains, as one contiguous segment, calls [cs] and then the callbacks, where [cs] has no repetition and holds
   exactly: GenerateType for each enabled package-scope defined type, GenerateAliasType for each enabled
   package-scope alias iff the generator is an AliasGenerator, nothing else (C06_exactly_once); every callback of the
   forest those calls register runs once (the ids run are a permutation of all ids). *)
Theorem Whole_exactly_once_of_pipeline_trace :
  forall fmt order rank G wps fuel gens a modroot s wp g,
    NoDup (map wp_path wps) -> In wp wps -> In g gens ->
    NoDup (Dispatch.keys G) -> NoDup (Dispatch.keys (P_of wp)) ->
    (forall d, In d (Dispatch.pk_defs (wp_d wp)) -> NoDup (Dispatch.keys (Dispatch.td_tags d))) ->
    NoDup (map Dispatch.td_name (filter Dispatch.td_pkgscope (Dispatch.pk_defs (wp_d wp)))) ->
    (forall d, In d (Dispatch.pk_defs (wp_d wp)) -> Dispatch.td_action d <> Dispatch.AErr) ->
    (forall d, In d (Dispatch.pk_defs (wp_d wp)) -> forallb Dispatch.no_err_tree (Dispatch.td_defers d) = true) ->
    fuel_ok G fuel wp g ->
    let E := whole_env fmt order rank G in
    let w := to_world modroot wps in
    let gs := map (disp_gen wps fuel) gens in
    exec_outcome E a w gs s = Done -> processed E a w s (to_pkginfo wp) = true ->
    exists cs ran pre post,
      NoDup cs
      /\ (forall k d, In (k, d) cs <->
            In d (Dispatch.pk_defs (wp_d wp)) /\ Dispatch.td_pkgscope d = true
            /\ Gengo.Proofs.Dispatch.enabled_eff_spec (Dispatch.g_name g) G (P_of wp) (Dispatch.td_tags d) = true
            /\ ((k = Dispatch.CT /\ Dispatch.td_kind d = Dispatch.KNamed)
                \/ (k = Dispatch.CA /\ Dispatch.td_kind d = Dispatch.KAlias /\ Dispatch.g_alias g = true)))
      /\ Permutation (map Dispatch.root_id ran) (Dispatch.ids_all (Dispatch.registered cs))
      /\ exec_trace E a w gs s
         = pre ++ (map (tr_call wp g) cs ++ map (tr_defer wp g) (combine (seq 0 (List.length ran)) ran)) ++ post.
Proof. exact pipeline_exactly_once. Qed.
Print Assumptions Whole_exactly_once_of_pipeline_trace.

(* any successful run of ANY generators: what one generator is called for on one processed package is a
   contiguous segment of the run's call log *)
Theorem Whole_session_is_a_segment_of_the_trace :
  forall (E : env) a w gens s p g,
    exec_outcome E a w gens s = Done ->
    In p (w_pkgs w) -> processed E a w s p = true -> In g gens ->
    exists pre post, exec_trace E a w gens s = pre ++ go_trace (gen_run E g p) ++ post.
Proof. exact exec_trace_segment. Qed.
Print Assumptions Whole_session_is_a_segment_of_the_trace.

(* ---- C08's skip soundness, OF Pipeline.exec (obtained from C08_skip_only_if through 1a) ----
   A package the pipeline leaves alone as cached: All, no Force, gengo.sum is a file, and the hash recorded for the
   package — as the byte-level parser reads it — IS the package's load-time hash, which is not empty. *)
Theorem Whole_skipped_by_pipeline_only_if_recorded_hash :
  forall (E : env) a w s p,
    e_sum_load E = SumFile.sumfile_load ->
    NoDup (map pk_path (w_pkgs w)) -> files_ok w ->
    In p (w_pkgs w) -> selected a w p = true -> processed E a w s p = false ->
    a_all a = true /\ a_force a = false /\
    exists b, fs_lookup (sum_path w) s = Some b
              /\ SumFile.sum_sum (SumFile.sumfile_load b) (pk_path p) = pk_hash p
              /\ pk_hash p <> [].
Proof. exact pipeline_skip_only_if. Qed.
Print Assumptions Whole_skipped_by_pipeline_only_if_recorded_hash.

(* ---- a torn gengo.sum under the real parser ----
   Every prefix of the bytes of a well-formed sum (kv_ok: distinct non-empty ASCII paths without white space, hashes
   likewise) answers every Sum query with a prefix of the full answer ... *)
Theorem Whole_torn_sum_prefix :
  forall (m : SumFile.sum) (n : nat) (key : bytes), Gengo.Proofs.SumFile.kv_ok m ->
    WholeTorn.prefix_of (SumFile.sum_sum (SumFile.sumfile_load (firstn n (SumFile.sumfile_bytes m))) key)
                        (SumFile.sum_sum m key).
Proof. exact WholeTorn.torn_sum_prefix. Qed.
Print Assumptions Whole_torn_sum_prefix.

(* ... so every entry it loads carries the recorded hash or a strictly shorter string. *)
Theorem Whole_torn_sum_entries :
  forall (m : SumFile.sum) (n : nat) (k v : bytes), Gengo.Proofs.SumFile.kv_ok m ->
    In (k, v) (SumFile.sumfile_load (firstn n (SumFile.sumfile_bytes m))) ->
    v = SumFile.sum_sum m k
    \/ (WholeTorn.prefix_of v (SumFile.sum_sum m k) /\ List.length v < List.length (SumFile.sum_sum m k)).
Proof. exact WholeTorn.torn_sum_entries. Qed.
Print Assumptions Whole_torn_sum_entries.

(* ---- C02's crash theorem composed with it ----
   [crash_state]: the run is killed after any number of its effects, or INSIDE the write of gengo.sum (any prefix of
   the bytes written).  The next run — any arguments, any loaded world w2 of the same module — skips p only if the
   hash it computed is the one recorded by the gengo.sum the killed run had found and not yet touched, or the one the
   killed run was recording: a torn or truncated gengo.sum only ever causes regeneration.
   Side conditions: what the killed run records are tokens (kv_ok), and a recorded hash is as long as the one computed
   now, or empty (dirhash.Hash1 has one length). *)
Theorem Whole_crash_then_skip_justified :
  forall (E : env), e_sum_load E = SumFile.sumfile_load -> e_sum_bytes E = SumFile.sumfile_bytes ->
  forall a w gens s s' a2 w2 p,
    files_ok w -> crash_state E a w gens s s' ->
    Gengo.Proofs.SumFile.kv_ok (current_sum w) ->
    sum_path w2 = sum_path w ->
    (sum_get (current_sum w) (pk_path p) = []
     \/ List.length (sum_get (current_sum w) (pk_path p)) = List.length (sum_get (current_sum w2) (pk_path p))) ->
    pkg_changed a2 w2 (load_prev E a2 w2 s') p = false ->
    sum_get (current_sum w2) (pk_path p) <> []
    /\ ((exists b, fs_lookup (sum_path w) s = Some b
                   /\ SumFile.sum_sum (SumFile.sumfile_load b) (pk_path p) = sum_get (current_sum w2) (pk_path p))
        \/ sum_get (current_sum w) (pk_path p) = sum_get (current_sum w2) (pk_path p)).
Proof. exact crash_then_skip_justified. Qed.
Print Assumptions Whole_crash_then_skip_justified.

(* in every crash state gengo.sum is what it was, or a prefix of the bytes of the hashes taken at load time *)
Theorem Whole_crash_sum_content :
  forall (E : env), e_sum_bytes E = SumFile.sumfile_bytes ->
  forall a w gens s s',
    files_ok w -> crash_state E a w gens s s' ->
    fs_lookup (sum_path w) s' = fs_lookup (sum_path w) s
    \/ exists n, fs_lookup (sum_path w) s' = Some (firstn n (SumFile.sumfile_bytes (current_sum w))).
Proof. exact crash_sum_content. Qed.
Print Assumptions Whole_crash_sum_content.

(* ================= non-vacuity: one concrete system ================= *)

(* module m with packages m/a (type T, tagged for deep; type Off, gengo:deep=false; alias Al) and m/b (type T without
   tag); global tag gengo:deep; generators deep (AliasGenerator) and deepcopy; All run on an empty tree: the pipeline
   under whole_env makes the calls Dispatch lists, writes one file per package, and saves the byte-level gengo.sum *)
Definition ex_a : wpkg :=
  mk_wpkg (bs "m/a") (bs "a") (bs "a") [bs "a.go"] (bs "h1:aaa")
    (Dispatch.mk_pkg 0 true []
       [ Dispatch.mk_tdef 1 (bs "T") Dispatch.KNamed true [] Dispatch.ANil [Dispatch.DS 501 false [Dispatch.DS 502 false []]];
         Dispatch.mk_tdef 2 (bs "Al") Dispatch.KAlias true [] Dispatch.ANil [];
         Dispatch.mk_tdef 3 (bs "Off") Dispatch.KNamed true [(bs "gengo:deep", [bs "false"])] Dispatch.ANil [];
         Dispatch.mk_tdef 4 (bs "T") Dispatch.KOther false [] Dispatch.ANil [] ]).
Definition ex_b : wpkg :=
  mk_wpkg (bs "m/b") (bs "b") (bs "b") [bs "b.go"] (bs "h1:bbb")
    (Dispatch.mk_pkg 1 false [] [ Dispatch.mk_tdef 7 (bs "T") Dispatch.KNamed true [] Dispatch.ASkip [] ]).
Definition ex_G : tags := [(bs "gengo:deep", [[]])].
Definition ex_gens : list Dispatch.gen := [Dispatch.mk_gen 0 (bs "deep") true; Dispatch.mk_gen 1 (bs "deepcopy") false].
Definition ex_args : args := {| a_all := true; a_force := false; a_base := bs "zz_generated" |}.
Definition ex_env : env := whole_env (fun src => Some src) (fun _ l => l) rank0 ex_G.

Example Whole_example_run :
  let w := to_world [] [ex_b; ex_a] in
  let '(s', tr, out) := exec ex_env ex_args w (map (disp_gen [ex_b; ex_a] 10) ex_gens) [] in
  out = Done
  /\ tr = [ EvCall (bs "deep") (bs "m/a") (bs "Al") mark RNil; EvCall (bs "deep") (bs "m/a") (bs "T") mark RNil;
            EvDefer (bs "deep") (bs "m/a") 0 mark RNil; EvDefer (bs "deep") (bs "m/a") 1 mark RNil;
            EvCall (bs "deep") (bs "m/b") (bs "T") [] RSkip ]
  /\ Dispatch.execute Dispatch.fixed_all true (disp_pkgs [ex_b; ex_a]) ex_gens ex_G
     = Ok ([ Dispatch.EAlias 0 0 2 ex_G; Dispatch.EType 0 0 1 ex_G; Dispatch.EDefer 0 0 501; Dispatch.EDefer 0 0 502;
             Dispatch.EWrites 0 [0%N]; Dispatch.EType 1 0 7 ex_G ], Dispatch.Done)
  /\ fs_lookup ([], bs "gengo.sum") s' = Some (bs "m/a h1:aaa" ++ [SumFile.nl] ++ bs "m/b h1:bbb" ++ [SumFile.nl])
  /\ map fst s' = [([], bs "gengo.sum"); (bs "a", bs "zz_generated.deep.go")].
Proof. vm_compute. repeat split; reflexivity. Qed.

(* the next All run on that tree (hashes unchanged) executes nothing; with the sum torn after 13 bytes
   ("m/a h1:aaa\nm/") package m/a is still cached and m/b is regenerated *)
Example Whole_example_second_run_and_torn_sum :
  let w := to_world [] [ex_b; ex_a] in
  let gs := map (disp_gen [ex_b; ex_a] 10) ex_gens in
  let s1 := exec_fs ex_env ex_args w gs [] in
  exec_trace ex_env ex_args w gs s1 = []
  /\ let torn := fs_set ([], bs "gengo.sum") (firstn 13 (SumFile.sumfile_bytes (current_sum w))) s1 in
     map (processed ex_env ex_args w torn) (sorted_pkgs w) = [false; true].
Proof. vm_compute. split; reflexivity. Qed.
