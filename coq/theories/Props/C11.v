(* C11 — Type literals denote the type they were rendered from.
   Statements only; every proof is [exact <lemma>].

   Reading guide.
   [gty]          Go types of the property's grammar (Spec/TypeLit.v); [view_of g] is what reflect / go/types
                  show of [g] through github.com/octohelm/x/types — the only thing Dumper.TypeLit reads.
   [ident_frag]   the model of snippet.ID / %T (ident.Frag -> Dumper.TypeLit -> rawNamer.Name), with both C11
                  fixes in (the two [true] flags); it yields the syntax tree of the rendered text and the tracker state.
   [resolve e' self a]  what the expression [a] denotes inside package [self] whose import block is [e'].
   [renders x g]  x is the reflect.Type or the go/types Type presentation of g.
   The import tracker, ParseTypeRef and strconv.CanBackquote are universally quantified and constrained by the
   named hypotheses [tracker_hyps], [tracker_not_predeclared], [tracker_lower_case] (property C03: C03_bijection /
   C03_valid_names / add_fixed_bound, C03_not_predeclared_universe — true of the tracker after fixes/C03-3 —,
   C03_local_name_is_lowercased_words), [parse_hyp] (property C15) and [cbq_hyp] (Go's strconv). *)
Require Import Gengo.Base.Bytes Gengo.Model.TypeLit Gengo.Spec.TypeLit Gengo.Proofs.TypeLit.
Require Import Gengo.Proofs.TypeLitWitness.

(* Rendering never panics on a type of the grammar. *)
Theorem C11_total :
  forall pick parse_tref self can_backquote,
    tracker_hyps pick -> parse_hyp parse_tref -> cbq_hyp can_backquote ->
  forall x g e,
    renders x g -> in_domain all_tags self g = true -> tracker_inv self e ->
    exists a e', ident_frag pick parse_tref self can_backquote true true x e = Ok (a, e').
Proof. exact total. Qed.
Print Assumptions C11_total.

(* The rendered expression, read inside the target package through the imports registered during rendering,
   is the type itself (up to the alias spellings byte/rune): own-package types unqualified, foreign ones under
   their import name; struct tags, embedded fields, type arguments included. *)
Theorem C11_roundtrip :
  forall pick parse_tref self can_backquote,
    tracker_hyps pick -> parse_hyp parse_tref -> cbq_hyp can_backquote ->
  forall x g e a e',
    renders x g -> in_domain all_tags self g = true -> tracker_inv self e ->
    ident_frag pick parse_tref self can_backquote true true x e = Ok (a, e') ->
    free_names self g e' ->
    resolve e' self a = Some (canon g).
Proof. exact roundtrip. Qed.
Print Assumptions C11_roundtrip.

(* The same with the tracker fact C03 proves after fixes/C03-3 as a hypothesis: import names are never predeclared
   identifiers (and the target file's tracker held none before).  Then every predeclared name the text uses
   (string, error, any, int ...) is free by itself; what remains of [free_names] is [free_own_names]: no import
   is called like one of the target package's OWN types occurring in g. *)
Theorem C11_roundtrip_no_predeclared_imports :
  forall pick parse_tref self can_backquote,
    tracker_hyps pick -> tracker_not_predeclared pick -> parse_hyp parse_tref -> cbq_hyp can_backquote ->
  forall x g e a e',
    renders x g -> in_domain all_tags self g = true -> tracker_inv self e -> no_predeclared_names e ->
    ident_frag pick parse_tref self can_backquote true true x e = Ok (a, e') ->
    free_own_names self g e' ->
    no_predeclared_names e' /\ resolve e' self a = Some (canon g).
Proof. exact (fun pick parse_tref self can_backquote Ht Hn Hp Hc x g e a e' =>
                roundtrip_no_predeclared_imports pick parse_tref self can_backquote Ht Hp Hc x g e a e' Hn). Qed.
Print Assumptions C11_roundtrip_no_predeclared_imports.

(* The tracker afterwards: what was there is kept (in place), it is still a bijection that does not import the
   target package, and the registered paths are exactly the old ones plus the foreign packages occurring in g. *)
Theorem C11_imports_exact :
  forall pick parse_tref self can_backquote,
    tracker_hyps pick -> parse_hyp parse_tref -> cbq_hyp can_backquote ->
  forall x g e a e',
    renders x g -> in_domain all_tags self g = true -> tracker_inv self e ->
    ident_frag pick parse_tref self can_backquote true true x e = Ok (a, e') ->
    (exists added, e' = e ++ added) /\ tracker_inv self e'
    /\ (forall p, In p (map fst e') <-> In p (map fst e) \/ In p (foreign_pkgs self g)).
Proof. exact imports_exact. Qed.
Print Assumptions C11_imports_exact.

(* No side condition at all is left when, besides, import names are lower-case ([tracker_lower_case], C03 on
   ASCII paths) and the target package's own types that occur are exported. *)
Theorem C11_roundtrip_exported_locals :
  forall pick parse_tref self can_backquote,
    tracker_hyps pick -> parse_hyp parse_tref -> cbq_hyp can_backquote ->
  forall x g e a e',
    tracker_not_predeclared pick -> tracker_lower_case pick ->
    renders x g -> in_domain all_tags self g = true -> locals_exported self g = true ->
    tracker_inv self e -> Forall lower_name (map snd e) ->
    ident_frag pick parse_tref self can_backquote true true x e = Ok (a, e') ->
    resolve e' self a = Some (canon g).
Proof. exact roundtrip_exported. Qed.
Print Assumptions C11_roundtrip_exported_locals.

(* History: before fixes/C11-error-type-literal.diff, struct{E error} came back as struct{E any} ... *)
Theorem C11_error_refuted_before_fix :
  forall pick parse_tref self can_backquote fx_tag,
    in_domain all_tags self g_struct_error = true /\
    exists a, type_lit pick parse_tref self can_backquote false fx_tag (view_of g_struct_error) [] = Ok (a, [])
              /\ resolve [] self a <> Some (canon g_struct_error).
Proof. exact error_refuted_before_fix. Qed.
Print Assumptions C11_error_refuted_before_fix.

(* ... and before fixes/C11-struct-tag-literal.diff a tag with a backquote gave text that is no type expression. *)
Theorem C11_tag_refuted_before_fix :
  forall pick parse_tref self can_backquote fx_err,
    in_domain all_tags self g_struct_tag = true /\
    exists a, type_lit pick parse_tref self can_backquote fx_err false (view_of g_struct_tag) [] = Ok (a, [])
              /\ resolve [] self a = None.
Proof. exact tag_refuted_before_fix. Qed.
Print Assumptions C11_tag_refuted_before_fix.

(* History: before fixes/C03-3 a package .../string was imported as `string` (C03_not_predeclared_refuted_before_fix);
   such a tracker satisfies [tracker_hyps], not [tracker_not_predeclared], and struct{A string; B string.T} reads back as
   nothing: in the text, `string` is the package. *)
Theorem C11_import_name_predeclared_refuted_before_fix :
  tracker_hyps pick_last_segment /\
  in_domain all_tags (bs "t") g_string_clash = true /\
  exists a e', ident_frag pick_last_segment parse_only_T (bs "t") (fun _ => true) true true (IdT (view_of g_string_clash)) [] = Ok (a, e')
               /\ e' = [(bs "x/string", bs "string")] /\ resolve e' (bs "t") a = None.
Proof. exact import_name_predeclared_refuted_before_fix. Qed.
Print Assumptions C11_import_name_predeclared_refuted_before_fix.

(* The hypotheses about the tracker are satisfiable, separately and together. *)
Theorem C11_tracker_hyps_satisfiable :
  tracker_hyps pick_long /\ (tracker_hyps pick_q /\ tracker_not_predeclared pick_q /\ tracker_lower_case pick_q).
Proof. exact (conj tracker_hyps_sat tracker_hyps_c03_sat). Qed.
Print Assumptions C11_tracker_hyps_satisfiable.

(* non-vacuity: struct{ E error; L a/o.List[b/o.Item] `json:"l"` } rendered into package t, whose file already
   imports x/o as "o": text  struct {E error\nL ao.List[bo.Item] `json:"l"`\n}  and the round trip. *)
Definition ex_g : gty :=
  GStruct (GFCons (bs "E") false [] GError []
          (GFCons (bs "L") false [] (GNamed (bs "a/o") (bs "List") (GCons (GNamed (bs "b/o") (bs "Item") GNil) GNil)) (bs "json:""l""")
           GFNil)).
Definition ex_pick : bytes -> renv -> option bytes :=
  fun p _ => if bytes_eqb p (bs "a/o") then Some (bs "ao") else Some (bs "bo").
Definition ex_parse : bytes -> option tref :=
  fun _ => Some (TRef [] (bs "List") (TRCons (TRef (bs "b/o") (bs "Item") TRNil) TRNil)).
Definition ex_env : renv := [(bs "x/o", bs "o")].

(* [cbq_hyp] is satisfiable — by strconv.CanBackquote restricted to ASCII ([can_backquote_ascii]: no backquote, no DEL,
   no control byte but TAB, no byte >= 0x80), NOT by the constant [fun _ => true]; the Examples below use the correct
   instance. *)
Theorem C11_cbq_hyp_satisfiable :
  cbq_hyp can_backquote_ascii /\ ~ cbq_hyp (fun _ => true) /\
  can_backquote_ascii (of_string "json:""l,omitempty"" yaml:""x""") = true /\
  can_backquote_ascii (bs "a" ++ [backquote] ++ bs "b") = false /\
  can_backquote_ascii (bs "a" ++ [cr]) = false /\
  can_backquote_ascii (bs "a" ++ [ascii_of_N 10]) = false /\
  can_backquote_ascii (bs "a" ++ [ascii_of_N 9] ++ bs "b") = true /\
  can_backquote_ascii [ascii_of_N 195; ascii_of_N 169] = false.
Proof. exact (conj can_backquote_ascii_hyp (conj const_true_violates_cbq_hyp can_backquote_ascii_samples)). Qed.
Print Assumptions C11_cbq_hyp_satisfiable.

Example C11_example_text :
  match type_lit ex_pick ex_parse (bs "t") can_backquote_ascii true true (view_of ex_g) ex_env with
  | Ok (a, e') =>
      print (fun s => s) a = bs "struct {E error" ++ [nl] ++ bs "L ao.List[bo.Item] `json:""l""`" ++ [nl] ++ bs "}"
      /\ e' = [(bs "x/o", bs "o"); (bs "b/o", bs "bo"); (bs "a/o", bs "ao")]
      /\ resolve e' (bs "t") a = Some (canon ex_g)
  | _ => False
  end.
Proof. vm_compute. repeat split; reflexivity. Qed.

Example C11_example_domain : in_domain all_tags (bs "t") ex_g = true /\ locals_exported (bs "t") ex_g = true.
Proof. vm_compute. split; reflexivity. Qed.

(* ------------------------------------------------------------------------------------------------------------ *)
(* RenderStack: the tracker and the parser are no longer hypotheses.
   [the_pick]   = the name C03's repaired tracker (Model/Tracker.v [add true universe_names (Some std_tr)], i.e. with the
                  universe and the reserved-name table of the current tree, Gen/StdList.v) binds to a new path in the state
                  the association list stands for;  [parse_c15] = C15's [parse_type_ref true].
   What is left: [cbq_hyp] (Go's strconv.CanBackquote), the grammar [in_domain], and a well-formed starting table.
   Model domain of C03's tracker: ASCII import paths (the correspondence check compares non-ASCII paths by predicate only). *)
Require Import Gengo.Model.RenderStack Gengo.Proofs.RenderStackTracker Gengo.Proofs.RenderStackConcrete.

(* every tracker hypothesis of this file holds of C03's tracker — for EVERY refused-name list and EVERY reserved table —
   and the parser hypothesis holds of C15's ParseTypeRef *)
Theorem C11_hypotheses_discharged :
  (forall pre std, tracker_hyps (pick_c03 pre std) /\ tracker_lower_case (pick_c03 pre std)
                   /\ ((forall n, is_predeclared n = true -> In n pre) -> tracker_not_predeclared (pick_c03 pre std)))
  /\ (forall n, is_predeclared n = true -> In n the_pre)
  /\ parse_hyp parse_c15.
Proof.
  exact (conj (fun pre std => conj (tracker_hyps_c03 pre std) (conj (tracker_lower_case_c03 pre std) (tracker_not_predeclared_c03 pre std)))
              (conj Gengo.Proofs.StdTable.c11_predeclared_in_universe parse_hyp_c15)).
Qed.
Print Assumptions C11_hypotheses_discharged.

(* the model's tracker state and C03's record move in lock step: AddType on the list is [add] on the record *)
Theorem C11_tracker_is_C03 :
  forall pre std p e,
    tr_of (tr_add (pick_c03 pre std) p e) = cadd pre std (tr_of e) p
    /\ Tk.add true pre std (tr_of e) p = Ok (cadd pre std (tr_of e) p)
    /\ (NoDup (map fst e) -> local_name_of p e = cname (tr_of e) p /\ NoDup (map fst (tr_add (pick_c03 pre std) p e))).
Proof.
  exact (fun pre std p e => conj (tr_add_simulation pre std p e) (conj (cadd_ok pre std (tr_of e) p)
           (fun ND => conj (local_name_simulation p e ND) (tr_add_nodup pre std p e ND)))).
Qed.
Print Assumptions C11_tracker_is_C03.

Theorem C11_total_concrete :
  forall self can_backquote, cbq_hyp can_backquote ->
  forall x g e,
    renders x g -> in_domain all_tags self g = true -> tracker_inv self e ->
    exists a e', ident_frag the_pick parse_c15 self can_backquote true true x e = Ok (a, e').
Proof. exact c11_total_concrete. Qed.
Print Assumptions C11_total_concrete.

(* side condition left: no import is called like one of the target package's OWN types occurring in g *)
Theorem C11_roundtrip_concrete :
  forall self can_backquote, cbq_hyp can_backquote ->
  forall x g e a e',
    renders x g -> in_domain all_tags self g = true -> tracker_inv self e -> no_predeclared_names e ->
    ident_frag the_pick parse_c15 self can_backquote true true x e = Ok (a, e') ->
    free_own_names self g e' ->
    no_predeclared_names e' /\ resolve e' self a = Some (canon g).
Proof. exact c11_roundtrip_concrete. Qed.
Print Assumptions C11_roundtrip_concrete.

Theorem C11_imports_exact_concrete :
  forall self can_backquote, cbq_hyp can_backquote ->
  forall x g e a e',
    renders x g -> in_domain all_tags self g = true -> tracker_inv self e ->
    ident_frag the_pick parse_c15 self can_backquote true true x e = Ok (a, e') ->
    (exists added, e' = e ++ added) /\ tracker_inv self e'
    /\ (forall p, In p (map fst e') <-> In p (map fst e) \/ In p (foreign_pkgs self g)).
Proof. exact c11_imports_exact_concrete. Qed.
Print Assumptions C11_imports_exact_concrete.

(* from a fresh tracker, with the target package's own types exported: nothing else is asked *)
Theorem C11_roundtrip_fresh_concrete :
  forall self can_backquote, cbq_hyp can_backquote ->
  forall x g a e',
    renders x g -> in_domain all_tags self g = true -> locals_exported self g = true ->
    ident_frag the_pick parse_c15 self can_backquote true true x [] = Ok (a, e') ->
    resolve e' self a = Some (canon g).
Proof. exact c11_roundtrip_fresh_concrete. Qed.
Print Assumptions C11_roundtrip_fresh_concrete.

(* non-vacuity, with the real naming: the example of above rendered by the real tracker model and the real parser model.
   a/o and b/o both want the name o, which x/o already has: a/o -> ao, b/o -> bo. *)
Example C11_example_concrete :
  match type_lit the_pick parse_c15 (bs "t") can_backquote_ascii true true (view_of ex_g) ex_env with
  | Ok (a, e') =>
      print (fun s => s) a = bs "struct {E error" ++ [nl] ++ bs "L ao.List[bo.Item] `json:""l""`" ++ [nl] ++ bs "}"
      /\ e' = [(bs "x/o", bs "o"); (bs "b/o", bs "bo"); (bs "a/o", bs "ao")]
      /\ resolve e' (bs "t") a = Some (canon ex_g)
  | _ => False
  end.
Proof. vm_compute. repeat split; reflexivity. Qed.

(* RenderStack: ident.Frag hands to AddType exactly the foreign packages of the type, whatever the tracker state
   ([idarg_regs]: the paths in call order, read off the argument alone) ... *)
Require Import Gengo.Proofs.RenderStackLeaves Gengo.Proofs.RenderStack.

Theorem C11_registers_exact :
  forall self can_backquote, cbq_hyp can_backquote ->
  forall x g e a e',
    renders x g -> in_domain all_tags self g = true ->
    (ident_frag the_pick parse_c15 self can_backquote true true x e = Ok (a, e') ->
       e' = add_all the_pick (idarg_regs self parse_c15 x) e
       /\ forall e2, ext e' e2 -> ident_frag the_pick parse_c15 self can_backquote true true x e2 = Ok (a, e2))
    /\ forall p, In p (idarg_regs self parse_c15 x) <-> In p (foreign_pkgs self g).
Proof.
  exact (fun self cbq Hc x g e a e' Hx Hd =>
           conj (ident_frag_spec the_pick (pick_total the_pre the_std) parse_c15 self cbq true true x e a e')
                (idarg_regs_exact self cbq Hc x g Hx Hd)).
Qed.
Print Assumptions C11_registers_exact.

(* ... and in the generated file: against the table [e'] a writer ends with (C01_file_imports: table_ok, the own package
   not in it), a type all of whose packages the file imports renders to an expression that leaves the table alone and
   that, read through THAT import block, denotes the type. *)
Theorem C11_type_leaf_denotes_in_file :
  forall self can_backquote, cbq_hyp can_backquote ->
  forall e' x g,
    table_ok the_pre e' -> ~ In self (map fst e') ->
    renders x g -> in_domain all_tags self g = true -> locals_exported self g = true ->
    (forall p, In p (foreign_pkgs self g) -> In p (map fst e')) ->
    exists a, ident_frag the_pick parse_c15 self can_backquote true true x e' = Ok (a, e') /\
              resolve e' self a = Some (canon g).
Proof. exact type_leaf_denotes. Qed.
Print Assumptions C11_type_leaf_denotes_in_file.

(* non-vacuity of C11_type_leaf_denotes_in_file (Proofs/TypeLitWitness.v): the file of package example.com/m/t imports
   x/o as o, b/o as bo, a/o as ao and net/url as url ([wit_table]); the leaf is
     struct { E error; L ao.List[bo.Item] `json:"l,omitempty"`; M map[string][]*o.Node `x:"a<TAB>b"`; Own *Local; U url.URL }
   ([wit_g]: four foreign packages, one type of the target package itself, two tags).  Every hypothesis holds, and the
   theorem gives — for the reflect and for the go/types presentation — an expression that leaves the table alone and
   reads back as the type; the last Example computes the text. *)
Example C11_type_leaf_hypotheses :
  cbq_hyp can_backquote_ascii /\ table_ok the_pre wit_table /\ ~ In wit_self (map fst wit_table) /\
  in_domain all_tags wit_self wit_g = true /\ locals_exported wit_self wit_g = true /\
  foreign_pkgs wit_self wit_g = [bs "a/o"; bs "b/o"; bs "x/o"; bs "net/url"] /\
  (forall p, In p (foreign_pkgs wit_self wit_g) -> In p (map fst wit_table)).
Proof.
  exact (conj can_backquote_ascii_hyp (conj wit_table_ok (conj wit_self_not_imported
        (conj (proj1 wit_g_domain) (conj (proj2 wit_g_domain) (conj wit_g_foreign_pkgs_nonempty wit_g_imported)))))).
Qed.

Example C11_type_leaf_instance :
  (exists a, ident_frag the_pick parse_c15 wit_self can_backquote_ascii true true (IdR (view_of wit_g)) wit_table
             = Ok (a, wit_table) /\ resolve wit_table wit_self a = Some (canon wit_g)) /\
  (exists a, ident_frag the_pick parse_c15 wit_self can_backquote_ascii true true (IdT (view_of wit_g)) wit_table
             = Ok (a, wit_table) /\ resolve wit_table wit_self a = Some (canon wit_g)).
Proof.
  exact (conj
    (C11_type_leaf_denotes_in_file wit_self can_backquote_ascii can_backquote_ascii_hyp wit_table (IdR (view_of wit_g)) wit_g
       wit_table_ok wit_self_not_imported (or_introl eq_refl) (proj1 wit_g_domain) (proj2 wit_g_domain) wit_g_imported)
    (C11_type_leaf_denotes_in_file wit_self can_backquote_ascii can_backquote_ascii_hyp wit_table (IdT (view_of wit_g)) wit_g
       wit_table_ok wit_self_not_imported (or_intror (or_introl eq_refl)) (proj1 wit_g_domain) (proj2 wit_g_domain)
       wit_g_imported)).
Qed.

Example C11_type_leaf_text :
  match ident_frag the_pick parse_c15 wit_self can_backquote_ascii true true (IdT (view_of wit_g)) wit_table with
  | Ok (a, e') =>
      print (fun s => s) a =
        bs "struct {E error" ++ [nl] ++
        bs "L ao.List[bo.Item] `json:""l,omitempty""`" ++ [nl] ++
        bs "M map[string][]*o.Node `x:""a" ++ [ascii_of_N 9] ++ bs "b""`" ++ [nl] ++
        bs "Own *Local" ++ [nl] ++
        bs "U url.URL" ++ [nl] ++ bs "}"
      /\ e' = wit_table
      /\ resolve e' wit_self a = Some (canon wit_g)
  | _ => False
  end.
Proof. exact wit_leaf_computed. Qed.
