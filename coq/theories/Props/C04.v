Require Import Gengo.Base.Bytes Gengo.Model.Determinism.
(* placeholder while the correspondence is brought up; replaced by the real statements *)
Theorem C04_placeholder : oid nat [] [1] = [1].
Proof. reflexivity. Qed.
Print Assumptions C04_placeholder.
