(* C04 — generation is deterministic and a second run is a fixed point.
   Statements only; proofs are in Proofs/Determinism.v.  The model (Model/Determinism.v) takes every
   range over a Go map / sync.Map from an order oracle; [shuffles o] is all that is known about it. *)
Require Import Gengo.Base.Bytes Gengo.Model.Determinism Gengo.Proofs.Determinism.
From Coq Require Import Permutation Sorted.

(* Same module, arguments and generators; ANY two behaviours of the runtime at every map range
   (Defs, name table, tags, merged tags, generator files, stale files, import map, sum map,
   registration order) and ANY two orders of the entrypoints: both runs fail, or both succeed with
   the same content at every path (generated files and gengo.sum) and the same sequence of
   GenerateType / GenerateAliasType calls. *)
Theorem C04_order_independent :
  forall render parse_sum (o1 o2 : oracle) a e1 e2 w gens f,
    shuffles o1 -> shuffles o2 -> wf_args a -> wf_world w -> Permutation e1 e2 ->
    out_equiv (run true true render parse_sum o1 a e1 w gens f)
              (run true true render parse_sum o2 a e2 w gens f).
Proof. exact run_order_independent. Qed.
Print Assumptions C04_order_independent.

(* gengo.sum is a function of the map, not of its iteration order: one line per entry, ascending. *)
Theorem C04_sum_bytes_sorted :
  forall (o : oracle) m, shuffles o -> NoDup (map fst m) ->
    let es := sorted_entries o [bs "sum"] m in
    sum_bytes o m = concat (map sum_line es)
    /\ es = sorted_entries oid [bs "sum"] m
    /\ Permutation es m
    /\ map fst es = sort_strings (map fst m)
    /\ StronglySorted (fun a b => bytes_leb a b = true) (map fst es)
    /\ NoDup (map fst es).
Proof. exact sum_bytes_sorted. Qed.
Print Assumptions C04_sum_bytes_sorted.

(* sort.Strings of a permutation is the same list (the lemma the sites rest on) *)
Theorem C04_sort_perm_eq : forall l1 l2, Permutation l1 l2 -> sort_strings l1 = sort_strings l2.
Proof. exact sort_perm_eq. Qed.
Print Assumptions C04_sort_perm_eq.

(* Before the repairs (DESIGN section 4 #16, and the order of MethodsOf): two behaviours of the
   runtime on one module give different call sequences / different file contents. *)
Theorem C04_order_independent_refuted_before_scope_fix :
  log_of (run false true wit_render (fun _ => []) oid wit_args [bs "m/a"] wit_world wit_gens wit_fs)
  <> log_of (run false true wit_render (fun _ => []) rev_oracle wit_args [bs "m/a"] wit_world wit_gens wit_fs).
Proof. exact table_fold_refuted. Qed.
Print Assumptions C04_order_independent_refuted_before_scope_fix.

Theorem C04_order_independent_refuted_before_methods_fix :
  file_of (run true false wit_render (fun _ => []) oid wit_args [bs "m/a"] wit_world wit_gens wit_fs) (bs "a", bs "zz_generated.rec.go")
  <> file_of (run true false wit_render (fun _ => []) rev_oracle wit_args [bs "m/a"] wit_world wit_gens wit_fs) (bs "a", bs "zz_generated.rec.go").
Proof. exact methods_order_refuted. Qed.
Print Assumptions C04_order_independent_refuted_before_methods_fix.

(* non-vacuity: the witness module is well formed, both oracles are legal, the run does something *)
Example C04_hypotheses_satisfiable :
  wf_world wit_world /\ wf_args wit_args /\ shuffles oid /\ shuffles rev_oracle
  /\ log_of (run true true wit_render (fun _ => []) rev_oracle wit_args [bs "m/a"] wit_world wit_gens wit_fs)
     = Some [(bs "m/a", bs "rec", [mk_call CType (bs "T") 306])].
Proof.
  split; [exact wit_world_wf|]. split; [constructor|]. split; [exact oid_shuffles|]. split; [exact rev_oracle_shuffles|].
  exact (proj1 wit_run_nontrivial).
Qed.
