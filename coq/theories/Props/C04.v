(* C04 — generation is deterministic and a second run is a fixed point.
   Statements only; proofs are in Proofs/Determinism.v.  The model (Model/Determinism.v) takes every
   range over a Go map / sync.Map from an order oracle; [shuffles o] is all that is known about it. *)
Require Import Gengo.Base.Bytes Gengo.Model.Determinism Gengo.Proofs.Determinism Gengo.Proofs.DeterminismWitness.
From Coq Require Import Permutation Sorted.

(* Same module, arguments and generators; ANY two behaviours of the runtime at every map range
   (Defs, name table, tags, merged tags, generator files, stale files, import map, sum map,
   registration order) and ANY two orders of the entrypoints: both runs fail, or both succeed with
   the same content at every path (generated files and gengo.sum) and the same sequence of
   GenerateType / GenerateAliasType calls. *)
Theorem C04_order_independent :
  forall render parse_sum (o1 o2 : oracle) a e1 e2 w gens f,
    shuffles o1 -> shuffles o2 -> wf_args a -> wf_world w -> Permutation e1 e2 ->
    out_equiv (run true true render parse_sum o1 a e1 w gens f)
              (run true true render parse_sum o2 a e2 w gens f).
Proof. exact run_order_independent. Qed.
Print Assumptions C04_order_independent.

(* ... and independent of the order of the generators (GetRegisteredGenerators() ranges over the
   registry map): same outcome, same files, and every generator sees the same sequence of calls
   over the whole run ([log_equiv]: the log is a permutation, and its restriction to any one
   generator is equal) — only the interleaving of different generators changes. *)
Theorem C04_generator_order_independent :
  forall render parse_sum (o1 o2 : oracle) a e1 e2 w gens1 gens2 f,
    shuffles o1 -> shuffles o2 -> wf_args a -> wf_world w -> Permutation e1 e2 ->
    Permutation gens1 gens2 -> NoDup (map g_name gens1) ->
    out_equiv_log (run true true render parse_sum o1 a e1 w gens1 f)
                  (run true true render parse_sum o2 a e2 w gens2 f).
Proof. exact generator_order_independent. Qed.
Print Assumptions C04_generator_order_independent.

(* gengo.sum is a function of the map, not of its iteration order: one line per entry, ascending. *)
Theorem C04_sum_bytes_sorted :
  forall (o : oracle) m, shuffles o -> NoDup (map fst m) ->
    let es := sorted_entries o [bs "sum"] m in
    sum_bytes o m = concat (map sum_line es)
    /\ es = sorted_entries oid [bs "sum"] m
    /\ Permutation es m
    /\ map fst es = sort_strings (map fst m)
    /\ StronglySorted (fun a b => bytes_leb a b = true) (map fst es)
    /\ NoDup (map fst es).
Proof. exact sum_bytes_sorted. Qed.
Print Assumptions C04_sum_bytes_sorted.

(* sort.Strings of a permutation is the same list (the lemma the sites rest on) *)
Theorem C04_sort_perm_eq : forall l1 l2, Permutation l1 l2 -> sort_strings l1 = sort_strings l2.
Proof. exact sort_perm_eq. Qed.
Print Assumptions C04_sort_perm_eq.

(* Before the repairs (DESIGN section 4 #16, and the order of MethodsOf): two behaviours of the
   runtime on one module give different call sequences / different file contents. *)
Theorem C04_order_independent_refuted_before_scope_fix :
  log_of (run false true wit_render (fun _ => []) oid wit_args [bs "m/a"] wit_world wit_gens wit_fs)
  <> log_of (run false true wit_render (fun _ => []) rev_oracle wit_args [bs "m/a"] wit_world wit_gens wit_fs).
Proof. exact table_fold_refuted. Qed.
Print Assumptions C04_order_independent_refuted_before_scope_fix.

Theorem C04_order_independent_refuted_before_methods_fix :
  file_of (run true false wit_render (fun _ => []) oid wit_args [bs "m/a"] wit_world wit_gens wit_fs) (bs "a", bs "zz_generated.rec.go")
  <> file_of (run true false wit_render (fun _ => []) rev_oracle wit_args [bs "m/a"] wit_world wit_gens wit_fs) (bs "a", bs "zz_generated.rec.go").
Proof. exact methods_order_refuted. Qed.
Print Assumptions C04_order_independent_refuted_before_methods_fix.

(* Second run.  Hypothesis on the generators ([reads_sources_only]): what a generator renders for a
   package is the same for any two loads of the same sources — it does not depend on which generated
   files exist or on the directory hash, i.e. generators do not read generated files ([src_eq] keeps
   path, name, directory, package-doc tags, type names and methods; [reload] relates the two loads).
   First run: regenerates every selected package ([regen_all]: Force, or not All, or no gengo.sum yet)
   on a tree whose files named <base>.* are all listed by the loaded packages ([loaded]).  Then a
   second run — any behaviour of the runtime, any directory hashes, cached or not — succeeds and leaves
   every path except gengo.sum as it was: every generated file is rewritten with the same bytes or
   left alone, none is added or removed.  (gengo.sum itself changes between run 1 and run 2: the
   hashes of run 2 cover the generated files; DESIGN C08.) *)
Theorem C04_fixed_point :
  forall render parse_sum (o1 o2 : oracle) a e gens w w' f f1 log1,
    shuffles o1 -> shuffles o2 -> wf_args a -> wf_world w -> wf_world w' ->
    NoDup (map pk_dir (w_pkgs w)) -> is_gen_name a sum_name = false ->
    Forall reads_sources_only gens -> reload w w' ->
    loaded a w f -> regen_all a w f ->
    run true true render parse_sum o1 a e w gens f = Some (f1, log1) ->
    exists f2 log2,
      run true true render parse_sum o2 a e w' gens f1 = Some (f2, log2)
      /\ forall q, q <> (w_moddir w', sum_name) -> f2 q = f1 q.
Proof. exact second_run_fixed_point. Qed.
Print Assumptions C04_fixed_point.

(* what the first run establishes: every selected package's generated files are exactly what its
   generators produce ([settled]) ... *)
Theorem C04_first_run_settles :
  forall render parse_sum (o : oracle), shuffles o ->
  forall a e gens w f f1 log,
    wf_world w -> NoDup (map pk_dir (w_pkgs w)) -> is_gen_name a sum_name = false ->
    loaded a w f -> regen_all a w f ->
    run true true render parse_sum o a e w gens f = Some (f1, log) ->
    settled render o a e gens w f1.
Proof. exact first_run_settles. Qed.
Print Assumptions C04_first_run_settles.

(* ... and from a settled tree ANY number of consecutive runs (each on a fresh load of the same
   sources, each with its own map orders, hashes and cache state) change no generated file. *)
Theorem C04_fixed_point_any_number_of_runs :
  forall render parse_sum a e gens w,
    wf_args a -> wf_world w -> is_gen_name a sum_name = false -> Forall reads_sources_only gens ->
    forall (ws : list (world * oracle)),
      Forall (fun wo => reload w (fst wo) /\ wf_world (fst wo) /\ shuffles (snd wo)) ws ->
      forall f, (exists o, shuffles o /\ settled render o a e gens w f) ->
      exists f', runs_to render parse_sum a e gens f ws f' /\ forall q, generated a q = true -> f' q = f q.
Proof. exact settled_forever. Qed.
Print Assumptions C04_fixed_point_any_number_of_runs.

(* non-vacuity: the witness module is well formed, both oracles are legal, the run does something,
   the scripted generators satisfy the hypothesis of the fixed-point theorems, and so do the rest
   (here [loaded] holds because the tree [wit_fs] is EMPTY; on a tree with previous outputs and a previous gengo.sum:
   C04_hypotheses_satisfiable_on_a_used_tree below) *)
Example C04_hypotheses_satisfiable :
  wf_world wit_world /\ wf_args wit_args /\ shuffles oid /\ shuffles rev_oracle
  /\ log_of (run true true wit_render (fun _ => []) rev_oracle wit_args [bs "m/a"] wit_world wit_gens wit_fs)
     = Some [(bs "m/a", bs "rec", [mk_call CType (bs "T") 306])]
  /\ Forall reads_sources_only wit_gens
  /\ reload wit_world wit_world /\ loaded wit_args wit_world wit_fs /\ regen_all wit_args wit_world wit_fs
  /\ NoDup (map pk_dir (w_pkgs wit_world)) /\ is_gen_name wit_args sum_name = false.
Proof.
  split; [exact wit_world_wf|]. split; [constructor|]. split; [exact oid_shuffles|]. split; [exact rev_oracle_shuffles|].
  split; [exact (proj1 wit_run_nontrivial)|].
  split; [repeat constructor; apply scripted_reads_sources_only|].
  split; [split; [reflexivity|repeat constructor]|].
  split; [intros p k _ _ H; exfalso; now apply H|].
  split; [right; right; reflexivity|].
  split; [repeat constructor; intros []|reflexivity].
Qed.

(* the FIRST (and only) run of that small witness under the reversing oracle, computed: the file and its bytes.
   (On the EMPTY tree [wit_fs] with [reload wit_world wit_world]; a genuine second run is C04_second_run_computed below.) *)
Example C04_fixed_point_witness :
  file_of (run true true wit_render (fun _ => []) rev_oracle wit_args [bs "m/a"] wit_world wit_gens wit_fs) (bs "a", bs "zz_generated.rec.go")
  = Some (bs "G;Gm(M0,M1,);").
Proof. exact (proj2 wit_run_nontrivial). Qed.

(* ---- non-vacuity on a module that is NOT empty (Proofs/DeterminismWitness.v): packages m/a and m/b, generators "rec" and
   "other" (an AliasGenerator), a tree that already holds a stale zz_generated.old.go, a previous zz_generated.rec.go,
   a look-alike zz_generatedx.go, user files and a previous gengo.sum with two lines (read by the byte-level parser
   of Model/SumFile.v); All and Force.  [d_world0] is the load before run 1, [d_world1] the load before run 2 (the
   generated files are among the packages' files, the directory hashes differ). ---- *)
Example C04_hypotheses_satisfiable_on_a_used_tree :
  wf_world d_world0 /\ wf_world d_world1 /\ wf_args d_args /\ shuffles oid /\ shuffles rev_oracle
  /\ NoDup (map pk_dir (w_pkgs d_world0)) /\ is_gen_name d_args sum_name = false
  /\ Forall reads_sources_only d_gens /\ reload d_world0 d_world1
  /\ loaded d_args d_world0 d_fs0 /\ regen_all d_args d_world0 d_fs0
  /\ d_fs0 (bs "a", bs "zz_generated.old.go") = Some (bs "stale")
  /\ d_fs0 (w_moddir d_world0, sum_name) = Some d_prev_sum
  /\ d_parse_sum d_prev_sum = [(bs "m/a", bs "h1:old"); (bs "m/b", bs "h1:b0")].
Proof. exact d_hypotheses. Qed.

(* the FIRST run on that tree, computed: the calls; the stale file removed, the previous output replaced, look-alike
   and user files untouched; gengo.sum rewritten with the hashes of the first load *)
Example C04_first_run_on_a_used_tree :
  log_of d_run1
  = Some [(bs "m/a", bs "rec", [mk_call CType (bs "T") 306; mk_call CType (bs "U") 406]);
          (bs "m/a", bs "other", [mk_call CAlias (bs "A") 506; mk_call CType (bs "U") 406]);
          (bs "m/b", bs "rec", []);
          (bs "m/b", bs "other", [mk_call CType (bs "V") 706])]
  /\ map (file_of d_run1) d_paths
     = [Some (bs "package a"); None;
        Some (bs "package a;import bytes;import fmt;import sort;G;Gm(M0,M1,);H;D;");
        Some (bs "package a;O;"); Some (bs "look-alike");
        Some (bs "package b"); Some (bs "package b;V1;V2;"); None; Some (bs "R")]
  /\ file_of d_run1 d_sum = Some (bs "m/a h1:a0" ++ [nl10] ++ bs "m/b h1:b0" ++ [nl10]).
Proof. exact d_first_run. Qed.

(* THE SECOND RUN, computed: [d_run2] runs on [d_fs1], the tree run 1 left, with the re-loaded packages and the other
   behaviour of the runtime at every map range.  Same calls; every path of the module except gengo.sum holds what it
   held (nothing rewritten differently, added or removed); gengo.sum now records the hashes of the second load —
   which is why C04_fixed_point excludes that one path. *)
Example C04_second_run_computed :
  log_of d_run2 = log_of d_run1
  /\ map (file_of d_run2) d_paths = map (file_of d_run1) d_paths
  /\ map (file_of d_run2) d_paths = map d_fs1 d_paths
  /\ file_of d_run2 d_sum = Some (bs "m/a h1:a1" ++ [nl10] ++ bs "m/b h1:b1" ++ [nl10])
  /\ file_of d_run2 d_sum <> file_of d_run1 d_sum.
Proof. exact d_second_run. Qed.

(* C04_fixed_point APPLIED to that module (every hypothesis discharged): the statement for all paths at once *)
Example C04_fixed_point_instance :
  exists f2 log2, d_run2 = Some (f2, log2) /\ forall q, q <> (w_moddir d_world1, sum_name) -> f2 q = d_fs1 q.
Proof. exact d_fixed_point_instance. Qed.
Print Assumptions C04_fixed_point_instance.

(* ... and C04_fixed_point_any_number_of_runs: three further runs on alternating loads and behaviours *)
Example C04_any_number_of_runs_instance :
  exists f', runs_to d_render d_parse_sum d_args d_entry d_gens d_fs1 [(d_world1, rev_oracle); (d_world0, oid); (d_world1, oid)] f'
             /\ forall q, generated d_args q = true -> f' q = d_fs1 q.
Proof. exact d_any_number_instance. Qed.
Print Assumptions C04_any_number_of_runs_instance.

(* PERMUTED ENTRYPOINTS under the other behaviour of the runtime: same calls, same bytes at every path (computed),
   and C04_order_independent applied *)
Example C04_permuted_entrypoints :
  rev d_entry = [bs "m/a"; bs "m/b"]
  /\ log_of d_run1_perm = log_of d_run1
  /\ map (file_of d_run1_perm) (d_sum :: d_paths) = map (file_of d_run1) (d_sum :: d_paths)
  /\ out_equiv d_run1 d_run1_perm.
Proof. exact d_permuted_entrypoints. Qed.

(* without All only the entrypoints are generated and gengo.sum stays: two entrypoints in either order give the same
   tree and calls; with m/a alone m/b gets no file *)
Example C04_permuted_entrypoints_direct :
  let r e o := run true true d_render d_parse_sum o d_args_direct e d_world0 d_gens d_fs0 in
  map (file_of (r [bs "m/a"; bs "m/b"] oid)) (d_sum :: d_paths) = map (file_of (r [bs "m/b"; bs "m/a"] rev_oracle)) (d_sum :: d_paths)
  /\ log_of (r [bs "m/a"; bs "m/b"] oid) = log_of (r [bs "m/b"; bs "m/a"] rev_oracle)
  /\ file_of (r [bs "m/a"; bs "m/b"] oid) d_sum = Some d_prev_sum
  /\ file_of (r [bs "m/a"; bs "m/b"] oid) (bs "b", bs "zz_generated.other.go") = Some (bs "package b;V1;V2;")
  /\ file_of (r [bs "m/a"] oid) (bs "b", bs "zz_generated.other.go") = None
  /\ out_equiv (r [bs "m/a"; bs "m/b"] oid) (r [bs "m/b"; bs "m/a"] rev_oracle).
Proof. exact d_direct_entrypoints. Qed.

(* ---- the composed system (Model/Whole.v, Model/WholeDet.v, Props/Whole.v): this file's model and the pipeline model
   (C07 / C05 / C02; Model/Pipeline.v under Whole.whole_env) are models of one system ----
   [WholeDet.det_world] / [det_args] / [det_gen] derive this file's input from the pipeline's; [only_gfs o] takes the one
   order the pipeline leaves open (the sync.Map of retained genfiles) from the oracle and every other map as given —
   by C04_order_independent every shuffling oracle gives the same result; [natural o]: o rearranges positions. *)
Require Gengo.Model.Pipeline Gengo.Model.Whole Gengo.Model.WholeDet Gengo.Proofs.Pipeline Gengo.Proofs.WholeDet
  Gengo.Model.Dispatch Gengo.Props.Whole.

Theorem C04_whole_determinism_is_pipeline :
  forall fmt G (o : oracle) rank a w,
    Gengo.Proofs.WholeDet.world_wf w -> shuffles o -> WholeDet.natural o ->
    forall gens, NoDup (map Pipeline.g_name gens) -> forall s,
    let E := Whole.whole_env fmt (WholeDet.order_of o) rank G in
    match run true true (WholeDet.det_render fmt) WholeDet.det_parse_sum (WholeDet.only_gfs o) (WholeDet.det_args G a)
              (Pipeline.w_direct w) (WholeDet.det_world w) (map (WholeDet.det_gen w) gens) (WholeDet.det_fs s) with
    | None => Pipeline.exec_outcome E a w gens s <> Pipeline.Done
    | Some (f', log) =>
        Pipeline.exec_outcome E a w gens s = Pipeline.Done
        /\ (forall q, f' q = Pipeline.fs_lookup q (Pipeline.exec_fs E a w gens s))
        /\ WholeDet.flat_log log = WholeDet.flat_trace (Pipeline.exec_trace E a w gens s)
    end.
Proof. exact Gengo.Props.Whole.Whole_determinism_is_pipeline. Qed.
Print Assumptions C04_whole_determinism_is_pipeline.

(* C04_order_independent as a statement about Pipeline.exec: the files gengo leaves and the calls it makes do not
   depend on the iteration orders of the sync.Map of retained genfiles and of the map of stale files (the two orders the
   pipeline model leaves open) *)
Theorem C04_whole_pipeline_order_independent :
  forall fmt G (o1 o2 : oracle) rank1 rank2 a w gens s,
    Gengo.Proofs.WholeDet.world_wf w -> shuffles o1 -> shuffles o2 -> WholeDet.natural o1 -> WholeDet.natural o2 ->
    NoDup (Dispatch.keys G) -> NoDup (map Pipeline.g_name gens) ->
    let E1 := Whole.whole_env fmt (WholeDet.order_of o1) rank1 G in
    let E2 := Whole.whole_env fmt (WholeDet.order_of o2) rank2 G in
    (Pipeline.exec_outcome E1 a w gens s = Pipeline.Done <-> Pipeline.exec_outcome E2 a w gens s = Pipeline.Done)
    /\ (Pipeline.exec_outcome E1 a w gens s = Pipeline.Done ->
        (forall q, Pipeline.fs_lookup q (Pipeline.exec_fs E1 a w gens s) = Pipeline.fs_lookup q (Pipeline.exec_fs E2 a w gens s))
        /\ WholeDet.flat_trace (Pipeline.exec_trace E1 a w gens s) = WholeDet.flat_trace (Pipeline.exec_trace E2 a w gens s)).
Proof. exact Gengo.Props.Whole.Whole_pipeline_order_independent. Qed.
Print Assumptions C04_whole_pipeline_order_independent.

(* C02 / C07 read on this file's run: a failing run (None) is a pipeline run that did not return Done; a successful run
   leaves every path that is not gengo's own output as it was *)
Theorem C04_whole_run_fails_iff_pipeline_fails :
  forall fmt G (o : oracle) rank a w,
    Gengo.Proofs.WholeDet.world_wf w -> shuffles o -> WholeDet.natural o ->
    forall gens, NoDup (map Pipeline.g_name gens) -> forall s,
    run true true (WholeDet.det_render fmt) WholeDet.det_parse_sum (WholeDet.only_gfs o) (WholeDet.det_args G a)
        (Pipeline.w_direct w) (WholeDet.det_world w) (map (WholeDet.det_gen w) gens) (WholeDet.det_fs s) = None
    <-> Pipeline.exec_outcome (Whole.whole_env fmt (WholeDet.order_of o) rank G) a w gens s <> Pipeline.Done.
Proof. exact Gengo.Props.Whole.Whole_determinism_fails_iff_pipeline_fails. Qed.
Print Assumptions C04_whole_run_fails_iff_pipeline_fails.

Theorem C04_whole_run_frame :
  forall fmt G (o : oracle) rank a w,
    Gengo.Proofs.WholeDet.world_wf w -> shuffles o -> WholeDet.natural o ->
    forall gens, NoDup (map Pipeline.g_name gens) -> forall s f' log q,
    run true true (WholeDet.det_render fmt) WholeDet.det_parse_sum (WholeDet.only_gfs o) (WholeDet.det_args G a)
        (Pipeline.w_direct w) (WholeDet.det_world w) (map (WholeDet.det_gen w) gens) (WholeDet.det_fs s) = Some (f', log) ->
    ~ Gengo.Proofs.Pipeline.own_output (Whole.whole_env fmt (WholeDet.order_of o) rank G) a w s q ->
    f' q = WholeDet.det_fs s q.
Proof. exact Gengo.Props.Whole.Whole_determinism_frame. Qed.
Print Assumptions C04_whole_run_frame.

(* ---- the fixed-point hypothesis discharged for a REAL generator (Model/Generators.v, Proofs/GeneratorsPipe.v).
   deepcopy is not a generator that "does not read generated files": go/types shows it the methods of the file an
   earlier run left ([dvis]; copy_fields.go scans them).  [deepcopy_det_gen dgraph dvis …] renders (a printing of)
   Model/DeepCopy.v's gen_deepcopy on the declarations of the source files ([dgraph]) with those methods visible.
   By C17_independent_of_previous_output its rendering depends on the sources only, provided the source declarations
   are a function of the sources and what the earlier run left is shape-consistent (methods with map receivers belong
   to map types: true of every file the generator wrote, gen_deepcopy_vis_ok).  So C04_fixed_point holds with the
   deepcopy generator in the run and NO assumption on it. ---- *)
Require Gengo.Model.Generators Gengo.Proofs.GeneratorsPipe Gengo.Proofs.DeepCopy.
Module GN := Gengo.Model.Generators.
Module GP := Gengo.Proofs.GeneratorsPipe.

Theorem C04_deepcopy_reads_sources_only : forall dgraph dvis print_method imports_of fuel,
  (forall p p', src_eq p p' -> dgraph p = dgraph p') ->
  (forall p, Gengo.Proofs.DeepCopy.vis_ok (dgraph p) (dvis p)) ->
  reads_sources_only (GN.deepcopy_det_gen dgraph dvis print_method imports_of fuel).
Proof. exact GP.deepcopy_reads_sources_only. Qed.
Print Assumptions C04_deepcopy_reads_sources_only.

Theorem C04_fixed_point_with_deepcopy :
  forall dgraph dvis print_method imports_of fuel,
    (forall p p', src_eq p p' -> dgraph p = dgraph p') ->
    (forall p, Gengo.Proofs.DeepCopy.vis_ok (dgraph p) (dvis p)) ->
  forall render parse_sum (o1 o2 : oracle) a e gens w w' f f1 log1,
    shuffles o1 -> shuffles o2 -> wf_args a -> wf_world w -> wf_world w' ->
    NoDup (map pk_dir (w_pkgs w)) -> is_gen_name a sum_name = false ->
    Forall reads_sources_only gens -> reload w w' ->
    loaded a w f -> regen_all a w f ->
    let gens' := GN.deepcopy_det_gen dgraph dvis print_method imports_of fuel :: gens in
    run true true render parse_sum o1 a e w gens' f = Some (f1, log1) ->
    exists f2 log2,
      run true true render parse_sum o2 a e w' gens' f1 = Some (f2, log2)
      /\ forall q, q <> (w_moddir w', sum_name) -> f2 q = f1 q.
Proof. exact GP.fixed_point_with_deepcopy. Qed.
Print Assumptions C04_fixed_point_with_deepcopy.

(* non-vacuity: a type graph with every feature, and "what an earlier run left" = the generator's own output when the
   directory has files, nothing otherwise — different between the two loads, both shape-consistent *)
Example C04_deepcopy_hypotheses_satisfiable : forall pm io,
  reads_sources_only
    (GN.deepcopy_det_gen (fun _ => Gengo.Proofs.DeepCopyTop.w_all)
       (fun p => match GN.DC.gen_deepcopy 8 GN.DC.all_fixed Gengo.Proofs.DeepCopyTop.w_all Gengo.Proofs.DeepCopyTop.w_all_order [] with
                 | Ok ms => if is_nil (pk_files p) then [] else ms
                 | _ => [] end) pm io 8).
Proof. exact GP.deepcopy_det_witness. Qed.

(* ---- one system, loader side (Model/Tables.v, Props/Tables.v, notes/Tables.md): the type table and the method
   lists of this file's model are those of C13's model (Model/Universe.v); their order-independence is an INSTANCE
   of C13's theorems (proved through the adapters [T.u_of_det] / [T.u_of_meth]) ---- *)
Require Gengo.Model.Universe Gengo.Proofs.Universe Gengo.Model.Tables Gengo.Props.Tables.
Module T := Gengo.Model.Tables.
Module Uni := Gengo.Model.Universe.

(* for every oracle and every Defs list of C13's model (objects of all kinds, any order) describing the same type
   names: same key set, same lookup function *)
Theorem C04_table_is_C13_table :
  forall (o : oracle) p os,
    shuffles o ->
    Permutation (T.types_of os) (map T.u_of_det (pk_defs p)) ->
    (forall n, In n (map fst (Uni.t_types (Uni.fill_tables Uni.all_fixed os))) <-> In n (keys (type_table true o p)))
    /\ (forall n, Gengo.Proofs.Universe.unique_at os Uni.KType n ->
          Uni.lookup Uni.KType n (Uni.fill_tables Uni.all_fixed os)
          = option_map td_uid (lookup n (type_table true o p))).
Proof. exact Gengo.Props.Tables.Tables_universe_is_determinism. Qed.
Print Assumptions C04_table_is_C13_table.

(* "the table does not depend on the order of Defs" from C13_tables_order_independent *)
Theorem C04_table_order_independent_from_C13 :
  forall (o1 o2 : oracle) p,
    shuffles o1 -> shuffles o2 ->
    NoDup (map td_name (filter td_pkgscope (pk_defs p))) ->
    forall n, option_map td_uid (lookup n (type_table true o1 p)) = option_map td_uid (lookup n (type_table true o2 p)).
Proof. exact Gengo.Props.Tables.Tables_determinism_table_order_independent. Qed.
Print Assumptions C04_table_order_independent_from_C13.

(* this file's MethodsOf (before and after the ordering repair) = C13's MethodsOf(n, true) up to C13_methods's
   permutation (on the tables of the loop alone); on the tables newPkg leaves behind ([Uni.new_pkg_tables]: loop, then
   the ordering of package.go:146-157) the two are equal *)
Theorem C04_methods_are_C13_methods :
  forall fm (o : oracle) p ptr os n,
    shuffles o ->
    Permutation (T.meths_of os) (map (T.u_of_meth ptr) (pk_meths p)) ->
    Permutation (map Uni.o_name (Uni.methods_of Uni.all_fixed (Uni.fill_tables Uni.all_fixed os) n true))
                (methods_of fm o p (Uni.n_origin n)).
Proof. exact Gengo.Props.Tables.Tables_methods_agree. Qed.
Print Assumptions C04_methods_are_C13_methods.

Theorem C04_methods_sorted_are_C13_methods :
  forall (o : oracle) p ptr os n,
    shuffles o ->
    NoDup (map m_pos (pk_meths p)) ->
    Permutation (T.meths_of os) (map (T.u_of_meth ptr) (pk_meths p)) ->
    map Uni.o_name (Uni.methods_of Uni.all_fixed (Uni.new_pkg_tables Uni.all_fixed Uni.o_id os) n true)
    = methods_of true o p (Uni.n_origin n).
Proof. exact Gengo.Props.Tables.Tables_methods_sorted_agree. Qed.
Print Assumptions C04_methods_sorted_are_C13_methods.

Theorem C04_methods_order_independent_from_C13 :
  forall (o1 o2 : oracle) p uid,
    shuffles o1 -> shuffles o2 ->
    NoDup (map m_pos (pk_meths p)) ->
    methods_of true o1 p uid = methods_of true o2 p uid.
Proof. exact Gengo.Props.Tables.Tables_determinism_methods_order_independent. Qed.
Print Assumptions C04_methods_order_independent_from_C13.
