(* C12 — doc, trailing comments and tags are attributed to the right declaration.
   Statements only; every proof is [exact <lemma>]. *)
Require Import Gengo.Base.Bytes.
From Coq Require Import ZArith.
Require Import Gengo.Model.Comments Gengo.Spec.Comments Gengo.Proofs.Comments.

(* splitKV: the key is the text up to the first '=' or space, the value everything after it —
   for every byte string. *)
Theorem C12_split_kv :
  forall s, split_kv s = (upto_sep s, after_sep s).
Proof. exact split_kv_spec. Qed.
Print Assumptions C12_split_kv.

(* ExtractCommentTags, for every marker set and every list of lines: the non-tag lines come
   back stripped and in order; for every key the values of the tag lines with that key, in
   order (repeated keys keep all values); a key is present iff some tag line has it; the map
   has no duplicate keys; and every line is classified exactly once. *)
Theorem C12_tags_partition :
  forall markers lines,
    let ms := markers_or_default markers in
    let tags := fst (extract_tags markers lines) in
    let others := snd (extract_tags markers lines) in
    others = spec_others ms lines
    /\ (forall k, tag_values k tags = spec_values ms lines k)
    /\ (forall k, tag_lookup k tags = None <-> spec_values ms lines k = [])
    /\ NoDup (map fst tags)
    /\ length others + total tags = length lines.
Proof. exact extract_tags_spec. Qed.
Print Assumptions C12_tags_partition.

(* non-vacuity: the example of the Go doc comment, with a repeated key *)
Example C12_tags_example :
  extract_tags [] [bs "+foo=value1"; bs "  text "; bs "+bar"; bs "@foo value2"; bs "+baz=""qux"""]
  = ([(bs "foo", [bs "value1"; bs "value2"]); (bs "bar", [bs ""]); (bs "baz", [bs """qux"""])], [bs "text"]).
Proof. vm_compute. reflexivity. Qed.
