(* C12 — doc, trailing comments and tags are attributed to the right declaration.
   Statements only; every proof is [exact <lemma>].

   Model/Comments.v follows pkg/types/comments.go and the comment part of pkg/types/package.go
   (flags = true: the code after the three repairs fixes/C12-*.diff; false: as it was).
   Spec/Comments.v is the declarative reading of the property: tag lines, keys, values, the lines
   of a comment group, "the stand-alone comment group that ends on the line above".
   A layout is what go/parser and ast.Inspect hand to the code: the events of the walk
   (comment groups; declarations with their Doc and Comment groups) and the stand-alone groups
   of the files; [wf] states the facts about that data the theorems rely on, and [wf_b] re-checks
   them on every generated file (Corr/C12.v). *)
Require Import Gengo.Base.Bytes.
From Coq Require Import ZArith.
Require Import Gengo.Model.Comments Gengo.Spec.Comments Gengo.Proofs.Comments Gengo.Proofs.CommentLines.

(* ---- tag extraction: all byte strings, all marker sets, all line lists ---- *)

(* splitKV: the key is the text up to the first '=' or space, the value everything after it. *)
Theorem C12_split_kv :
  forall s, split_kv true s = (upto_sep s, after_sep s).
Proof. exact split_kv_spec. Qed.
Print Assumptions C12_split_kv.

(* ExtractCommentTags: the non-tag lines come back stripped and in order; for every key the values
   of the tag lines with that key, in order (repeated keys keep all values); a key is present iff
   some tag line has it; the map has no duplicate keys; every line is classified exactly once. *)
Theorem C12_tags_partition :
  forall markers lines,
    let ms := markers_or_default markers in
    let tags := fst (extract_tags true markers lines) in
    let others := snd (extract_tags true markers lines) in
    others = spec_others ms lines
    /\ (forall k, tag_values k tags = spec_values ms lines k)
    /\ (forall k, tag_lookup k tags = None <-> spec_values ms lines k = [])
    /\ NoDup (map fst tags)
    /\ length others + total tags = length lines.
Proof. exact extract_tags_spec. Qed.
Print Assumptions C12_tags_partition.

(* ---- attribution: all well-formed layouts ---- *)

(* Doc at the line of any declaration = the tags and lines of the stand-alone comment group that
   ends on the line directly above it, and of nothing if there is none. *)
Theorem C12_doc_own :
  forall evs leads, wf evs leads -> forall d, In d (decls_of evs) ->
    doc_of true true (build true evs) (p_file (d_pos d)) (p_line (d_pos d))
    = extract_tags true [] (doc_lines_above leads (p_file (d_pos d)) (p_line (d_pos d))).
Proof. exact doc_own. Qed.
Print Assumptions C12_doc_own.

(* Comment at the line of a declaration with a trailing comment = the lines of that comment. *)
Theorem C12_comment_own :
  forall evs leads, wf evs leads -> forall d c, In d (decls_of evs) -> d_cmt d = Some c ->
    comment_of true (build true evs) (p_file (d_pos d)) (p_line (d_pos d)) = spec_lines (g_text c).
Proof. exact comment_own. Qed.
Print Assumptions C12_comment_own.

(* ... and nothing when no declaration that starts on that line has one (in particular never a
   comment from the leading index: the fall-back of priorCommentLines is not reached). *)
Theorem C12_comment_none :
  forall evs leads, wf evs leads -> forall d, In d (decls_of evs) ->
    (forall d', In d' (decls_of evs) -> same_line (d_pos d') (d_pos d) -> d_cmt d' = None) ->
    comment_of true (build true evs) (p_file (d_pos d)) (p_line (d_pos d)) = [].
Proof. exact comment_none. Qed.
Print Assumptions C12_comment_none.

(* At ANY position, the group Doc reads is a stand-alone group that ends on the line above ... *)
Theorem C12_doc_group_standalone :
  forall evs leads, wf evs leads -> forall f l g,
    prior (build true evs) f l (-1) = Some g ->
    In g leads /\ p_file (g_pos g) = f /\ g_end g = (l - 1)%Z.
Proof. exact doc_group_sound. Qed.
Print Assumptions C12_doc_group_standalone.

(* ... so a trailing comment is never reported as the documentation of the next line. *)
Theorem C12_no_steal :
  forall evs leads, wf evs leads -> forall f l g,
    prior (build true evs) f l (-1) = Some g ->
    forall d, In d (decls_of evs) -> d_cmt d <> Some g.
Proof. exact doc_group_no_steal. Qed.
Print Assumptions C12_no_steal.

(* The lines the code reports for a group (commentLinesFrom, package.go:427-451: TrimSpace, Split at "\n", skip
   "go:") are exactly the lines the RELATION [lines_of_text] of Spec/Comments.v describes.  The relation uses no
   function of the model — white space is a list of 25 UTF-8 byte sequences, "trimmed" is a decomposition
   blank ++ core ++ blank with core neither starting nor ending with one of them, the pieces are newline-free
   strings that joined with one newline give core back, "go:" lines are left out in order — so this is a statement
   about the model's byte tests, its two trimming loops (fuel included), its splitter and its filter, not a copy of
   them.  <-> : the code computes lines satisfying the relation, and nothing else satisfies it. *)
Theorem C12_group_lines :
  forall text ls, lines_of_text text ls <-> group_lines true text = ls.
Proof. exact group_lines_meets_relation. Qed.
Print Assumptions C12_group_lines.

(* the relation is functional and total: it defines THE lines of a group *)
Theorem C12_lines_relation_functional :
  forall text l1 l2, lines_of_text text l1 -> lines_of_text text l2 -> l1 = l2.
Proof. exact lines_of_text_functional. Qed.
Print Assumptions C12_lines_relation_functional.

Theorem C12_lines_relation_total :
  forall text, exists ls, lines_of_text text ls.
Proof. exact lines_of_text_total. Qed.
Print Assumptions C12_lines_relation_total.

(* [spec_lines], the executable form that the attribution theorems above and Corr/C12.v use (it calls the model's
   trim_space), means the same relation — so "= spec_lines (g_text c)" in C12_comment_own etc. reads
   "are the lines of c in the sense of lines_of_text" *)
Theorem C12_spec_lines_is_relation :
  forall text ls, lines_of_text text ls <-> spec_lines text = ls.
Proof. exact spec_lines_meets_relation. Qed.
Print Assumptions C12_spec_lines_is_relation.

(* the model's strings.TrimSpace alone, relationally *)
Theorem C12_trim_space :
  forall text core,
    (exists pre suf, text = pre ++ core ++ suf /\ blank pre /\ blank suf /\ ~ starts_ws core /\ ~ ends_ws core)
    <-> trim_space text = core.
Proof. exact trim_space_relational. Qed.
Print Assumptions C12_trim_space.

(* the boolean check evaluated on every generated file implies the hypotheses above *)
Theorem C12_wf_checked :
  forall evs leads, wf_b evs leads = true -> wf evs leads.
Proof. exact wf_b_sound. Qed.
Print Assumptions C12_wf_checked.

(* ---- every name of a declaration; known finding [name_on_continuation_line] ---- *)

(* Full statement one would like: for EVERY name of a declaration, Doc / Comment at the name's
   position are the declaration's.  It holds when no name sits on a continuation line ... *)
Theorem C12_names_partial :
  forall evs leads, wf evs leads -> name_on_continuation_line evs = false ->
  forall d l, In d (decls_of evs) -> In l (d_names d) ->
    doc_of true true (build true evs) (p_file (d_pos d)) l
    = extract_tags true [] (doc_lines_above leads (p_file (d_pos d)) (p_line (d_pos d)))
    /\ (forall c, d_cmt d = Some c ->
          comment_of true (build true evs) (p_file (d_pos d)) l = spec_lines (g_text c)).
Proof. exact names_partial. Qed.
Print Assumptions C12_names_partial.

(* ... and fails otherwise: `// doc` / `F,` / `G int // trailing FG` gives G neither. *)
Theorem C12_names_refuted :
  exists evs leads d l c, wf evs leads /\ In d (decls_of evs) /\ In l (d_names d) /\ d_cmt d = Some c /\
    comment_of true (build true evs) (p_file (d_pos d)) l <> spec_lines (g_text c) /\
    doc_of true true (build true evs) (p_file (d_pos d)) l
    <> extract_tags true [] (doc_lines_above leads (p_file (d_pos d)) (p_line (d_pos d))).
Proof. exact names_refuted. Qed.
Print Assumptions C12_names_refuted.

(* ---- history: the code before the repairs ---- *)

(* `A int // trailing A` / `B int`: Doc(B) was the trailing comment of A. *)
Theorem C12_doc_own_refuted_before_fix :
  exists evs leads d, wf evs leads /\ In d (decls_of evs) /\
    doc_of true true (build false evs) (p_file (d_pos d)) (p_line (d_pos d))
    <> extract_tags true [] (doc_lines_above leads (p_file (d_pos d)) (p_line (d_pos d))).
Proof. exact doc_own_old_refuted. Qed.
Print Assumptions C12_doc_own_refuted_before_fix.

Theorem C12_no_steal_refuted_before_fix :
  exists evs leads f l g d, wf evs leads /\ prior (build false evs) f l (-1) = Some g /\
    In d (decls_of evs) /\ d_cmt d = Some g.
Proof. exact no_steal_old_refuted. Qed.
Print Assumptions C12_no_steal_refuted_before_fix.

(* a group whose Text() is empty gave one empty line *)
Theorem C12_group_lines_refuted_before_fix :
  exists text, group_lines false text <> spec_lines text.
Proof. exact empty_text_old_refuted. Qed.
Print Assumptions C12_group_lines_refuted_before_fix.

(* "k=\xff": bytes that are not UTF-8 were re-encoded as U+FFFD *)
Theorem C12_split_kv_refuted_before_fix :
  exists s, split_kv false s <> (upto_sep s, after_sep s).
Proof. exact split_kv_old_refuted. Qed.
Print Assumptions C12_split_kv_refuted_before_fix.

(* ---- non-vacuity ---- *)

(* the example of the Go doc comment, with a repeated key *)
Example C12_tags_example :
  extract_tags true [] [bs "+foo=value1"; bs "  text "; bs "+bar"; bs "@foo value2"; bs "+baz=""qux"""]
  = ([(bs "foo", [bs "value1"; bs "value2"]); (bs "bar", [bs ""]); (bs "baz", [bs """qux"""])], [bs "text"]).
Proof. vm_compute. reflexivity. Qed.

(* the relation on a text with tab / space / U+00A0 in front, a line that keeps its own inner spaces, a go: directive,
   a tag line and newlines + U+2028 behind: shown from the definition of the relation alone (no model function) *)
Example C12_lines_example :
  ex_text = map ascii_of_N [9; 32; 194; 160]%N ++ bs "first" ++ [nl] ++ bs "  second " ++ [nl] ++ bs "go:generate x"
            ++ [nl] ++ bs "+tag=1" ++ [nl; nl] ++ map ascii_of_N [226; 128; 168]%N
  /\ lines_of_text ex_text [bs "first"; bs "  second "; bs "+tag=1"].
Proof. exact (conj eq_refl ex_lines_of_text_direct). Qed.

(* a well-formed layout with a doc group, a trailing comment and an undocumented next line:
     3: // doc A          (stand-alone, also visited as A's Doc)
     4: A int // trailing A
     5: B int                                                                              *)
Definition ex_doc : group := mk_group (mk_pos 0 3 2) 3 (bs "doc A" ++ [c_nl] ++ bs "+gengo:x=1" ++ [c_nl]).
Definition ex_trail : group := mk_group (mk_pos 0 4 8) 4 (bs "trailing A" ++ [c_nl]).
Definition ex_a : decl := mk_decl (mk_pos 0 4 2) [4%Z] (Some ex_doc) (Some ex_trail).
Definition ex_b : decl := mk_decl (mk_pos 0 5 2) [5%Z] None None.
Definition ex_events : list event := [EDecl ex_a; EGroup ex_doc; EGroup ex_trail; EDecl ex_b].

Example C12_layout_example :
  wf ex_events [ex_doc]
  /\ doc_of true true (build true ex_events) 0 4 = ([(bs "gengo:x", [bs "1"])], [bs "doc A"])
  /\ comment_of true (build true ex_events) 0 4 = [bs "trailing A"]
  /\ doc_of true true (build true ex_events) 0 5 = ([], [])
  /\ comment_of true (build true ex_events) 0 5 = []
  /\ doc_of true true (build false ex_events) 0 5 = ([], [bs "trailing A"]).
Proof.
  split; [apply wf_b_sound; vm_compute; reflexivity|]. vm_compute. repeat split; reflexivity.
Qed.

(* ---- one system, tags and docs (Model/Tables.v, Props/Tables.v, notes/Tables.md): what this file's model produces
   is what C06's model (merge / IsGeneratorEnabled) and C16's model (Context.Doc / runtimedoc) take as data ---- *)
Require Gengo.Model.Dispatch Gengo.Model.Tables Gengo.Proofs.TablesB Gengo.Props.Tables.
Module T := Gengo.Model.Tables.

(* the tag map of a list of lines read with C06's map operations: lookup = the values of the tag lines with that key,
   keys = the keys of the tag lines, no key twice (so C06's hypotheses "tag maps are maps" hold of it) *)
Theorem C12_tags_feed_C06 :
  forall lines,
    (forall k, Dispatch.lookup k (Gengo.Proofs.TablesB.tags_of_lines lines) = T.line_value lines k)
    /\ (forall k, In k (Dispatch.keys (Gengo.Proofs.TablesB.tags_of_lines lines)) <-> In k (spec_keys T.ms0 lines))
    /\ NoDup (Dispatch.keys (Gengo.Proofs.TablesB.tags_of_lines lines)).
Proof. exact Gengo.Props.Tables.Tables_tags_of_lines. Qed.
Print Assumptions C12_tags_feed_C06.

(* extraction -> merge -> enabled, for all well-formed layouts: IsGeneratorEnabled on what Context.Doc returns at the
   line of declaration d is C06's rule evaluated on the lines of the stand-alone comment group ending on the line
   above d, the package doc lines and the global tags *)
Theorem C12_enabled_from_source :
  forall g G docs evs leads d,
    NoDup (Dispatch.keys G) -> wf evs leads -> In d (decls_of evs) ->
    T.enabled_from_source g G docs evs (p_file (d_pos d)) (p_line (d_pos d))
    = T.source_rule g G (map split_nl docs) (doc_lines_above leads (p_file (d_pos d)) (p_line (d_pos d))).
Proof. exact Gengo.Props.Tables.Tables_enabled_from_source. Qed.
Print Assumptions C12_enabled_from_source.

(* the known finding name_on_continuation_line, seen from C06: for every name under its negation, refuted otherwise *)
Theorem C12_enabled_from_source_names :
  forall g G docs evs leads d l,
    NoDup (Dispatch.keys G) -> wf evs leads -> name_on_continuation_line evs = false ->
    In d (decls_of evs) -> In l (d_names d) ->
    T.enabled_from_source g G docs evs (p_file (d_pos d)) l
    = T.source_rule g G (map split_nl docs) (doc_lines_above leads (p_file (d_pos d)) (p_line (d_pos d))).
Proof. exact Gengo.Props.Tables.Tables_enabled_from_source_names. Qed.
Print Assumptions C12_enabled_from_source_names.

Theorem C12_enabled_from_source_names_refuted :
  exists g G docs evs leads d l,
    NoDup (Dispatch.keys G) /\ wf evs leads /\ In d (decls_of evs) /\ In l (d_names d)
    /\ T.enabled_from_source g G docs evs (p_file (d_pos d)) l = false
    /\ T.source_rule g G (map split_nl docs) (doc_lines_above leads (p_file (d_pos d)) (p_line (d_pos d))) = true.
Proof. exact Gengo.Props.Tables.Tables_enabled_from_source_names_refuted. Qed.
Print Assumptions C12_enabled_from_source_names_refuted.

(* the doc lines handed to Context.Doc / the generators: the non-tag lines of the group above *)
Theorem C12_doc_lines_feed_C16 :
  forall evs leads, wf evs leads -> forall d, In d (decls_of evs) ->
    T.doc_lines_at evs (p_file (d_pos d), p_line (d_pos d)) = T.source_doc leads (p_file (d_pos d)) (p_line (d_pos d)).
Proof. exact Gengo.Props.Tables.Tables_doc_lines_from_source. Qed.
Print Assumptions C12_doc_lines_feed_C16.
