(* C09 — Snippet templating is faithful substitution.
   Statements only; every proof is [exact <lemma>].

   Reading guide.  [tpl_impl fx args f], [sp_impl fx f args], [frag fx s], [render fx s]
   (Model/Snippet.v) follow the Go loops of pkg/gengo/snippet; [all_fixed] is the code with
   fixes/C09-*.diff applied, [none_fixed] the code before.  The specification
   (Model/SnippetSpec.v) is "tokenise, then substitute": [Tokens s ts] says that the token list
   [ts] is the reading of the text [s] (four clauses, no loop), [subst] replaces every hole by the
   complete rendering of its argument.  [sc_view] is what the repaired code gets out of
   text/scanner for a format (ill-formed bytes replaced; the one leading U+FEFF the scanner drops
   is the one the code puts in front, fixes/C09-5-leading-bom.diff); it is the identity on the
   property's domain (well-formed UTF-8).  [sc_raw] is text/scanner on the format alone, which
   the code before that repair used ([sc_in fx]). *)
Require Import Gengo.Base.Bytes Gengo.Model.Snippet Gengo.Model.SnippetSpec Gengo.Proofs.Snippet.

(* ---- the template language: every text has exactly one reading, and [tokenize] computes it ---- *)

(* every character is accounted for, in order *)
Theorem C09_tokenize_lossless : forall s, untok (tokenize s) = s.
Proof. exact tokenize_lossless. Qed.
Print Assumptions C09_tokenize_lossless.

(* hole names are non-empty maximal runs of [A-Za-z0-9_]; no literal '@' is followed by a name
   character; an apostrophe directly after a hole belongs to the hole *)
Theorem C09_tokenize_maximal : forall s, wf_toks (tokenize s) = true.
Proof. exact tokenize_wf. Qed.
Print Assumptions C09_tokenize_maximal.

Theorem C09_tokens_unique : forall s ts, Tokens s ts -> ts = tokenize s.
Proof. exact tokens_unique. Qed.
Print Assumptions C09_tokens_unique.

(* ---- T ---- *)

(* For ALL formats and ALL bindings the scanner loop renders exactly the substitution into the
   reading of the format without its leading newlines, as text/scanner presents it.  Contained in
   this equation: leading newlines stripped; a hole is replaced by the complete rendering of its
   argument, by nothing if that is nil (Go-nil or IsNil()); one apostrophe after a hole is
   consumed, also after a nil argument; every other character, a bare '@' included, is kept in
   order; argument text enters only through [piece], so it is never re-read as template syntax;
   an argument that panics, panics. *)
Theorem C09_template :
  forall (args : list (bytes * aview)) (f : bytes) (ts : list tok),
    Tokens (sc_view (trim_nl f)) ts ->
    tpl_impl all_fixed args f = subst args ts.
Proof. exact template_tokens. Qed.
Print Assumptions C09_template.

(* On the property's domain — the format is well-formed UTF-8 (Unicode table 3-7) — text/scanner,
   used this way, is transparent: a leading U+FEFF is a character like any other. *)
Theorem C09_template_faithful :
  forall args f ts,
    utf8 (trim_nl f) ->
    Tokens (trim_nl f) ts ->
    tpl_impl all_fixed args f = subst args ts.
Proof. exact template_faithful. Qed.
Print Assumptions C09_template_faithful.

(* a placeholder with no bound argument panics, wherever it stands and whatever else is bound *)
Theorem C09_missing_panics :
  forall args f n a,
    In (Hole n a) (tokenize (sc_view (trim_nl f))) -> lookup n args = None ->
    is_ok (tpl_impl all_fixed args f) = false.
Proof. exact missing_panics. Qed.
Print Assumptions C09_missing_panics.

(* ---- Sprintf ---- *)

(* %v = the argument's value literal, %T = its identifier/type, a nested snippet = itself, %% = '%',
   everything else verbatim; arguments consumed left to right *)
Theorem C09_sprintf :
  forall f (args : list sview), sp_impl all_fixed f args = ssubst (stokenize (sc_view f)) args.
Proof. exact sp_spec. Qed.
Print Assumptions C09_sprintf.

Theorem C09_sprintf_tokens :
  forall s, suntok (stokenize s) = s /\ swf (stokenize s) = true /\
            (forall ts, swf ts = true -> suntok ts = s -> ts = stokenize s).
Proof. exact sprintf_tokens. Qed.
Print Assumptions C09_sprintf_tokens.

(* any other verb (a '%' at the very end included), or fewer arguments than verbs: no output *)
Theorem C09_sprintf_panics :
  forall f (args : list sview),
    (exists c, In (KBad c) (stokenize (sc_view f))) \/ length args < verbs (stokenize (sc_view f)) ->
    is_ok (sp_impl all_fixed f args) = false.
Proof. exact sprintf_panics. Qed.
Print Assumptions C09_sprintf_panics.

(* ---- Comment, GoDirective, Snippets, Fragments ---- *)

Theorem C09_comment : forall v, comment_impl v = comment_spec v.
Proof. exact comment_impl_spec. Qed.
Print Assumptions C09_comment.

(* each line of the text is rendered as one "// " line *)
Theorem C09_comment_lines :
  forall v, v <> [] -> split_nl (comment_impl v) = map (app slashes) (split_nl v).
Proof. exact comment_lines. Qed.
Print Assumptions C09_comment_lines.

Theorem C09_directive : forall d args, directive_impl d args = directive_spec d args.
Proof. exact directive_impl_spec. Qed.
Print Assumptions C09_directive.

(* the non-nil parts (Go-nil and IsNil() both count as nil), in order *)
Theorem C09_snippets :
  forall l, frag all_fixed (SSnippets l)
            = cat_res (map (frag all_fixed) (filter (fun c => negb (isnil_of c)) l)).
Proof. exact snippets_spec. Qed.
Print Assumptions C09_snippets.

Theorem C09_fragments :
  forall x, frag all_fixed (SFragments x) = if isnil_of x then Ok [] else frag all_fixed x.
Proof. exact fragments_spec. Qed.
Print Assumptions C09_fragments.

(* ---- the whole vocabulary, nested to any depth ---- *)

(* the model of the repaired code = the specification read through text/scanner, for every term *)
Theorem C09_render_model :
  forall s, render all_fixed s = spec_render sc_view Panic s.
Proof. exact render_spec. Qed.
Print Assumptions C09_render_model.

(* the property, on its domain: every format in the term is well-formed UTF-8 ([fmts_utf8], what the
   correspondence check tests before it evaluates the predicate) and every plain %v argument has a
   value literal (what Value(x) renders to is data here; it has none only if the dumper panics — C10).
   No guard about U+FEFF: a format may start with it (after fixes/C09-5-leading-bom.diff).
   [spec_render same OutOfFuel] is the predicate the correspondence check evaluates on the
   implementation's output. *)
Theorem C09_render :
  forall s, fmts_utf8 s = true -> cls_nolit s = false ->
            render all_fixed s = spec_render same OutOfFuel s.
Proof. exact render_dom. Qed.
Print Assumptions C09_render.

(* the model has no fuel: it always answers Ok or Panic *)
Theorem C09_render_defined : forall s, render all_fixed s <> OutOfFuel.
Proof. exact render_defined. Qed.
Print Assumptions C09_render_defined.

(* text/scanner with a byte order mark of the code's own in front is the identity on well-formed UTF-8 *)
Theorem C09_scanner_transparent :
  forall f, utf8 f -> sc_view f = f.
Proof. exact scanner_transparent. Qed.
Print Assumptions C09_scanner_transparent.

(* [utf8b] (used in [fmts_utf8]) decides well-formedness as the Unicode standard states it (table 3-7) *)
Theorem C09_utf8_decided : forall s, utf8b s = true <-> utf8 s.
Proof. exact utf8b_iff. Qed.
Print Assumptions C09_utf8_decided.

(* ---- the code before the repairs (fixes/C09-*.diff), kept checkable ---- *)

Theorem C09_sprintf_percent_refuted_before_fix :
  sp_impl none_fixed (bs "100%%") [] = Panic /\
  sp_impl none_fixed (bs "a%%v") [SVRaw (Ok (bs "1")) Panic] = Ok (bs "a%1") /\
  ssubst (stokenize (bs "100%%")) [] = Ok (bs "100%") /\
  ssubst (stokenize (bs "a%%v")) [SVRaw (Ok (bs "1")) Panic] = Ok (bs "a%v").
Proof. exact sprintf_pct_old. Qed.
Print Assumptions C09_sprintf_percent_refuted_before_fix.

Theorem C09_template_nil_delimiter_refuted_before_fix :
  tpl_impl none_fixed [(bs "x", Bk "")] (bs "a@x'b") = Ok (bs "a'b") /\
  subst [(bs "x", Bk "")] (tokenize (bs "a@x'b")) = Ok (bs "ab").
Proof. exact tpl_delim_old. Qed.
Print Assumptions C09_template_nil_delimiter_refuted_before_fix.

Theorem C09_nil_interface_refuted_before_fix :
  tpl_impl none_fixed [(bs "x", AVNil)] (bs "a@x") = Panic /\
  subst [(bs "x", AVNil)] (tokenize (bs "a@x")) = Ok (bs "a") /\
  render none_fixed (SSnippets [SBlock (bs "a"); SNil; SBlock (bs "b")]) = Panic /\
  render none_fixed (SFragments SNil) = Panic /\
  spec_render same OutOfFuel (SSnippets [SBlock (bs "a"); SNil; SBlock (bs "b")]) = Ok (bs "ab").
Proof. exact nil_iface_old. Qed.
Print Assumptions C09_nil_interface_refuted_before_fix.

Theorem C09_bare_at_refuted_before_fix :
  tpl_impl none_fixed [] (bs "a@ b") = Ok (bs "a b") /\
  tpl_impl none_fixed [] (bs "a@") = Ok (bs "a") /\
  tpl_impl none_fixed [(bs "x", Bk "X")] (bs "@@x") = Ok (bs "X") /\
  tpl_impl none_fixed [] (bs "a@'b") = Ok (bs "ab") /\
  subst [] (tokenize (bs "a@ b")) = Ok (bs "a@ b") /\
  subst [(bs "x", Bk "X")] (tokenize (bs "@@x")) = Ok (bs "@X") /\
  subst [] (tokenize (bs "a@'b")) = Ok (bs "a@'b").
Proof. exact bare_at_old. Qed.
Print Assumptions C09_bare_at_refuted_before_fix.

(* [before_bom_fix] = every repair but fixes/C09-5-leading-bom.diff: a well-formed format that starts with U+FEFF
   (for T also after a leading newline) lost that character, in T and in Sprintf; the repaired code keeps it *)
Theorem C09_template_refuted_before_fix :
  exists f, utf8b f = true /\
    tpl_impl before_bom_fix [] f <> subst [] (tokenize (trim_nl f)) /\
    sp_impl before_bom_fix f [] <> ssubst (stokenize f) [] /\
    tpl_impl before_bom_fix [] (c_nl :: f) <> subst [] (tokenize (trim_nl (c_nl :: f))) /\
    tpl_impl all_fixed [] f = subst [] (tokenize (trim_nl f)) /\
    sp_impl all_fixed f [] = ssubst (stokenize f) [].
Proof. exact bom_old. Qed.
Print Assumptions C09_template_refuted_before_fix.

(* ---- recorded finding (known_findings.d/C09.json): the remaining guard of C09_render cannot be dropped ---- *)

Theorem C09_sprintf_refuted_nil_value :
  exists s, fmts_utf8 s = true /\ render all_fixed s = Panic /\ spec_render same OutOfFuel s = OutOfFuel.
Proof. exact nolit_refuted. Qed.
Print Assumptions C09_sprintf_refuted_nil_value.

(* ---- non-vacuity ---- *)

Example C09_example_tokens :
  tokenize (bs "f(@x'y, @@z_1) it's") =
  [Lit "f"; Lit "("; Hole (bs "x") true; Lit "y"; Lit ","; Lit " "; Lit "@"; Hole (bs "z_1") false;
   Lit ")"; Lit " "; Lit "i"; Lit "t"; Lit "'"; Lit "s"]%char.
Proof. vm_compute. reflexivity. Qed.

(* nested template, nil argument followed by the delimiter, placeholder-looking argument text *)
Example C09_example_render :
  render all_fixed
    (ST (bs "
a@x'b @y@z'.")
        [(bs "x", SBlock (bs "")); (bs "y", ST (bs "<@w>") [(bs "w", SBlock (bs "@x%v'"))]); (bs "z", SNil)])
  = Ok (bs "ab <@x%v'>.").
Proof. vm_compute. reflexivity. Qed.

Example C09_example_domain :
  fmts_utf8 (ST (bs "a@x") [(bs "x", SSprintf (bs "%v%%") [SVal (Some (bs "1")) None])]) = true /\
  cls_nolit (ST (bs "a@x") [(bs "x", SSprintf (bs "%v%%") [SVal (Some (bs "1")) None])]) = false /\
  render all_fixed (ST (bs "a@x") [(bs "x", SSprintf (bs "%v%%") [SVal (Some (bs "1")) None])]) = Ok (bs "a1%").
Proof. repeat split; vm_compute; reflexivity. Qed.

(* formats that start with U+FEFF are inside C09_render's domain: after leading newlines, twice, in Sprintf *)
Example C09_example_bom :
  let t := ST (c_nl :: c_nl :: bom ++ bom ++ bs "a@x" ++ bom)
              [(bs "x", SSprintf (bom ++ bs "%v") [SVal (Some (bs "1")) None])] in
  fmts_utf8 t = true /\ cls_bom t = true /\ cls_nolit t = false /\
  render all_fixed t = Ok (bom ++ bom ++ bs "a" ++ bom ++ bs "1" ++ bom) /\
  render before_bom_fix t = Ok (bom ++ bs "a" ++ bs "1" ++ bom).
Proof. repeat split; vm_compute; reflexivity. Qed.

Example C09_example_utf8 : utf8 (bs "é@x") .
Proof.
  apply (U2 (ascii_of_N 195) (ascii_of_N 169)); [reflexivity|].
  apply U1; [reflexivity|]. apply U1; [reflexivity|]. apply U0.
Qed.

(* ------------------------------------------------------------------------------------------------------------ *)
(* RenderStack: the "observed data" is no longer an assumption.
   [crender] (Model/RenderStack.v) renders a term whose Value / ID / PkgExpose leaves and plain Sprintf arguments are
   STRUCTURED — values of C10's universe rendered by C10's [value_lit] / [print_lit], types and references rendered by
   C11's [ident_frag] with C15's [parse_type_ref] — through C03's tracker ([pick_c03 pre std]: any refused-name list,
   any reserved table), threading the tracker state through the scanner loops of this file in the order the code
   renders the arguments.  [cerase tbl s] is the term of THIS file's vocabulary in which every leaf is replaced by what
   the component model renders it to in the tracker state [tbl].
   Theorem: the composed rendering writes what [render all_fixed] (hence, on the domain, the specification) gives for
   [cerase e' s] with e' the FINAL tracker state — or any later state: a leaf renders the same text in every state
   after the one it was first rendered in (C03: a name, once handed out, never changes). *)
Require Import Gengo.Model.RenderStack Gengo.Proofs.RenderStackTracker Gengo.Proofs.RenderStackSnippet
               Gengo.Proofs.RenderStackLeaves Gengo.Proofs.RenderStack.
Require Gengo.Model.ValueLit Gengo.Model.ValueLitInst.

(* the state-threading template scanner is tokenise-then-substitute with state (any state type, any arguments) *)
Theorem C09_stateful_template :
  forall (St : Type) (args : list (bytes * aview_st St)) (f : bytes) (e : St),
    tpl_st St args f e = subst_st St args (tokenize (sc_view (trim_nl f))) e.
Proof. exact tpl_st_spec. Qed.
Print Assumptions C09_stateful_template.

Theorem C09_stateful_sprintf :
  forall (St : Type) (f : bytes) (args : list (sview_st St)) (e : St),
    sp_st St f args e = ssubst_st St (stokenize (sc_view f)) args e.
Proof. exact sp_st_spec. Qed.
Print Assumptions C09_stateful_sprintf.

Theorem C09_composed_render :
  forall (F : Type) (fzero : F -> bool) (ffmt gfmt : VL.fkind -> F -> bytes) (fbig : F -> bool)
         (quote : bytes -> bytes) (cbq : bytes -> bool) (pre : list bytes) (std : option Tk.tracker)
         (self : bytes) (fx6 : bool) (s : @csnip F) (e : TL.renv) (out : bytes) (e' : TL.renv),
    crender fzero ffmt gfmt fbig quote cbq (pick_c03 pre std) self fx6 s e = Ok (out, e') ->
    ext e e' /\
    forall e2, ext e' e2 ->
      crender fzero ffmt gfmt fbig quote cbq (pick_c03 pre std) self fx6 s e2 = Ok (out, e2) /\
      render all_fixed (cerase fzero ffmt gfmt fbig quote cbq (pick_c03 pre std) self fx6 e2 s) = Ok out.
Proof. exact @crender_erase. Qed.
Print Assumptions C09_composed_render.

(* ... and on the property's domain (formats well-formed UTF-8, every plain %v argument has a literal) that is the
   specification of this file *)
Theorem C09_composed_spec :
  forall (F : Type) (fzero : F -> bool) (ffmt gfmt : VL.fkind -> F -> bytes) (fbig : F -> bool)
         (quote : bytes -> bytes) (cbq : bytes -> bool) (pre : list bytes) (std : option Tk.tracker)
         (self : bytes) (fx6 : bool) (s : @csnip F) (e : TL.renv) (out : bytes) (e' : TL.renv),
    crender fzero ffmt gfmt fbig quote cbq (pick_c03 pre std) self fx6 s e = Ok (out, e') ->
    let t := cerase fzero ffmt gfmt fbig quote cbq (pick_c03 pre std) self fx6 e' s in
    fmts_utf8 t = true -> cls_nolit t = false ->
    spec_render same OutOfFuel t = Ok out.
Proof. exact @crender_spec. Qed.
Print Assumptions C09_composed_spec.

(* non-vacuity, with the tracker of the current tree: a bound argument that no placeholder mentions registers nothing,
   one mentioned twice is rendered twice; clashing packages are named in the order of rendering *)
Local Open Scope string_scope.
Definition ex_id (s : string) : @csnip unit := RLeaf _ _ (@LID unit (Some (TL.IdStr (bs s)))).
Definition ex_crender (s : @csnip unit) :=
  match crender (fun _ => true) (fun _ _ => []) (fun _ _ => []) (fun _ => false) (fun s => s) (fun _ => true)
          the_pick (bs "example.com/x") true s [] with
  | Ok (out, e') => Some (to_string out, map (fun p => (to_string (fst p), to_string (snd p))) e')
  | _ => None
  end.

Example C09_example_composed :
  ex_crender (RT _ _ (bs "@x @x") [(bs "x", ex_id "a.com/b.T"); (bs "y", ex_id "a.com/c.T")])
  = Some ("b.T b.T", [("a.com/b", "b")])
  /\ ex_crender (RT _ _ (bs "@y @x @y") [(bs "x", ex_id "a.com/foo-bar.T"); (bs "y", ex_id "b.org/foo_bar.X[a.com/foo-bar.T,example.com/x.Own]")])
  = Some ("borgfoobar.X[foobar.T,Own] foobar.T borgfoobar.X[foobar.T,Own]", [("a.com/foo-bar", "foobar"); ("b.org/foo_bar", "borgfoobar")]).
Proof. vm_compute. split; reflexivity. Qed.
