(* C08 — the gengo.sum cache never skips a package whose directory changed.
   Statements only; every proof is [exact <lemma>].

   The model (Model/SumCache.v) is generic in the world: [tree] the file tree of the module, [content] what
   dirhash reads below one package directory, [H] the directory hash (None = cannot be hashed), [dirc] the
   (recursive) directory of a package, [gen] the effect of executing the generators for one package, [locals]
   the packages go/packages reports for the entrypoints (keys of a Go map: any order).  Every theorem
   quantifies over all of them, so "edit" is ANY change of the tree and a history is any list of
   edit / delete / corrupt / block gengo.sum / run {All, Force, entrypoints, failing package}.
   [fixes] selects the code before/after the two "fix:" patches; [fixed_all] is the code as it is now. *)
Require Import Gengo.Base.Bytes Gengo.Model.SumFile Gengo.Model.SumCache.
Require Import Gengo.Proofs.SumFile Gengo.Proofs.SumCache Gengo.Proofs.SumCacheExamples Gengo.Proofs.SumCacheWitness.
From Coq Require Import Permutation Sorted.

(* 1. Skipped as cached ONLY IF All is set, Force is off, gengo.sum is a readable file and the hash it records
      for the package equals the hash of the package directory taken at load time (and, repaired code, that
      hash exists).  Any state, any run — hence every run of every history. *)
Theorem C08_skip_only_if :
  forall (tree content : Type) (H : content -> option bytes) (dirc : tree -> option bytes -> bytes -> content)
         (gen : tree -> bytes -> tree) (locals : tree -> list bytes -> list (bytes * bool))
         (fx : fixes) (a : runargs) (st : state tree) (p : bytes),
    In p (skipped (fst (snd (run tree content H dirc gen locals fx a st)))) ->
    r_all a = true /\ r_force a = false /\
    exists b, st_sum st = SumFile b
      /\ sum_sum (sumfile_load b) p = hash_of tree content H dirc fx st p
      /\ (fx_empty fx = true -> hash_of tree content H dirc fx st p <> []).
Proof. exact run_skip_only_if. Qed.
Print Assumptions C08_skip_only_if.

(* 2. Force, no All, a missing or unreadable gengo.sum, a recorded hash different from the current one, or a
      directory that cannot be hashed: every package the run reaches is regenerated. *)
Theorem C08_regenerates :
  forall (tree content : Type) (H : content -> option bytes) (dirc : tree -> option bytes -> bytes -> content)
         (gen : tree -> bytes -> tree) (locals : tree -> list bytes -> list (bytes * bool))
         (fx : fixes) (a : runargs) (st : state tree) (p : bytes),
    In p (visited (fst (snd (run tree content H dirc gen locals fx a st)))) ->
    (r_force a = true \/ r_all a = false
     \/ (forall b, st_sum st <> SumFile b)
     \/ (exists b, st_sum st = SumFile b /\ sum_sum (sumfile_load b) p <> hash_of tree content H dirc fx st p)
     \/ (fx_empty fx = true /\ hash_of tree content H dirc fx st p = [])) ->
    In p (executed (fst (snd (run tree content H dirc gen locals fx a st)))).
Proof. exact run_regenerates. Qed.
Print Assumptions C08_regenerates.

(* ... and so is a package gengo.sum has no entry for. *)
Theorem C08_missing_entry_regenerates :
  forall (tree content : Type) (H : content -> option bytes) (dirc : tree -> option bytes -> bytes -> content)
         (gen : tree -> bytes -> tree) (locals : tree -> list bytes -> list (bytes * bool))
         (fx : fixes) (a : runargs) (st : state tree) (p b : bytes),
    fx_empty fx = true ->
    In p (visited (fst (snd (run tree content H dirc gen locals fx a st)))) ->
    st_sum st = SumFile b -> sum_get (sumfile_load b) p = None ->
    In p (executed (fst (snd (run tree content H dirc gen locals fx a st)))).
Proof. exact run_missing_entry. Qed.
Print Assumptions C08_missing_entry_regenerates.

(* The run reaches, in sorted order, every local package in scope (all of them with All, the direct ones
   otherwise) — a prefix of them only if a generator failed. *)
Theorem C08_visits_scope :
  forall (tree content : Type) (H : content -> option bytes) (dirc : tree -> option bytes -> bytes -> content)
         (gen : tree -> bytes -> tree) (locals : tree -> list bytes -> list (bytes * bool))
         (fx : fixes) (a : runargs) (st : state tree),
    exists rest,
      map fst (filter (in_scope a) (sort_by fst (locals (st_tree st) (r_entry a))))
      = visited (fst (snd (run tree content H dirc gen locals fx a st))) ++ rest
      /\ (snd (snd (run tree content H dirc gen locals fx a st)) <> EGen -> rest = []).
Proof. exact run_visited_scope. Qed.
Print Assumptions C08_visits_scope.

(* 3. NEVER SKIPS A PACKAGE WHOSE DIRECTORY CHANGED.  In every history that starts without gengo.sum and in
      which nobody forges the file (edits of the tree, deleting or blocking gengo.sum and runs of every kind
      are all allowed), a package skipped by a run was local to an EARLIER successful All run whose recorded
      hash is the hash of the directory that run started from, and the directory now is exactly that
      directory: no file in it was created, edited or deleted since.  Uses that the hash is injective
      (collision resistance of dirhash, trusted) and that paths and hashes contain no white space. *)
Theorem C08_skip_sound :
  forall (tree content : Type) (H : content -> option bytes) (dirc : tree -> option bytes -> bytes -> content)
         (gen : tree -> bytes -> tree) (locals : tree -> list bytes -> list (bytes * bool))
         (st0 : state tree) (pre : list (op tree)) (a : runargs) (p : bytes),
    H_tokens content H -> H_injective content H -> locals_ok tree locals ->
    st_sum st0 = SumMissing -> no_corrupt tree pre ->
    let ex := exec tree content H dirc gen locals fixed_all st0 in
    In p (skipped (fst (snd (run tree content H dirc gen locals fixed_all a (ex pre))))) ->
    r_all a = true /\ r_force a = false /\
    exists pre1 a1 mid,
      pre = pre1 ++ Run a1 :: mid
      /\ good_run tree content H dirc gen locals fixed_all a1 (ex pre1)
      /\ In p (map fst (locals (st_tree (ex pre1)) (r_entry a1)))
      /\ (exists h, H (dirc (st_tree (ex pre1)) None p) = Some h
                    /\ sum_file_bytes (st_sum (ex pre)) <> None
                    /\ (forall b, st_sum (ex pre) = SumFile b -> sum_sum (sumfile_load b) p = h))
      /\ dirc (st_tree (ex pre)) None p = dirc (st_tree (ex pre1)) None p.
Proof. exact skip_sound_history. Qed.
Print Assumptions C08_skip_sound.

(* The same fact read forwards, for any two states: if gengo.sum is what a successful All run that started
   from s1 wrote, and the directory of p now differs in any way from what it was in s1 (or p was not local
   then), a run that reaches p regenerates it. *)
Theorem C08_changed_directory_regenerates :
  forall (tree content : Type) (H : content -> option bytes) (dirc : tree -> option bytes -> bytes -> content)
         (gen : tree -> bytes -> tree) (locals : tree -> list bytes -> list (bytes * bool))
         (a1 : runargs) (s1 : state tree) (a2 : runargs) (s2 : state tree) (p : bytes),
    H_tokens content H -> H_injective content H -> locals_ok tree locals ->
    st_sum s2 = SumFile (sumfile_bytes (current_sum tree content H dirc fixed_all s1 (locals (st_tree s1) (r_entry a1)))) ->
    In p (visited (fst (snd (run tree content H dirc gen locals fixed_all a2 s2)))) ->
    dirc (st_tree s2) None p <> dirc (st_tree s1) None p ->
    In p (executed (fst (snd (run tree content H dirc gen locals fixed_all a2 s2)))).
Proof. exact run_changed_dir. Qed.
Print Assumptions C08_changed_directory_regenerates.

(* 4. After a successful All run gengo.sum holds exactly one "path hash\n" line per local package, in
      strictly ascending byte order of the paths, with the hashes taken at load time ... *)
Theorem C08_saved_exact :
  forall (tree content : Type) (H : content -> option bytes) (dirc : tree -> option bytes -> bytes -> content)
         (gen : tree -> bytes -> tree) (locals : tree -> list bytes -> list (bytes * bool))
         (fx : fixes) (a : runargs) (st : state tree),
    r_all a = true -> snd (snd (run tree content H dirc gen locals fx a st)) = ENone ->
    NoDup (map fst (locals (st_tree st) (r_entry a))) ->
    exists order,
      Permutation order (map fst (locals (st_tree st) (r_entry a)))
      /\ StronglySorted (fun x y => bytes_leb x y = true) order /\ NoDup order
      /\ st_sum (fst (run tree content H dirc gen locals fx a st))
         = SumFile (flat_map (fun p => p ++ sp :: hash_of tree content H dirc fx st p ++ [nl]) order).
Proof. exact run_saved_exact. Qed.
Print Assumptions C08_saved_exact.

(* ... whatever order Go iterates the package map in. *)
Theorem C08_saved_order_independent :
  forall (tree content : Type) (H : content -> option bytes) (dirc : tree -> option bytes -> bytes -> content)
         (fx : fixes) (st : state tree) (loc loc' : list (bytes * bool)),
    Permutation loc loc' -> NoDup (map fst loc) ->
    sumfile_bytes (current_sum tree content H dirc fx st loc) = sumfile_bytes (current_sum tree content H dirc fx st loc').
Proof. exact saved_bytes_perm. Qed.
Print Assumptions C08_saved_order_independent.

(* 5. Reading the file back (bytes.Lines, bytes.Fields, map assignment — byte level) yields the same mapping:
      the same answer to every Sum query, and the very same entries when no hash is empty.  paths_ok = [kv_ok]:
      distinct keys; keys non-empty; keys and values ASCII without white space. *)
Theorem C08_load_save :
  forall (m : sum) (k : bytes), kv_ok m -> sum_sum (sumfile_load (sumfile_bytes m)) k = sum_sum m k.
Proof. exact load_bytes_sum. Qed.
Print Assumptions C08_load_save.

Theorem C08_load_save_entries :
  forall (m : sum), kv_ok m -> Forall (fun kv => snd kv <> []) m ->
    sumfile_load (sumfile_bytes m) = sort_by fst m /\ Permutation (sumfile_load (sumfile_bytes m)) m.
Proof. exact load_bytes_entries. Qed.
Print Assumptions C08_load_save_entries.

(* 6. A run that returns an error (a failing generator, gengo.sum not writable) and a run without All leave
      gengo.sum untouched. *)
Theorem C08_failed_run_keeps_sum :
  forall (tree content : Type) (H : content -> option bytes) (dirc : tree -> option bytes -> bytes -> content)
         (gen : tree -> bytes -> tree) (locals : tree -> list bytes -> list (bytes * bool))
         (fx : fixes) (a : runargs) (st : state tree),
    snd (snd (run tree content H dirc gen locals fx a st)) <> ENone ->
    st_sum (fst (run tree content H dirc gen locals fx a st)) = st_sum st.
Proof. exact run_err_keeps_sum. Qed.
Print Assumptions C08_failed_run_keeps_sum.

Theorem C08_direct_run_keeps_sum :
  forall (tree content : Type) (H : content -> option bytes) (dirc : tree -> option bytes -> bytes -> content)
         (gen : tree -> bytes -> tree) (locals : tree -> list bytes -> list (bytes * bool))
         (fx : fixes) (a : runargs) (st : state tree),
    r_all a = false -> st_sum (fst (run tree content H dirc gen locals fx a st)) = st_sum st.
Proof. exact run_not_all_keeps_sum. Qed.
Print Assumptions C08_direct_run_keeps_sum.

(* 6b. The caller's context.  Execute never asks its context whether the caller has given up (Model/SumCache.v,
       [run_ctx]): a run whose context is cancelled — before the call, while some package is generated, by a
       deadline — IS the ordinary run on the same arguments.  Every theorem of this file therefore speaks about
       cancelled runs too: such a run visits its whole scope, returns no error of its own, and saves the
       load-time hashes of packages it has all judged. *)
Theorem C08_cancelled_run_is_run :
  forall (tree content : Type) (H : content -> option bytes) (dirc : tree -> option bytes -> bytes -> content)
         (gen : tree -> bytes -> tree) (locals : tree -> list bytes -> list (bytes * bool))
         (fx : fixes) (c : ctxstate) (a : runargs) (st : state tree),
    run_ctx tree content H dirc gen locals fx c a st = run tree content H dirc gen locals fx a st.
Proof. exact run_ctx_is_run. Qed.
Print Assumptions C08_cancelled_run_is_run.

(* 7. Convergence.  If generated files are a function of their package's own sources (gen is idempotent and
      generators of different packages commute), generating touches only that package's directory (and the
      directories that contain it), generated files do not change which packages are loaded, and every
      directory can be hashed: from ANY state with a writable gengo.sum — missing, stale, damaged — after three
      plain All runs a fourth one executes nothing and leaves tree and gengo.sum exactly as they are.
      (Three are needed: the recorded hash is the one taken BEFORE generation, and an outer directory changes
      when a nested package is regenerated.) *)
Theorem C08_converges :
  forall (tree content : Type) (H : content -> option bytes) (dirc : tree -> option bytes -> bytes -> content)
         (gen : tree -> bytes -> tree) (locals : tree -> list bytes -> list (bytes * bool)),
    H_tokens content H -> H_injective content H -> locals_ok tree locals ->
    gen_idem tree gen -> gen_comm tree gen -> gen_local tree content dirc gen ->
    gen_keeps_locals tree gen locals -> all_hashable tree content H dirc ->
    forall (a : runargs), plain_run a ->
    forall (loc : list (bytes * bool)), existsb snd loc = true ->
    forall (s0 : state tree), locals (st_tree s0) (r_entry a) = loc -> st_sum s0 <> SumUnreadable ->
    let r := run tree content H dirc gen locals fixed_all a in
    let s3 := fst (r (fst (r (fst (r s0))))) in
    fst (r s3) = s3 /\ executed (fst (snd (r s3))) = [] /\ snd (snd (r s3)) = ENone.
Proof. exact converges. Qed.
Print Assumptions C08_converges.

(* ---- the code as it was before the two "fix:" patches ---- *)

(* fx_empty = false: a directory that cannot be hashed is recorded with the empty hash, the line is dropped on
   reading, "" = "" — the package is skipped although its sources were edited after the recorded run. *)
Theorem C08_skip_sound_refuted_before_fix :
  let fx := Bad.only_empty_unfixed in
  let s1 := Bad.dangling0 in
  let s2 := Bad.step fx (Edit Bad.edit) (fst (Bad.run fx Bad.all_run s1)) in
  good_run Bad.tree Bad.content Bad.H Bad.dirc Bad.gen Bad.locals fx Bad.all_run s1
  /\ st_sum s2 = st_sum (fst (Bad.run fx Bad.all_run s1))
  /\ In Bad.pm (skipped (fst (snd (Bad.run fx Bad.all_run s2))))
  /\ fst (st_tree s2) <> fst (st_tree s1).
Proof. exact skip_sound_refuted_unhashable. Qed.
Print Assumptions C08_skip_sound_refuted_before_fix.

(* fx_rootsum = false: gengo.sum is hashed as part of the directory of a package at the module root, so the
   fourth and the fifth run still regenerate it and rewrite gengo.sum. *)
Theorem C08_converges_refuted_before_fix :
  let fx := Bad.only_rootsum_unfixed in
  let s1 := fst (Bad.run fx Bad.all_run Bad.clean0) in
  let s2 := fst (Bad.run fx Bad.all_run s1) in
  let s3 := fst (Bad.run fx Bad.all_run s2) in
  let s4 := fst (Bad.run fx Bad.all_run s3) in
  executed (fst (snd (Bad.run fx Bad.all_run s3))) = [Bad.pm]
  /\ st_sum s4 <> st_sum s3
  /\ executed (fst (snd (Bad.run fx Bad.all_run s4))) = [Bad.pm].
Proof. exact converges_refuted_rootsum. Qed.
Print Assumptions C08_converges_refuted_before_fix.

(* ---- non-vacuity ---- *)

(* every hypothesis of C08_skip_sound and C08_converges holds in a concrete world with two packages *)
Example C08_hypotheses_satisfiable :
  H_tokens Good.content Good.H /\ H_injective Good.content Good.H /\ locals_ok Good.tree Good.locals
  /\ gen_idem Good.tree Good.gen /\ gen_comm Good.tree Good.gen /\ gen_local Good.tree Good.content Good.dirc Good.gen
  /\ gen_keeps_locals Good.tree Good.gen Good.locals /\ all_hashable Good.tree Good.content Good.H Good.dirc.
Proof.
  exact (conj Good.H_tokens_ok (conj Good.H_injective_ok (conj Good.locals_ok_ok (conj Good.gen_idem_ok
        (conj Good.gen_comm_ok (conj Good.gen_local_ok (conj Good.gen_keeps_locals_ok Good.all_hashable_ok))))))).
Qed.

(* in that world: run, run, run, (edit a), run, run, run execute a+b, a+b, nothing, | a, a, nothing
   (fourth entry: a fourth run without the edit also executes nothing) *)
Example C08_example_history :
  Good.demo = [[Good.pa; Good.pb]; [Good.pa; Good.pb]; []; []; [Good.pa]; [Good.pa]; []].
Proof. exact good_demo. Qed.

(* ... and in a less degenerate one (Proofs/SumCacheWitness.v, [Deep]): four packages m/a, m/a/sub, m/c, m/d; the
   directory of m/a/sub is NESTED in the directory of m/a (dirhash of m/a is recursive and covers sub's files, so
   gen_local holds for p = m/a/sub, q = m/a only through [contains]); the import edge m/c -> m/a is stored in the
   tree (an edit adds it), m/a always imports m/a/sub; [locals] depends on the tree and on the entrypoints: the
   packages the entrypoints name (direct) plus what they reach through imports (non-direct), in an unsorted order *)
Example C08_hypotheses_satisfiable_deep :
  H_tokens Deep.content Deep.H /\ H_injective Deep.content Deep.H /\ locals_ok Deep.tree Deep.locals
  /\ gen_idem Deep.tree Deep.gen /\ gen_comm Deep.tree Deep.gen /\ gen_local Deep.tree Deep.content Deep.dirc Deep.gen
  /\ gen_keeps_locals Deep.tree Deep.gen Deep.locals /\ all_hashable Deep.tree Deep.content Deep.H Deep.dirc.
Proof.
  exact (conj Deep.H_tokens_ok (conj Deep.H_injective_ok (conj Deep.locals_ok_ok (conj Deep.gen_idem_ok
        (conj Deep.gen_comm_ok (conj Deep.gen_local_ok (conj Deep.gen_keeps_locals_ok Deep.all_hashable_ok))))))).
Qed.

(* in that world, entrypoints m/c and m/d: without the import edge m/c and m/d are loaded; with it m/a/sub and m/a come
   in as NON-direct packages; other entrypoints for comparison *)
Example C08_locals_deep :
  Deep.locals (st_tree Deep.st0) Deep.entry = [(Deep.pd, true); (Deep.pc, true)]
  /\ Deep.locals (st_tree Deep.s_imp) Deep.entry
     = [(Deep.pd, true); (Deep.pc, true); (Deep.ps, false); (Deep.pa, false)]
  /\ Deep.locals (st_tree Deep.s_imp) [Deep.ps] = [(Deep.ps, true)]
  /\ Deep.locals (st_tree Deep.s_imp) [Deep.pa; Deep.pd] = [(Deep.pd, true); (Deep.ps, false); (Deep.pa, true)].
Proof. exact deep_locals. Qed.

(* C08_converges instantiated there with every hypothesis proved (the proof applies [converges], it does not
   compute): from a stale gengo.sum ("m/a h1x\ngarbage"), the import edge present — four local packages, two of them
   non-direct, one nested in another — after three plain All runs a fourth executes nothing and changes nothing *)
Example C08_converges_instance_deep :
  let r := Deep.run (Deep.all_run Deep.entry) in
  let s3 := fst (r (fst (r (fst (r Deep.s_imp))))) in
  fst (r s3) = s3 /\ executed (fst (snd (r s3))) = [] /\ snd (snd (r s3)) = ENone.
Proof. exact deep_converges_instance. Qed.
Print Assumptions C08_converges_instance_deep.

(* a history there, entrypoints m/c and m/d throughout; what each run executes:
     from the stale gengo.sum, no import edge (m/a not loaded): run, run, run, run   -> c+d, c+d, nothing, nothing
     edit: m/c now imports m/a (m/a, m/a/sub loaded, non-direct): run, run, run    -> a+sub+c, a+sub+c, nothing
     edit of the nested m/a/sub: run, run, run                                     -> a+sub, a+sub, nothing
       (the outer m/a is regenerated too: its directory covers sub's files)
     the generated files of m/a and m/a/sub are deleted and gengo.sum is overwritten by one that records m/a's
     current directory only: run, run, run, run                                    -> sub+c+d, a+sub, a, nothing
       (THREE runs execute something: m/a is first skipped, then its directory changes because the nested
        m/a/sub was regenerated, then it changes again because m/a itself was) *)
Example C08_example_history_deep :
  Deep.demo =
    [ [Deep.pc; Deep.pd]; [Deep.pc; Deep.pd]; []; [];
      [Deep.pa; Deep.ps; Deep.pc]; [Deep.pa; Deep.ps; Deep.pc]; [];
      [Deep.pa; Deep.ps]; [Deep.pa; Deep.ps]; [];
      [Deep.ps; Deep.pc; Deep.pd]; [Deep.pa; Deep.ps]; [Deep.pa]; [] ].
Proof. exact deep_demo. Qed.

(* the repaired code on the refutation's history *)
Example C08_unhashable_regenerated_after_fix :
  let s1 := Bad.dangling0 in
  let s2 := Bad.step fixed_all (Edit Bad.edit) (fst (Bad.run fixed_all Bad.all_run s1)) in
  executed (fst (snd (Bad.run fixed_all Bad.all_run s2))) = [Bad.pm].
Proof. exact skip_sound_unhashable_fixed. Qed.

(* a gengo.sum with two lines, byte for byte, and its reading *)
Example C08_example_file :
  let m := [(bs "example.com/m/b", bs "h1:Yg="); (bs "example.com/m/a", bs "h1:Xw=")] in
  sumfile_bytes m = bs "example.com/m/a h1:Xw=" ++ [nl] ++ bs "example.com/m/b h1:Yg=" ++ [nl]
  /\ sumfile_load (sumfile_bytes m) = [(bs "example.com/m/a", bs "h1:Xw="); (bs "example.com/m/b", bs "h1:Yg=")].
Proof. vm_compute. split; reflexivity. Qed.

(* ---- the composed system (Model/Whole.v, Props/Whole.v): this file's model and the pipeline model are one ----
   Pipeline.exec (C07 / C05 / C02) is run with THIS file's byte-level sumfile_load / sumfile_bytes
   ([Whole.whole_env]); the theorem says that [run], with its abstract world instantiated by the pipeline's data, is
   Pipeline.exec: same packages executed in the same order, same success / failure, same gengo.sum afterwards (failed
   and non-All runs included), same tree (up to the files a failing package had already written: not modelled here). *)
Require Gengo.Model.Pipeline Gengo.Model.Whole Gengo.Proofs.Pipeline Gengo.Proofs.PipelinePkg Gengo.Proofs.WholeTorn
  Gengo.Props.Whole.

Theorem C08_whole_sumcache_is_pipeline :
  forall (E : Pipeline.env) (a : Pipeline.args) (w : Pipeline.world) (gens : list Pipeline.generator),
    Pipeline.e_sum_load E = sumfile_load -> Pipeline.e_sum_bytes E = sumfile_bytes ->
    forall (content : Type) (H : content -> option bytes)
           (dirc : Pipeline.fs -> option bytes -> bytes -> content)
           (locals : Pipeline.fs -> list bytes -> list (bytes * bool)) (entry : list bytes) (s : Pipeline.fs),
    locals s entry = Whole.world_locals w ->
    (forall p, In p (Pipeline.w_pkgs w) ->
       hash_of Pipeline.fs content H dirc fixed_all (Whole.abs_state w s) (Pipeline.pk_path p) = Pipeline.pk_hash p) ->
    NoDup (map Pipeline.pk_path (Pipeline.w_pkgs w)) -> Gengo.Proofs.PipelinePkg.files_ok w ->
    let r := run Pipeline.fs content H dirc (Whole.pkg_step E a w gens) locals fixed_all
                 (Whole.run_args E a w gens entry s) (Whole.abs_state w s) in
    Pipeline.exec_trace E a w gens s = flat_map (Whole.pkg_trace E a w gens) (executed (fst (snd r)))
    /\ snd (snd r) <> ESave
    /\ (snd (snd r) = ENone <-> Pipeline.exec_outcome E a w gens s = Pipeline.Done)
    /\ (Pipeline.exec_outcome E a w gens s = Pipeline.Done -> Whole.fail_effects E a w gens (fst (snd r)) = [])
    /\ st_sum (fst r) = Whole.sum_state w (Pipeline.exec_fs E a w gens s)
    /\ (forall q, q <> Pipeline.sum_path w ->
          Pipeline.fs_lookup q (Pipeline.exec_fs E a w gens s)
          = Pipeline.fs_lookup q (Pipeline.apply_all (Whole.fail_effects E a w gens (fst (snd r))) (st_tree (fst r)))).
Proof. exact Gengo.Props.Whole.Whole_sumcache_is_pipeline. Qed.
Print Assumptions C08_whole_sumcache_is_pipeline.

(* C08_skip_only_if as a statement about Pipeline.exec: a package the pipeline leaves alone as cached ... *)
Theorem C08_whole_skipped_by_pipeline_only_if_recorded_hash :
  forall (E : Pipeline.env) a w s p,
    Pipeline.e_sum_load E = sumfile_load ->
    NoDup (map Pipeline.pk_path (Pipeline.w_pkgs w)) -> Gengo.Proofs.PipelinePkg.files_ok w ->
    In p (Pipeline.w_pkgs w) -> Pipeline.selected a w p = true -> Gengo.Proofs.Pipeline.processed E a w s p = false ->
    Pipeline.a_all a = true /\ Pipeline.a_force a = false /\
    exists b, Pipeline.fs_lookup (Pipeline.sum_path w) s = Some b
              /\ sum_sum (sumfile_load b) (Pipeline.pk_path p) = Pipeline.pk_hash p
              /\ Pipeline.pk_hash p <> [].
Proof. exact Gengo.Props.Whole.Whole_skipped_by_pipeline_only_if_recorded_hash. Qed.
Print Assumptions C08_whole_skipped_by_pipeline_only_if_recorded_hash.

(* A TORN gengo.sum (sumfile.Save truncates, then writes; a killed process leaves a prefix): every answer of Sum on
   any prefix of Bytes(m) is a prefix of the answer on m, so every entry Load finds in it carries the recorded hash or
   a strictly shorter string — with hashes of one length, it can only cause regeneration
   (composed with the crash points of Execute in C02_whole_crash_then_skip_justified). *)
Theorem C08_whole_torn_sum_prefix :
  forall (m : sum) (n : nat) (key : bytes), kv_ok m ->
    WholeTorn.prefix_of (sum_sum (sumfile_load (firstn n (sumfile_bytes m))) key) (sum_sum m key).
Proof. exact Gengo.Props.Whole.Whole_torn_sum_prefix. Qed.
Print Assumptions C08_whole_torn_sum_prefix.

Theorem C08_whole_torn_sum_entries :
  forall (m : sum) (n : nat) (k v : bytes), kv_ok m ->
    In (k, v) (sumfile_load (firstn n (sumfile_bytes m))) ->
    v = sum_sum m k \/ (WholeTorn.prefix_of v (sum_sum m k) /\ List.length v < List.length (sum_sum m k)).
Proof. exact Gengo.Props.Whole.Whole_torn_sum_entries. Qed.
Print Assumptions C08_whole_torn_sum_entries.
