(* C16 — runtimedoc output returns the source documentation at run time.
   Statements only; every proof is [exact <lemma>].

   [gen true true p] is the IR of the file the (repaired) generator writes for the abstract package p;
   [run files ir v t names] is the semantics of that generated Go text: the result of
   x.RuntimeDoc(names...) for x a pointer to the value v of the type named t
   (Ok (Some doc) = (doc, true); Ok None = (nil, false); Panic = nil pointer dereference).
   Packages are arbitrary lists of type descriptions with pairwise distinct names (as in Go), in any
   order; receivers are arbitrary.  What is NOT proved here: that Go gives the generated text the
   meaning [run] — that is observed by compiling and running it on every generated package. *)
Require Import Gengo.Base.Bytes Gengo.Model.GenRuntimeDoc Gengo.Proofs.GenRuntimeDoc.

(* RuntimeDoc() of a covered type returns its doc lines (leading type name removed) and true — for every
   receiver, nil included.  ([[path]] lines in a struct's doc are the embed-file feature, excluded.) *)
Theorem C16_types : forall files p t v,
  NoDup (map t_name p) -> In t p -> covered t = true -> has_embed_ref p (t_name t) = false ->
  run files (gen true true p) v (t_name t) [] = Ok (Some (doc_of (t_name t) (t_doc t))).
Proof. exact run_types. Qed.
Print Assumptions C16_types.

(* RuntimeDoc(f, ...) for a listed field f (exported, named, not of anonymous or empty struct type)
   returns f's doc lines and true — for every receiver. *)
Theorem C16_fields : forall files p t fs f v rest,
  NoDup (map t_name p) -> In t p -> covered t = true -> t_kind t = TStruct fs ->
  NoDup (map f_name (filter listed fs)) -> In f fs -> listed f = true ->
  run files (gen true true p) v (t_name t) (f_name f :: rest) = Ok (Some (doc_of (f_name f) (f_doc f))).
Proof. exact run_fields_in. Qed.
Print Assumptions C16_fields.

(* Any other name on a struct is answered by delegation: the embedded fields the method delegates to
   are asked in field order, the first answer wins (prefixed with the embedding field's first doc
   line), a panic propagates. *)
Theorem C16_embedded : forall files p t fs kids n rest,
  NoDup (map t_name p) -> In t p -> covered t = true -> t_kind t = TStruct fs ->
  find_listed n fs = None ->
  run files (gen true true p) (RNode kids) (t_name t) (n :: rest) =
  deleg_fields p (fun f => run files (gen true true p) (kid kids (f_name f)) (f_name f) (n :: rest)) fs.
Proof. exact run_delegation. Qed.
Print Assumptions C16_embedded.

(* ... so a name that is no listed field and that no embedded field answers gives (nil, false) *)
Theorem C16_other_name : forall files p t fs kids n rest,
  NoDup (map t_name p) -> In t p -> covered t = true -> t_kind t = TStruct fs ->
  find_listed n fs = None ->
  (forall f, In f fs -> delegating p f = true ->
             run files (gen true true p) (kid kids (f_name f)) (f_name f) (n :: rest) = Ok None) ->
  run files (gen true true p) (RNode kids) (t_name t) (n :: rest) = Ok None.
Proof. exact run_other_name. Qed.
Print Assumptions C16_other_name.

(* a covered non-struct type has no names: every name gives (nil, false) *)
Theorem C16_other_kind : forall files p t v n rest,
  NoDup (map t_name p) -> In t p -> covered t = true -> t_kind t = TOther ->
  run files (gen true true p) v (t_name t) (n :: rest) = Ok None.
Proof. exact run_other_kind. Qed.
Print Assumptions C16_other_kind.

(* types that are not covered (interfaces, unexported or disabled types, structs without an exported
   field) and names that are no type at all get no method *)
Theorem C16_not_covered : forall fd fs p n,
  NoDup (map t_name p) ->
  (forall t, lookup_ty p n = Some t -> covered t = false) ->
  find_method (gen fd fs p) n = None.
Proof. exact no_method. Qed.
Print Assumptions C16_not_covered.

(* the helper func is emitted exactly once iff some method is emitted, and it is the last declaration *)
Theorem C16_helper_once : forall fd fs p,
  NoDup (map t_name p) ->
  count_helper (gen fd fs p) = (if Nat.eqb (count_methods (gen fd fs p)) 0 then 0 else 1)
  /\ (count_methods (gen fd fs p) = 0 <-> existsb covered p = false)
  /\ (forall a b, gen fd fs p = a ++ IHelper :: b -> b = []).
Proof. exact helper_once. Qed.
Print Assumptions C16_helper_once.

(* the doc lines reach the generated file as literals, verbatim and in field order *)
Theorem C16_ir_struct : forall p t fs,
  NoDup (map t_name p) -> In t p -> covered t = true -> t_kind t = TStruct fs ->
  find_method (gen true true p) (t_name t) =
  Some (StructDoc (parse_embed (doc_of (t_name t) (t_doc t)))
                  (map (fun f => (f_name f, doc_of (f_name f) (f_doc f))) (filter listed fs))
                  (map (fun f => mk_embed (f_name f)
                                   (match f_kind f with FEmbedded ptr _ => ptr | _ => false end)
                                   (first_line (doc_of (f_name f) (f_doc f))))
                       (filter (delegating p) fs))).
Proof. exact ir_shape_struct. Qed.
Print Assumptions C16_ir_struct.

Theorem C16_ir_other : forall p t,
  NoDup (map t_name p) -> In t p -> covered t = true -> t_kind t = TOther ->
  find_method (gen true true p) (t_name t) = Some (Simple true (doc_of (t_name t) (t_doc t))).
Proof. exact ir_shape_other. Qed.
Print Assumptions C16_ir_other.

Theorem C16_ir_literals : forall d, (forall l, In l d -> re_embed l = None) -> parse_embed d = map DLit d.
Proof. exact parse_embed_lit. Qed.
Print Assumptions C16_ir_literals.

(* what "leading name removed" means: every line after the first is untouched; the first line loses the
   declared name exactly when the name is the whole line or is followed by a blank; otherwise it is
   untouched too ("Apple pie" on type A stays "Apple pie") *)
Theorem C16_doc_tail : forall n l0 rest,
  doc_of n (l0 :: rest) = rest \/ exists l0', l0' <> [] /\ doc_of n (l0 :: rest) = l0' :: rest.
Proof. exact doc_of_tail. Qed.
Print Assumptions C16_doc_tail.

Theorem C16_doc_name_alone : forall n rest, doc_of n (n :: rest) = rest.
Proof. exact doc_of_name_alone. Qed.
Print Assumptions C16_doc_name_alone.

Theorem C16_doc_name_blank : forall n r rest,
  doc_of n ((n ++ sp :: r) :: rest) = match trim_space (sp :: r) with [] => rest | l => l :: rest end.
Proof. exact doc_of_name_blank. Qed.
Print Assumptions C16_doc_name_blank.

Theorem C16_doc_verbatim : forall n l0 rest,
  l0 <> [] -> l0 <> n -> (forall r, l0 <> n ++ sp :: r) -> doc_of n (l0 :: rest) = l0 :: rest.
Proof. exact doc_of_verbatim. Qed.
Print Assumptions C16_doc_verbatim.

(* The whole sentence in closed form: on every package whose embedding is acyclic and every receiver
   that has no nil embedded pointer in front of a method with delegations (the negation of the
   known-finding class nil_embedded_pointer_chain), the generated code returns exactly rd_spec —
   the property's sentence as a function of the SOURCE package. *)
Theorem C16_answers_partial : forall files p rank,
  NoDup (map t_name p) -> ranked p rank ->
  forall k tn v names,
    rank tn < k -> nil_chain p tn v = false ->
    (names = [] -> has_embed_ref p tn = false) ->
    run files (gen true true p) v tn names = Ok (rd_spec k p tn names).
Proof. exact run_spec. Qed.
Print Assumptions C16_answers_partial.

(* on a nil receiver a method with delegations panics for every name that is not one of its own cases *)
Theorem C16_nil_receiver : forall files p t fs n rest,
  NoDup (map t_name p) -> In t p -> covered t = true -> t_kind t = TStruct fs ->
  find_listed n fs = None ->
  run files (gen true true p) RNil (t_name t) (n :: rest) =
  if existsb (delegating p) fs then Panic else Ok None.
Proof. exact run_nil_delegation. Qed.
Print Assumptions C16_nil_receiver.

(* KNOWN FINDING: without the guard the sentence is false — A{ *B }, B{ C }, C{ X }: new(A).RuntimeDoc("X") panics *)
Theorem C16_answers_refuted_nil_chain :
  run [] (gen true true w_chain) (RNode [(bs "B", RNil)]) (bs "A") [bs "X"] = Panic
  /\ run [] (gen true true w_chain) (RNode [(bs "B", RNil)]) (bs "A") [bs "Nope"] = Panic
  /\ rd_spec 4 w_chain (bs "A") [bs "X"] = Some [bs "marks the spot"]
  /\ rd_spec 4 w_chain (bs "A") [bs "Nope"] = None
  /\ nil_chain w_chain (bs "A") (RNode [(bs "B", RNil)]) = true.
Proof. exact answers_refuted_nil_chain. Qed.
Print Assumptions C16_answers_refuted_nil_chain.

(* History: before the repairs.  (fd = false) Context.Doc cut the name off without a word boundary. *)
Theorem C16_doc_refuted_before_fix :
  run [] (gen false true w_apple) (RNode []) (bs "A") [] = Ok (Some [bs "pple pie"])
  /\ run [] (gen false true w_apple) (RNode []) (bs "A") [bs "X"] = Ok (Some [bs "ylophone"])
  /\ rd_spec 2 w_apple (bs "A") [] = Some [bs "Apple pie"]
  /\ rd_spec 2 w_apple (bs "A") [bs "X"] = Some [bs "Xylophone"].
Proof. exact doc_refuted_before_fix. Qed.
Print Assumptions C16_doc_refuted_before_fix.

(* (fs = false) the method of a non-struct type answered every name with the type's doc *)
Theorem C16_other_refuted_before_fix :
  run [] (gen true false w_name) (RNode []) (bs "Name") [bs "Nope"] = Ok (Some [bs "is a name."])
  /\ run [] (gen true false w_name) (RNode [(bs "Name", RNode []); (bs "Other", RNode [])]) (bs "S") [bs "Y"]
     = Ok (Some [bs "is a name."])
  /\ rd_spec 4 w_name (bs "Name") [bs "Nope"] = None
  /\ rd_spec 4 w_name (bs "S") [bs "Y"] = Some [bs "is why"].
Proof. exact other_refuted_before_fix. Qed.
Print Assumptions C16_other_refuted_before_fix.

(* non-vacuity: the hypotheses of C16_answers_partial hold on a three-level embedding with the pointer
   allocated, and the answers are the documentation *)
Example C16_example :
  let v := RNode [(bs "B", RNode [(bs "C", RNode [])])] in
  NoDup (map t_name w_chain)
  /\ nil_chain w_chain (bs "A") v = false
  /\ run [] (gen true true w_chain) v (bs "A") [bs "X"] = Ok (Some [bs "marks the spot"])
  /\ run [] (gen true true w_chain) v (bs "A") [bs "Nope"] = Ok None
  /\ gen true true w_chain <> [].
Proof. exact chain_example. Qed.

Example C16_example_ranked : ranked w_chain chain_rank.
Proof. exact chain_ranked. Qed.

Example C16_example_doc :
  doc_of (bs "Obj") [bs "Obj some object"; bs ""; bs "Objects are `quoted` 100% @name"]
  = [bs "some object"; bs ""; bs "Objects are `quoted` 100% @name"]
  /\ doc_of (bs "A") [bs "Apple pie"] = [bs "Apple pie"]
  /\ doc_of (bs "Y") [bs "Y"; bs ""; bs "second"] = [bs ""; bs "second"].
Proof. vm_compute. repeat split; reflexivity. Qed.

(* ---- runtimedoc as an instance of the pipeline's abstract generator (Model/Generators.v): what gengo.Execute's
   per-package loop (Model/Pipeline.v: sorted types, dispatch, GenerateType calls, then the deferred callbacks) makes
   of the generator — state (processed, helperWritten) created afresh, the helper emitted by the FIRST deferred
   callback only — is [gen] above on that package alone, printed.  [print_item] (the text of one method / of the
   helper) is a parameter.  Consequence for the pipeline theorems: Props/C05.v C05_runtimedoc_fresh_per_package. ---- *)
Require Gengo.Model.Pipeline Gengo.Model.Generators Gengo.Proofs.GeneratorsPipe.
Module GN := Gengo.Model.Generators.

Theorem C16_is_pipeline_generator :
  forall fd fs desc print_item fuel (E : Gengo.Model.Pipeline.env) p,
    let g := GN.runtimedoc_gen fd fs desc print_item fuel in
    (forall t, In t (Gengo.Model.Pipeline.pk_types p) ->
       Gengo.Model.Pipeline.should_call E g p t = t_enabled (desc p t)) ->
    List.length (Gengo.Model.Pipeline.pk_types p) <= fuel ->
    Gengo.Model.Pipeline.go_out (Gengo.Model.Pipeline.gen_run E g p) = Gengo.Model.Pipeline.Done /\
    Gengo.Model.Pipeline.go_body (Gengo.Model.Pipeline.gen_run E g p)
      = GN.print_items print_item (gen fd fs (GN.rd_view desc p)) /\
    Gengo.Model.Pipeline.go_ignore (Gengo.Model.Pipeline.gen_run E g p) = false.
Proof. exact Gengo.Proofs.GeneratorsPipe.runtimedoc_gen_run. Qed.
Print Assumptions C16_is_pipeline_generator.

(* ---- one system, docs (Model/Tables.v, Props/Tables.v, notes/Tables.md): the doc lines this file's model takes
   "as Package.Doc returns them" are what C12's model of Package.Doc (Model/Comments.v) returns on a layout, and
   "enabled" is C06's rule on what C12 extracts.  [T.package_from_source evs G docs tpos fpos p]: the package p with
   every type's / field's doc lines read off the layout [evs] at the position of its name ([tpos] / [fpos]) and
   t_enabled := IsGeneratorEnabled(runtimedoc, Context.Doc(type)) computed from the source. ---- *)
Require Gengo.Model.Dispatch Gengo.Model.Comments Gengo.Spec.Comments Gengo.Model.Tables Gengo.Props.Tables.
From Coq Require ZArith.
Module T := Gengo.Model.Tables.
Module Cmt := Gengo.Model.Comments.
Module CSp := Gengo.Spec.Comments.

(* RuntimeDoc() of a covered type returns exactly doc_of name (non-tag lines of the stand-alone comment group ending
   on the line above the declaration) — all layouts satisfying C12's well-formedness, all receivers *)
Theorem C16_docs_from_source :
  forall evs G docs tpos fpos files leads p t d v,
    CSp.wf evs leads -> NoDup (map t_name p) -> In t p ->
    In d (CSp.decls_of evs) -> tpos (t_name t) = (Cmt.p_file (Cmt.d_pos d), Cmt.p_line (Cmt.d_pos d)) ->
    covered (T.ty_from_source evs G docs tpos fpos t) = true ->
    has_embed_ref (T.package_from_source evs G docs tpos fpos p) (t_name t) = false ->
    run files (gen true true (T.package_from_source evs G docs tpos fpos p)) v (t_name t) []
    = Ok (Some (doc_of (t_name t) (T.source_doc leads (Cmt.p_file (Cmt.d_pos d)) (Cmt.p_line (Cmt.d_pos d))))).
Proof. exact Gengo.Props.Tables.Tables_docs_from_source. Qed.
Print Assumptions C16_docs_from_source.

(* RuntimeDoc(f) of a listed field: the comment group above the field's declaration; side condition: no name on a
   continuation line (C12's known finding: in `A,` newline `B int` the field B gets no documentation) *)
Theorem C16_field_docs_from_source :
  forall evs G docs tpos fpos files leads p t fs f d l v rest,
    CSp.wf evs leads -> CSp.name_on_continuation_line evs = false ->
    NoDup (map t_name p) -> In t p -> covered (T.ty_from_source evs G docs tpos fpos t) = true ->
    t_kind t = TStruct fs -> NoDup (map f_name (filter listed fs)) -> In f fs -> listed f = true ->
    In d (CSp.decls_of evs) -> In l (Cmt.d_names d) -> fpos (t_name t) (f_name f) = (Cmt.p_file (Cmt.d_pos d), l) ->
    run files (gen true true (T.package_from_source evs G docs tpos fpos p)) v (t_name t) (f_name f :: rest)
    = Ok (Some (doc_of (f_name f) (T.source_doc leads (Cmt.p_file (Cmt.d_pos d)) (Cmt.p_line (Cmt.d_pos d))))).
Proof. exact Gengo.Props.Tables.Tables_field_docs_from_source. Qed.
Print Assumptions C16_field_docs_from_source.

(* "covered" in source terms: the runtimedoc rule on the comment lines, exported, not an interface, a struct only
   with an exported field *)
Theorem C16_covered_from_source :
  forall evs G docs tpos fpos leads t d,
    NoDup (Dispatch.keys G) -> CSp.wf evs leads -> In d (CSp.decls_of evs) ->
    tpos (t_name t) = (Cmt.p_file (Cmt.d_pos d), Cmt.p_line (Cmt.d_pos d)) ->
    covered (T.ty_from_source evs G docs tpos fpos t)
    = T.source_rule (bs "runtimedoc") G (map Cmt.split_nl docs)
                    (CSp.doc_lines_above leads (Cmt.p_file (Cmt.d_pos d)) (Cmt.p_line (Cmt.d_pos d)))
      && t_exported t
      && match t_kind t with
         | TInterface => false
         | TStruct fs => has_expose fs
         | TOther => true
         end.
Proof. exact Gengo.Props.Tables.Tables_covered_from_source. Qed.
Print Assumptions C16_covered_from_source.
