(* C17 — deepcopy output compiles and copies without sharing containers.

   Statements only; proofs are in Proofs/DeepCopy.v (generator), Proofs/DeepCopySem.v (heap semantics of the
   generated statements) and Proofs/DeepCopyTop.v (composition, witnesses).  [all_fixed] is the generator with
   fixes/C17-*.diff applied, [no_fix] the generator before them.

   Vocabulary: [dom G] = the type graph is one a Go type checker accepts and lies in the property's domain
   (field names distinct, named field types declared, hand-written methods and foreign named types carry no
   DeepCopy/DeepCopyInto with a non-pointer shape); [ranked G r] = struct-by-value nesting is well founded (Go
   rejects `invalid recursive type`); [vis] = the methods a later run sees in the file an earlier run wrote;
   [wt G h t v] = value v in heap h has type t; [snapshot h v] = v with every slice/map read out of the heap
   (deep equality = equal snapshots); [locs v] = the slice/map cells reachable from v; [write h a c] = any
   mutation of cell a (append within capacity, index assignment, map insert/delete). *)
Require Import Gengo.Base.Bytes Gengo.Model.DeepCopy.
Require Import Gengo.Proofs.DeepCopy Gengo.Proofs.DeepCopySem Gengo.Proofs.DeepCopyTop.

(* ---- "is the same on the first and on later runs" ---- *)

(* whatever an earlier run left behind, the generator writes what it writes into an empty package *)
Theorem C17_independent_of_previous_output : forall G vis fuel order,
  vis_ok G vis -> gen_deepcopy fuel all_fixed G order vis = gen_deepcopy fuel all_fixed G order [].
Proof. exact gen_deepcopy_vis. Qed.
Print Assumptions C17_independent_of_previous_output.

(* run k+1 reads the file of run k; every run reproduces the first one *)
Theorem C17_same_on_rerun : forall fuel G order ms,
  run fuel all_fixed G order 0 = Ok ms -> forall k, run fuel all_fixed G order k = Ok ms.
Proof. exact run_same. Qed.
Print Assumptions C17_same_on_rerun.

(* ---- the generator returns: no nil dereference, no aborted dependency chain, bounded nesting ---- *)

Theorem C17_field_stmt_total : forall G vis f t,
  exists s dep, field_stmt all_fixed G vis f t = Ok (s, dep).
Proof. exact field_stmt_fixed_ok. Qed.
Print Assumptions C17_field_stmt_total.

Theorem C17_generator_total : forall G r, ranked G r ->
  forall order, exists n, forall fuel, n <= fuel -> forall vis,
    exists ms, gen_deepcopy fuel all_fixed G order vis = Ok ms.
Proof. exact gen_deepcopy_total. Qed.
Print Assumptions C17_generator_total.

(* ---- "compiles", at the level of the model: every call in a generated body resolves to a generated method
        of the right receiver kind, every enabled type has its methods, no method is declared twice,
        DeepCopyObject has the receiver its DeepCopy returns ---- *)

Theorem C17_well_formed : forall G fuel order vis ms,
  dom G -> vis_ok G vis -> gen_deepcopy fuel all_fixed G order vis = Ok ms -> well_formed G order ms.
Proof. exact gen_well_formed. Qed.
Print Assumptions C17_well_formed.

Theorem C17_every_run_well_formed : forall G fuel order k ms,
  dom G -> run fuel all_fixed G order k = Ok ms -> well_formed G order ms.
Proof. exact every_run_well_formed. Qed.
Print Assumptions C17_every_run_well_formed.

(* ---- DeepCopy of nil is nil (pointer receivers and map types) ----
   Stated on the METHOD BODY: [deep_copy] / [deep_copy_map] (Model/DeepCopy.v) look the declared DeepCopy method of the
   type up in the generated file [ms] and execute its statements ([copy_body]: nil guard; out := new(T) / make(T);
   in.DeepCopyInto(out); return out — the fixed text of the templates deepcopy.go:80-88, 91-99, 131-140) on a receiver
   that may be nil.  What ties [copy_body] to the code: the harness abstracts a generated function to MPtrCopy /
   MMapCopy only if its text is exactly this statement list (parse.go rePtrCopy / reMapCopy), on every run. *)

Theorem C17_nil : forall fuel G ms n h,
  (has_ptr_copy ms n = true -> deep_copy fuel G ms n None h = Ok (None, h)) /\
  (has_map_methods ms n = true -> deep_copy_map ms n (VMap None) h = Ok (VMap None, h)).
Proof. exact nil_copy. Qed.
Print Assumptions C17_nil.

(* ... for every enabled struct, scalar and map type of a generated file *)
Theorem C17_nil_generated : forall G order fuel vis ms,
  dom G -> vis_ok G vis -> gen_deepcopy fuel all_fixed G order vis = Ok ms ->
  forall n d h fuel',
    In n order -> lookup G n = Some d -> enabled G d = true ->
    ((d_kind d = DScalar \/ exists tp fs, d_kind d = DStruct tp fs) -> deep_copy fuel' G ms n None h = Ok (None, h)) /\
    (forall k e, d_kind d = DMap k e -> deep_copy_map ms n (VMap None) h = Ok (VMap None, h)).
Proof. exact nil_copy_generated. Qed.
Print Assumptions C17_nil_generated.

(* it is the guard statement that gives nil: the same bodies without it do not (nil dereference inside DeepCopyInto, a
   non-nil pointer, a non-nil empty map), and a type without a declared DeepCopy has no result *)
Theorem C17_nil_needs_the_guard : forall into h r,
  (run_ptr_copy into None [CNew; CCallInto; CReturnOut] OUndeclared h <> Ok r /\
   run_ptr_copy into None [CNew; CReturnOut] OUndeclared h <> Ok (None, h)) /\
  run_map_copy true None [CMake; CCallInto; CReturnOut] None h = Ok (VMap (Some (List.length h)), h ++ [CMap []]) /\
  (forall fuel G ms n p, has_ptr_copy ms n = false -> deep_copy fuel G ms n p h = Panic).
Proof.
  exact (fun into h r => conj (nil_guard_needed into h r) (conj (map_nil_guard_needed h)
           (fun fuel G ms n p => deep_copy_undeclared fuel G ms n p h))).
Qed.
Print Assumptions C17_nil_needs_the_guard.

(* on a non-nil receiver the executed body is [exec_copy] / [exec_copy_map], which the copy theorems below are about *)
Theorem C17_deep_copy_is_method_body : forall fuel G ms n,
  (forall v h, deep_copy fuel G ms n (Some v) h = let! (v', h') := exec_copy fuel G ms n v h in Ok (Some v', h')) /\
  (forall l h, has_map_methods ms n = true -> cell_is_map h l ->
               deep_copy_map ms n (VMap l) h = exec_copy_map ms n (VMap l) h).
Proof. exact deep_copy_is_method_body. Qed.
Print Assumptions C17_deep_copy_is_method_body.

(* ---- a copy is deeply equal to its original, all its containers are fresh, and therefore no write through
        any slice or map of the copy, at any struct nesting depth, changes the original ---- *)

Theorem C17_copy_equal_fresh_unshared : forall G order fuel vis ms,
  dom G -> vis_ok G vis -> gen_deepcopy fuel all_fixed G order vis = Ok ms ->
  forall n d args v h,
    In n order -> lookup G n = Some d -> enabled G d = true ->
    (d_kind d = DScalar \/ exists tp fs, d_kind d = DStruct tp fs) ->
    wt G h (FNamed n args) v ->
    forall fuel', vdepth v < fuel' ->
    exists v' t,
      exec_copy fuel' G ms n v h = Ok (v', h ++ t) /\
      snapshot (h ++ t) v' = snapshot h v /\
      (forall a, In a (locs v') -> List.length h <= a < List.length (h ++ t)) /\
      (forall a c, In a (locs v') -> snapshot (write (h ++ t) a c) v = snapshot h v).
Proof. exact copy_correct. Qed.
Print Assumptions C17_copy_equal_fresh_unshared.

Theorem C17_map_copy_equal_fresh_unshared : forall G order fuel vis ms,
  dom G -> vis_ok G vis -> gen_deepcopy fuel all_fixed G order vis = Ok ms ->
  forall n d k e args v h,
    In n order -> lookup G n = Some d -> enabled G d = true -> d_kind d = DMap k e ->
    wt G h (FNamed n args) v ->
    exists v' t,
      exec_copy_map ms n v h = Ok (v', h ++ t) /\
      snapshot (h ++ t) v' = snapshot h v /\
      (forall a, In a (locs v') -> List.length h <= a < List.length (h ++ t)) /\
      (forall a c, In a (locs v') -> snapshot (write (h ++ t) a c) v = snapshot h v).
Proof. exact copy_map_correct. Qed.
Print Assumptions C17_map_copy_equal_fresh_unshared.

(* ---- the hypotheses are decidable, and are evaluated on every generated case (Corr/C17.v) ---- *)

Theorem C17_dom_checker_sound : forall G, dom_b G = true -> dom G.
Proof. exact dom_b_sound. Qed.
Print Assumptions C17_dom_checker_sound.

Theorem C17_rank_checker_sound : forall G r, ranked_b G r = true -> ranked G r.
Proof. exact ranked_b_sound. Qed.
Print Assumptions C17_rank_checker_sound.

(* ---- before the repairs (the witnesses the check found on the unrepaired code) ---- *)

Theorem C17_error_field_refuted_before_fix : forall G vis f,
  field_stmt no_fix G vis f FError = Panic.
Proof. exact field_stmt_unfixed_error_panics. Qed.
Print Assumptions C17_error_field_refuted_before_fix.

Theorem C17_total_refuted_before_fix : gen_deepcopy 8 no_fix w_error [bs "S"] [] = Panic.
Proof. exact before_fix_error_crash. Qed.
Print Assumptions C17_total_refuted_before_fix.

Theorem C17_same_on_rerun_refuted_before_fix :
  run 8 no_fix w_map [bs "M"; bs "S"] 0 <> run 8 no_fix w_map [bs "M"; bs "S"] 1.
Proof. exact before_fix_named_map_rerun. Qed.
Print Assumptions C17_same_on_rerun_refuted_before_fix.

Theorem C17_well_formed_refuted_before_fix_untagged_dependency :
  exists ms, gen_deepcopy 8 no_fix w_dep [bs "Dep"; bs "Root"] [] = Ok ms /\
             find_into ms (bs "Root") = Some [SCallInto (bs "D")] /\ find_into ms (bs "Dep") = None.
Proof. exact before_fix_untagged_dependency. Qed.
Print Assumptions C17_well_formed_refuted_before_fix_untagged_dependency.

Theorem C17_well_formed_refuted_before_fix_generic_twice :
  exists ms, gen_deepcopy 8 no_fix w_generic [bs "Box"; bs "Root"] [] = Ok ms /\ ~ NoDup (map method_id ms).
Proof. exact before_fix_generic_twice. Qed.
Print Assumptions C17_well_formed_refuted_before_fix_generic_twice.

Theorem C17_well_formed_refuted_before_fix_interface_field :
  exists ms, gen_deepcopy 8 no_fix w_iface [bs "NI"; bs "Root"] [] = Ok ms /\
             find_into ms (bs "Root") = Some [SCallInto (bs "I"); SCopySlice (bs "S") (bs "[]string")] /\
             find_into ms (bs "NI") = None.
Proof. exact before_fix_interface_field. Qed.
Print Assumptions C17_well_formed_refuted_before_fix_interface_field.

Theorem C17_well_formed_refuted_before_fix_map_object :
  exists ms, gen_deepcopy 8 no_fix w_mapobj [bs "M"; bs "Object"] [] = Ok ms /\
             In (MObject (bs "M") [] (bs "Object") true) ms.
Proof. exact before_fix_map_object_receiver. Qed.
Print Assumptions C17_well_formed_refuted_before_fix_map_object.

(* A blank field (`_ int`).  The model's Frag has no clause for the blank identifier: like the Go loop before
   fixes/C17-blank-field.diff it emits a statement for every field it is given, `out._ = in._` for a blank one - a
   selector Go does not accept.  The repaired loop skips exactly that name; the correspondence harness presents a struct
   to the model WITHOUT its blank fields (they hold no value: always zero, ignored by ==), so that the model of the
   repaired code on `S{A []int; _ int}` is the model on `S{A []int}`, and the observed `out._ = in._` of the unrepaired
   code equals no model statement. *)
Theorem C17_blank_field_statement_before_fix : forall fx G vis,
  fields_copy fx G vis [(bs "A", FSlice (EBasic (bs "int"))); (bs "_", FBasic (bs "int"))]
  = Ok ([SCopySlice (bs "A") (bs "[]int"); SAssign (bs "_")], []).
Proof. intros. reflexivity. Qed.
Print Assumptions C17_blank_field_statement_before_fix.

(* ---- known finding type_argument_with_containers: C17_copy_equal_fresh_unshared is PARTIAL through its hypothesis
        [wt] - the value of a bare type-parameter field is a scalar, i.e. no type argument of an instantiation is, or
        by value contains, a slice or map.  Outside that guard the sentence is false for the repaired generator:
        Page[T]{Item T}, Root{L Page[Labels]}, Labels a map type - the graph satisfies dom, Page's method assigns Item,
        the copy is deeply equal but reaches the original's cell, and a write through it changes the original ---- *)

Theorem C17_unshared_refuted_type_argument_with_containers :
  dom_b w_tparg = true /\
  exists ms v',
    gen_deepcopy 8 all_fixed w_tparg [bs "Labels"; bs "Page"; bs "Root"] [] = Ok ms /\
    find_into ms (bs "Page") = Some [SAssign (bs "Item")] /\
    exec_copy 4 w_tparg ms (bs "Root") w_tparg_value w_tparg_heap = Ok (v', w_tparg_heap) /\
    snapshot w_tparg_heap v' = snapshot w_tparg_heap w_tparg_value /\
    locs v' = [0] /\
    snapshot (write w_tparg_heap 0 (CMap [])) w_tparg_value <> snapshot w_tparg_heap w_tparg_value.
Proof. exact type_argument_map_shared. Qed.
Print Assumptions C17_unshared_refuted_type_argument_with_containers.

(* ---- non-vacuity: a type graph with an untagged dependency, a generic struct and a field of its
        instantiation, a named map, a named scalar, a named interface, an error field and the interfaces tag
        satisfies every hypothesis; the theorems' conclusions, computed ---- *)

Example C17_ex_hypotheses :
  dom_b w_all = true /\ ranked_b w_all w_all_rank = true /\
  (exists ms, gen_deepcopy 8 all_fixed w_all w_all_order [] = Ok ms /\ List.length ms = 11).
Proof. split; [vm_compute; reflexivity|]. split; [vm_compute; reflexivity|]. eexists. split; vm_compute; reflexivity. Qed.

Example C17_ex_rerun :
  run 8 all_fixed w_all w_all_order 2 = run 8 all_fixed w_all w_all_order 0 /\
  run 8 all_fixed w_map [bs "M"; bs "S"] 1 = run 8 all_fixed w_map [bs "M"; bs "S"] 0.
Proof. split; vm_compute; reflexivity. Qed.

Example C17_ex_value_typed : wt w_all w_heap (FNamed (bs "Root") []) w_value.
Proof. vm_compute. repeat split; eauto. Qed.

Example C17_ex_nil :
  match gen_deepcopy 8 all_fixed w_all w_all_order [] with
  | Ok ms =>
      find_ptr_copy ms (bs "Root") = Some [CNilGuard; CNew; CCallInto; CReturnOut] /\
      deep_copy 4 w_all ms (bs "Root") None w_heap = Ok (None, w_heap) /\
      (exists v' h', deep_copy 4 w_all ms (bs "Root") (Some w_value) w_heap = Ok (Some v', h') /\
                     snapshot h' v' = snapshot w_heap w_value)
  | _ => False
  end.
Proof. vm_compute. split; [reflexivity|]. split; [reflexivity|]. eexists. eexists. split; reflexivity. Qed.

Example C17_ex_copy :
  match gen_deepcopy 8 all_fixed w_all w_all_order [] with
  | Ok ms =>
      match exec_copy 4 w_all ms (bs "Root") w_value w_heap with
      | Ok (v', h') =>
          snapshot h' v' = snapshot w_heap w_value /\ locs v' = [4; 5; 6; 7] /\ List.length h' = 8 /\
          snapshot (write h' 5 (CMap [])) w_value = snapshot w_heap w_value
      | _ => False
      end
  | _ => False
  end.
Proof. vm_compute. repeat split. Qed.

(* ================================================================================================================
   The copy-field helper (copy_fields.go) is also modelled by C18 (Model/GenPartialStruct.v: partialstruct passes its
   own method names and the Skip / FieldContext callbacks).  Through the adapter of Model/Generators.v the two models
   select the same statement on their common domain, so the heap-level theorems above are theorems about the
   DeepCopyAs / DeepCopyIntoAs bodies that partialstruct generates (full statements and side conditions: Props/C18.v,
   Copy_c17_is_c18_field_stmt ... C18_copy_unshared_plain).
   ================================================================================================================ *)
Require Gengo.Model.GenPartialStruct Gengo.Model.Generators Gengo.Proofs.Generators.
Module GN := Gengo.Model.Generators.
Module PS := Gengo.Model.GenPartialStruct.

Theorem C17_field_stmt_is_c18 : forall L target c, PS.fx_errnil c = true ->
  forall G f ft,
    GN.fty17 L target c (PS.f_ty f) = Some ft ->
    GN.agrees target G (PS.f_ty f) ->
    exists s18 i s17 dep,
      PS.field_stmt L target c false f = PS.GOk s18 i /\
      field_stmt all_fixed G [] (PS.f_name f) ft = Ok (s17, dep) /\
      GN.stmt17 s18 = s17.
Proof. exact Gengo.Proofs.Generators.field_stmt_agree. Qed.
Print Assumptions C17_field_stmt_is_c18.

(* copy equal / fresh / unshared for the body generated by the OTHER user of the helper *)
Theorem C17_copy_theorems_cover_partialstruct : forall L target c, PS.fx_errnil c = true ->
  forall ti g i fs G ms rec bound cfs d tp,
    PS.generate_type L target c ti = PS.TGen g i ->
    PS.ti_under ti = Some fs ->
    GN.fields17 L target c (PS.replace_map (PS.ti_replace ti) []) (filter (GN.keep (PS.ti_omit ti)) fs) = Some cfs ->
    (forall f, In f fs -> GN.keep (PS.ti_omit ti) f = true ->
               GN.agrees_field target G (PS.replace_map (PS.ti_replace ti) []) f) ->
    dom G ->
    lookup G (PS.g_name g) = Some d -> d_kind d = DStruct tp cfs ->
    rec_spec G ms rec bound ->
    Gengo.Proofs.Generators.callees_as_ok G ms cfs ->
    forall h,
      GN.deep_copy_as_heap rec G ms g None h = Ok (None, h) /\
      forall fin, wt_fields G h cfs fin -> depth_fields fin < bound ->
        exists fout t,
          GN.deep_copy_as_heap rec G ms g (Some fin) h = Ok (Some (VStruct fout), h ++ t) /\
          snapshot (h ++ t) (VStruct fout) = snapshot h (VStruct fin) /\
          (forall a, In a (locs (VStruct fout)) -> List.length h <= a < List.length (h ++ t)) /\
          (forall a cell, In a (locs (VStruct fout)) ->
             snapshot (write (h ++ t) a cell) (VStruct fin) = snapshot h (VStruct fin)).
Proof. exact Gengo.Proofs.Generators.copy_as_transfer. Qed.
Print Assumptions C17_copy_theorems_cover_partialstruct.

(* ---- deepcopy as an instance of the pipeline's abstract generator (Model/Generators.v): gengo.Execute's per-package
   loop over the sorted, dispatched types with the state g.processed kept between the calls is [gen_deepcopy] of this
   file on that package alone, from the empty processed set, printed ([print_method]: the text of the templates, a
   parameter).  A panic / unbounded recursion of the model is a call that never returns.  Consequences: Props/C05.v
   (C05_deepcopy_fresh_per_package), Props/C04.v (C04_fixed_point_with_deepcopy). ---- *)
Require Gengo.Model.Pipeline Gengo.Proofs.GeneratorsPipe.

Theorem C17_is_pipeline_generator :
  forall fx graph vis print_method fuel (E : Gengo.Model.Pipeline.env) p,
    let g := GN.deepcopy_gen fx graph vis print_method fuel in
    let called := Gengo.Proofs.GeneratorsPipe.called fx graph vis print_method fuel E p in
    (forall t, In t called ->
       exists d, lookup (graph p) (Gengo.Model.Pipeline.ty_name t) = Some d /\ enabled (graph p) d = true) ->
    match gen_deepcopy fuel fx (graph p) (map Gengo.Model.Pipeline.ty_name called) (vis p) with
    | Ok ms => Gengo.Model.Pipeline.go_out (Gengo.Model.Pipeline.gen_run E g p) = Gengo.Model.Pipeline.Done /\
               Gengo.Model.Pipeline.go_body (Gengo.Model.Pipeline.gen_run E g p) = GN.print_methods print_method ms /\
               Gengo.Model.Pipeline.go_ignore (Gengo.Model.Pipeline.gen_run E g p) = false
    | _ => Gengo.Model.Pipeline.go_out (Gengo.Model.Pipeline.gen_run E g p) = Gengo.Model.Pipeline.Died
    end.
Proof. exact Gengo.Proofs.GeneratorsPipe.deepcopy_gen_run. Qed.
Print Assumptions C17_is_pipeline_generator.
