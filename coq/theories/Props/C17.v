(* C17 — deepcopy output compiles and copies without sharing containers.
   Statements only; proofs are in Proofs/DeepCopy.v. *)
Require Import Gengo.Base.Bytes Gengo.Model.DeepCopy Gengo.Proofs.DeepCopy.

(* the statement chosen for a field is defined for every field type (repaired code): no nil dereference *)
Theorem C17_field_stmt_total : forall G vis f t,
  exists s dep, field_stmt all_fixed G vis f t = Ok (s, dep).
Proof. exact field_stmt_fixed_ok. Qed.
Print Assumptions C17_field_stmt_total.

(* before the repair: a field of type error dereferences a nil package *)
Theorem C17_error_field_refuted_before_fix : forall G vis f,
  field_stmt no_fix G vis f FError = Panic.
Proof. exact field_stmt_unfixed_error_panics. Qed.
Print Assumptions C17_error_field_refuted_before_fix.
