(* C01 — Every file gengo writes is valid, canonically formatted Go for its package.
   Statements only; every proof is [exact <lemma>].

   Level: PROOF, PARTIAL.  Proved for all inputs: what WriteToFile assembles and hands to the formatter
   (header, package clause, import block, body), that the repaired formatting loop returns a gofumpt fixed
   point whenever it ends by its equality test, and the composition [C01_written].  ASSUMED in
   [C01_written] (hypotheses H0, H1, H2a, H2b about go/parser, go/printer, go/format and gofumpt — about
   15k lines of Go that are not modelled) and TESTED on every generated case by the correspondence harness. *)
Require Import Gengo.Base.Bytes Gengo.Model.GenFile Gengo.Proofs.GenFile Gengo.Proofs.GenFileWitness
  Gengo.Proofs.GenFileToyWitness.
From Coq Require Import Permutation Sorted.

(* The source handed to the formatter opens with a general comment — by Go's lexical rule the text from the
   leading "/*" to the first "*/" — and that comment is exactly the header gengo wrote, which names the
   generator.  For every package name and generator name without '/' (a name with '/' cannot be a package
   name, and as a generator name it makes the destination path point into a directory that does not exist). *)
Theorem C01_header :
  forall pkg gen m body,
    no_slash pkg = true -> no_slash gen = true ->
    lead_comment (assemble pkg gen m body) = Some (header_comment pkg gen)
    /\ infix (bs "gengo:" ++ gen) (header_comment pkg gen).
Proof. exact header_claim. Qed.
Print Assumptions C01_header.

(* Right after that comment comes a newline and the package clause of the target package's own name; then the
   import block; then the body, verbatim, and nothing after it. *)
Theorem C01_package :
  forall pkg gen m body,
    assemble pkg gen m body
    = header_comment pkg gen ++ ([nl] ++ bs "package " ++ pkg ++ [nl]) ++ import_block m ++ body.
Proof. exact assemble_shape. Qed.
Print Assumptions C01_package.

(* The import block: absent when nothing was referenced; otherwise one line  <tab>name "path"  per entry of the
   tracker's table — exactly its entries, nothing else — sorted by path in Go's string order. *)
Theorem C01_imports :
  import_block [] = []
  /\ forall m, m <> [] -> NoDup (map fst m) ->
     exists entries,
       Permutation entries m /\ StronglySorted le (map fst entries) /\
       import_block m
       = nl :: bs "import (" ++ [nl]
         ++ flat_map (fun e => tab :: snd e ++ bs " " ++ [dquote] ++ fst e ++ [dquote; nl]) entries
         ++ bs ")" ++ [nl].
Proof. exact imports_claim. Qed.
Print Assumptions C01_imports.

(* ... whatever order Go's map iteration delivers the table in. *)
Theorem C01_imports_order_independent :
  forall m m', NoDup (map fst m) -> Permutation m m' -> import_block m = import_block m'.
Proof. exact import_block_perm. Qed.
Print Assumptions C01_imports_order_independent.

(* The body is the concatenation of the fragments of all Render calls in call order (GenerateType calls, then
   deferred callbacks): rendering more appends; nil snippets and snippets whose IsNil() holds write nothing;
   a script of Blocks leaves exactly the blocks' texts, in order. *)
Theorem C01_body :
  (forall a b, body_of (a ++ b) = body_of a ++ body_of b)
  /\ (forall s, is_nil_snip s = true -> render s = [])
  /\ (forall bl, body_of (map SBlock bl) = concat bl)
  /\ (forall pkg gen m l, exists pre, assemble pkg gen m (body_of l) = pre ++ concat (render_all l)).
Proof. exact body_claim. Qed.
Print Assumptions C01_body.

(* The repaired formatting loop, with no assumption at all about the formatter: what it returns is a fixed
   point of the function it iterates, unless it used up all its rounds (then it returns the last iterate). *)
Theorem C01_formatting_loop :
  forall (fmt2 : bytes -> option bytes) n s out,
    settle fmt2 n s = Some out -> fmt2 out = Some out \/ iter fmt2 n s = Some out.
Proof. exact settle_stable_or_exhausted. Qed.
Print Assumptions C01_formatting_loop.

(* ... and it does return a fixed point as soon as some iterate before the last round is one. *)
Theorem C01_formatting_loop_converges :
  forall (fmt2 : bytes -> option bytes) n s k q,
    k < n -> iter fmt2 k s = Some q -> fmt2 q = Some q ->
    exists out, settle fmt2 n s = Some out /\ fmt2 out = Some out.
Proof. exact settle_converges. Qed.
Print Assumptions C01_formatting_loop_converges.

(* THE PROPERTY.  For every formatter stack satisfying H0, H1, H2a, H2b (Proofs/GenFile.v, section Claim;
   assumed, and tested on every case), every order in which the retained genfiles are written, every previous
   state of the directory: if the write loop of pkgExecute ends without error, then every generator that
   rendered something has its file <base>.<gen>.go on disk, and that file
     - parses;
     - opens with a comment naming the generator (for sources outside the known-finding class
       build_constraint_in_body);
     - declares the target package's own name;
       (both for package names that are Go identifiers and generator names over [A-Za-z0-9_.:-]: names with
       ' ' or '=' cannot be enabled by a tag, names with '/' have no destination)
     - has the declarations of the assembled source (whose body is what was rendered, C01_body), in order,
       modulo formatting;
     - is a fixed point of gofmt and of gofumpt (fmt2 IS gofumpt with the module's language version). *)
(* WHAT IS ASSUMED, conjunct by conjunct: "parses", "package", "declarations" and the survival of the header words are
   H1 (with H0) applied to the one call of the formatter that produced the file, and "gofmt fixed point" is H2a applied
   to it — these four conjuncts RESTATE hypotheses about the unmodelled Go formatter stack for the file at hand; "gofumpt
   fixed point" is PROVED when the loop ends by its equality test (C01_formatting_loop) and rests on H2b only when all
   5 rounds were used.  What the theorem itself proves is the composition: that the file on disk is the output of that
   one call on the assembled source (write loop, any order, any previous directory), so that the hypotheses apply. *)
Theorem C01_written :
  forall (fmt1 fmt2 gofmt : bytes -> option bytes) (go_parses : bytes -> bool)
         (go_pkg : bytes -> option bytes) (go_decls : bool -> bytes -> option (list bytes)),
    H0 fmt1 go_pkg -> H1 fmt1 fmt2 go_parses go_pkg go_decls -> H2a fmt2 gofmt -> H2b fmt1 fmt2 ->
    forall base pkg gfs fs fs',
      NoDup (map gf_name gfs) ->
      write_all fmt1 fmt2 true base pkg gfs fs = Some fs' ->
      forall g, In g gfs -> body_of (gf_snips g) <> [] ->
        let src := assemble pkg (gf_name g) (gf_imports g) (body_of (gf_snips g)) in
        exists out,
          fs_get fs' (filename base (gf_name g)) = Some out
          /\ go_parses out = true
          /\ (ident pkg = true -> plain (gf_name g) = true -> mentions_build src = false ->
              exists c, lead_comment out = Some c /\ infix (bs "gengo:" ++ gf_name g) c)
          /\ (ident pkg = true -> plain (gf_name g) = true -> go_pkg out = Some pkg)
          /\ (forall b, go_decls b out = go_decls b src)
          /\ gofmt out = Some out
          /\ fmt2 out = Some out.
Proof. exact written_ok. Qed.
Print Assumptions C01_written.

(* History (DESIGN.md section 4 #32): WriteToFile as it was — gofumpt's AST pass once, then print — wrote a
   file gofumpt still changes; the repaired code writes one it leaves alone.  Stated on the recorded behaviour
   of the real formatter on the witness (Proofs/GenFileWitness.v; re-observed by corpus case
   gofumpt-not-fixed-point on every run). *)
Theorem C01_gofumpt_fixed_point_refuted_before_fix :
  write_file w1_fmt1 w1_fmt2 false (bs "zz_generated") (bs "p") w1_gen = WWrite (bs "zz_generated.x.go") w1_printed
  /\ w1_fmt2 w1_printed <> Some w1_printed
  /\ write_file w1_fmt1 w1_fmt2 true (bs "zz_generated") (bs "p") w1_gen = WWrite (bs "zz_generated.x.go") w1_s1
  /\ w1_fmt2 w1_s1 = Some w1_s1.
Proof. exact before_fix_not_a_gofumpt_fixed_point. Qed.
Print Assumptions C01_gofumpt_fixed_point_refuted_before_fix.

(* Why the repair is a loop and not one more pass (corpus case gofumpt-needs-three-rounds). *)
Theorem C01_one_more_pass_is_not_enough :
  fmt_src w2_fmt1 w2_fmt2 true (assemble (bs "p") (bs "x") [] (body_of w2_snips)) = Some w2_s2
  /\ w2_fmt2 w2_s2 = Some w2_s2
  /\ w2_fmt2 w2_printed = Some w2_s1 /\ w2_fmt2 w2_s1 <> Some w2_s1.
Proof. exact one_more_pass_is_not_enough. Qed.
Print Assumptions C01_one_more_pass_is_not_enough.

(* ---- non-vacuity ---- *)

(* a concrete assembly: two imports delivered in "wrong" order, a block, a nil snippet, a comment, a directive *)
Example C01_example_assemble :
  to_string (assemble (bs "p") (bs "deepcopy")
      [(bs "net/http", bs "http"); (bs "bytes", bs "bytes")]
      (body_of [SBlock (bs "var b bytes.Buffer"); SNil; SBlock [nl]; SComment (bs "two" ++ [nl] ++ bs "lines"); SBlock [nl];
                SDirective (bs "noinline") [[]; bs "x"]; SBlock [nl]; SBlock (bs "func f(c http.Client) {}")]))
  = ("/*" ++ String nl "Package p GENERATED BY gengo:deepcopy " ++ String nl "DON'T EDIT THIS FILE" ++ String nl "*/"
     ++ String nl "package p" ++ String nl (String nl "import (" ++ String nl (String tab "bytes ""bytes""")
     ++ String nl (String tab "http ""net/http""") ++ String nl ")" ++ String nl "var b bytes.Buffer"
     ++ String nl "// two" ++ String nl "// lines" ++ String nl "//go:noinline x" ++ String nl "func f(c http.Client) {}"))%string.
Proof. vm_compute. reflexivity. Qed.

(* the hypotheses of C01_written are satisfiable together: the formatter that finds its input already
   canonical, with a Gallina reader of the package clause ... *)
Example C01_hypotheses_satisfiable :
  H0 id_fmt pkg_clause_of
  /\ H1 id_fmt id_fmt (fun _ => true) pkg_clause_of (fun _ _ => None)
  /\ H2a id_fmt id_fmt
  /\ H2b id_fmt id_fmt.
Proof. exact hypotheses_satisfiable. Qed.

(* ... and by a formatter stack that DOES something (Proofs/GenFileToyWitness.v): a toy language with a general
   comment, a package clause and balanced braces; fmt1 rejects what does not parse and strips trailing spaces, fmt2
   allows one blank line in a row, gofmt two; the declarations are the non-blank lines without their spaces.  The four
   hypotheses are proved for ALL inputs of these Gallina functions. *)
Example C01_hypotheses_satisfiable_nontrivially :
  H0 toy_fmt1 pkg_clause_of
  /\ H1 toy_fmt1 toy_fmt2 toy_parses pkg_clause_of toy_decls
  /\ H2a toy_fmt2 toy_gofmt
  /\ H2b toy_fmt1 toy_fmt2.
Proof. exact toy_hypotheses. Qed.
Print Assumptions C01_hypotheses_satisfiable_nontrivially.

(* ... this parser rejects (no comment; a package name that is no identifier; an unclosed brace; a brace closed before
   it is opened), the declaration reader answers None on what does not parse, and gofmt is strictly weaker than fmt2 *)
Example C01_toy_parser_rejects :
  toy_parses (bs ("package p" ++ lf)) = false
  /\ toy_parses (bs ("/**/" ++ lf ++ "package p-q" ++ lf)) = false
  /\ toy_parses (bs ("/**/" ++ lf ++ "package p" ++ lf ++ "func g() {" ++ lf)) = false
  /\ toy_parses (bs ("/**/" ++ lf ++ "package p" ++ lf ++ "}{" ++ lf)) = false
  /\ toy_parses (bs ("/**/" ++ lf ++ "package p" ++ lf ++ "func g() {}" ++ lf)) = true
  /\ toy_decls false (bs ("package p" ++ lf)) = None
  /\ (let s := bs ("/**/" ++ lf ++ "package p" ++ lf ++ "var a" ++ lf ++ lf ++ lf ++ "var b" ++ lf) in
      toy_gofmt s = Some s /\ toy_fmt2 s <> Some s).
Proof. exact toy_rejects. Qed.

(* C01_written INSTANTIATED with that stack (its four hypotheses discharged, nothing assumed) ... *)
Example C01_written_toy_instance :
  forall base pkg gfs fs fs',
    NoDup (map gf_name gfs) ->
    write_all toy_fmt1 toy_fmt2 true base pkg gfs fs = Some fs' ->
    forall g, In g gfs -> body_of (gf_snips g) <> [] ->
      let src := assemble pkg (gf_name g) (gf_imports g) (body_of (gf_snips g)) in
      exists out,
        fs_get fs' (filename base (gf_name g)) = Some out
        /\ toy_parses out = true
        /\ (ident pkg = true -> plain (gf_name g) = true -> mentions_build src = false ->
            exists c, lead_comment out = Some c /\ infix (bs "gengo:" ++ gf_name g) c)
        /\ (ident pkg = true -> plain (gf_name g) = true -> pkg_clause_of out = Some pkg)
        /\ (forall b, toy_decls b out = toy_decls b src)
        /\ toy_gofmt out = Some out
        /\ toy_fmt2 out = Some out.
Proof.
  exact (C01_written toy_fmt1 toy_fmt2 toy_gofmt toy_parses pkg_clause_of toy_decls
           (proj1 toy_hypotheses) (proj1 (proj2 toy_hypotheses)) (proj1 (proj2 (proj2 toy_hypotheses)))
           (proj2 (proj2 (proj2 toy_hypotheses)))).
Qed.
Print Assumptions C01_written_toy_instance.

(* ... and one run of the write loop through it, computed: generator "toy" (an import, lines ending in spaces, runs of
   blank lines, a comment) next to a generator that renders nothing, into a directory with a user file and a previous
   output.  The first stage changes the source, the second changes the first stage's output (two rounds of the loop),
   the file on disk is [toy_out], differs from the assembled source, and has every property C01_written lists. *)
Example C01_written_toy_run :
  exists fs',
    write_all toy_fmt1 toy_fmt2 true (bs "zz_generated") (bs "p") [toy_gen_none; toy_gen] toy_fs0 = Some fs'
    /\ fs_get fs' (bs "zz_generated.toy.go") = Some toy_out
    /\ fs_get fs' (bs "zz_generated.none.go") = None
    /\ fs_get fs' (bs "user.go") = Some (bs "package p")
    /\ toy_out <> toy_src
    /\ (exists printed, toy_fmt1 toy_src = Some printed /\ printed <> toy_src
                        /\ toy_fmt2 printed = Some toy_out /\ printed <> toy_out)
    /\ toy_parses toy_out = true
    /\ lead_comment toy_out = Some (header_comment (bs "p") (bs "toy"))
    /\ pkg_clause_of toy_out = Some (bs "p")
    /\ toy_decls false toy_src
       = Some [bs "import("; bs "	strings""strings"""; bs ")"; bs "funcf(){"; bs "	returnstrings.ToUpper(""x"")"; bs "}";
               bs "//two"; bs "//lines"; bs "varx=struct{}{}"]
    /\ toy_decls false toy_out = toy_decls false toy_src
    /\ toy_decls true toy_out
       = Some [bs "funcf(){"; bs "	returnstrings.ToUpper(""x"")"; bs "}"; bs "//two"; bs "//lines"; bs "varx=struct{}{}"]
    /\ toy_gofmt toy_out = Some toy_out
    /\ toy_fmt2 toy_out = Some toy_out.
Proof. exact toy_run. Qed.
Print Assumptions C01_written_toy_run.

(* the bytes of that file *)
Example C01_written_toy_bytes :
  toy_out =
  bs ("/*" ++ lf ++ "Package p GENERATED BY gengo:toy " ++ lf ++ "DON'T EDIT THIS FILE" ++ lf ++ "*/" ++ lf
      ++ "package p" ++ lf ++ lf
      ++ "import (" ++ lf ++ "	strings ""strings""" ++ lf ++ ")" ++ lf
      ++ "func f() {" ++ lf ++ lf ++ "	return strings.ToUpper(""x"")" ++ lf ++ "}" ++ lf
      ++ "// two" ++ lf ++ "// lines" ++ lf ++ lf
      ++ "var x = struct{}{}" ++ lf).
Proof. reflexivity. Qed.

(* a rendering the first stage REJECTS (an unclosed brace): it does not parse, WriteToFile returns the error before the
   destination is opened, the write loop stops — no file system is returned, whatever the order of the two files *)
Example C01_rejected_rendering_not_written :
  let src := assemble (bs "p") (bs "bad") [] (body_of (gf_snips toy_gen_bad)) in
  toy_parses src = false
  /\ toy_fmt1 src = None
  /\ write_file toy_fmt1 toy_fmt2 true (bs "zz_generated") (bs "p") toy_gen_bad = WErr
  /\ write_all toy_fmt1 toy_fmt2 true (bs "zz_generated") (bs "p") [toy_gen; toy_gen_bad] toy_fs0 = None
  /\ write_all toy_fmt1 toy_fmt2 true (bs "zz_generated") (bs "p") [toy_gen_bad; toy_gen] toy_fs0 = None.
Proof. exact toy_rejected_not_written. Qed.

(* ... and the write loop does write, on the recorded behaviour of the real formatter *)
Example C01_written_nonvacuous :
  exists fs', write_all w1_fmt1 w1_fmt2 true (bs "zz_generated") (bs "p") [w1_gen] [] = Some fs'
              /\ fs_get fs' (bs "zz_generated.x.go") = Some w1_s1
              /\ lead_comment w1_s1 <> None
              /\ body_of (gf_snips w1_gen) <> [].
Proof.
  exists [(bs "zz_generated.x.go", w1_s1)]. repeat split; try (vm_compute; reflexivity);
    vm_compute; intros H; discriminate H.
Qed.

(* ---- the composed system (Model/Whole.v, Props/Whole.v): this file's model and the pipeline model are one ----
   The pipeline model (C07 / C05 / C02) assembles and writes generated files too; its reading of genfile.go is the
   [imports = []] instance of this file's: same assembled source byte for byte, and with its formatter parameter
   instantiated by this file's (fmt1, then fmt2 until stable) the same decision for every WriteToFile. *)
Require Gengo.Model.Pipeline Gengo.Model.Whole Gengo.Proofs.WholeGenFile Gengo.Props.Whole.

Theorem C01_whole_pipeline_assemble_is_assemble :
  forall pkg gen body, Pipeline.assemble pkg gen body = assemble pkg gen [] body.
Proof. exact Gengo.Props.Whole.Whole_assemble_is_genfile_assemble. Qed.
Print Assumptions C01_whole_pipeline_assemble_is_assemble.

Theorem C01_whole_pipeline_write_is_write_file :
  forall (E : Pipeline.env) fmt1 fmt2, Pipeline.e_fmt E = Whole.genfile_fmt fmt1 fmt2 ->
  forall a p gf,
    write_file fmt1 fmt2 true (Pipeline.a_base a) (Pipeline.pk_name p) (Whole.genfile_of gf)
    = if is_nil (snd gf) then WNothing
      else match Pipeline.e_fmt E (Pipeline.assemble (Pipeline.pk_name p) (fst gf) (snd gf)) with
           | None => WErr
           | Some out => WWrite (Pipeline.fname a (fst gf)) out
           end.
Proof. exact Gengo.Props.Whole.Whole_write_file_is_genfile_write_file. Qed.
Print Assumptions C01_whole_pipeline_write_is_write_file.

(* ... and the write loops (context.go 223-231) leave the same package directory, or both fail *)
Theorem C01_whole_pipeline_write_loop_is_write_all :
  forall (E : Pipeline.env) fmt1 fmt2, Pipeline.e_fmt E = Whole.genfile_fmt fmt1 fmt2 ->
  forall a p gfs rem fsys s,
    WholeGenFile.dir_rel p fsys s ->
    match write_all fmt1 fmt2 true (Pipeline.a_base a) (Pipeline.pk_name p) (map Whole.genfile_of gfs) fsys,
          Pipeline.write_loop_fs E a p gfs rem s with
    | None, (_, _, Some (Pipeline.EParse _)) => True
    | Some fsys', (s', _, None) => WholeGenFile.dir_rel p fsys' s'
    | _, _ => False
    end.
Proof. exact Gengo.Props.Whole.Whole_write_loop_is_genfile_write_all. Qed.
Print Assumptions C01_whole_pipeline_write_loop_is_write_all.

(* ------------------------------------------------------------------------------------------------------------ *)
(* RenderStack: the body and the import table are no longer data.  [cfile] (Model/RenderStack.v) is [assemble] over
   the composed rendering of a generator's fragments — C09's scanners over C10's value literals and C11's / C15's
   type literals and references, all through ONE tracker of C03 that starts empty — and the import block is printed
   from the state that tracker ends in.  C03's sentence, on the source handed to the formatter, for ALL fragment lists:
   the block lists exactly the packages the rendered body refers to (none missing, none extra), each once, under
   pairwise distinct valid names, sorted by path; and every fragment of the body is what C09 renders when its leaves
   are printed against THAT table — each qualifier in the body is the name the block binds to the package. *)
Require Import Gengo.Model.RenderStack Gengo.Proofs.RenderStackTracker Gengo.Proofs.RenderStackLeaves Gengo.Proofs.RenderStack.
Require Gengo.Model.Snippet.

Theorem C01_file_imports :
  forall (F : Type) (fzero : F -> bool) (ffmt gfmt : VL.fkind -> F -> bytes) (fbig : F -> bool)
         (quote : bytes -> bytes) (cbq : bytes -> bool) (pre : list bytes) (std : option Tk.tracker)
         (self : bytes) (fx6 : bool) (pkg gen : bytes) (frags : list (@csnip F)) (body : bytes) (e' : TL.renv),
    crender_all fzero ffmt gfmt fbig quote cbq (pick_c03 pre std) self fx6 frags [] = Ok (body, e') ->
    cfile fzero ffmt gfmt fbig quote cbq pre std self fx6 pkg gen frags = Ok (assemble pkg gen e' body)
    /\ assemble pkg gen e' body
       = header_comment pkg gen ++ ([nl] ++ bs "package " ++ pkg ++ [nl]) ++ import_block e' ++ body
    /\ table_ok pre e'
    /\ (forall p, In p (map fst e') <-> In p (flat_map (cpkgs fzero ffmt gfmt fbig quote self fx6) frags))
    /\ (e' = [] -> import_block e' = [])
    /\ (e' <> [] ->
        exists entries,
          Permutation entries e' /\ StronglySorted le (map fst entries) /\
          import_block e'
          = nl :: bs "import (" ++ [nl]
            ++ flat_map (fun e => tab :: snd e ++ bs " " ++ [dquote] ++ fst e ++ [dquote; nl]) entries
            ++ bs ")" ++ [nl])
    /\ exists outs,
         Forall2 (fun s o => Gengo.Model.Snippet.render Gengo.Model.Snippet.all_fixed
                               (cerase fzero ffmt gfmt fbig quote cbq (pick_c03 pre std) self fx6 e' s) = Ok o) frags outs
         /\ body = concat outs.
Proof.
  exact (fun F fzero ffmt gfmt fbig quote cbq pre std self fx6 pkg gen frags body e' H =>
           conj (f_equal (fun r => let! (b, e) := r in Ok (assemble pkg gen e b)) H)
                (file_imports fzero ffmt gfmt fbig quote cbq pre std self fx6 pkg gen frags body e' H)).
Qed.
Print Assumptions C01_file_imports.
