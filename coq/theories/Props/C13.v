(* C13 — The loaded universe mirrors the type checker's view of each package.
   Statements only; every proof is [exact <lemma>].

   go/types and go/packages are input data of the model (Model/Universe.v): [defs] is the abstract
   list of objects in TypesInfo.Defs, in whatever order the map happens to be ranged over; the
   import graph is what packages.Load returned.  [all_fixed] is the code with the "fix:" commits
   of this property; the [_before_fix] theorems refute the same statements for the loop as it was. *)
Require Import Gengo.Base.Bytes Gengo.Model.Universe Gengo.Proofs.Universe Gengo.Proofs.UniverseWitness.
From Coq Require Import Permutation Sorting.Sorted.

(* ---- Types() / Constants() / Functions(), Type / Constant / Function(name) ---- *)

(* For EVERY order pi in which the loop visits Defs: looking a name up in a table gives exactly the
   package-scope object of that kind and name (None when there is none).  [unique_at] is the fact
   that a go/types scope holds one object per name; it fails only for functions named "init"
   (several init functions have the package scope as parent without being inserted in it). *)
Theorem C13_tables_exact :
  forall (defs pi : list obj) (k : okind) (n : bytes),
    Permutation pi defs -> unique_at defs k n ->
    lookup k n (fill_tables all_fixed pi) = spec_lookup k n defs.
Proof. exact tables_exact. Qed.
Print Assumptions C13_tables_exact.

(* hence the answer does not depend on the iteration order of the map *)
Theorem C13_tables_order_independent :
  forall (defs p1 p2 : list obj) (k : okind) (n : bytes),
    Permutation p1 defs -> Permutation p2 defs -> unique_at defs k n ->
    lookup k n (fill_tables all_fixed p1) = lookup k n (fill_tables all_fixed p2).
Proof. exact tables_order_independent. Qed.
Print Assumptions C13_tables_order_independent.

(* the key set of each table is exactly the set of names of package-scope objects of that kind,
   and the association list is a map (no key twice) — no uniqueness assumption, "init" included *)
Theorem C13_tables_keys :
  forall (defs pi : list obj) (k : okind) (n : bytes),
    Permutation pi defs ->
    (In n (map fst (table_of k (fill_tables all_fixed pi))) <-> exists o, In o defs /\ scope_obj k n o = true).
Proof. exact tables_keys. Qed.
Print Assumptions C13_tables_keys.

Theorem C13_tables_are_maps :
  forall (fx : fixes) (defs : list obj) (k : okind), NoDup (map fst (table_of k (fill_tables fx defs))).
Proof. exact tables_nodup. Qed.
Print Assumptions C13_tables_are_maps.

(* never a function-local declaration, a type parameter, a blank or a method: whatever the order,
   whatever the names *)
Theorem C13_tables_only_package_scope :
  forall (defs : list obj) (k : okind) (n : bytes) (x : N),
    lookup k n (fill_tables all_fixed defs) = Some x ->
    exists o, In o defs /\ o_id o = x /\ o_kind o = k /\ o_name o = n /\ o_pkg_scope o = true
              /\ (k = KFunc -> o_recv o = None).
Proof. exact tables_only_package_scope. Qed.
Print Assumptions C13_tables_only_package_scope.

(* ---- MethodsOf ---- *)

(* For every order pi and every *types.Named n — an instance of a generic type included, the key is
   n's origin —: MethodsOf(n, true) is a permutation of the methods declared on n's origin, and
   MethodsOf(n, false) of those among them whose (unaliased) receiver is not a pointer. *)
Theorem C13_methods :
  forall (defs pi : list obj) (n : nref),
    Permutation pi defs ->
    Permutation (methods_of all_fixed (fill_tables all_fixed pi) n true)
                (filter (declared_on (n_origin n)) defs)
    /\ Permutation (methods_of all_fixed (fill_tables all_fixed pi) n false)
                   (filter (fun o => declared_on (n_origin n) o && value_recv o) defs).
Proof. exact methods_exact. Qed.
Print Assumptions C13_methods.

(* ---- Imports() ---- *)

(* For every acyclic import graph (rank rk), closed under imports (NeedDeps), with distinct keys per
   import map, and roots listed dependencies-first (go list -deps order: strictly increasing rank):
   Load terminates with enough fuel, every root is in the universe, and for every package p of the
   universe and every import (path k -> package t) of p:  Imports()[k] is the very Package value that
   Universe.Package(t) returns, and that is not nil.  (k = t except for std's vendored imports.) *)
Theorem C13_imports :
  forall (g : graph) (rk : path -> nat),
    (forall p nd k t, g_find p g = Some nd -> In (k, t) (g_imports nd) -> rk t < rk p) ->
    (forall p nd k t, g_find p g = Some nd -> In (k, t) (g_imports nd) -> g_find t g <> None) ->
    (forall p nd, g_find p g = Some nd -> NoDup (map fst (g_imports nd))) ->
    forall roots,
      (forall r, In r roots -> g_find r g <> None) ->
      StronglySorted (fun a b => rk a < rk b) roots ->
      exists n, forall fuel, n <= fuel ->
        exists s, load all_fixed g fuel roots = Ok s
          /\ (forall r, In r roots -> universe_package s r <> None)
          /\ forall p nd k t, universe_package s p <> None -> g_find p g = Some nd -> In (k, t) (g_imports nd) ->
               imports_entry s p k = Some (universe_package s t) /\ universe_package s t <> None.
Proof.
  intros g rk H1 H2 H3 roots H4 H5.
  exact (imports_total g rk H1 H2 H3 all_fixed eq_refl eq_refl roots H4 H5).
Qed.
Print Assumptions C13_imports.

(* ---- SourceDir() / LocateInPackage ---- *)

(* for every implementation of filepath.Join: a package laid out as the go command lays packages
   out in their module reports the directory that holds its files (no slice panic).

   HOW TO READ IT.  The hypothesis [layout join p dir] IS the claim about the file system: it says that
   the directory holding p's files is  Module.Dir  when PkgPath = Module.Path and
   Join(Module.Dir, PkgPath[len(Module.Path):])  otherwise (Proofs/Universe.v, [layout]) — which is the
   expression SourceDir() evaluates.  Nothing in Coq relates [dir] to a real directory; that the go command
   lays packages out this way (no replace/vendor/overlay surprises) is ASSUMED here and only TESTED by the
   harness (SourceDir() against the directory of the files packages.Load reports, on every package of every
   case).  What the theorem itself contributes is small and is exactly this: under that layout the checked
   slice expression PkgPath[len(Module.Path):] is in range (no panic) and the two branches of SourceDir
   (the bytes_eqb test and the length test) select the right formula, for every [join].  It is a
   consistency lemma between the code and the stated layout, not a proof that SourceDir is right. *)
Theorem C13_source_dir :
  forall (join : bytes -> bytes -> bytes) (p : pinfo) (dir : bytes),
    pi_module p <> None -> layout join p dir -> source_dir join p = Ok dir.
Proof. exact source_dir_ok. Qed.
Print Assumptions C13_source_dir.

(* for every order in which Universe.pkgs is ranged over: a position whose file go/token reports in
   the directory d of a module package p is located in p — given that module packages have distinct,
   non-empty directories (one package per directory).  The guard "the reported file is in d" excludes
   the known finding line_directive_foreign_dir. *)
Theorem C13_locate :
  forall (join : bytes -> bytes -> bytes) (pkgs : list (pinfo * bytes)),
    (forall p d, In (p, d) pkgs -> layout join p d) ->
    (forall p d, In (p, d) pkgs -> pi_module p <> None -> d <> []) ->
    (forall p1 d p2, In (p1, d) pkgs -> In (p2, d) pkgs -> pi_module p1 <> None -> pi_module p2 <> None ->
                     pi_path p1 = pi_path p2) ->
    forall order, Permutation order (map fst pkgs) ->
    forall p d, In (p, d) pkgs -> pi_module p <> None ->
      locate join order d = Ok (Some (pi_path p)).
Proof. exact locate_ok. Qed.
Print Assumptions C13_locate.

(* ---- history: the same statements are false of the code before the fix: commits ---- *)

(* two iteration orders of the same Defs, different answers for a name the scope holds once *)
Theorem C13_tables_order_dependent_before_fix :
  exists defs p1 p2 k n,
    Permutation p1 defs /\ Permutation p2 defs /\ unique_at defs k n
    /\ lookup k n (fill_tables unfixed p1) <> lookup k n (fill_tables unfixed p2).
Proof. exact tables_order_dependent_before_fix. Qed.
Print Assumptions C13_tables_order_dependent_before_fix.

Theorem C13_tables_local_before_fix :
  exists defs k n x o,
    lookup k n (fill_tables unfixed defs) = Some x /\ In o defs /\ o_id o = x /\ o_pkg_scope o = false.
Proof. exact tables_local_before_fix. Qed.
Print Assumptions C13_tables_local_before_fix.

Theorem C13_methods_generic_before_fix :
  exists defs n,
    filter (declared_on (n_origin n)) defs <> []
    /\ methods_of (mk_fixes true false true true true) (fill_tables (mk_fixes true false true true true) defs) n true = [].
Proof. exact methods_generic_before_fix. Qed.
Print Assumptions C13_methods_generic_before_fix.

Theorem C13_methods_alias_before_fix :
  exists defs n,
    filter (declared_on (n_origin n)) defs <> []
    /\ methods_of (mk_fixes true true false true true) (fill_tables (mk_fixes true true false true true) defs) n true = [].
Proof. exact methods_alias_before_fix. Qed.
Print Assumptions C13_methods_alias_before_fix.

Theorem C13_imports_nil_before_fix :
  exists g roots s, load (mk_fixes true true true false true) g 3 roots = Ok s
                    /\ imports_entry s (bs "m") (bs "a") = Some None.
Proof. exact imports_nil_before_fix. Qed.
Print Assumptions C13_imports_nil_before_fix.

Theorem C13_imports_vendored_nil_before_fix :
  exists g roots s, load (mk_fixes true true true true false) g 3 roots = Ok s
                    /\ imports_entry s (bs "net") (bs "x/dns") = Some None.
Proof. exact imports_vendored_nil_before_fix. Qed.
Print Assumptions C13_imports_vendored_nil_before_fix.

(* the hypothesis on the order of the roots in C13_imports cannot be dropped *)
Theorem C13_imports_need_root_order :
  exists g roots s, load all_fixed g 3 roots = Ok s
                    /\ imports_entry s (bs "m") (bs "a") = Some (Some 0%N)
                    /\ universe_package s (bs "a") = Some 2%N.
Proof. exact imports_need_root_order. Qed.
Print Assumptions C13_imports_need_root_order.

(* ---- non-vacuity ---- *)

Local Open Scope N_scope.

(* type T; func F[T any]; type G[E any] with methods P (pointer) and V (value); a local const K *)
Definition ex_pkg : list obj :=
  [ ex_T_pkg; ex_F; ex_T_tparam; ex_P; ex_V;
    mk_obj 7 KType (bs "G") true None; mk_obj 8 KConst (bs "K") false None;
    mk_obj 9 KConst (bs "K") true None; mk_obj 10 KOther (bs "x") false None ].

Example C13_example_tables :
  let t := fill_tables all_fixed (rev ex_pkg) in
  lookup KType (bs "T") t = Some 1 /\ lookup KConst (bs "K") t = Some 9 /\ lookup KType (bs "K") t = None
  /\ map fst (t_types t) = [bs "G"; bs "T"]
  /\ map o_id (methods_of all_fixed t (mk_nref 99 10) true) = [5; 4]
  /\ map o_id (methods_of all_fixed t (mk_nref 99 10) false) = [5].
Proof. vm_compute. repeat split; reflexivity. Qed.

(* m imports a and b, a imports b; roots in go list -deps order *)
Example C13_example_imports :
  let g := [mk_gnode (bs "m") [(bs "a", bs "a"); (bs "b", bs "b")]; mk_gnode (bs "a") [(bs "b", bs "b")]; mk_gnode (bs "b") []] in
  match load all_fixed g 4 [bs "b"; bs "m"] with
  | Ok s => imports_entry s (bs "m") (bs "a") = Some (universe_package s (bs "a"))
            /\ universe_package s (bs "a") = Some 1
            /\ imports_entry s (bs "a") (bs "b") = Some (Some 0)
  | _ => False
  end.
Proof. vm_compute. repeat split; reflexivity. Qed.

(* C13_imports with ALL its hypotheses discharged (Proofs/UniverseWitness.v): a universe of five packages —
   m imports a, b and "x/dns" -> vendor/x/dns (key <> PkgPath, as in std); a imports b, c; b imports c — with
   rank = position in go list -deps, and the roots [c; b; a; vendor/x/dns; m] in that (dependencies-first) order.
   The hypotheses are checked by the boolean [imports_hyps_b] (sound by [imports_hyps_sound]). *)
Example C13_example_imports_hyps :
  (forall p nd k t, g_find p wg = Some nd -> In (k, t) (g_imports nd) -> (wg_rk t < wg_rk p)%nat) /\
  (forall p nd k t, g_find p wg = Some nd -> In (k, t) (g_imports nd) -> g_find t wg <> None) /\
  (forall p nd, g_find p wg = Some nd -> NoDup (map fst (g_imports nd))) /\
  (forall r, In r wg_roots -> g_find r wg <> None) /\
  StronglySorted (fun a b => (wg_rk a < wg_rk b)%nat) wg_roots.
Proof. exact wg_hyps. Qed.

(* the theorem instantiated on it *)
Example C13_example_imports_witness :
  exists n, forall fuel, (n <= fuel)%nat ->
    exists s, load all_fixed wg fuel wg_roots = Ok s
      /\ (forall r, In r wg_roots -> universe_package s r <> None)
      /\ forall p nd k t, universe_package s p <> None -> g_find p wg = Some nd -> In (k, t) (g_imports nd) ->
           imports_entry s p k = Some (universe_package s t) /\ universe_package s t <> None.
Proof.
  exact (C13_imports wg wg_rk (proj1 wg_hyps) (proj1 (proj2 wg_hyps)) (proj1 (proj2 (proj2 wg_hyps)))
                     wg_roots (proj1 (proj2 (proj2 (proj2 wg_hyps)))) (proj2 (proj2 (proj2 (proj2 wg_hyps))))).
Qed.

(* ... and computed: five distinct Package values, every Imports() entry is the value Universe.Package returns
   (the vendored package under the key as written, no entry under its PkgPath) *)
Example C13_example_imports_computed :
  exists s, load all_fixed wg 5 wg_roots = Ok s
    /\ map (universe_package s) wg_roots = [Some 0; Some 1; Some 2; Some 3; Some 4]
    /\ imports_entry s (bs "m") (bs "a") = Some (Some 2)
    /\ imports_entry s (bs "m") (bs "b") = Some (Some 1)
    /\ imports_entry s (bs "m") (bs "x/dns") = Some (Some 3)
    /\ imports_entry s (bs "m") (bs "vendor/x/dns") = None
    /\ imports_entry s (bs "a") (bs "c") = Some (Some 0)
    /\ imports_entry s (bs "b") (bs "c") = Some (Some 0).
Proof. exact wg_computed. Qed.

(* the same roots with m first: the order hypothesis is false and so is the conclusion (cf. C13_imports_need_root_order) *)
Example C13_example_imports_wrong_order :
  imports_hyps_b wg wg_rk [bs "m"; bs "c"; bs "b"; bs "a"; bs "vendor/x/dns"] = false /\
  exists s, load all_fixed wg 5 [bs "m"; bs "c"; bs "b"; bs "a"; bs "vendor/x/dns"] = Ok s
    /\ imports_entry s (bs "m") (bs "a") <> Some (universe_package s (bs "a")).
Proof. exact wg_wrong_order. Qed.

Example C13_example_dirs :
  let m := mk_mod (bs "example.com/m") (bs "/src/m") in
  let pkgs := [mk_pinfo (bs "example.com/m/a") (Some m); mk_pinfo (bs "errors") None; mk_pinfo (bs "example.com/m") (Some m)] in
  source_dir join_clean (mk_pinfo (bs "example.com/m/a") (Some m)) = Ok (bs "/src/m/a")
  /\ locate join_clean pkgs (bs "/src/m") = Ok (Some (bs "example.com/m"))
  /\ layout join_clean (mk_pinfo (bs "example.com/m/a") (Some m)) (bs "/src/m/a").
Proof.
  cbn zeta. split; [vm_compute; reflexivity|]. split; [vm_compute; reflexivity|].
  exists (bs "/a"). split; reflexivity.
Qed.

(* ---- one system (Model/Tables.v, Props/Tables.v, notes/Tables.md): the type table and the method lists of this
   file's model are the ones Model/Dispatch.v (C06) and Model/Determinism.v (C04) compute ----
   [T.u_of_disp] / [T.u_of_det] / [T.u_of_meth] describe their entries as this file's objects; [T.types_of os] /
   [T.meths_of os] are the *types.TypeName / method entries of a Defs list of this model. *)
Require Gengo.Model.Dispatch Gengo.Model.Determinism Gengo.Model.Tables Gengo.Props.Tables.
Module T := Gengo.Model.Tables.

(* every Defs list here, every Defs list of Dispatch describing the same type names, any two orders: same key set,
   same lookup at every name the scope holds once *)
Theorem C13_tables_agree_with_dispatch :
  forall os ds,
    Permutation (T.types_of os) (map T.u_of_disp ds) ->
    (forall n, In n (map fst (t_types (fill_tables all_fixed os)))
               <-> In n (Dispatch.keys (Dispatch.type_table true ds)))
    /\ (forall n, unique_at os KType n ->
          lookup KType n (fill_tables all_fixed os)
          = option_map Dispatch.td_id (Dispatch.lookup n (Dispatch.type_table true ds))).
Proof. exact Gengo.Props.Tables.Tables_universe_is_dispatch. Qed.
Print Assumptions C13_tables_agree_with_dispatch.

(* ... and Determinism's, for every behaviour of the runtime at its range over Defs *)
Theorem C13_tables_agree_with_determinism :
  forall (o : Determinism.oracle) p os,
    Determinism.shuffles o ->
    Permutation (T.types_of os) (map T.u_of_det (Determinism.pk_defs p)) ->
    (forall n, In n (map fst (t_types (fill_tables all_fixed os)))
               <-> In n (Determinism.keys (Determinism.type_table true o p)))
    /\ (forall n, unique_at os KType n ->
          lookup KType n (fill_tables all_fixed os)
          = option_map Determinism.td_uid (Determinism.lookup n (Determinism.type_table true o p))).
Proof. exact Gengo.Props.Tables.Tables_universe_is_determinism. Qed.
Print Assumptions C13_tables_agree_with_determinism.

(* Determinism's MethodsOf lists the names of exactly the methods this model's MethodsOf(n, true) returns
   (C13_methods's permutation) ... *)
Theorem C13_methods_agree_with_determinism :
  forall fm (o : Determinism.oracle) p ptr os n,
    Determinism.shuffles o ->
    Permutation (T.meths_of os) (map (T.u_of_meth ptr) (Determinism.pk_meths p)) ->
    Permutation (map o_name (methods_of all_fixed (fill_tables all_fixed os) n true))
                (Determinism.methods_of fm o p (n_origin n)).
Proof. exact Gengo.Props.Tables.Tables_methods_agree. Qed.
Print Assumptions C13_methods_agree_with_determinism.

(* ---- the ordering of the method lists (package.go:146-157, repair 50ddee1; [sort_methods], [new_pkg_tables]) ----
   The comparison of Model/Determinism.v (C04) with this model showed that this model stopped at line 144: its
   MethodsOf answered in the order of the range over Defs, the code answers in position order.  [new_pkg_tables fx pos
   defs] = the loop, then every method list ordered by [pos] (the rank of (file name, offset)); Corr/C13.v now compares
   MethodsOf with it IN ORDER. *)

(* the name tables are those of the loop: every theorem above speaks about new_pkg_tables as well *)
Theorem C13_new_pkg_tables_names :
  forall fx pos defs k n, lookup k n (new_pkg_tables fx pos defs) = lookup k n (fill_tables fx defs).
Proof. reflexivity. Qed.
Print Assumptions C13_new_pkg_tables_names.

(* MethodsOf(n, true) of the current code: the methods declared on n's origin, in position order ... *)
Theorem C13_methods_sorted_spec :
  forall (pos : obj -> N) defs pi n,
    Permutation pi defs ->
    Permutation (methods_of all_fixed (new_pkg_tables all_fixed pos pi) n true) (filter (declared_on (n_origin n)) defs)
    /\ StronglySorted (fun a b => N.leb (pos a) (pos b) = true) (methods_of all_fixed (new_pkg_tables all_fixed pos pi) n true).
Proof. exact Gengo.Props.Tables.Tables_sorted_methods_spec. Qed.
Print Assumptions C13_methods_sorted_spec.

(* ... the same LIST for every order in which Defs is ranged over (distinct positions), value receivers or all *)
Theorem C13_methods_sorted_order_independent :
  forall (pos : obj -> N) defs p1 p2 n ptr,
    Permutation p1 defs -> Permutation p2 defs ->
    NoDup (map pos (T.meths_of defs)) ->
    methods_of all_fixed (new_pkg_tables all_fixed pos p1) n ptr = methods_of all_fixed (new_pkg_tables all_fixed pos p2) n ptr.
Proof. exact Gengo.Props.Tables.Tables_sorted_methods_order_independent. Qed.
Print Assumptions C13_methods_sorted_order_independent.

(* ... and equal to Determinism's MethodsOf (positions = object identities there) *)
Theorem C13_methods_sorted_agree_with_determinism :
  forall (o : Determinism.oracle) p ptr os n,
    Determinism.shuffles o ->
    NoDup (map Determinism.m_pos (Determinism.pk_meths p)) ->
    Permutation (T.meths_of os) (map (T.u_of_meth ptr) (Determinism.pk_meths p)) ->
    map o_name (methods_of all_fixed (new_pkg_tables all_fixed o_id os) n true)
    = Determinism.methods_of true o p (n_origin n).
Proof. exact Gengo.Props.Tables.Tables_methods_sorted_agree. Qed.
Print Assumptions C13_methods_sorted_agree_with_determinism.

(* before the repair the answer depended on the order of Defs *)
Theorem C13_methods_order_dependent_before_fix :
  exists defs p1 p2 n,
    Permutation p1 defs /\ Permutation p2 defs
    /\ methods_of all_fixed (fill_tables all_fixed p1) n true <> methods_of all_fixed (fill_tables all_fixed p2) n true.
Proof.
  exists [ex_P; ex_V], [ex_P; ex_V], [ex_V; ex_P], (mk_nref 99 10).
  split; [apply Permutation_refl|]. split; [apply perm_swap|]. vm_compute. discriminate.
Qed.
Print Assumptions C13_methods_order_dependent_before_fix.

Example C13_example_methods_sorted :
  map o_id (methods_of all_fixed (new_pkg_tables all_fixed o_id (rev ex_pkg)) (mk_nref 99 10) true) = [4; 5]%N
  /\ map o_id (methods_of all_fixed (new_pkg_tables all_fixed o_id ex_pkg) (mk_nref 99 10) true) = [4; 5]%N
  /\ map o_id (methods_of all_fixed (new_pkg_tables all_fixed o_id (rev ex_pkg)) (mk_nref 99 10) false) = [5]%N.
Proof. vm_compute. repeat split; reflexivity. Qed.
