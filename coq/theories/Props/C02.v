(* C02 — a failed generation never damages existing output or marks work as done.
   Statements only; every proof is [exact <lemma>].  Model: Model/Pipeline.v (parameters as in Props/C07.v).

   [exec_trace] is the log of the generator calls and deferred callbacks that actually happened, each with what it
   rendered and what it returned; [ev_verdict] (Spec/PipelineSpec.v) reads a logged result:
     GenerateType / GenerateAliasType:  nil, ErrSkip, ErrIgnore (wrapped or not) -> the run goes on;
                                        any other error -> Failed (EGen generator package); process death -> Died
     deferred callback:                 nil -> goes on; death -> Died; ANY error -> Failed (EDefer generator package)
   Because a failing call is the last entry of the log, "at every call index" is "wherever in the log". *)
Require Import Gengo.Base.Bytes Gengo.Model.Pipeline Gengo.Spec.PipelineSpec Gengo.Proofs.Pipeline Gengo.Proofs.PipelinePkg
  Gengo.Proofs.PipelineC02 Gengo.Proofs.PipelineWitness Gengo.Proofs.PipelineWitnessC02 Gengo.Corr.Pipe.

(* A generator error, a deferred callback's error or a death inside a call - at ANY call index, in any package of
   the run - decides the outcome: Execute returns the error naming that generator and package (or the process is dead). *)
Theorem C02_failure_decides_outcome :
  forall (E : env) a w gens s e o,
    In e (exec_trace E a w gens s) -> ev_verdict e = Some o -> exec_outcome E a w gens s = o.
Proof. exact trace_verdict. Qed.
Print Assumptions C02_failure_decides_outcome.

(* ErrSkip and ErrIgnore from GenerateType/GenerateAliasType (and nil) are the only results after which a run
   can still succeed: in a successful run every logged result is one of them, and every callback returned nil. *)
Theorem C02_swallowed_only :
  forall (E : env) a w gens s,
    exec_outcome E a w gens s = Done ->
    forall e, In e (exec_trace E a w gens s) -> ev_verdict e = None.
Proof. exact done_clean. Qed.
Print Assumptions C02_swallowed_only.

(* Execute failed naming generator gn and package pp (GenerateType, GenerateAliasType or a deferred callback):
   that generator and package exist, the package was being processed, and NO file of that package's directory has
   changed - in particular the generator's previous file is byte-identical. *)
Theorem C02_generator_error_no_damage :
  forall (E : env) a w gens s gn pp,
    order_ok E -> NoDup (map g_name gens) -> world_ok w ->
    (exec_outcome E a w gens s = Failed (EGen gn pp) \/ exec_outcome E a w gens s = Failed (EDefer gn pp)) ->
    exists p g, In p (w_pkgs w) /\ pk_path p = pp /\ In g gens /\ g_name g = gn /\ processed E a w s p = true /\
      forall f, fs_lookup (pk_dir p, f) (exec_fs E a w gens s) = fs_lookup (pk_dir p, f) s.
Proof. exact failed_names_pkg. Qed.
Print Assumptions C02_generator_error_no_damage.

(* Execute failed with a syntax position: the position is in the file of a generator of a processed package whose
   rendering the formatter rejects (it is parsed BEFORE the destination is opened), and that file is byte-identical. *)
Theorem C02_unparseable_no_damage :
  forall (E : env) a w gens s q,
    order_ok E -> NoDup (map g_name gens) -> world_ok w ->
    exec_outcome E a w gens s = Failed (EParse q) ->
    (exists p g, In p (w_pkgs w) /\ In g gens /\ processed E a w s p = true /\ q = gen_file a p (g_name g) /\
                 go_body (gen_run E g p) <> [] /\
                 e_fmt E (assemble (pk_name p) (g_name g) (go_body (gen_run E g p))) = None)
    /\ fs_lookup q (exec_fs E a w gens s) = fs_lookup q s.
Proof. exact failed_parse. Qed.
Print Assumptions C02_unparseable_no_damage.

(* Conversely an unparseable rendering never goes unnoticed: in a successful run everything retained parsed. *)
Theorem C02_unparseable_reported :
  forall (E : env) a w gens s p g,
    order_ok E -> NoDup (map g_name gens) -> world_ok w ->
    exec_outcome E a w gens s = Done ->
    In p (w_pkgs w) -> processed E a w s p = true -> In g gens ->
    go_body (gen_run E g p) <> [] ->
    exists out, e_fmt E (assemble (pk_name p) (g_name g) (go_body (gen_run E g p))) = Some out /\
                fs_lookup (gen_file a p (g_name g)) (exec_fs E a w gens s) = Some out.
Proof. exact Gengo.Proofs.PipelineC07.written_content. Qed.
Print Assumptions C02_unparseable_reported.

(* gengo.sum: a run that does not succeed - error or death, anywhere - leaves it as it was. *)
Theorem C02_sum_untouched_unless_done :
  forall (E : env) a w gens s,
    files_ok w -> exec_outcome E a w gens s <> Done ->
    fs_lookup (sum_path w) (exec_fs E a w gens s) = fs_lookup (sum_path w) s.
Proof. exact sum_untouched_unless_done. Qed.
Print Assumptions C02_sum_untouched_unless_done.

(* The sum is written by the last two effects (open with O_TRUNC, write) and only after every package succeeded
   under All; no earlier effect is on gengo.sum. *)
Theorem C02_sum_written_last :
  forall (E : env) a w gens s,
    files_ok w ->
    exists tail, effects E a w gens s = pkgs_effects E a w gens s ++ tail /\
      (forall e, In e (pkgs_effects E a w gens s) -> effect_path e <> sum_path w) /\
      (tail = [] \/ (tail = save_effects E w /\ exec_outcome E a w gens s = Done /\ a_all a = true)).
Proof. exact sum_written_last. Qed.
Print Assumptions C02_sum_written_last.

(* Every crash point before the save (a process that dies after any number k of effects): gengo.sum is untouched. *)
Theorem C02_crash_before_save :
  forall (E : env) a w gens s k,
    files_ok w -> k <= List.length (pkgs_effects E a w gens s) ->
    fs_lookup (sum_path w) (apply_all (firstn k (effects E a w gens s)) s) = fs_lookup (sum_path w) s.
Proof. exact crash_before_save. Qed.
Print Assumptions C02_crash_before_save.

(* The one crash point inside the save - after gengo.sum was opened with O_TRUNC, before its bytes are written -
   leaves an EMPTY gengo.sum (every generated file is complete at that point) ... *)
Theorem C02_crash_inside_save :
  forall (E : env) a w gens s,
    exec_outcome E a w gens s = Done -> a_all a = true ->
    fs_lookup (sum_path w)
      (apply_all (firstn (S (List.length (pkgs_effects E a w gens s))) (effects E a w gens s)) s) = Some [].
Proof. exact crash_inside_save. Qed.
Print Assumptions C02_crash_inside_save.

(* ... and an empty gengo.sum is never trusted: the next run regenerates every package that has a directory hash.
   (What sumfile.Load makes of a partly written sum is the C08 check's sumfile model.) *)
Theorem C02_empty_sum_regenerates :
  forall (E : env) a w s p,
    e_sum_load E [] = [] -> fs_lookup (sum_path w) s = Some [] ->
    sum_get (current_sum w) (pk_path p) <> [] ->
    pkg_changed a w (load_prev E a w s) p = true.
Proof. exact empty_sum_regenerates. Qed.
Print Assumptions C02_empty_sum_regenerates.

Example C02_example_byte_level_load_of_nothing : sumfile_load [] = [].
Proof. vm_compute. reflexivity. Qed.

(* non-vacuity, on a two-package All run with previous outputs and a previous sum *)
Example C02_example_error_at_call_index_2 :
  let '(s', tr, out) := wf_run (mk_step (bs "var A2 = 1") RErr false false []) (ok_step "var B0 = 1") in
  out = Failed (EGen (bs "g1") (bs "m/a")) /\ List.length tr = 3 /\ unchanged s' [a_g1; a_g2; b_g1; the_sum] = true.
Proof. exact witness_error_at_index_2. Qed.

Example C02_example_deferred_callback_returns_ErrSkip :
  let '(s', tr, out) := wf_run (mk_step (bs "var A2 = 1") RNil false false [SD [] RSkip []]) (ok_step "var B0 = 1") in
  out = Failed (EDefer (bs "g1") (bs "m/a")) /\ unchanged s' [a_g1; a_g2; b_g1; the_sum] = true.
Proof. exact witness_deferred_error. Qed.

Example C02_example_unparseable_in_second_package :
  let '(s', tr, out) := wf_run (ok_step "var A2 = 1") (ok_step "func (
") in
  out = Failed (EParse b_g1) /\ unchanged s' [b_g1; the_sum] = true /\ unchanged s' [a_g1] = false.
Proof. exact witness_unparseable_second_package. Qed.

Example C02_example_death_inside_GenerateType :
  let '(s', tr, out) := wf_run (ok_step "var A2 = 1") (mk_step [] RDie false false []) in
  out = Died /\ unchanged s' [b_g1; the_sum] = true.
Proof. exact witness_death. Qed.

Example C02_example_skip_and_ignore_are_swallowed :
  let '(s', tr, out) := wf_run (mk_step [] RIgnore false false []) (mk_step [] RSkip false false []) in
  out = Done /\ unchanged s' [the_sum] = false /\
  existsb (fun e => match e with EvCall _ _ _ _ RSkip => true | _ => false end) tr = true /\
  existsb ev_is_ignore tr = true.
Proof. exact witness_swallowed. Qed.

(* ---- the composed system (Model/Whole.v, Props/Whole.v): the crash theorems with the REAL gengo.sum parser ----
   [crash_state E a w gens s s']: the run is killed after any number k of its effects (s' = the first k applied), or
   inside the write of gengo.sum, which then holds any prefix of its bytes.  E is any environment whose sum
   parser / printer are the byte-level ones of C08 (bytes.Lines, bytes.Fields; sorted keys) — e.g. Whole.whole_env. *)
Require Gengo.Model.SumFile Gengo.Proofs.SumFile Gengo.Model.Whole Gengo.Proofs.WholeCrash Gengo.Props.Whole.
Require Import Gengo.Proofs.PipelineWitnessCrash.

Theorem C02_whole_crash_sum_content :
  forall (E : env), e_sum_bytes E = SumFile.sumfile_bytes ->
  forall a w gens s s',
    files_ok w -> WholeCrash.crash_state E a w gens s s' ->
    fs_lookup (sum_path w) s' = fs_lookup (sum_path w) s
    \/ exists n, fs_lookup (sum_path w) s' = Some (firstn n (SumFile.sumfile_bytes (current_sum w))).
Proof. exact Gengo.Props.Whole.Whole_crash_sum_content. Qed.
Print Assumptions C02_whole_crash_sum_content.

(* "... or marks work as done": whatever the crash point, the NEXT run (any arguments, any loaded world w2 of the
   module) treats p as done only if the hash it computed for p is recorded by the gengo.sum the killed run had found
   and not yet touched, or is the one the killed run was recording.  Side conditions: recorded paths / hashes are
   tokens (kv_ok); a recorded hash is as long as the one computed now, or empty (dirhash.Hash1 has one length). *)
Theorem C02_whole_crash_then_skip_justified :
  forall (E : env), e_sum_load E = SumFile.sumfile_load -> e_sum_bytes E = SumFile.sumfile_bytes ->
  forall a w gens s s' a2 w2 p,
    files_ok w -> WholeCrash.crash_state E a w gens s s' ->
    Gengo.Proofs.SumFile.kv_ok (current_sum w) ->
    sum_path w2 = sum_path w ->
    (sum_get (current_sum w) (pk_path p) = []
     \/ List.length (sum_get (current_sum w) (pk_path p)) = List.length (sum_get (current_sum w2) (pk_path p))) ->
    pkg_changed a2 w2 (load_prev E a2 w2 s') p = false ->
    sum_get (current_sum w2) (pk_path p) <> []
    /\ ((exists b, fs_lookup (sum_path w) s = Some b
                   /\ SumFile.sum_sum (SumFile.sumfile_load b) (pk_path p) = sum_get (current_sum w2) (pk_path p))
        \/ sum_get (current_sum w) (pk_path p) = sum_get (current_sum w2) (pk_path p)).
Proof. exact Gengo.Props.Whole.Whole_crash_then_skip_justified. Qed.
Print Assumptions C02_whole_crash_then_skip_justified.

(* non-vacuity of the two crash theorems at crash states with a NON-EMPTY gengo.sum after which the next run does skip a
   package (Proofs/PipelineWitnessCrash.v): an All run over m/a, m/b, m/c with previous outputs and a previous gengo.sum
   that records m/a's current hash and other hashes for m/b and m/c.
   (A) g1 returns an error in m/c: m/a is cached (pkg_changed = false, no call), m/b is regenerated, the run fails;
       the state where Execute returns is a crash state; gengo.sum and the previous files of m/a and m/c are
       byte-identical; in the NEXT run (m/b re-hashed) m/a is skipped, m/b and m/c are regenerated. *)
Example C02_example_failed_run_with_cached_package :
  exec_outcome wf_env wk_args wk_world wk_gens_fail wk_fs = Failed (EGen (bs "g1") (bs "m/c"))
  /\ map (fun p => pkg_changed wk_args wk_world (load_prev wf_env wk_args wk_world wk_fs) p) (sorted_pkgs wk_world)
     = [false; true; true]
  /\ map (fun e => match e with EvCall _ p _ _ r => (p, r) | EvDefer _ p _ _ r => (p, r) end)
         (exec_trace wf_env wk_args wk_world wk_gens_fail wk_fs) = [(bs "m/b", RNil); (bs "m/c", RErr)]
  /\ List.length wk_effects_fail = 2
  /\ wk_after_fail = exec_fs wf_env wk_args wk_world wk_gens_fail wk_fs
  /\ lookups wk_after_fail wk_paths
     = [Some (bs "A"); Some (bs "old a g1"); Some (bs "B"); Some (assemble (bs "b") (bs "g1") (bs "var B = 1"));
        Some (bs "C"); Some (bs "old c g1"); Some wk_sum0].
Proof. exact wk_failed_run. Qed.

Example C02_example_crash_hypotheses_satisfiable :
  files_ok wk_world /\ Gengo.Proofs.SumFile.kv_ok (current_sum wk_world)
  /\ WholeCrash.crash_state wf_env wk_args wk_world wk_gens_fail wk_fs wk_after_fail
  /\ map (fun p => pkg_changed wk_args wk_world2 (load_prev wf_env wk_args wk_world2 wk_after_fail) p) (sorted_pkgs wk_world2)
     = [false; true; true].
Proof. exact (conj wk_files_ok (conj wk_kv_ok (conj wk_crash_state_fail wk_next_after_fail))). Qed.

(* C02_whole_crash_then_skip_justified applied there (p = m/a): the skip rests on the gengo.sum the failed run found *)
Example C02_example_skip_after_failed_run_justified :
  sum_get (current_sum wk_world2) (bs "m/a") <> []
  /\ ((exists b, fs_lookup (sum_path wk_world) wk_fs = Some b
                 /\ SumFile.sum_sum (SumFile.sumfile_load b) (bs "m/a") = sum_get (current_sum wk_world2) (bs "m/a"))
      \/ sum_get (current_sum wk_world) (bs "m/a") = sum_get (current_sum wk_world2) (bs "m/a")).
Proof. exact wk_skip_justified_after_fail. Qed.
Print Assumptions C02_example_skip_after_failed_run_justified.

(* (B) the same module, g1 succeeds everywhere, the process is killed INSIDE the write of gengo.sum after 14 bytes: the
       file holds the complete line of m/a and "m/b h"; every generated file is complete; the next run skips m/a on
       the strength of the complete line and regenerates m/b (torn line) and m/c (no line). *)
Example C02_example_torn_sum :
  WholeCrash.crash_state wf_env wk_args wk_world wk_gens_ok wk_fs wk_torn
  /\ lookups wk_torn wk_paths
     = [Some (bs "A"); Some (bs "old a g1"); Some (bs "B"); Some (assemble (bs "b") (bs "g1") (bs "var B = 1"));
        Some (bs "C"); Some (assemble (bs "c") (bs "g1") (bs "var C = 1")); Some (bs "m/a h1:a" ++ nl ++ bs "m/b h")]
  /\ SumFile.sumfile_load (bs "m/a h1:a" ++ nl ++ bs "m/b h") = [(bs "m/a", bs "h1:a"); (bs "m/b", bs "h")]
  /\ map (fun p => pkg_changed wk_args wk_world (load_prev wf_env wk_args wk_world wk_torn) p) (sorted_pkgs wk_world)
     = [false; true; true].
Proof. exact (conj wk_crash_state_torn wk_torn_state). Qed.

Example C02_example_skip_after_torn_sum_justified :
  (fs_lookup (sum_path wk_world) wk_torn = fs_lookup (sum_path wk_world) wk_fs
   \/ exists n, fs_lookup (sum_path wk_world) wk_torn = Some (firstn n (SumFile.sumfile_bytes (current_sum wk_world))))
  /\ sum_get (current_sum wk_world) (bs "m/a") <> []
  /\ ((exists b, fs_lookup (sum_path wk_world) wk_fs = Some b
                 /\ SumFile.sum_sum (SumFile.sumfile_load b) (bs "m/a") = sum_get (current_sum wk_world) (bs "m/a"))
      \/ sum_get (current_sum wk_world) (bs "m/a") = sum_get (current_sum wk_world) (bs "m/a")).
Proof. exact (conj wk_torn_sum_content wk_skip_justified_torn). Qed.
Print Assumptions C02_example_skip_after_torn_sum_justified.

(* after the repair of pkgChanged (an empty current hash is never cached) the hypothesis "has a directory hash" of
   C02_empty_sum_regenerates is not needed any more *)
Theorem C02_empty_sum_regenerates_everything :
  forall (E : env) a w s p,
    e_sum_load E [] = [] -> fs_lookup (sum_path w) s = Some [] ->
    pkg_changed a w (load_prev E a w s) p = true.
Proof. exact empty_sum_regenerates_all. Qed.
Print Assumptions C02_empty_sum_regenerates_everything.

Example C02_example_real_parser_load_of_nothing : SumFile.sumfile_load [] = [].
Proof. vm_compute. reflexivity. Qed.

(* ---- a real failing generator (Model/Generators.v: partialstruct as an instance of the abstract generator, built from
   C18's model): a declaration that is not a struct, or not made from a named type, in a processed package —
   [generate_pkg ... = OutErr k], the error C18_errors proves is returned before anything is rendered — makes the
   whole run fail, whatever other packages and generators are in it; gengo.sum is left as it was; and when Execute
   names partialstruct and this package, no file of the package's directory has changed ---- *)
Require Gengo.Model.Generators Gengo.Proofs.GeneratorsPipe.
Module GN := Gengo.Model.Generators.
Module GP := Gengo.Proofs.GeneratorsPipe.

Theorem C02_partialstruct_error_aborts :
  forall (E : env) cfg tracker tin print_gtype a w gens s p k,
    order_ok E -> NoDup (map g_name gens) -> world_ok w ->
    In p (w_pkgs w) -> processed E a w s p = true -> In (GN.partialstruct_gen cfg tracker tin print_gtype) gens ->
    GN.PS.generate_pkg (tracker p) (pk_path p) cfg (map (tin p) (GP.ps_called cfg tracker tin print_gtype E p)) [] []
      = GN.PS.OutErr k ->
    exec_outcome E a w gens s <> Done /\
    (files_ok w -> fs_lookup (sum_path w) (exec_fs E a w gens s) = fs_lookup (sum_path w) s) /\
    (exec_outcome E a w gens s = Failed (EGen (bs "partialstruct") (pk_path p)) ->
     forall f, fs_lookup (pk_dir p, f) (exec_fs E a w gens s) = fs_lookup (pk_dir p, f) s).
Proof. exact GP.partialstruct_error_aborts. Qed.
Print Assumptions C02_partialstruct_error_aborts.
