(* C05 — output for a package does not depend on what else is generated in the same run.
   Statements only; every proof is [exact <lemma>].  Model: Model/Pipeline.v (see Props/C07.v for the parameters);
   generators are arbitrary state machines with any state type, created afresh ([g_new g p]) for every package. *)
Require Import Gengo.Base.Bytes Gengo.Model.Pipeline Gengo.Proofs.Pipeline Gengo.Proofs.PipelinePkg
  Gengo.Proofs.PipelineC05 Gengo.Proofs.PipelineWitness Gengo.Corr.Pipe.
From Coq Require Import Permutation.

(* Two runs from the same tree whose worlds both contain package p (same module root; in each world directories and
   import paths are distinct; p is selected in both, directly or through All; under All each run has a direct package,
   i.e. loads the same previous gengo.sum): if both succeed, every file of p's directory other than gengo.sum is the
   same afterwards.  For every env, every list of stateful generators, every other content of the two worlds. *)
Theorem C05_independent :
  forall (E : env) a gens s w1 w2 p f,
    w_modroot w1 = w_modroot w2 ->
    world_ok w1 -> world_ok w2 -> In p (w_pkgs w1) -> In p (w_pkgs w2) ->
    selected a w1 p = true -> selected a w2 p = true ->
    (a_all a = true -> has_direct w1 = true /\ has_direct w2 = true) ->
    exec_outcome E a w1 gens s = Done -> exec_outcome E a w2 gens s = Done ->
    (pk_dir p, f) <> sum_path w1 ->
    fs_lookup (pk_dir p, f) (exec_fs E a w1 gens s) = fs_lookup (pk_dir p, f) (exec_fs E a w2 gens s).
Proof. exact independent. Qed.
Print Assumptions C05_independent.

(* files_of p (exec S) = files_of p (exec [p]): the run that requests only p succeeds too and leaves p's directory
   exactly as the run together with any other packages does. *)
Theorem C05_alone :
  forall (E : env) a gens s w p f,
    world_ok w -> In p (w_pkgs w) -> selected a w p = true ->
    (a_all a = true -> has_direct w = true) ->
    exec_outcome E a w gens s = Done ->
    (pk_dir p, f) <> sum_path w ->
    exec_outcome E a (alone w p) gens s = Done /\
    fs_lookup (pk_dir p, f) (exec_fs E a w gens s) = fs_lookup (pk_dir p, f) (exec_fs E a (alone w p) gens s).
Proof. exact alone_same. Qed.
Print Assumptions C05_alone.

(* any order in which the package map is presented (Go map iteration, order of the entrypoints) *)
Theorem C05_any_order :
  forall (E : env) a gens s w w' p f,
    Permutation (w_pkgs w) (w_pkgs w') -> w_modroot w = w_modroot w' -> w_direct w = w_direct w' ->
    world_ok w -> In p (w_pkgs w) -> selected a w p = true ->
    exec_outcome E a w gens s = Done ->
    (pk_dir p, f) <> sum_path w ->
    exec_outcome E a w' gens s = Done /\
    fs_lookup (pk_dir p, f) (exec_fs E a w gens s) = fs_lookup (pk_dir p, f) (exec_fs E a w' gens s).
Proof. exact order_independent. Qed.
Print Assumptions C05_any_order.

(* a package's directory after a successful run is what that package's own effects leave: no other package's
   effects reach it (the lemma the three theorems rest on) *)
Theorem C05_localised :
  forall (E : env) a w gens s p f,
    world_ok w -> In p (w_pkgs w) -> selected a w p = true ->
    exec_outcome E a w gens s = Done ->
    (pk_dir p, f) <> sum_path w ->
    fs_lookup (pk_dir p, f) (exec_fs E a w gens s)
    = fs_lookup (pk_dir p, f) (apply_all (fst (fst (pkg_execute E a w gens (load_prev E a w s) p))) s).
Proof. exact exec_local. Qed.
Print Assumptions C05_localised.

(* non-vacuity: a generator that renders its call counter and emits a helper once per instance, on two packages
   in one All run: the second package starts from a fresh instance *)
Example C05_example_stateful :
  exec_outcome (wit_env true) wc_args wc_world [wc_gen] wc_fs = Done /\
  fs_lookup (bs "b", bs "zz_generated.g1.go") (exec_fs (wit_env true) wc_args wc_world [wc_gen] wc_fs)
  = Some (assemble (bs "b") (bs "g1") (bs "var N_g1_T_x int" ++ nl ++ bs "func helper_g1() {}" ++ nl)) /\
  fs_lookup (bs "a", bs "zz_generated.g1.go") (exec_fs (wit_env true) wc_args wc_world [wc_gen] wc_fs)
  = Some (assemble (bs "a") (bs "g1")
           (bs "var N_g1_T_x int" ++ nl ++ bs "func helper_g1() {}" ++ nl ++ bs "var N_g1_T2_xx int" ++ nl)).
Proof. exact stateful_generator_fresh_per_package. Qed.
