(* C05 — output for a package does not depend on what else is generated in the same run.
   Statements only; every proof is [exact <lemma>].  Model: Model/Pipeline.v (see Props/C07.v for the parameters);
   generators are arbitrary state machines with any state type, created afresh ([g_new g p]) for every package. *)
Require Import Gengo.Base.Bytes Gengo.Model.Pipeline Gengo.Proofs.Pipeline Gengo.Proofs.PipelinePkg
  Gengo.Proofs.PipelineC05 Gengo.Proofs.PipelineWitness Gengo.Corr.Pipe.
From Coq Require Import Permutation.

(* Two runs from the same tree whose worlds both contain package p (same module root; in each world directories and
   import paths are distinct; p is selected in both, directly or through All; under All each run has a direct package,
   i.e. loads the same previous gengo.sum): if both succeed, every file of p's directory other than gengo.sum is the
   same afterwards.  For every env, every list of stateful generators, every other content of the two worlds. *)
(* WHAT IS DEFINITIONAL: that every (package, generator) pair starts from a fresh instance and a fresh, empty buffer is
   HARD-WIRED in the model ([gen_run] starts [call_loop] from [g_new g p] with an empty body, Model/Pipeline.v 306-314,
   following context.go 191-204); it is not derived from anything, and there is no import tracker in this model at all.
   It is tied to the code by the C05 harness only (stateful scripted generators run by the real Execute, compared with
   this model on every case).  What IS proved below is the consequence: given that, no other package's effects or
   state reach a package's directory, for every env, every generator state machine, every order. *)
Theorem C05_independent :
  forall (E : env) a gens s w1 w2 p f,
    w_modroot w1 = w_modroot w2 ->
    world_ok w1 -> world_ok w2 -> In p (w_pkgs w1) -> In p (w_pkgs w2) ->
    selected a w1 p = true -> selected a w2 p = true ->
    (a_all a = true -> has_direct w1 = true /\ has_direct w2 = true) ->
    exec_outcome E a w1 gens s = Done -> exec_outcome E a w2 gens s = Done ->
    (pk_dir p, f) <> sum_path w1 ->
    fs_lookup (pk_dir p, f) (exec_fs E a w1 gens s) = fs_lookup (pk_dir p, f) (exec_fs E a w2 gens s).
Proof. exact independent. Qed.
Print Assumptions C05_independent.

(* files_of p (exec S) = files_of p (exec [p]): the run that requests only p succeeds too and leaves p's directory
   exactly as the run together with any other packages does. *)
Theorem C05_alone :
  forall (E : env) a gens s w p f,
    world_ok w -> In p (w_pkgs w) -> selected a w p = true ->
    (a_all a = true -> has_direct w = true) ->
    exec_outcome E a w gens s = Done ->
    (pk_dir p, f) <> sum_path w ->
    exec_outcome E a (alone w p) gens s = Done /\
    fs_lookup (pk_dir p, f) (exec_fs E a w gens s) = fs_lookup (pk_dir p, f) (exec_fs E a (alone w p) gens s).
Proof. exact alone_same. Qed.
Print Assumptions C05_alone.

(* any order in which the package map is presented (Go map iteration, order of the entrypoints) *)
Theorem C05_any_order :
  forall (E : env) a gens s w w' p f,
    Permutation (w_pkgs w) (w_pkgs w') -> w_modroot w = w_modroot w' -> w_direct w = w_direct w' ->
    world_ok w -> In p (w_pkgs w) -> selected a w p = true ->
    exec_outcome E a w gens s = Done ->
    (pk_dir p, f) <> sum_path w ->
    exec_outcome E a w' gens s = Done /\
    fs_lookup (pk_dir p, f) (exec_fs E a w gens s) = fs_lookup (pk_dir p, f) (exec_fs E a w' gens s).
Proof. exact order_independent. Qed.
Print Assumptions C05_any_order.

(* a package's directory after a successful run is what that package's own effects leave: no other package's
   effects reach it (the lemma the three theorems rest on) *)
Theorem C05_localised :
  forall (E : env) a w gens s p f,
    world_ok w -> In p (w_pkgs w) -> selected a w p = true ->
    exec_outcome E a w gens s = Done ->
    (pk_dir p, f) <> sum_path w ->
    fs_lookup (pk_dir p, f) (exec_fs E a w gens s)
    = fs_lookup (pk_dir p, f) (apply_all (fst (fst (pkg_execute E a w gens (load_prev E a w s) p))) s).
Proof. exact exec_local. Qed.
Print Assumptions C05_localised.

(* non-vacuity: a generator that renders its call counter and emits a helper once per instance, on two packages
   in one All run: the second package starts from a fresh instance *)
(* (the fresh instance seen here is the model's [g_new wc_gen p], by definition; the Go side of the same scenario is
   what the C05 harness observes) *)
Example C05_example_stateful :
  exec_outcome (wit_env true) wc_args wc_world [wc_gen] wc_fs = Done /\
  fs_lookup (bs "b", bs "zz_generated.g1.go") (exec_fs (wit_env true) wc_args wc_world [wc_gen] wc_fs)
  = Some (assemble (bs "b") (bs "g1") (bs "var N_g1_T_x int" ++ nl ++ bs "func helper_g1() {}" ++ nl)) /\
  fs_lookup (bs "a", bs "zz_generated.g1.go") (exec_fs (wit_env true) wc_args wc_world [wc_gen] wc_fs)
  = Some (assemble (bs "a") (bs "g1")
           (bs "var N_g1_T_x int" ++ nl ++ bs "func helper_g1() {}" ++ nl ++ bs "var N_g1_T2_xx int" ++ nl)).
Proof. exact stateful_generator_fresh_per_package. Qed.

(* ================================================================================================================
   The REAL generators as instances of the abstract generator (Model/Generators.v): deepcopy keeps g.processed,
   runtimedoc keeps g.processed and g.helperWritten between the GenerateType calls of one package.  The theorems above
   hold of them as of every state machine; with the agreement theorems of Proofs/GeneratorsPipe.v (Pipeline.gen_run on
   the instance = the generator model's own run of ONE package from its INITIAL state) they read: whatever else is
   generated in the same process, the file of a processed package is the formatter's output for what the generator
   model renders for that package alone — the processed set and the helper flag never carry over between packages.
   The text of the templates is a parameter ([print_method], [print_item], [print_gtype]: checked per run by the
   harnesses of C17 / C16 / C18); what is covered is the IR-level content and its dependence on state.
   ================================================================================================================ *)
Require Gengo.Model.Generators Gengo.Proofs.GeneratorsPipe.
Module GN := Gengo.Model.Generators.
Module GP := Gengo.Proofs.GeneratorsPipe.

(* ("fresh per package" is the model's [g_new] per (package, generator) — definitional, see the note above
   C05_independent; the theorem proves that the pipeline's run of the instance IS the generator model's own run from
   its initial state, and what file results) *)
Theorem C05_deepcopy_fresh_per_package :
  forall (E : env) fx graph vis print_method fuel a w gens s p,
    order_ok E -> NoDup (map g_name gens) -> world_ok w ->
    exec_outcome E a w gens s = Done ->
    In p (w_pkgs w) -> processed E a w s p = true -> In (GN.deepcopy_gen fx graph vis print_method fuel) gens ->
    (* the dispatch calls the generator for declared types on which IsGeneratorEnabled says yes (one Go function) *)
    (forall t, In t (GP.called fx graph vis print_method fuel E p) ->
       exists d, GN.DC.lookup (graph p) (ty_name t) = Some d /\ GN.DC.enabled (graph p) d = true) ->
    exists ms,
      GN.DC.gen_deepcopy fuel fx (graph p) (map ty_name (GP.called fx graph vis print_method fuel E p)) (vis p) = Ok ms /\
      fs_lookup (gen_file a p (bs "deepcopy")) (exec_fs E a w gens s) =
        (if negb (is_nil (GN.print_methods print_method ms))
         then e_fmt E (assemble (pk_name p) (bs "deepcopy") (GN.print_methods print_method ms))
         else if mem_bytes (fname a (bs "deepcopy")) (pk_files p) then None
         else fs_lookup (gen_file a p (bs "deepcopy")) s).
Proof. exact GP.deepcopy_fresh_per_package. Qed.
Print Assumptions C05_deepcopy_fresh_per_package.

Theorem C05_runtimedoc_fresh_per_package :
  forall (E : env) fd fs desc print_item fuel a w gens s p,
    order_ok E -> NoDup (map g_name gens) -> world_ok w ->
    exec_outcome E a w gens s = Done ->
    In p (w_pkgs w) -> processed E a w s p = true -> In (GN.runtimedoc_gen fd fs desc print_item fuel) gens ->
    (forall t, In t (pk_types p) ->
       should_call E (GN.runtimedoc_gen fd fs desc print_item fuel) p t = GN.RD.t_enabled (desc p t)) ->
    List.length (pk_types p) <= fuel ->
    let body := GN.print_items print_item (GN.RD.gen fd fs (GN.rd_view desc p)) in
    fs_lookup (gen_file a p (bs "runtimedoc")) (exec_fs E a w gens s) =
      (if negb (is_nil body) then e_fmt E (assemble (pk_name p) (bs "runtimedoc") body)
       else if mem_bytes (fname a (bs "runtimedoc")) (pk_files p) then None
       else fs_lookup (gen_file a p (bs "runtimedoc")) s).
Proof. exact GP.runtimedoc_fresh_per_package. Qed.
Print Assumptions C05_runtimedoc_fresh_per_package.

Theorem C05_partialstruct_file_per_package :
  forall (E : env) cfg tracker tin print_gtype a w gens s p,
    order_ok E -> NoDup (map g_name gens) -> world_ok w ->
    exec_outcome E a w gens s = Done ->
    In p (w_pkgs w) -> processed E a w s p = true -> In (GN.partialstruct_gen cfg tracker tin print_gtype) gens ->
    let model := GN.PS.generate_pkg (tracker p) (pk_path p) cfg
                   (map (tin p) (GP.ps_called cfg tracker tin print_gtype E p)) [] [] in
    model <> GN.PS.OutGeneric ->
    exists ts i,
      model = GN.PS.OutFile ts i /\
      fs_lookup (gen_file a p (bs "partialstruct")) (exec_fs E a w gens s) =
        (if negb (is_nil (GN.print_gtypes print_gtype ts))
         then e_fmt E (assemble (pk_name p) (bs "partialstruct") (GN.print_gtypes print_gtype ts))
         else if mem_bytes (fname a (bs "partialstruct")) (pk_files p) then None
         else fs_lookup (gen_file a p (bs "partialstruct")) s).
Proof. exact GP.partialstruct_file_per_package. Qed.
Print Assumptions C05_partialstruct_file_per_package.

(* non-vacuity: two packages with the same declarations (Dep untagged, Root{D Dep} tagged) in one All run of the
   deepcopy instance: the package processed second gets Dep's methods too *)
Example C05_example_deepcopy_instance :
  exec_outcome (wit_env true) wc_args GP.wg_world [GP.wg_gen] wc_fs = Done /\
  map ty_name (GP.called GN.DC.all_fixed (fun _ => Gengo.Proofs.DeepCopyTop.w_dep) (fun _ => []) GP.wg_print 8 (wit_env true) GP.wg_a)
    = [bs "Root"] /\
  GN.DC.gen_deepcopy 8 GN.DC.all_fixed Gengo.Proofs.DeepCopyTop.w_dep [bs "Root"] [] =
    Ok [GN.DC.MPtrCopy (bs "Root") []; GN.DC.MPtrInto (bs "Root") [] [GN.DC.SCallInto (bs "D")];
        GN.DC.MPtrCopy (bs "Dep") []; GN.DC.MPtrInto (bs "Dep") [] [GN.DC.SCopySlice (bs "X") (bs "[]int")]] /\
  fs_lookup (bs "a", bs "zz_generated.deepcopy.go") (exec_fs (wit_env true) wc_args GP.wg_world [GP.wg_gen] wc_fs)
    = Some (assemble (bs "a") (bs "deepcopy") GP.wg_body) /\
  fs_lookup (bs "b", bs "zz_generated.deepcopy.go") (exec_fs (wit_env true) wc_args GP.wg_world [GP.wg_gen] wc_fs)
    = Some (assemble (bs "b") (bs "deepcopy") GP.wg_body).
Proof. exact GP.deepcopy_instance_witness. Qed.
