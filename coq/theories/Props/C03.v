(* C03 — the import block is exactly the set of referenced packages under unique valid names.
   Statements only; every proof is [exact <lemma>].

   A history is what one writer does to its tracker: [OAdd p] (ImportTracker.AddType) and
   [ORender items] (one snippet: literal text and references, rendered through rawNamer.Name), in any
   order and number, starting from the empty tracker.  [run fixed pre std self ops] is the model of the
   code ([fixed = true]: with fixes/C03-1, C03-2 applied; [false]: before;  [pre]: the names bind
   refuses outright — go/types.Universe's names [universe_names] with fixes/C03-3 applied, [[]] before)
   executing the history for the file of package [self] against the reserved-name table [std]; it
   yields the final tracker, the text of every operation and the Imports() map after every operation.

   Every theorem holds for EVERY refused-name list, EVERY reserved-name table (Some table, or None =
   no reservation), every [self], every history.  Domain of the model: import paths are byte strings; it is the code's
   behaviour on ASCII paths (Go import paths are ASCII). *)
Require Import Gengo.Base.Bytes Gengo.Model.GoIdent Gengo.Model.Tracker Gengo.Model.TrackerSpec
               Gengo.Model.CamelCase Gengo.Proofs.Tracker Gengo.Proofs.TrackerStd Gengo.Proofs.LocalName
               Gengo.Gen.StdList Gengo.Proofs.StdTable.
Require Gengo.Spec.TypeLit.
From Coq Require Import Permutation Sorted.

(* The naming never panics and always terminates (the numbered fallback loop of the repaired
   [add] runs on fuel in the model; the fuel is never used up). *)
Theorem C03_total :
  forall pre std self fixed ops, exists tr texts snaps, run fixed pre std self ops = Ok (tr, texts, snaps).
Proof. exact run_total. Qed.
Print Assumptions C03_total.

(* Bijection: pathToName and nameToPath are inverse to each other; hence no two packages share a
   local name, and the import table has no repeated path and no repeated name. *)
Theorem C03_bijection :
  forall pre std self fixed ops tr texts snaps,
    run fixed pre std self ops = Ok (tr, texts, snaps) ->
    (forall p n, lookup p (p2n tr) = Some n <-> lookup n (n2p tr) = Some p) /\
    (forall p1 p2 n, lookup p1 (p2n tr) = Some n -> lookup p2 (p2n tr) = Some n -> p1 = p2) /\
    NoDup (keys (p2n tr)) /\ NoDup (vals (p2n tr)).
Proof. exact run_bijection. Qed.
Print Assumptions C03_bijection.

(* Stability: whatever happens later in the history, a package keeps the name it has. *)
Theorem C03_stable :
  forall pre std self fixed ops1 ops2 tr2 texts snaps,
    run fixed pre std self (ops1 ++ ops2) = Ok (tr2, texts, snaps) ->
    exists tr1 t1 s1 t2 s2,
      run fixed pre std self ops1 = Ok (tr1, t1, s1) /\ texts = t1 ++ t2 /\ snaps = s1 ++ s2 /\
      forall p n, lookup p (p2n tr1) = Some n -> lookup p (p2n tr2) = Some n.
Proof. exact run_stable. Qed.
Print Assumptions C03_stable.

(* ... and every Imports() map observed during the history is contained in the final one. *)
Theorem C03_snapshots_stable :
  forall pre std self ops tr texts snaps,
    run true pre std self ops = Ok (tr, texts, snaps) ->
    Forall (fun s => forall p n, lookup p s = Some n -> lookup p (p2n tr) = Some n) snaps.
Proof. exact run_snapshots. Qed.
Print Assumptions C03_snapshots_stable.

(* Adding the same package twice is adding it once (for any tracker state whatsoever). *)
Theorem C03_add_idempotent :
  forall pre std tr path tr', add true pre std tr path = Ok tr' -> add true pre std tr' path = Ok tr'.
Proof. exact add_idempotent. Qed.
Print Assumptions C03_add_idempotent.

(* Std reservation: a local name that the table reserves is bound to its std package only. *)
Theorem C03_std_reserved :
  forall pre std self fixed ops tr texts snaps s,
    std = Some s -> run fixed pre std self ops = Ok (tr, texts, snaps) ->
    forall p n sp, lookup p (p2n tr) = Some n -> lookup n (n2p s) = Some sp -> p = sp.
Proof. exact run_std_reserved. Qed.
Print Assumptions C03_std_reserved.

(* ... and conversely a std package is always imported under the name the table gives it, whatever
   else the history imports and in whatever order ([build_std] = std.go's init over any list). *)
Theorem C03_std_packages_keep_their_names :
  forall fixed pre lines s self ops tr texts snaps,
    build_std fixed pre lines = Ok s ->
    run fixed pre (Some s) self ops = Ok (tr, texts, snaps) ->
    forall p n sn, lookup p (p2n tr) = Some n -> lookup p (p2n s) = Some sn -> n = sn.
Proof. exact std_packages_keep_their_names. Qed.
Print Assumptions C03_std_packages_keep_their_names.

(* Identifier validity (repaired code): every local name is a Go identifier, not a keyword, not "_". *)
Theorem C03_valid_names :
  forall pre std self ops tr texts snaps,
    run true pre std self ops = Ok (tr, texts, snaps) ->
    forall p n, lookup p (p2n tr) = Some n -> valid_name_b n = true.
Proof. exact run_valid_names. Qed.
Print Assumptions C03_valid_names.

(* No shadowing of predeclared identifiers — the ADDITIONAL clause [no_predeclared] (valid_name_b is
   unchanged: `string`, `len` ARE valid non-keyword identifiers): whatever list of names bind refuses
   outright, no package is ever bound to one of them; for both code versions, every table, every
   history (candidates and numbered fallback alike: float3 + "2" = float32 is refused too). *)
Theorem C03_not_predeclared :
  forall pre std self fixed ops tr texts snaps,
    run fixed pre std self ops = Ok (tr, texts, snaps) ->
    forall p n, lookup p (p2n tr) = Some n -> ~ In n pre.
Proof. exact run_not_predeclared. Qed.
Print Assumptions C03_not_predeclared.

(* ... in particular for the repaired code of the current tree: no local name is an identifier of the
   universe scope of the toolchain ([universe_names], Gen/StdList.v), nor one of the Go spec's
   predeclared identifiers, nor a type name C11's name resolution treats as predeclared. *)
Theorem C03_not_predeclared_universe :
  forall std self ops tr texts snaps,
    run true universe_names std self ops = Ok (tr, texts, snaps) ->
    forall p n, lookup p (p2n tr) = Some n ->
      not_predeclared_b universe_names n = true /\ ~ In n spec_predeclared /\ Spec.TypeLit.is_predeclared n = false.
Proof. exact run_not_predeclared_universe. Qed.
Print Assumptions C03_not_predeclared_universe.

(* Exact import set (repaired code): a package is imported iff the history refers to it — it was
   AddType'd, or it is the package of a rendered reference or of one of its type arguments and is
   not the file's own package.  None missing, none unused. *)
Theorem C03_exact_imports :
  forall pre std self ops tr texts snaps,
    run true pre std self ops = Ok (tr, texts, snaps) ->
    forall p, In p (keys (p2n tr)) <-> In p (history_paths self ops).
Proof. exact run_exact_imports. Qed.
Print Assumptions C03_exact_imports.

(* Every reference, whenever it was rendered, is the text [print_op] gives with the FINAL import
   table: each qualifier is the name its package is imported under (so asking twice gives the same
   name), and references to the own package carry no qualifier. *)
Theorem C03_references_use_import_names :
  forall pre std self ops tr texts snaps,
    run true pre std self ops = Ok (tr, texts, snaps) ->
    map (print_op self (p2n tr)) ops = map Some texts.
Proof. exact run_texts. Qed.
Print Assumptions C03_references_use_import_names.

Theorem C03_own_package_unqualified :
  forall self tbl r,
    r_path r = self -> r_name r <> [] -> print_ref self tbl r <> None ->
    exists rest, print_ref self tbl r = Some (r_name r ++ rest).
Proof. exact own_package_unqualified. Qed.
Print Assumptions C03_own_package_unqualified.

(* The import block lists the table's entries, each once, in ascending path order. *)
Theorem C03_import_block :
  forall m, Permutation (sort_by_key m) m /\ Sorted key_le (sort_by_key m).
Proof. exact write_imports_entries. Qed.
Print Assumptions C03_import_block.

(* What toLocalName computes, read declaratively (before the sanitising of the repaired code): the
   camel-case words (C19's Split) of the joined segments, minus the words that are one ASCII
   punctuation character or space, lower-cased and concatenated. *)
Theorem C03_local_name_is_lowercased_words :
  forall parts,
    exists ws, split crune c_cls true (Valid (map cr (concat parts))) = Ok ws /\
               raw_local_name parts = Ok (concat (map (map lowb) (filter kept ws))).
Proof. exact raw_local_name_spec. Qed.
Print Assumptions C03_local_name_is_lowercased_words.

(* The reserved-name table of the current source (Gen/StdList.v, regenerated from std.list on every
   run) is what the model builds, was not changed by the repairs (C03-1/2: [false]; C03-3: [[]]), is a
   bijection onto valid names and names every listed package. *)
Theorem C03_std_table :
  std_built true universe_names = Ok std_tr /\ std_built false [] = Ok std_tr /\ std_built true [] = Ok std_tr /\
  (forall p n, lookup p (p2n std_tr) = Some n <-> lookup n (n2p std_tr) = Some p) /\
  (forall p n, lookup p (p2n std_tr) = Some n -> valid_name_b n = true) /\
  (forall l, In l std_lines -> l <> [] -> exists n, lookup l (p2n std_tr) = Some n).
Proof. exact (conj std_table_built (conj std_table_unchanged_by_fix (conj std_table_unchanged_by_fix3 std_table_wf))). Qed.
Print Assumptions C03_std_table.

(* The universe scope of the current toolchain (Gen/StdList.v, regenerated from go/types.Universe on
   every run) has every predeclared identifier of the Go spec and every predeclared type name of
   C11's specification; its names are identifiers, pairwise distinct. *)
Theorem C03_universe_table :
  subset_b spec_predeclared universe_names = true /\
  subset_b (map fst Spec.TypeLit.predeclared) universe_names = true /\
  forallb valid_name_b universe_names && nodup_b universe_names = true.
Proof. exact (conj universe_covers_spec (conj universe_covers_c11 universe_names_wf)). Qed.
Print Assumptions C03_universe_table.

(* History: the code before the repairs violated validity, exactness and the qualifier clause. *)
Theorem C03_valid_names_refuted_before_fix :
  exists tr texts snaps,
    run false [] None (bs "m") (h_refs [bs "github.com/json-iterator/go"]) = Ok (tr, texts, snaps) /\
    lookup (bs "github.com/json-iterator/go") (p2n tr) = Some (bs "go") /\ texts = [bs "go.T"].
Proof. exact old_keyword_name. Qed.
Print Assumptions C03_valid_names_refuted_before_fix.

Theorem C03_valid_names_refuted_before_fix_digit :
  exists tr texts snaps,
    run false [] None (bs "m") (h_refs [bs "example.com/2fa"]) = Ok (tr, texts, snaps) /\
    lookup (bs "example.com/2fa") (p2n tr) = Some (bs "2fa").
Proof. exact old_digit_name. Qed.
Print Assumptions C03_valid_names_refuted_before_fix_digit.

(* before fixes/C03-3 (C03-1 and C03-2 in): example.com/x/string was imported as `string` *)
Theorem C03_not_predeclared_refuted_before_fix :
  (exists tr texts snaps,
    run true [] None (bs "m") (h_refs [bs "example.com/x/string"]) = Ok (tr, texts, snaps) /\
    lookup (bs "example.com/x/string") (p2n tr) = Some (bs "string") /\ texts = [bs "string.T"])
  /\ In (bs "string") universe_names /\ valid_name_b (bs "string") = true.
Proof. exact old_predeclared_name_universe. Qed.
Print Assumptions C03_not_predeclared_refuted_before_fix.

Theorem C03_exact_imports_refuted_before_fix :
  exists tr texts snaps,
    run false [] None (bs "m") (h_refs [bs "a.com/foo-bar"; bs "a.com/foo_bar"; bs "a.com/foobar"]) = Ok (tr, texts, snaps) /\
    lookup (bs "a.com/foobar") (p2n tr) = None /\ nth 2 texts [] = bs ".T".
Proof. exact old_candidates_exhausted. Qed.
Print Assumptions C03_exact_imports_refuted_before_fix.

(* non-vacuity: a history with a std clash, a keyword segment, exhausted candidates, a generic
   instantiation with an own-package argument and a repeated package, under the current std table
   and universe *)
Local Open Scope string_scope.
Example C03_example :
  let r p n args := IRef (mk_ref (bs p) (bs n) args []) in
  match run true universe_names (Some std_tr) (bs "example.com/m")
          [ORender [r "math/rand" "Rand" []]; ORender [r "example.com/rand" "T" []];
           ORender [r "github.com/json-iterator/go" "API" []];
           OAdd (bs "a.com/foo-bar"); OAdd (bs "a.com/foo_bar"); OAdd (bs "a.com/foobar");
           ORender [ILit (bs "[]"); r "example.com/o" "List" [(bs "a.com/foobar", bs "Item,"); (bs "example.com/m", bs "Own,"); ([], bs "int]")]];
           ORender [r "example.com/m" "Own" []; ILit (bs " "); r "math/rand" "Source" []]] with
  | Ok (tr, texts, _) => (map (fun e => (to_string (fst e), to_string (snd e))) (p2n tr), map to_string texts)
  | _ => ([], [])
  end =
  ([("example.com/o", "o"); ("a.com/foobar", "acomfoobar2"); ("a.com/foo_bar", "acomfoobar"); ("a.com/foo-bar", "foobar");
    ("github.com/json-iterator/go", "_go"); ("example.com/rand", "examplecomrand"); ("math/rand", "mathrand")],
   ["mathrand.Rand"; "examplecomrand.T"; "_go.API"; ""; ""; ""; "[]o.List[acomfoobar2.Item,Own,int]"; "Own mathrand.Source"]).
Proof. vm_compute. reflexivity. Qed.

(* predeclared names: first candidate refused (x/string -> xstring), single segment numbered
   (error -> error2), the numbered fallback itself refused (float3, float-3 -> float33) *)
Example C03_example_predeclared :
  match run true universe_names (Some std_tr) (bs "example.com/m")
          [OAdd (bs "example.com/x/string"); OAdd (bs "error"); OAdd (bs "float3"); OAdd (bs "float-3");
           ORender [IRef (mk_ref (bs "a.com/len") (bs "T") [(bs "a.com/nil", bs "V]")] [])]] with
  | Ok (tr, texts, _) => (map (fun e => (to_string (fst e), to_string (snd e))) (p2n tr), map to_string texts)
  | _ => ([], [])
  end =
  ([("a.com/len", "acomlen"); ("a.com/nil", "acomnil"); ("float-3", "float33"); ("float3", "float3"); ("error", "error2");
    ("example.com/x/string", "xstring")],
   [""; ""; ""; ""; "acomlen.T[acomnil.V]"]).
Proof. vm_compute. reflexivity. Qed.

(* ------------------------------------------------------------------------------------------------------------ *)
(* RenderStack: C03_exact_imports lifted from histories of references to snippet TERMS.
   [crender] (Model/RenderStack.v) is the composed rendering: C09's scanners threading the state of THIS tracker
   through C10's value literals and C11's / C15's type literals and references.  [cpkgs s] are the packages of the
   leaves of s that are rendered — holes that occur (and are not nil), arguments a verb consumes — read off the term
   by the specification's tokenisation (no scanner loop); a leaf's packages are the paths its rendering hands to AddType
   ([leaf_regs]: for a type of C11's grammar exactly its foreign packages — C11_registers_exact; for a value of the
   repaired code exactly the foreign packages its literal mentions — C10_literal_packages_exact). *)
Require Import Gengo.Model.RenderStack Gengo.Proofs.RenderStackTracker Gengo.Proofs.RenderStackLeaves Gengo.Proofs.RenderStack.

(* the tracker after rendering a term is AddType of those packages, in rendering order, on the tracker before *)
Theorem C03_terms_register_exactly :
  forall (F : Type) (fzero : F -> bool) (ffmt gfmt : VL.fkind -> F -> bytes) (fbig : F -> bool)
         (quote : bytes -> bytes) (cbq : bytes -> bool) (pre : list bytes) (std : option tracker)
         (self : bytes) (fx6 : bool) (s : @csnip F) (e : TL.renv) (out : bytes) (e' : TL.renv),
    crender fzero ffmt gfmt fbig quote cbq (pick_c03 pre std) self fx6 s e = Ok (out, e') ->
    e' = RenderStack.add_all (pick_c03 pre std) (cpkgs fzero ffmt gfmt fbig quote self fx6 s) e /\
    (forall p, In p (map fst e') <-> In p (map fst e) \/ In p (cpkgs fzero ffmt gfmt fbig quote self fx6 s)).
Proof.
  exact (fun F fzero ffmt gfmt fbig quote cbq pre std self fx6 s e out e' H =>
           conj (crender_reach fzero ffmt gfmt fbig quote cbq pre std self fx6 s e out e' H)
                (crender_imports fzero ffmt gfmt fbig quote cbq pre std self fx6 s e out e' H)).
Qed.
Print Assumptions C03_terms_register_exactly.

(* ... so a sequence of Render calls is a HISTORY of this file ([add_all] = the OAdd history, Proofs add_all_as_run),
   and every theorem above (bijection, stability, valid names, not predeclared) applies to the writer's tracker *)
Theorem C03_terms_are_histories :
  forall (F : Type) (fzero : F -> bool) (ffmt gfmt : VL.fkind -> F -> bytes) (fbig : F -> bool)
         (quote : bytes -> bytes) (cbq : bytes -> bool) (pre : list bytes) (std : option tracker)
         (self : bytes) (fx6 : bool) (l : list (@csnip F)) (e : TL.renv) (out : bytes) (e' : TL.renv),
    crender_all fzero ffmt gfmt fbig quote cbq (pick_c03 pre std) self fx6 l e = Ok (out, e') ->
    Gengo.Model.Tracker.add_all true pre std (tr_of e) (flat_map (cpkgs fzero ffmt gfmt fbig quote self fx6) l) = Ok (tr_of e').
Proof. exact @crender_all_is_history. Qed.
Print Assumptions C03_terms_are_histories.
