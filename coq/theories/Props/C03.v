(* C03 — placeholder while the correspondence is being set up *)
Require Import Gengo.Base.Bytes Gengo.Model.Tracker.
