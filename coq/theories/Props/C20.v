(* C20 placeholder, replaced below *)
Require Import Gengo.Base.Bytes.
