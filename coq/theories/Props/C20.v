(* C20 — Inflection is total, pure and only rewrites the last word.
   Statements only; every proof is [exact <lemma>].

   [inflected fixed tbl unf suffix] is the model of Rule.inflected (Model/Inflector.v): [tbl] the
   irregular table, [unf] the parsed uninflected alternatives, [suffix] the ordered regexp rules as
   an arbitrary total function (the first group of theorems holds for EVERY suffix engine);
   [fixed = true] is the code after the "fix:" commit.  [api_full] is the COMPLETE model of
   Pluralize / Singularize: the suffix engine is [suffix_fn] (Model/InflectorRegexp.v: a regexp
   matcher, ReplaceAllString and template expansion in Gallina) over the rules extracted from
   rules.go on this run; the "_concrete" theorems are about it and have no parameter left.  Purity is by
   construction: the model of Rule.inflected is a function of the string; what the cache adds is
   covered by the C20_cache_* theorems for every interleaving of concurrent callers. *)
Require Import Gengo.Base.Bytes Gengo.Model.Inflector Gengo.Model.InflectorRegexp Gengo.Gen.InflectorTables
  Gengo.Model.InflectorApi Gengo.Model.OnceCache
  Gengo.Proofs.Inflector Gengo.Proofs.InflectorRegexp Gengo.Proofs.InflectorFull Gengo.Proofs.OnceCache.

(* ---- for every table that satisfies the side conditions, every string ---- *)

(* Rule.inflected returns (no slice expression panics) on every string, whatever the uninflected
   list and the suffix rules are. *)
Theorem C20_total :
  forall tbl unf suffix, table_wf tbl = true ->
  forall s, exists r, inflected true tbl unf suffix s = Ok r.
Proof. exact inflected_total. Qed.
Print Assumptions C20_total.

(* If the input is  p ++ w  with w an irregular word (any ASCII-case variant of a table word) and p
   empty or ending in a non-word byte, the result is p, unchanged, followed by exactly what w gives
   on its own. *)
Theorem C20_prefix_preserved :
  forall tbl unf suffix, table_wf tbl = true ->
  forall p w, irregular tbl w -> at_boundary p = true ->
  exists r, inflected true tbl unf suffix w = Ok r
         /\ inflected true tbl unf suffix (p ++ w) = Ok (p ++ r).
Proof. exact inflected_prefix_preserved. Qed.
Print Assumptions C20_prefix_preserved.

(* ... and what the word gives on its own is its own first byte followed by the table's
   replacement without its first byte. *)
Theorem C20_irregular_word_alone :
  forall tbl unf suffix, table_wf tbl = true ->
  forall w, irregular tbl w ->
  exists c w' d repl, w = c :: w' /\ lookup (map to_lower w) tbl = Some (d :: repl)
    /\ inflected true tbl unf suffix w = Ok (c :: repl).
Proof. exact inflected_irregular_alone. Qed.
Print Assumptions C20_irregular_word_alone.

(* ---- the tables as they are in rules.go / rule.go today (re-extracted on every run) ---- *)

Theorem C20_tables_ok : tables_wf = true.
Proof. exact tables_ok. Qed.
Print Assumptions C20_tables_ok.

(* inflector.Pluralize ([plural = true]) and inflector.Singularize ([false]) *)
Theorem C20_api_total :
  forall plural suffix s, exists r, api true plural suffix s = Ok r.
Proof. exact api_total. Qed.
Print Assumptions C20_api_total.

Theorem C20_api_prefix_preserved :
  forall plural suffix p w, irregular (api_table plural) w -> at_boundary p = true ->
  exists r, api true plural suffix w = Ok r /\ api true plural suffix (p ++ w) = Ok (p ++ r).
Proof. exact api_prefix_preserved. Qed.
Print Assumptions C20_api_prefix_preserved.

(* ---- the suffix-rule engine (Model/InflectorRegexp.v): every pattern of the modelled language,
        every template, every rule list, every string ---- *)

(* Totality of the engine: neither the backtracking matcher (repetition counter) nor the
   ReplaceAllString loop ever runs out of fuel; [suffix_fn], the plain function the model of
   Rule.inflected takes, is exactly the result of the fuelled definition. *)
Theorem C20_suffix_fuel_suffices :
  forall rules s, suffix_res rules s = Ok (suffix_fn rules s).
Proof. exact suffix_fuel_suffices. Qed.
Print Assumptions C20_suffix_fuel_suffices.

(* What the search reports as the leftmost match lies inside the text, at or after the offset the
   search started from ... *)
Theorem C20_match_in_text :
  forall fold r s pos a0 a1 cs, pos <= length s ->
  search fold r s pos = MYes (a0, a1, cs) -> pos <= a0 /\ a0 <= a1 /\ a1 <= length s.
Proof. exact search_bounds. Qed.
Print Assumptions C20_match_in_text.

(* ... and is a match of the pattern in the declarative sense ([matches]: no priorities, no fuel). *)
Theorem C20_matcher_sound :
  forall fold r s pos a0 a1 cs,
  search fold r s pos = MYes (a0, a1, cs) -> exists t', matches fold r a0 (skipn a0 s) a1 t'.
Proof. exact search_sound. Qed.
Print Assumptions C20_matcher_sound.

(* A rule only rewrites a suffix: if no pattern matches, the string is returned as it is; otherwise
   the first rule whose pattern matches rewrites it, and the result starts with everything the input
   has before that pattern's leftmost match. *)
Theorem C20_suffix_rules_rewrite_a_suffix :
  forall rules s,
  match first_matching rules s with
  | None => suffix_fn rules s = s
  | Some (c, a0) => In c rules /\ a0 <= length s /\ exists more, suffix_fn rules s = firstn a0 s ++ more
  end.
Proof. exact suffix_fn_shape. Qed.
Print Assumptions C20_suffix_rules_rewrite_a_suffix.

(* Irregular and uninflected inputs never reach the suffix rules: an irregular word after a word
   boundary, and any string the uninflected expression matches, is not handed to them, and a string
   that is not handed to them gets the same result whatever the suffix engine is. *)
Theorem C20_suffix_rules_not_reached :
  forall tbl unf, table_wf tbl = true ->
  (forall p w, irregular tbl w -> at_boundary p = true -> reaches_suffix true tbl unf (p ++ w) = false)
  /\ (forall s, uninflected_match unf s = true -> reaches_suffix true tbl unf s = false)
  /\ (forall s, reaches_suffix true tbl unf s = false ->
       forall f g, inflected true tbl unf f s = inflected true tbl unf g s)
  /\ (forall s, reaches_suffix true tbl unf s = true -> forall f, inflected true tbl unf f s = Ok (f s)).
Proof.
  exact (fun tbl unf Hwf =>
    conj (irregular_never_reaches_suffix tbl unf Hwf)
   (conj (uninflected_never_reaches_suffix true tbl unf)
   (conj (inflected_suffix_independent true tbl unf) (inflected_reaches_suffix tbl unf)))).
Qed.
Print Assumptions C20_suffix_rules_not_reached.

(* ---- the COMPLETE model of Pluralize / Singularize: tables AND rules extracted on this run ---- *)

Theorem C20_api_total_concrete :
  forall plural s, exists r, api_full true plural s = Ok r.
Proof. exact api_full_total. Qed.
Print Assumptions C20_api_total_concrete.

Theorem C20_api_prefix_preserved_concrete :
  forall plural p w, irregular (api_table plural) w -> at_boundary p = true ->
  exists r, api_full true plural w = Ok r /\ api_full true plural (p ++ w) = Ok (p ++ r).
Proof. exact api_full_prefix_preserved. Qed.
Print Assumptions C20_api_prefix_preserved_concrete.

Theorem C20_api_irregular_word_alone_concrete :
  forall plural w, irregular (api_table plural) w ->
  exists c w' d repl, w = c :: w' /\ lookup (map to_lower w) (api_table plural) = Some (d :: repl)
    /\ api_full true plural w = Ok (c :: repl).
Proof. exact api_full_irregular_alone. Qed.
Print Assumptions C20_api_irregular_word_alone_concrete.

(* the answer to an irregular word after a boundary does not come from the suffix rules *)
Theorem C20_api_irregular_skips_suffix_rules_concrete :
  forall plural p w, irregular (api_table plural) w -> at_boundary p = true ->
  api_reaches_suffix plural (p ++ w) = false
  /\ forall engine, api_full true plural (p ++ w) = api true plural engine (p ++ w).
Proof.
  exact (fun plural p w Hi Hb =>
    conj (api_irregular_skips_suffix_rules plural p w Hi Hb)
         (api_not_reaching_is_independent plural (p ++ w) (api_irregular_skips_suffix_rules plural p w Hi Hb))).
Qed.
Print Assumptions C20_api_irregular_skips_suffix_rules_concrete.

(* every string that does reach the suffix rules: unchanged if no rule matches, otherwise the text
   before the first matching rule's leftmost match is kept *)
Theorem C20_api_suffix_shape_concrete :
  forall plural s, api_reaches_suffix plural s = true ->
  match first_matching (api_rules plural) s with
  | None => api_full true plural s = Ok s
  | Some (c, a0) => In c (api_rules plural) /\ a0 <= length s
                    /\ exists more, api_full true plural s = Ok (firstn a0 s ++ more)
  end.
Proof. exact api_full_suffix_shape. Qed.
Print Assumptions C20_api_suffix_shape_concrete.

(* ---- the memoisation (sync.Map of sync.OnceValue closures), every schedule ---- *)

(* For every function f, every assignment of arguments to (unboundedly many) concurrent calls and
   every interleaving of their atomic steps: a call that has returned has returned f of ITS argument. *)
Theorem C20_cache_consistent :
  forall (key val : Type) (key_eqb : key -> key -> bool),
  (forall a b, key_eqb a b = true -> a = b) ->
  forall (f : key -> val) (keys : nat -> key) (sched : list nat) t v,
    phases _ _ (run key val key_eqb f keys sched (init key val)) t = Done v -> v = f (keys t).
Proof. exact cache_consistent. Qed.
Print Assumptions C20_cache_consistent.

(* the same input gives the same result on every call *)
Theorem C20_cache_same_result :
  forall (key val : Type) (key_eqb : key -> key -> bool),
  (forall a b, key_eqb a b = true -> a = b) ->
  forall (f : key -> val) (keys : nat -> key) (sched : list nat) t1 t2 v1 v2,
    keys t1 = keys t2 ->
    phases _ _ (run key val key_eqb f keys sched (init key val)) t1 = Done v1 ->
    phases _ _ (run key val key_eqb f keys sched (init key val)) t2 = Done v2 -> v1 = v2.
Proof. exact cache_same_result. Qed.
Print Assumptions C20_cache_same_result.

(* no reachable state is a deadlock: every call can be driven to its return by <= 4 more steps *)
Theorem C20_cache_no_deadlock :
  forall (key val : Type) (key_eqb : key -> key -> bool),
  (forall a b, key_eqb a b = true -> a = b) ->
  forall (f : key -> val) (keys : nat -> key) (sched : list nat) t,
  exists more v, length more <= 4
    /\ phases _ _ (run key val key_eqb f keys (sched ++ more) (init key val)) t = Done v.
Proof. exact cache_can_finish. Qed.
Print Assumptions C20_cache_no_deadlock.

(* Pluralize / Singularize called from any number of goroutines: whatever a call returns is a
   value (no panic) and is the sequential result for its argument. *)
Theorem C20_concurrent_calls :
  forall plural suffix (keys : nat -> bytes) sched t v,
  phases _ _ (run bytes (res bytes) bytes_eqb (api true plural suffix) keys sched (init _ _)) t = Done v ->
  exists r, v = Ok r /\ api true plural suffix (keys t) = Ok r.
Proof. exact concurrent_api. Qed.
Print Assumptions C20_concurrent_calls.

(* the same for the complete model: no parameter left *)
Theorem C20_concurrent_calls_concrete :
  forall plural (keys : nat -> bytes) sched t v,
  phases _ _ (run bytes (res bytes) bytes_eqb (api_full true plural) keys sched (init _ _)) t = Done v ->
  exists r, v = Ok r /\ api_full true plural (keys t) = Ok r.
Proof. exact concurrent_api_full. Qed.
Print Assumptions C20_concurrent_calls_concrete.

Theorem C20_cache_same_result_concrete :
  forall plural (keys : nat -> bytes) sched t1 t2 v1 v2,
  keys t1 = keys t2 ->
  phases _ _ (run bytes (res bytes) bytes_eqb (api_full true plural) keys sched (init _ _)) t1 = Done v1 ->
  phases _ _ (run bytes (res bytes) bytes_eqb (api_full true plural) keys sched (init _ _)) t2 = Done v2 -> v1 = v2.
Proof. exact (fun plural => cache_same_result bytes (res bytes) bytes_eqb bytes_eqb_eq (api_full true plural)). Qed.
Print Assumptions C20_cache_same_result_concrete.

(* ---- history: Rule.inflected before the "fix:" commit ---- *)

Theorem C20_total_refuted_before_fix : exists s, api false true id_suffix s = Panic.
Proof. exact old_total_refuted. Qed.
Print Assumptions C20_total_refuted_before_fix.

Theorem C20_prefix_preserved_refuted_before_fix :
  exists p w, irregular plural_irregular w /\ at_boundary p = true
    /\ api false true id_suffix w = Ok (bs "sexes")
    /\ api false true id_suffix (p ++ w) = Ok (bs "my mexes").
Proof. exact old_prefix_refuted. Qed.
Print Assumptions C20_prefix_preserved_refuted_before_fix.

Theorem C20_newline_prefix_refuted_before_fix :
  exists p w, irregular plural_irregular w /\ at_boundary p = true
    /\ api false true id_suffix (p ++ w) = Ok (bs "aeople").
Proof. exact old_newline_refuted. Qed.
Print Assumptions C20_newline_prefix_refuted_before_fix.

(* ---- non-vacuity ---- *)

Example C20_example_old_person :
  api true true id_suffix (bs "old-person") = Ok (bs "old-people")
  /\ api true true id_suffix (bs "person") = Ok (bs "people")
  /\ irregularb plural_irregular (bs "person") = true /\ at_boundary (bs "old-") = true.
Proof. vm_compute. repeat split. Qed.

Example C20_example_big_feet_upper :
  api true false id_suffix (bs "BIG FEET") = Ok (bs "BIG Foot").
Proof. vm_compute. reflexivity. Qed.

(* U+017F after the fix: falls through to the other rules instead of panicking *)
Example C20_example_long_s :
  api true true id_suffix (hx "61746c61c5bf") = Ok (hx "61746c61c5bf").
Proof. vm_compute. reflexivity. Qed.

(* uninflected list is consulted after the irregular table: "people" is only in the singular table *)
Example C20_example_people :
  api true true id_suffix (bs "people") = Ok (bs "people")
  /\ api true false id_suffix (bs "my people") = Ok (bs "my person").
Proof. vm_compute. split; reflexivity. Qed.

(* a schedule in which call 1 loads the closure stored by call 0 and waits for it *)
Example C20_example_schedule :
  let keys := fun _ : nat => bs "old-person" in
  let st := run bytes (res bytes) bytes_eqb (api true true id_suffix) keys [0;1;0;1;1;0;1;0] (init _ _) in
  phases _ _ st 0 = Done (Ok (bs "old-people")) /\ phases _ _ st 1 = Done (Ok (bs "old-people"))
  /\ length (cache _ _ st) = 1.
Proof. vm_compute. repeat split. Qed.

(* ---- non-vacuity of the complete model ----
   On the data of this run only what the repository's own test table (api_test.go) also pins, so that
   an edit of the rule data that keeps the maintainers' tests green keeps these green too. *)

Example C20_example_quiz :
  api_full true true (bs "quiz") = Ok (bs "quizzes")
  /\ api_reaches_suffix true (bs "my quiz") = true
  /\ api_full true true (bs "my quiz") = Ok (bs "my quizzes").
Proof. vm_compute. repeat split. Qed.

Example C20_example_matrices :
  api_full true false (bs "matrices") = Ok (bs "matrix")
  /\ api_full true false (hx "e697a5e69cac206d656e7573") = Ok (hx "e697a5e69cac206d656e75").
Proof. vm_compute. repeat split. Qed.

(* the hypotheses of C20_api_suffix_shape_concrete / C20_api_irregular_skips_suffix_rules_concrete are satisfiable *)
Example C20_example_reaches :
  (exists s c a0, api_reaches_suffix true s = true /\ first_matching (api_rules true) s = Some (c, a0) /\ 0 < a0)
  /\ api_reaches_suffix true (bs "old-person") = false /\ api_reaches_suffix true (bs "salesperson") = true.
Proof.
  split; [|vm_compute; split; reflexivity].
  exists (bs "my quiz"). vm_compute. eexists. eexists. repeat split. lia.
Qed.

(* ---- the engine on a FIXED rule list (source strings written here, compiled by the model): these
   do not depend on rules.go ---- *)

Definition ex_plural : list crule := rules_of_src [
  (bs "(?i)(s)tatus$", bs "${1}${2}tatuses"); (bs "(?i)([m|l])ouse$", bs "${1}ice");
  (bs "(?i)([^aeiouy]|qu)y$", bs "${1}ies"); (bs "(?i)(hive)$", bs "$1s");
  (bs "s$", bs "s"); (bs "^$", bs ""); (bs "$", bs "s") ].

Definition ex_singular : list crule := rules_of_src [
  (bs "(?i)^(.*)(menu)s$", bs "${1}${2}"); (bs "(?i)(alias)(es)*$", bs "$1");
  (bs "(?i)([ftw]ax)es", bs "$1"); (bs "([^a])uses$", bs "${1}us");
  (bs "(?i)(analy|diagno|^ba|(p)arenthe|(p)rogno|(s)ynop|(t)he)ses$", bs "${1}${2}sis");
  (bs "(?i)s$", bs "") ].

Example C20_example_engine_compiles : length ex_plural = 7 /\ length ex_singular = 6.
Proof. vm_compute. split; reflexivity. Qed.

(* U+017F matches an "(?i)s" literal and is captured; e-acute and an invalid byte are one rune each for
   "[^aeiouy]", and so is a newline; "$" alone matches the empty string at the end, exactly once *)
Example C20_example_engine_non_ascii :
  suffix_fn ex_plural (hx "6d6f75c5bf65") = bs "mice"
  /\ suffix_fn ex_plural (hx "c5bf7461747573") = hx "c5bf74617475736573"
  /\ suffix_fn ex_plural (hx "c3a979") = hx "c3a9696573"
  /\ suffix_fn ex_plural (hx "ff79") = hx "ff696573"
  /\ suffix_fn ex_plural (hx "0a79") = hx "0a696573"
  /\ suffix_fn ex_plural (bs "bus") = bs "bus" /\ suffix_fn ex_plural [] = [] /\ suffix_fn ex_plural (bs "cat") = bs "cats".
Proof. vm_compute. repeat split. Qed.

(* an unanchored pattern is replaced at every match; "(es)*" is greedy; "." stops at a newline, so the
   first rule does not match and the last one does; "^" inside an alternative; "${2}" is set by "(p)arenthe" *)
Example C20_example_engine_singular :
  suffix_fn ex_singular (bs "taxesfaxes") = bs "taxfax"
  /\ suffix_fn ex_singular (bs "aliaseses") = bs "alias"
  /\ suffix_fn ex_singular (bs "food_menus") = bs "food_menu"
  /\ suffix_fn ex_singular (hx "610a6d656e7573") = hx "610a6d656e75"
  /\ suffix_fn ex_singular (bs "bases") = bs "basis" /\ suffix_fn ex_singular (bs "abases") = bs "abase"
  /\ suffix_fn ex_singular (bs "parentheses") = bs "parenthepsis"
  /\ suffix_fn ex_singular (bs "viruses") = bs "virus" /\ suffix_fn ex_singular (bs "causes") = bs "cause".
Proof. vm_compute. repeat split. Qed.

(* "$1s" names the group "1s" (Regexp.expand takes the longest name), which does not exist *)
Example C20_example_engine_template_name :
  suffix_fn ex_plural (bs "hive") = [] /\ option_map snd (first_matching ex_plural (bs "my hive")) = Some 3.
Proof. vm_compute. split; reflexivity. Qed.
