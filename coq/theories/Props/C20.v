(* C20 — Inflection is total, pure and only rewrites the last word.
   Statements only; every proof is [exact <lemma>].

   [inflected fixed tbl unf suffix] is the model of Rule.inflected (Model/Inflector.v): [tbl] the
   irregular table, [unf] the parsed uninflected alternatives, [suffix] the (unmodelled, total)
   ordered regexp rules; [fixed = true] is the code after the "fix:" commit.  Purity is by
   construction: the model of Rule.inflected is a function of the string; what the cache adds is
   covered by the C20_cache_* theorems for every interleaving of concurrent callers. *)
Require Import Gengo.Base.Bytes Gengo.Model.Inflector Gengo.Gen.InflectorTables Gengo.Model.InflectorApi
  Gengo.Model.OnceCache Gengo.Proofs.Inflector Gengo.Proofs.OnceCache.

(* ---- for every table that satisfies the side conditions, every string ---- *)

(* Rule.inflected returns (no slice expression panics) on every string, whatever the uninflected
   list and the suffix rules are. *)
Theorem C20_total :
  forall tbl unf suffix, table_wf tbl = true ->
  forall s, exists r, inflected true tbl unf suffix s = Ok r.
Proof. exact inflected_total. Qed.
Print Assumptions C20_total.

(* If the input is  p ++ w  with w an irregular word (any ASCII-case variant of a table word) and p
   empty or ending in a non-word byte, the result is p, unchanged, followed by exactly what w gives
   on its own. *)
Theorem C20_prefix_preserved :
  forall tbl unf suffix, table_wf tbl = true ->
  forall p w, irregular tbl w -> at_boundary p = true ->
  exists r, inflected true tbl unf suffix w = Ok r
         /\ inflected true tbl unf suffix (p ++ w) = Ok (p ++ r).
Proof. exact inflected_prefix_preserved. Qed.
Print Assumptions C20_prefix_preserved.

(* ... and what the word gives on its own is its own first byte followed by the table's
   replacement without its first byte. *)
Theorem C20_irregular_word_alone :
  forall tbl unf suffix, table_wf tbl = true ->
  forall w, irregular tbl w ->
  exists c w' d repl, w = c :: w' /\ lookup (map to_lower w) tbl = Some (d :: repl)
    /\ inflected true tbl unf suffix w = Ok (c :: repl).
Proof. exact inflected_irregular_alone. Qed.
Print Assumptions C20_irregular_word_alone.

(* ---- the tables as they are in rules.go / rule.go today (re-extracted on every run) ---- *)

Theorem C20_tables_ok : tables_wf = true.
Proof. exact tables_ok. Qed.
Print Assumptions C20_tables_ok.

(* inflector.Pluralize ([plural = true]) and inflector.Singularize ([false]) *)
Theorem C20_api_total :
  forall plural suffix s, exists r, api true plural suffix s = Ok r.
Proof. exact api_total. Qed.
Print Assumptions C20_api_total.

Theorem C20_api_prefix_preserved :
  forall plural suffix p w, irregular (api_table plural) w -> at_boundary p = true ->
  exists r, api true plural suffix w = Ok r /\ api true plural suffix (p ++ w) = Ok (p ++ r).
Proof. exact api_prefix_preserved. Qed.
Print Assumptions C20_api_prefix_preserved.

(* ---- the memoisation (sync.Map of sync.OnceValue closures), every schedule ---- *)

(* For every function f, every assignment of arguments to (unboundedly many) concurrent calls and
   every interleaving of their atomic steps: a call that has returned has returned f of ITS argument. *)
Theorem C20_cache_consistent :
  forall (key val : Type) (key_eqb : key -> key -> bool),
  (forall a b, key_eqb a b = true -> a = b) ->
  forall (f : key -> val) (keys : nat -> key) (sched : list nat) t v,
    phases _ _ (run key val key_eqb f keys sched (init key val)) t = Done v -> v = f (keys t).
Proof. exact cache_consistent. Qed.
Print Assumptions C20_cache_consistent.

(* the same input gives the same result on every call *)
Theorem C20_cache_same_result :
  forall (key val : Type) (key_eqb : key -> key -> bool),
  (forall a b, key_eqb a b = true -> a = b) ->
  forall (f : key -> val) (keys : nat -> key) (sched : list nat) t1 t2 v1 v2,
    keys t1 = keys t2 ->
    phases _ _ (run key val key_eqb f keys sched (init key val)) t1 = Done v1 ->
    phases _ _ (run key val key_eqb f keys sched (init key val)) t2 = Done v2 -> v1 = v2.
Proof. exact cache_same_result. Qed.
Print Assumptions C20_cache_same_result.

(* no reachable state is a deadlock: every call can be driven to its return by <= 4 more steps *)
Theorem C20_cache_no_deadlock :
  forall (key val : Type) (key_eqb : key -> key -> bool),
  (forall a b, key_eqb a b = true -> a = b) ->
  forall (f : key -> val) (keys : nat -> key) (sched : list nat) t,
  exists more v, length more <= 4
    /\ phases _ _ (run key val key_eqb f keys (sched ++ more) (init key val)) t = Done v.
Proof. exact cache_can_finish. Qed.
Print Assumptions C20_cache_no_deadlock.

(* Pluralize / Singularize called from any number of goroutines: whatever a call returns is a
   value (no panic) and is the sequential result for its argument. *)
Theorem C20_concurrent_calls :
  forall plural suffix (keys : nat -> bytes) sched t v,
  phases _ _ (run bytes (res bytes) bytes_eqb (api true plural suffix) keys sched (init _ _)) t = Done v ->
  exists r, v = Ok r /\ api true plural suffix (keys t) = Ok r.
Proof. exact concurrent_api. Qed.
Print Assumptions C20_concurrent_calls.

(* ---- history: Rule.inflected before the "fix:" commit ---- *)

Theorem C20_total_refuted_before_fix : exists s, api false true id_suffix s = Panic.
Proof. exact old_total_refuted. Qed.
Print Assumptions C20_total_refuted_before_fix.

Theorem C20_prefix_preserved_refuted_before_fix :
  exists p w, irregular plural_irregular w /\ at_boundary p = true
    /\ api false true id_suffix w = Ok (bs "sexes")
    /\ api false true id_suffix (p ++ w) = Ok (bs "my mexes").
Proof. exact old_prefix_refuted. Qed.
Print Assumptions C20_prefix_preserved_refuted_before_fix.

Theorem C20_newline_prefix_refuted_before_fix :
  exists p w, irregular plural_irregular w /\ at_boundary p = true
    /\ api false true id_suffix (p ++ w) = Ok (bs "aeople").
Proof. exact old_newline_refuted. Qed.
Print Assumptions C20_newline_prefix_refuted_before_fix.

(* ---- non-vacuity ---- *)

Example C20_example_old_person :
  api true true id_suffix (bs "old-person") = Ok (bs "old-people")
  /\ api true true id_suffix (bs "person") = Ok (bs "people")
  /\ irregularb plural_irregular (bs "person") = true /\ at_boundary (bs "old-") = true.
Proof. vm_compute. repeat split. Qed.

Example C20_example_big_feet_upper :
  api true false id_suffix (bs "BIG FEET") = Ok (bs "BIG Foot").
Proof. vm_compute. reflexivity. Qed.

(* U+017F after the fix: falls through to the other rules instead of panicking *)
Example C20_example_long_s :
  api true true id_suffix (hx "61746c61c5bf") = Ok (hx "61746c61c5bf").
Proof. vm_compute. reflexivity. Qed.

(* uninflected list is consulted after the irregular table: "people" is only in the singular table *)
Example C20_example_people :
  api true true id_suffix (bs "people") = Ok (bs "people")
  /\ api true false id_suffix (bs "my people") = Ok (bs "my person").
Proof. vm_compute. split; reflexivity. Qed.

(* a schedule in which call 1 loads the closure stored by call 0 and waits for it *)
Example C20_example_schedule :
  let keys := fun _ : nat => bs "old-person" in
  let st := run bytes (res bytes) bytes_eqb (api true true id_suffix) keys [0;1;0;1;1;0;1;0] (init _ _) in
  phases _ _ st 0 = Done (Ok (bs "old-people")) /\ phases _ _ st 1 = Done (Ok (bs "old-people"))
  /\ length (cache _ _ st) = 1.
Proof. vm_compute. repeat split. Qed.
