(* C15 — placeholder while the proofs are being written *)
Require Import Gengo.Base.Bytes Gengo.Model.TypeRef.

Theorem C15_roundtrip_refuted_before_fix :
  exists t, wf t /\ parse_type_ref false (print t) <> Ok (PT t).
Proof.
  exists (TRef [] (bs "M") [TRef [] (bs "L") [TRef [] (bs "P") [TRef [] (bs "a") []; TRef [] (bs "b") []]; TRef [] (bs "c") []]]).
  split; [vm_compute; reflexivity | vm_compute; discriminate].
Qed.
Print Assumptions C15_roundtrip_refuted_before_fix.
