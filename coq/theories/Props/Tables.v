(* Tables — the loader / tags / docs models are models of ONE system (notes/Tables.md).
   Statements only; every proof is [exact <lemma>].  Every theorem here is re-stated in the Props file of the property
   it strengthens (C13, C06, C04, C12, C16), so `bin/check` of those properties builds this file and checks the
   assumptions.

   A. newPkg's loop over TypesInfo.Defs is modelled three times (Model/Universe.v for C13, Model/Dispatch.v for C06,
      Model/Determinism.v for C04).  [u_of_disp] / [u_of_det] / [u_of_meth] (Model/Tables.v) describe Dispatch's and
      Determinism's entries as Universe's objects; [types_of os] / [meths_of os] are the *types.TypeName / method
      entries of a Universe Defs list (which may hold objects of every other kind anywhere).
   B. C12's ExtractCommentTags / Package.Doc feed C06's merge / IsGeneratorEnabled.
   C. C12's Package.Doc feeds C16's Context.Doc / runtimedoc generator. *)
Require Import Gengo.Base.Bytes Gengo.Model.Tables.
From Coq Require Import ZArith Permutation Sorted.
Require Import Gengo.Proofs.TablesA Gengo.Proofs.TablesB Gengo.Proofs.TablesC.

(* ================================================================================================ *)
(* A                                                                                                 *)

(* Same order of Defs: the type table of Universe and of Dispatch is the same association list (name -> object
   identity), entry by entry — with or without the scope repair, no hypothesis on names. *)
Theorem Tables_universe_dispatch_same_table :
  forall fx os ds,
    types_of os = map u_of_disp ds ->
    U.t_types (U.fill_tables fx os) = disp_view (D.type_table (U.fx_scope fx) ds).
Proof. exact universe_dispatch_same_order. Qed.
Print Assumptions Tables_universe_dispatch_same_table.

(* EVERY Defs list of Universe and EVERY Defs list of Dispatch that describe the same *types.TypeName objects, in
   ANY two orders: the same set of package-level type names, and the same lookup function at every name the
   package scope holds once ([unique_at]: the go/types fact C13's theorems assume). *)
Theorem Tables_universe_is_dispatch :
  forall os ds,
    Permutation (types_of os) (map u_of_disp ds) ->
    (forall n, In n (map fst (U.t_types (U.fill_tables U.all_fixed os))) <-> In n (D.keys (D.type_table true ds)))
    /\ (forall n, UP.unique_at os U.KType n ->
          U.lookup U.KType n (U.fill_tables U.all_fixed os) = option_map D.td_id (D.lookup n (D.type_table true ds))).
Proof. exact universe_is_dispatch. Qed.
Print Assumptions Tables_universe_is_dispatch.

(* ... and Determinism's table under EVERY behaviour of the runtime at its range over Defs *)
Theorem Tables_universe_is_determinism :
  forall (o : Det.oracle) p os,
    Det.shuffles o ->
    Permutation (types_of os) (map u_of_det (Det.pk_defs p)) ->
    (forall n, In n (map fst (U.t_types (U.fill_tables U.all_fixed os))) <-> In n (Det.keys (Det.type_table true o p)))
    /\ (forall n, UP.unique_at os U.KType n ->
          U.lookup U.KType n (U.fill_tables U.all_fixed os)
          = option_map Det.td_uid (Det.lookup n (Det.type_table true o p))).
Proof. exact universe_is_determinism. Qed.
Print Assumptions Tables_universe_is_determinism.

(* ... hence Dispatch = Determinism *)
Theorem Tables_dispatch_is_determinism :
  forall (o : Det.oracle) p ds,
    Det.shuffles o ->
    Permutation (map u_of_disp ds) (map u_of_det (Det.pk_defs p)) ->
    NoDup (map D.td_name (filter D.td_pkgscope ds)) ->
    (forall n, In n (D.keys (D.type_table true ds)) <-> In n (Det.keys (Det.type_table true o p)))
    /\ (forall n, option_map D.td_id (D.lookup n (D.type_table true ds))
                  = option_map Det.td_uid (Det.lookup n (Det.type_table true o p))).
Proof. exact dispatch_is_determinism. Qed.
Print Assumptions Tables_dispatch_is_determinism.

(* Methods.  Determinism's methods_of (before and after repair 50ddee1, any oracle) lists the names of exactly the
   methods Universe's MethodsOf(n, true) returns, for every *types.Named n whose origin is the receiver — up to the
   permutation C13_methods states ([U.fill_tables] is the loop of package.go:116-144 alone). *)
Theorem Tables_methods_agree :
  forall fm (o : Det.oracle) p ptr os n,
    Det.shuffles o ->
    Permutation (meths_of os) (map (u_of_meth ptr) (Det.pk_meths p)) ->
    Permutation (map U.o_name (U.methods_of U.all_fixed (U.fill_tables U.all_fixed os) n true))
                (Det.methods_of fm o p (U.n_origin n)).
Proof. exact methods_agree. Qed.
Print Assumptions Tables_methods_agree.

Theorem Tables_methods_agree_value :
  forall p ptr os n,
    Permutation (meths_of os) (map (u_of_meth ptr) (Det.pk_meths p)) ->
    Permutation (map U.o_name (U.methods_of U.all_fixed (U.fill_tables U.all_fixed os) n false))
                (map Det.m_name (filter (fun m => N.eqb (Det.m_recv m) (U.n_origin n) && negb (ptr m)) (Det.pk_meths p))).
Proof. exact methods_agree_value. Qed.
Print Assumptions Tables_methods_agree_value.

(* On the tables newPkg leaves behind ([sorted_methods_of pos t] = MethodsOf on [U.sort_methods pos t]: the loop, then
   the ordering of package.go:146-157 by position) the two are EQUAL (distinct positions). *)
Theorem Tables_methods_sorted_agree :
  forall (o : Det.oracle) p ptr os n,
    Det.shuffles o ->
    NoDup (map Det.m_pos (Det.pk_meths p)) ->
    Permutation (meths_of os) (map (u_of_meth ptr) (Det.pk_meths p)) ->
    map U.o_name (sorted_methods_of U.o_id (U.fill_tables U.all_fixed os) n true)
    = Det.methods_of true o p (U.n_origin n).
Proof. exact methods_sorted_agree. Qed.
Print Assumptions Tables_methods_sorted_agree.

(* In Universe's own terms: MethodsOf of the current code (table + ordering) is the sorted list of the methods
   declared on the origin, whatever the order of Defs. *)
Theorem Tables_sorted_methods_order_independent :
  forall (pos : U.obj -> N) defs p1 p2 n ptr,
    Permutation p1 defs -> Permutation p2 defs ->
    NoDup (map pos (meths_of defs)) ->
    sorted_methods_of pos (U.fill_tables U.all_fixed p1) n ptr = sorted_methods_of pos (U.fill_tables U.all_fixed p2) n ptr.
Proof. exact sorted_methods_order_independent. Qed.
Print Assumptions Tables_sorted_methods_order_independent.

Theorem Tables_sorted_methods_spec :
  forall (pos : U.obj -> N) defs pi n,
    Permutation pi defs ->
    Permutation (sorted_methods_of pos (U.fill_tables U.all_fixed pi) n true) (filter (UP.declared_on (U.n_origin n)) defs)
    /\ StronglySorted (fun a b => N.leb (pos a) (pos b) = true) (sorted_methods_of pos (U.fill_tables U.all_fixed pi) n true).
Proof. exact sorted_methods_spec. Qed.
Print Assumptions Tables_sorted_methods_spec.

(* Corollary for C06: exactly-once speaks about exactly the types C13's Types() theorems characterise.  Every call is
   for an entry of Universe's type table (name -> that very object), and every entry of the table (package scope,
   hence not blank, not local, not a type parameter: C13_tables_only_package_scope) is called exactly as the rule says. *)
Theorem Tables_exactly_once_on_universe_types :
  forall g G P defs pi ns os,
    NoDup (D.keys G) -> NoDup (D.keys P) ->
    (forall d, In d defs -> NoDup (D.keys (D.td_tags d))) ->
    NoDup (map D.td_name (filter D.td_pkgscope defs)) ->
    Permutation pi defs ->
    Permutation ns (D.keys (D.type_table true pi)) ->
    (forall d, In d defs -> D.td_action d <> D.AErr) ->
    Permutation (types_of os) (map u_of_disp defs) ->
    let T := U.fill_tables U.all_fixed os in
    exists cs,
      D.do_generate g G P (D.type_table true pi) ns = Ok (cs, false)
      /\ NoDup cs
      /\ (forall k d, In (k, d) cs -> In d defs /\ U.lookup U.KType (D.td_name d) T = Some (D.td_id d))
      /\ (forall n x, U.lookup U.KType n T = Some x ->
            exists d, In d defs /\ D.td_name d = n /\ D.td_id d = x
                      /\ forall k, In (k, d) cs <->
                           DP.enabled_eff_spec (D.g_name g) G P (D.td_tags d) = true
                           /\ ((k = D.CT /\ D.td_kind d = D.KNamed)
                               \/ (k = D.CA /\ D.td_kind d = D.KAlias /\ D.g_alias g = true))).
Proof. exact exactly_once_on_universe_types. Qed.
Print Assumptions Tables_exactly_once_on_universe_types.

Theorem Tables_universe_types_are_dispatch_decls :
  forall os ds,
    Permutation (types_of os) (map u_of_disp ds) ->
    NoDup (map D.td_name (filter D.td_pkgscope ds)) ->
    forall n x,
      U.lookup U.KType n (U.fill_tables U.all_fixed os) = Some x
      <-> exists d, In d ds /\ D.td_pkgscope d = true /\ D.td_name d = n /\ D.td_id d = x.
Proof. exact universe_types_are_disp_decls. Qed.
Print Assumptions Tables_universe_types_are_dispatch_decls.

(* Corollaries for C04: the order-independence of its type table and of its method lists are instances of the
   theorems about Universe (proved THROUGH the adapters from C13_tables_order_independent / the method table). *)
Theorem Tables_determinism_table_order_independent :
  forall (o1 o2 : Det.oracle) p,
    Det.shuffles o1 -> Det.shuffles o2 ->
    NoDup (map Det.td_name (filter Det.td_pkgscope (Det.pk_defs p))) ->
    forall n, option_map Det.td_uid (Det.lookup n (Det.type_table true o1 p))
              = option_map Det.td_uid (Det.lookup n (Det.type_table true o2 p)).
Proof. exact det_table_order_independent_from_universe. Qed.
Print Assumptions Tables_determinism_table_order_independent.

Theorem Tables_determinism_methods_order_independent :
  forall (o1 o2 : Det.oracle) p uid,
    Det.shuffles o1 -> Det.shuffles o2 ->
    NoDup (map Det.m_pos (Det.pk_meths p)) ->
    Det.methods_of true o1 p uid = Det.methods_of true o2 p uid.
Proof. exact det_methods_order_independent_from_universe. Qed.
Print Assumptions Tables_determinism_methods_order_independent.

(* ================================================================================================ *)
(* B                                                                                                 *)

(* One level: the tag map ExtractCommentTags builds from a list of lines, read with C06's lookup, is "the values of
   the tag lines with that key"; its keys are the keys of the tag lines; it is a map. *)
Theorem Tables_tags_of_lines :
  forall lines,
    (forall k, D.lookup k (tags_of_lines lines) = line_value lines k)
    /\ (forall k, In k (D.keys (tags_of_lines lines)) <-> In k (CS.spec_keys ms0 lines))
    /\ NoDup (D.keys (tags_of_lines lines)).
Proof.
  intros lines. split; [exact (tags_of_lines_lookup lines)|]. split; [exact (tags_of_lines_keys lines)|exact (tags_of_lines_nodup lines)].
Qed.
Print Assumptions Tables_tags_of_lines.

(* The rule on comment lines: for ALL global tags, all package doc line lists, all declaration doc line lists. *)
Theorem Tables_enabled_lines_rule :
  forall g G pkgdocs lines,
    NoDup (D.keys G) ->
    enabled_from_lines g G (D.pkg_tags (map tags_of_lines pkgdocs)) lines = source_rule g G pkgdocs lines.
Proof. exact enabled_lines_rule. Qed.
Print Assumptions Tables_enabled_lines_rule.

(* End to end, for all layouts satisfying C12's well-formedness: IsGeneratorEnabled(g, Context.Doc(typ)) for a
   declaration d, asked at d's line, is [source_rule] on the lines of the stand-alone comment group that ends on the
   line above d (tag lines: `+gengo:g`, `+gengo:g=false`, `+gengo:g:sub` ...), the package doc lines, the globals. *)
Theorem Tables_enabled_from_source :
  forall g G docs evs leads d,
    NoDup (D.keys G) -> CS.wf evs leads -> In d (CS.decls_of evs) ->
    enabled_from_source g G docs evs (Cm.p_file (Cm.d_pos d)) (Cm.p_line (Cm.d_pos d))
    = source_rule g G (map Cm.split_nl docs)
                  (CS.doc_lines_above leads (Cm.p_file (Cm.d_pos d)) (Cm.p_line (Cm.d_pos d))).
Proof. exact enabled_from_source_rule. Qed.
Print Assumptions Tables_enabled_from_source.

(* Context.Doc asks at the position of the NAME: the same for every name of d — side condition: C12's known finding
   (a name on a continuation line) is absent.  For a type declaration the name IS the start of the TypeSpec. *)
Theorem Tables_enabled_from_source_names :
  forall g G docs evs leads d l,
    NoDup (D.keys G) -> CS.wf evs leads -> CS.name_on_continuation_line evs = false ->
    In d (CS.decls_of evs) -> In l (Cm.d_names d) ->
    enabled_from_source g G docs evs (Cm.p_file (Cm.d_pos d)) l
    = source_rule g G (map Cm.split_nl docs)
                  (CS.doc_lines_above leads (Cm.p_file (Cm.d_pos d)) (Cm.p_line (Cm.d_pos d))).
Proof. exact enabled_from_source_rule_names. Qed.
Print Assumptions Tables_enabled_from_source_names.

(* ... and the side condition cannot be dropped *)
Theorem Tables_enabled_from_source_names_refuted :
  exists g G docs evs leads d l,
    NoDup (D.keys G) /\ CS.wf evs leads /\ In d (CS.decls_of evs) /\ In l (Cm.d_names d)
    /\ enabled_from_source g G docs evs (Cm.p_file (Cm.d_pos d)) l = false
    /\ source_rule g G (map Cm.split_nl docs)
                   (CS.doc_lines_above leads (Cm.p_file (Cm.d_pos d)) (Cm.p_line (Cm.d_pos d))) = true.
Proof. exact enabled_from_source_names_refuted. Qed.
Print Assumptions Tables_enabled_from_source_names_refuted.

(* readable instances: a `+gengo:g...` tag line on the declaration decides by itself; no gengo:g tag anywhere: off *)
Theorem Tables_rule_declaration_decides :
  forall g G pkgdocs decl v vs,
    CS.spec_values ms0 decl (D.gengo_prefix g) = v :: vs ->
    source_rule g G pkgdocs decl = negb (bytes_eqb (concat (v :: vs)) D.str_false).
Proof. exact source_rule_decl_decides. Qed.
Print Assumptions Tables_rule_declaration_decides.

Theorem Tables_rule_no_tag_anywhere :
  forall g G pkgdocs decl,
    (forall k, In k (source_keys G pkgdocs decl) ->
               k <> D.gengo_prefix g /\ D.has_prefix (D.gengo_prefix g ++ D.colon) k = false) ->
    source_rule g G pkgdocs decl = false.
Proof. exact source_rule_no_tag_anywhere. Qed.
Print Assumptions Tables_rule_no_tag_anywhere.

(* C06's exactly-once with the tags READ FROM THE SOURCE ([tdef_from_source]: Text() of the comment group above each
   declaration; [pkg_tags_from_source]: Text() of the package docs): the hypotheses "tag maps are maps" are discharged,
   and "enabled" is the rule on comment lines. *)
Theorem Tables_exactly_once_from_source :
  forall g G ftexts dtext defs pi ns,
    NoDup (D.keys G) ->
    NoDup (map D.td_name (filter D.td_pkgscope defs)) ->
    let sdefs := map (tdef_from_source dtext) defs in
    let P := pkg_tags_from_source ftexts in
    Permutation pi sdefs ->
    Permutation ns (D.keys (D.type_table true pi)) ->
    (forall d, In d defs -> D.td_action d <> D.AErr) ->
    exists cs,
      D.do_generate g G P (D.type_table true pi) ns = Ok (cs, false)
      /\ NoDup cs
      /\ forall k d', In (k, d') cs <->
           exists d, In d defs /\ d' = tdef_from_source dtext d /\ D.td_pkgscope d = true
             /\ source_rule (D.g_name g) G (map Cm.split_nl ftexts) (CS.spec_lines (dtext (D.td_id d))) = true
             /\ ((k = D.CT /\ D.td_kind d = D.KNamed) \/ (k = D.CA /\ D.td_kind d = D.KAlias /\ D.g_alias g = true)).
Proof. exact exactly_once_from_source. Qed.
Print Assumptions Tables_exactly_once_from_source.

(* ================================================================================================ *)
(* C                                                                                                 *)

(* what Package.Doc returns as doc lines at a declaration = the non-tag lines of the comment group above *)
Theorem Tables_doc_lines_from_source :
  forall evs leads, CS.wf evs leads -> forall d, In d (CS.decls_of evs) ->
    doc_lines_at evs (Cm.p_file (Cm.d_pos d), Cm.p_line (Cm.d_pos d))
    = source_doc leads (Cm.p_file (Cm.d_pos d)) (Cm.p_line (Cm.d_pos d)).
Proof. exact doc_lines_at_own. Qed.
Print Assumptions Tables_doc_lines_from_source.

(* which types get a method, in source terms (the enabling decision is B's rule for "runtimedoc") *)
Theorem Tables_covered_from_source :
  forall evs G docs tpos fpos leads t d,
    NoDup (D.keys G) -> CS.wf evs leads -> In d (CS.decls_of evs) ->
    tpos (RD.t_name t) = (Cm.p_file (Cm.d_pos d), Cm.p_line (Cm.d_pos d)) ->
    RD.covered (ty_from_source evs G docs tpos fpos t)
    = source_rule (bs "runtimedoc") G (map Cm.split_nl docs)
                  (CS.doc_lines_above leads (Cm.p_file (Cm.d_pos d)) (Cm.p_line (Cm.d_pos d)))
      && RD.t_exported t
      && match RD.t_kind t with
         | RD.TInterface => false
         | RD.TStruct fs => RD.has_expose fs
         | RD.TOther => true
         end.
Proof. exact covered_from_source_rule. Qed.
Print Assumptions Tables_covered_from_source.

(* For a package given as a C12 layout ([package_from_source]: every type's / field's doc lines are what Package.Doc
   returns at the position of its name, enabling by B): RuntimeDoc() of a covered type returns, by C16's [run]
   semantics, exactly doc_of name (non-tag lines of the stand-alone comment group ending on the line above the
   declaration). *)
Theorem Tables_docs_from_source :
  forall evs G docs tpos fpos files leads p t d v,
    CS.wf evs leads -> NoDup (map RD.t_name p) -> In t p ->
    In d (CS.decls_of evs) -> tpos (RD.t_name t) = (Cm.p_file (Cm.d_pos d), Cm.p_line (Cm.d_pos d)) ->
    RD.covered (ty_from_source evs G docs tpos fpos t) = true ->
    RD.has_embed_ref (package_from_source evs G docs tpos fpos p) (RD.t_name t) = false ->
    RD.run files (RD.gen true true (package_from_source evs G docs tpos fpos p)) v (RD.t_name t) []
    = Ok (Some (RD.doc_of (RD.t_name t) (source_doc leads (Cm.p_file (Cm.d_pos d)) (Cm.p_line (Cm.d_pos d))))).
Proof. exact docs_from_source. Qed.
Print Assumptions Tables_docs_from_source.

(* RuntimeDoc(f) for a listed field: the comment group above the field's declaration — for the name the field object
   is positioned at; side condition: no name on a continuation line (`A,` newline `B int`: B gets nothing, C12). *)
Theorem Tables_field_docs_from_source :
  forall evs G docs tpos fpos files leads p t fs f d l v rest,
    CS.wf evs leads -> CS.name_on_continuation_line evs = false ->
    NoDup (map RD.t_name p) -> In t p -> RD.covered (ty_from_source evs G docs tpos fpos t) = true ->
    RD.t_kind t = RD.TStruct fs -> NoDup (map RD.f_name (filter RD.listed fs)) -> In f fs -> RD.listed f = true ->
    In d (CS.decls_of evs) -> In l (Cm.d_names d) -> fpos (RD.t_name t) (RD.f_name f) = (Cm.p_file (Cm.d_pos d), l) ->
    RD.run files (RD.gen true true (package_from_source evs G docs tpos fpos p)) v (RD.t_name t) (RD.f_name f :: rest)
    = Ok (Some (RD.doc_of (RD.f_name f) (source_doc leads (Cm.p_file (Cm.d_pos d)) (Cm.p_line (Cm.d_pos d))))).
Proof. exact field_docs_from_source. Qed.
Print Assumptions Tables_field_docs_from_source.

(* ================================================================================================ *)
(* non-vacuity                                                                                       *)

Local Open Scope N_scope.

(* A: `type T struct{}; func F[T any]() {}; func (T) M(); func (p *T) P(); type _ int; const T2 = 1` —
   Universe's Defs (all kinds), Dispatch's and Determinism's (type names only), in three different orders *)
Definition exA_os : list U.obj :=
  [ U.mk_obj 3 U.KFunc (bs "F") true None;
    U.mk_obj 4 U.KType (bs "T") false None;        (* the type parameter *)
    U.mk_obj 1 U.KType (bs "T") true None;
    U.mk_obj 6 U.KFunc (bs "P") false (Some (U.mk_recv (U.TPointer (Some (U.mk_nref 1 1))) (U.TPointer (Some (U.mk_nref 1 1)))));
    U.mk_obj 5 U.KFunc (bs "M") false (Some (U.mk_recv (U.TNamed (U.mk_nref 1 1)) (U.TNamed (U.mk_nref 1 1))));
    U.mk_obj 7 U.KType (bs "_") false None;
    U.mk_obj 8 U.KConst (bs "T2") true None ].
Definition exA_ds : list D.tdef :=
  [ D.mk_tdef 7 (bs "_") D.KNamed false [] D.ANil []; D.mk_tdef 1 (bs "T") D.KNamed true [] D.ANil [];
    D.mk_tdef 4 (bs "T") D.KOther false [] D.ANil [] ].
Definition exA_pkg : Det.pkg :=
  Det.mk_pkg (bs "m/a") (bs "a") (bs "a") [] []
             [ Det.mk_tdef (bs "T") 1 Det.KNamed true false []; Det.mk_tdef (bs "_") 7 Det.KNamed false false [];
               Det.mk_tdef (bs "T") 4 Det.KOther false false [] ]
             [ Det.mk_meth 1 (bs "M") 5 false; Det.mk_meth 1 (bs "P") 6 false ] [].
Definition exA_ptr (m : Det.meth) : bool := N.eqb (Det.m_pos m) 6.

Example Tables_example_A :
  Permutation (types_of exA_os) (map u_of_disp exA_ds)
  /\ Permutation (types_of exA_os) (map u_of_det (Det.pk_defs exA_pkg))
  /\ Permutation (meths_of exA_os) (map (u_of_meth exA_ptr) (Det.pk_meths exA_pkg))
  /\ U.lookup U.KType (bs "T") (U.fill_tables U.all_fixed exA_os) = Some 1
  /\ option_map D.td_id (D.lookup (bs "T") (D.type_table true exA_ds)) = Some 1
  /\ option_map Det.td_uid (Det.lookup (bs "T") (Det.type_table true Det.oid exA_pkg)) = Some 1
  /\ map fst (U.t_types (U.fill_tables U.all_fixed exA_os)) = [bs "T"]
  /\ map U.o_name (U.methods_of U.all_fixed (U.fill_tables U.all_fixed exA_os) (U.mk_nref 1 1) true) = [bs "P"; bs "M"]
  /\ Det.methods_of true Det.oid exA_pkg 1 = [bs "M"; bs "P"]
  /\ map U.o_name (sorted_methods_of U.o_id (U.fill_tables U.all_fixed exA_os) (U.mk_nref 1 1) true) = [bs "M"; bs "P"].
Proof.
  split.
  { cbn. match goal with |- Permutation ?l _ => exact (Permutation_rev l) end. }
  split.
  { cbn. match goal with |- Permutation (?a :: ?l) _ => exact (Permutation_cons_append l a) end. }
  split.
  { cbn. apply perm_swap. }
  vm_compute. repeat split; reflexivity.
Qed.

(* B and C: one file
     1: // Package p has docs.
     2: // +gengo:runtimedoc
     3: package p
     5: // T is documented.            (stand-alone group, lines 5-7, Doc of the GenDecl)
     6: // +gengo:deepcopy=false
     7: // second line
     8: type T struct {
     9:     // A is a field.
    10:     // +gengo:x:opt=1
    11:     A int
    12: }                                                                                           *)
Definition exB_tdoc : Cm.group :=
  Cm.mk_group (Cm.mk_pos 0 5 1) 7 (bs "T is documented." ++ [Cm.c_nl] ++ bs "+gengo:deepcopy=false" ++ [Cm.c_nl] ++ bs "second line" ++ [Cm.c_nl]).
Definition exB_fdoc : Cm.group :=
  Cm.mk_group (Cm.mk_pos 0 9 5) 10 (bs "A is a field." ++ [Cm.c_nl] ++ bs "+gengo:x:opt=1" ++ [Cm.c_nl]).
Definition exB_t : Cm.decl := Cm.mk_decl (Cm.mk_pos 0 8 6) [8%Z] None None.
Definition exB_f : Cm.decl := Cm.mk_decl (Cm.mk_pos 0 11 5) [11%Z] (Some exB_fdoc) None.
Definition exB_evs : list Cm.event := [Cm.EGroup exB_tdoc; Cm.EDecl exB_t; Cm.EDecl exB_f; Cm.EGroup exB_fdoc].
Definition exB_leads : list Cm.group := [exB_tdoc; exB_fdoc].
Definition exB_docs : list bytes := [bs "Package p has docs." ++ [Cm.c_nl] ++ bs "+gengo:runtimedoc" ++ [Cm.c_nl]].
Definition exB_G : D.tags := [(bs "gengo:deepcopy", [[]])].

Example Tables_example_B :
  CS.wf exB_evs exB_leads
  /\ enabled_from_source (bs "deepcopy") exB_G exB_docs exB_evs 0 8 = false      (* declaration over global *)
  /\ enabled_from_source (bs "runtimedoc") exB_G exB_docs exB_evs 0 8 = true     (* from the package doc *)
  /\ enabled_from_source (bs "x") exB_G exB_docs exB_evs 0 11 = true             (* +gengo:x:opt enables x *)
  /\ enabled_from_source (bs "x") exB_G exB_docs exB_evs 0 8 = false
  /\ source_rule (bs "deepcopy") exB_G (map Cm.split_nl exB_docs) (CS.doc_lines_above exB_leads 0 8) = false.
Proof. split; [apply CP.wf_b_sound; vm_compute; reflexivity|]. vm_compute. repeat split; reflexivity. Qed.

Definition exC_pkg : RD.package :=
  [ RD.mk_ty (bs "T") true false (RD.TStruct [RD.mk_field (bs "A") true (RD.FNamed RD.FOrdinary) []]) [] ].
Definition exC_tpos (n : RD.name) : N * Z := (0, 8%Z).
Definition exC_fpos (tn fn : RD.name) : N * Z := (0, 11%Z).

Example Tables_example_C :
  let P := package_from_source exB_evs exB_G exB_docs exC_tpos exC_fpos exC_pkg in
  RD.run [] (RD.gen true true P) RD.RNil (bs "T") [] = Ok (Some [bs "is documented."; bs "second line"])
  /\ RD.run [] (RD.gen true true P) RD.RNil (bs "T") [bs "A"] = Ok (Some [bs "is a field."])
  /\ source_doc exB_leads 0 8 = [bs "T is documented."; bs "second line"]
  /\ RD.covered (ty_from_source exB_evs exB_G exB_docs exC_tpos exC_fpos (hd (RD.mk_ty [] false false RD.TOther []) exC_pkg)) = true.
Proof. vm_compute. repeat split; reflexivity. Qed.

(* A hand-run probe of the REAL code (gengo.Execute with a recording generator `deep`, /root/w/repo-tables, notes/Tables.md)
   on comment forms the generated modules do not contain; the composed model predicts what was observed:
     package doc  `//<TAB>+gengo:deep`                    -> no package tag (that path does not TrimSpace the text)
     type A       `//<TAB>+gengo:deep`                    -> called   (first line: commentLinesFrom's TrimSpace removes the tab)
     type B       `// B is.` / `//<TAB>+gengo:deep`       -> not called (a tab is not trimmed from a later line: no tag line)
     type C       `// +gengo:deep false`                  -> not called (a space separates key and value)
     type D       `// +gengo:deep:opt  x`                 -> called, Context.Doc tag gengo:deep:opt = [" x"] *)
Definition pr_tab : bytes := [ascii_of_N 9].
Definition pr_nl : bytes := [ascii_of_N 10].
Definition pr_enabled (text : bytes) : bool :=
  enabled_from_lines (bs "deep") [] (pkg_tags_from_source [pr_tab ++ bs "+gengo:deep" ++ pr_nl]) (Cm.group_lines true text).

Example Tables_example_probe :
  pkg_tags_from_source [pr_tab ++ bs "+gengo:deep" ++ pr_nl] = []
  /\ pr_enabled (pr_tab ++ bs "+gengo:deep" ++ pr_nl) = true
  /\ pr_enabled (bs "B is." ++ pr_nl ++ pr_tab ++ bs "+gengo:deep" ++ pr_nl) = false
  /\ pr_enabled (bs "+gengo:deep false" ++ pr_nl) = false
  /\ pr_enabled (bs "+gengo:deep:opt  x" ++ pr_nl) = true
  /\ fst (Cm.extract_tags true [] (Cm.group_lines true (bs "+gengo:deep:opt  x" ++ pr_nl))) = [(bs "gengo:deep:opt", [bs " x"])].
Proof. vm_compute. repeat split; reflexivity. Qed.
