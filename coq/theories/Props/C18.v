(* C18 — partialstruct output mirrors the origin struct minus omitted fields. *)
Require Import Gengo.Base.Bytes Gengo.Model.GenPartialStruct Gengo.Proofs.GenPartialStruct.

Theorem C18_errors : forall L target c ti,
    ti_enabled ti = true ->
    ti_name ti <> [] ->
    (ti_under ti = None -> generate_type L target c ti = TErr EMustStruct) /\
    (forall fs, ti_under ti = Some fs -> origin_loop c (ti_name ti) (ti_group ti) None = None ->
                generate_type L target c ti = TErr ENeedNamed).
Proof. exact generate_type_errors. Qed.
Print Assumptions C18_errors.
