(* C18 — partialstruct output mirrors the origin struct minus omitted fields.

   Statements over the model of devpkg/partialstruct (Model/GenPartialStruct.v), for EVERY import-tracker function L,
   target package, origin struct, omit set and replace set.  [c] selects the code before/after the repairs; the
   theorems about the repaired code take the corresponding switch as a hypothesis, the `_refuted_before_fix` lemmas
   exhibit the witness for the unrepaired code.  Go's semantics of the generated text (compilation, reflection,
   execution) is not in here: it is validated per run by compile-and-run (harness). *)
Require Import Gengo.Base.Bytes Gengo.Model.GenPartialStruct Gengo.Proofs.GenPartialStruct.

(* ---- the generated struct: exactly the origin's fields that are not omitted, in order, replaced where asked ---- *)

Theorem C18_fields : forall L target c ti g i,
    fx_tag c = true ->
    generate_type L target c ti = TGen g i ->
    exists fs, ti_under ti = Some fs /\
      g_fields g = map (apply_replace L target c (replace_map (ti_replace ti) []))
                       (filter (retained (ti_omit ti)) fs).
Proof. exact fields_mirror. Qed.
Print Assumptions C18_fields.

(* a field without a replace tag keeps its name, its type (as Dumper.TypeLit renders it) and its tag, byte for byte *)
Theorem C18_field_unreplaced : forall L target c repl f,
    lookup (f_name f) repl = None ->
    apply_replace L target c repl f = mk_gfield (f_name f) (fst (type_lit L target c (f_ty f))) (f_tag f).
Proof. exact apply_replace_unreplaced. Qed.
Print Assumptions C18_field_unreplaced.

(* a replaced field keeps its name; its type is the replacement; its tag is the words after the type, if any *)
Theorem C18_field_replaced : forall L target c repl f t0 rest,
    lookup (f_name f) repl = Some (t0 :: rest) ->
    gf_name (apply_replace L target c repl f) = f_name f /\
    gf_ty (apply_replace L target c repl f) = OText (rendered_ref L target t0) /\
    gf_tag (apply_replace L target c repl f) = match rest with [] => f_tag f | _ => join_with ch_space rest end.
Proof. exact apply_replace_replaced. Qed.
Print Assumptions C18_field_replaced.

(* identical types, foreign types correctly imported: the rendered expression denotes the origin's type when read
   through an import block that maps each mentioned foreign package to the tracker's name for it, without clashes *)
Theorem C18_types : forall L target c imps,
    (forall p n, In (p, n) imps -> n = L p) ->
    NoDup (map snd imps) ->
    forall t,
      (fx_errlit c = true \/ no_error t = true) ->
      has_iface_lit t = false ->
      imported L target imps t ->
      denotes imps target (fst (type_lit L target c t)) t = true.
Proof. exact type_lit_denotes. Qed.
Print Assumptions C18_types.

(* known finding unnamed_method_interface_rendered_any: the guard above is needed *)
Theorem C18_types_refuted_method_interface : forall L target c imps txt,
    denotes imps target (fst (type_lit L target c (TIfaceLit txt))) (TIfaceLit txt) = false.
Proof. exact type_lit_iface_refuted. Qed.
Print Assumptions C18_types_refuted_method_interface.

(* and the paths it registers with the tracker are exactly the foreign packages the type mentions *)
Theorem C18_type_imports : forall L target c t,
    snd (type_lit L target c t) = filter (fun p => negb (bytes_eqb p target)) (ty_pkgs t).
Proof. exact type_lit_imports. Qed.
Print Assumptions C18_type_imports.

(* a struct defined from a named type always generates (no error, no panic), whatever the tags and field types *)
Theorem C18_generates : forall L target c ti fs o,
    fx_tag c = true -> fx_errnil c = true ->
    ti_enabled ti = true -> ti_name ti <> [] ->
    ti_under ti = Some fs ->
    origin_loop c (ti_name ti) (ti_group ti) None = Some o ->
    replace_modelled L target (ti_omit ti) (replace_map (ti_replace ti) []) fs ->
    exists g i, generate_type L target c ti = TGen g i.
Proof. exact generate_total. Qed.
Print Assumptions C18_generates.

(* ---- DeepCopyAs: nil gives nil; otherwise omitted fields are zero and every retained field receives the source
        value — converted by [conv] exactly when the statement selected for it is a method call ---- *)

Theorem C18_copy : forall L target c ti g i fs conv,
    generate_type L target c ti = TGen g i ->
    ti_under ti = Some fs ->
    NoDup (map f_name fs) ->
    deep_copy_as conv (g_stmts g) None = Some None /\
    forall inv, exists out,
      deep_copy_as conv (g_stmts g) (Some inv) = Some (Some out) /\
      forall f, In f fs ->
        (omitted (ti_omit ti) (f_name f) = true -> sget out (f_name f) = VZero) /\
        (omitted (ti_omit ti) (f_name f) = false ->
           exists s j, In s (g_stmts g) /\
             field_stmt L target c (is_replaced (replace_map (ti_replace ti) []) f) f = GOk s j /\
             sget out (f_name f) = if is_call s then conv (f_name f) (sget inv (f_name f))
                                   else sget inv (f_name f)).
Proof. exact copy_semantics. Qed.
Print Assumptions C18_copy.

(* which statements are calls: none for unreplaced fields of scalar, slice, map, pointer, array, interface and
   error types … *)
Theorem C18_copy_unreplaced_plain : forall L target c f s j,
    field_stmt L target c false f = GOk s j ->
    (forall pkg name u ms, f_ty f <> TNamed pkg name u ms) ->
    is_call s = false.
Proof. exact unreplaced_not_call. Qed.
Print Assumptions C18_copy_unreplaced_plain.

(* … none for foreign named types that have no DeepCopyAs / DeepCopyIntoAs method (time.Duration, time.Time, …) … *)
Theorem C18_copy_foreign_named : forall L target c f pkg name u ms s j,
    f_ty f = TNamed pkg name u ms ->
    bytes_eqb pkg target = false ->
    no_as_methods ms = true ->
    field_stmt L target c false f = GOk s j ->
    s = SAssign (f_name f).
Proof. exact foreign_plain_named_assigned. Qed.
Print Assumptions C18_copy_foreign_named.

(* … and a replaced field of a named type is converted by the replacement's DeepCopyIntoAs *)
Theorem C18_copy_replaced_named : forall L target c f pkg name u ms s j,
    f_ty f = TNamed pkg name u ms ->
    field_stmt L target c true f = GOk s j ->
    s = SCallInto (f_name f) dc_into_name.
Proof. exact replaced_named_into. Qed.
Print Assumptions C18_copy_replaced_named.

(* ---- error cases: an error, and nothing rendered ---- *)

Theorem C18_errors : forall L target c ti,
    ti_enabled ti = true ->
    ti_name ti <> [] ->
    (ti_under ti = None -> generate_type L target c ti = TErr EMustStruct) /\
    (forall fs, ti_under ti = Some fs -> origin_loop c (ti_name ti) (ti_group ti) None = None ->
                generate_type L target c ti = TErr ENeedNamed).
Proof. exact generate_type_errors. Qed.
Print Assumptions C18_errors.

(* a package with such a declaration never gets a file … *)
Theorem C18_errors_no_file : forall L target c tis acc imps,
    (exists ti, In ti tis /\ decl_bad c ti) ->
    forall ts i, generate_pkg L target c tis acc imps <> OutFile ts i.
Proof. exact generate_pkg_no_file. Qed.
Print Assumptions C18_errors_no_file.

(* … and Execute returns the error unless another type of the package makes the generator panic first *)
Theorem C18_errors_reported : forall L target c tis acc imps,
    (exists ti, In ti tis /\ decl_bad c ti) ->
    (forall ti, In ti tis -> generate_type L target c ti <> TPanic /\ generate_type L target c ti <> TGeneric) ->
    exists k, generate_pkg L target c tis acc imps = OutErr k.
Proof. exact generate_pkg_error. Qed.
Print Assumptions C18_errors_reported.

(* "defined from another named type" is decided on the type's OWN spec, also inside a grouped declaration (#31) *)
Theorem C18_origin_own_spec : forall c ti,
    fx_group c = true ->
    NoDup (map fst (ti_group ti)) ->
    origin_loop c (ti_name ti) (ti_group ti) None = own_origin ti.
Proof. exact origin_own_spec. Qed.
Print Assumptions C18_origin_own_spec.

(* ---- scoping of the rendered methods (known finding import_name_shadows_template_local): outside the class no
        type expression inside a method body mentions an import name that a template local shadows ---- *)

Theorem C18_scoping_partial : forall L target c ti g i,
    (forall p, L p = last_segment p) ->
    fx_group c = true ->
    NoDup (map fst (ti_group ti)) ->
    generate_type L target c ti = TGen g i ->
    shadow_type target ti = false ->
    gtype_shadowed g = false.
Proof. exact scoping_partial. Qed.
Print Assumptions C18_scoping_partial.

Theorem C18_scoping_refuted :
    exists g i, generate_type last_segment w_target all_fixed w_shadow_ti = TGen g i /\
                gtype_shadowed g = true /\ shadow_type w_target w_shadow_ti = true.
Proof. exact scoping_refuted. Qed.
Print Assumptions C18_scoping_refuted.

(* ---- the code before the repairs ---- *)

(* #25: a tag with a dot was parsed as a type reference: the field list is not the mirror and a bogus import appears *)
Theorem C18_fields_refuted_before_fix :
    exists L g i,
      generate_type L w_target cfg_tag_unfixed w_tag_ti = TGen g i /\
      g_fields g <> [mk_gfield (bs "A") (OIdent (bs "int")) (f_tag w_tag_field)] /\
      In (of_string "json:""a") i.
Proof. exact tag_refuted_before_fix. Qed.
Print Assumptions C18_fields_refuted_before_fix.

(* #25: … or the generator panicked ("invalid type ref") on a struct defined from a named type *)
Theorem C18_generates_refuted_before_fix : forall L,
    generate_type L w_target cfg_tag_unfixed w_tag_panic_ti = TPanic.
Proof. exact tag_panic_before_fix. Qed.
Print Assumptions C18_generates_refuted_before_fix.

(* #31: in a grouped declaration the last spec's origin was taken for every type *)
Theorem C18_origin_refuted_before_fix :
    origin_loop cfg_group_unfixed (ti_name w_group_ti) (ti_group w_group_ti) None = Some (w_origin, bs "B") /\
    own_origin w_group_ti = Some (w_origin, bs "A").
Proof. exact origin_refuted_before_fix. Qed.
Print Assumptions C18_origin_refuted_before_fix.

(* #31: … and a struct literal grouped with a named spec generated code instead of being reported *)
Theorem C18_errors_refuted_before_fix : forall L,
    decl_error w_group_lit_ti = Some ENeedNamed /\
    exists g i, generate_type L w_target cfg_group_unfixed w_group_lit_ti = TGen g i.
Proof. exact group_error_refuted_before_fix. Qed.
Print Assumptions C18_errors_refuted_before_fix.

(* #23 / #15 (prerequisite repairs owned by C17 / C11): a field of type error made the helper panic, and TypeLit
   printed it as `any` *)
Theorem C18_error_field_refuted_before_prerequisites : forall L,
    generate_type L w_target (mk_cfg true true true false) w_err_ti = TPanic /\
    (forall imps, denotes imps w_target (fst (type_lit L w_target (mk_cfg true true false true) TError)) TError = false).
Proof. exact error_field_refuted_before_prerequisites. Qed.
Print Assumptions C18_error_field_refuted_before_prerequisites.

(* ---- non-vacuity: the hypotheses are satisfiable on a non-trivial instance ---- *)

Example C18_example_generated :
  generate_type last_segment w_target all_fixed ex_ti =
  TGen (mk_gtype (bs "X") (OSel (bs "origin") (bs "T"))
         [ mk_gfield (bs "A") (OIdent (bs "int")) (of_string "json:""a.b"" yaml:""x""");
           mk_gfield (bs "C") (OMap (OIdent (bs "string")) (OSel (bs "origin") (bs "Inner"))) [];
           mk_gfield (bs "D") (OPtr (OSel (bs "time") (bs "Duration"))) (bs "d");
           mk_gfield (bs "I") (OText (bs "Y")) (of_string "json:""ii"" yaml:""q.r""");
           mk_gfield (bs "E") (OIdent (bs "error")) [];
           mk_gfield (bs "G") (OIdent (bs "any")) (bs "g") ]
         [ SAssign (bs "A");
           SCopyMap (bs "C") (OMap (OIdent (bs "string")) (OSel (bs "origin") (bs "Inner")));
           SAssign (bs "D");
           SCallInto (bs "I") (bs "DeepCopyIntoAs");
           SAssign (bs "E");
           SAssign (bs "G") ])
       [w_origin; ex_time; w_origin; w_origin].
Proof. vm_compute. reflexivity. Qed.

Example C18_example_hypotheses :
  NoDup (map f_name ex_fields) /\ NoDup (map fst (ti_group ex_ti)) /\ shadow_type w_target ex_ti = false /\
  own_origin ex_ti = Some (w_origin, bs "T") /\
  (forall f t0 rest, In f ex_fields -> retained (ti_omit ex_ti) f = true ->
     lookup (f_name f) (replace_map (ti_replace ex_ti) []) = Some (t0 :: rest) -> ref_modelled last_segment w_target t0 = true).
Proof. exact example_hypotheses. Qed.

Example C18_example_copy :
  let ss := [ SAssign (bs "A"); SCopyMap (bs "C") (OIdent (bs "m")); SCallInto (bs "I") (bs "DeepCopyIntoAs") ] in
  let inv := [(bs "A", VAtom 7); (bs "B", VSlice [VAtom 1]); (bs "C", VMap [(VAtom 1, VAtom 2)]); (bs "I", VAtom 9)] in
  deep_copy_as (fun _ v => VSlice [v]) ss (Some inv) =
  Some (Some [(bs "I", VSlice [VAtom 9]); (bs "C", VMap [(VAtom 1, VAtom 2)]); (bs "A", VAtom 7)]).
Proof. vm_compute. reflexivity. Qed.

Example C18_example_errors :
  generate_pkg last_segment w_target all_fixed
    [ex_ti; mk_tinput (bs "z") true [(bs "z", ROther)] (Some ex_fields) [] []] [] [] = OutErr ENeedNamed /\
  generate_pkg last_segment w_target all_fixed
    [mk_tinput (bs "k") true [(bs "k", RIdent (Some ([], bs "int")))] None [] []; ex_ti] [] [] = OutErr EMustStruct.
Proof. split; vm_compute; reflexivity. Qed.
