(* C18 — partialstruct output mirrors the origin struct minus omitted fields.

   Statements over the model of devpkg/partialstruct (Model/GenPartialStruct.v), for EVERY import-tracker function L,
   target package, origin struct, omit set and replace set.  [c] selects the code before/after the repairs; the
   theorems about the repaired code take the corresponding switch as a hypothesis, the `_refuted_before_fix` lemmas
   exhibit the witness for the unrepaired code.  Go's semantics of the generated text (compilation, reflection,
   execution) is not in here: it is validated per run by compile-and-run (harness). *)
Require Import Gengo.Base.Bytes Gengo.Model.GenPartialStruct Gengo.Proofs.GenPartialStruct.

(* ---- the generated struct: exactly the origin's fields that are not omitted, in order, replaced where asked ---- *)

Theorem C18_fields : forall L target c ti g i,
    fx_tag c = true ->
    generate_type L target c ti = TGen g i ->
    exists fs, ti_under ti = Some fs /\
      g_fields g = map (apply_replace L target c (replace_map (ti_replace ti) []))
                       (filter (retained (ti_omit ti)) fs).
Proof. exact fields_mirror. Qed.
Print Assumptions C18_fields.

(* NOTE on the two theorems that follow (audit C1).  [apply_replace] is the model's own field loop and [type_lit] the
   model's own reading of Dumper.TypeLit, so C18_field_unreplaced / C18_field_replaced UNFOLD the model: they say which
   branch the model takes (no replace tag: name and tag untouched, type through [type_lit]; replace tag: the words of the
   tag), i.e. they are definitional IN the model and document it.  What is not definitional is (a) that [type_lit]'s
   expression denotes the origin's type — C18_types below, a theorem by induction, instantiated in C18_witness_types —,
   (b) that [type_lit] is C11's model of the dumper on the common domain — C18_type_lit_is_c11 —, and (c) that the model
   is the code: the harness compares, per run, the field list of the generated struct (names, type texts, tags) with
   [g_fields] (Corr/C18.v mismatches) and, in a compiled program, the reflect.Type of every generated field with the
   origin's (c18/run.go reflectViolations). *)

(* a field without a replace tag keeps its name, its type (as Dumper.TypeLit renders it) and its tag, byte for byte *)
Theorem C18_field_unreplaced : forall L target c repl f,
    lookup (f_name f) repl = None ->
    apply_replace L target c repl f = mk_gfield (f_name f) (fst (field_type_lit L target c (f_ty f))) (f_tag f).
Proof. exact apply_replace_unreplaced. Qed.
Print Assumptions C18_field_unreplaced.

(* a replaced field keeps its name; its type is the replacement; its tag is the words after the type, if any *)
Theorem C18_field_replaced : forall L target c repl f t0 rest,
    lookup (f_name f) repl = Some (t0 :: rest) ->
    gf_name (apply_replace L target c repl f) = f_name f /\
    gf_ty (apply_replace L target c repl f) = OText (rendered_ref L target t0) /\
    gf_tag (apply_replace L target c repl f) = match rest with [] => f_tag f | _ => join_with ch_space rest end.
Proof. exact apply_replace_replaced. Qed.
Print Assumptions C18_field_replaced.

(* identical types, foreign types correctly imported: the rendered expression denotes the origin's type when read
   through an import block that maps each mentioned foreign package to the tracker's name for it, without clashes *)
Theorem C18_types : forall L target c imps,
    (forall p n, In (p, n) imps -> n = L p) ->
    NoDup (map snd imps) ->
    forall t,
      (fx_errlit c = true \/ no_error t = true) ->
      has_iface_lit t = false ->
      imported L target imps t ->
      denotes imps target (fst (type_lit L target c t)) t = true.
Proof. exact type_lit_denotes. Qed.
Print Assumptions C18_types.

(* the same for the expression a FIELD's type is rendered as (snippet.ID(f.Type())): a type that is an alias is printed by
   the alias's own name, which denotes it; an alias below the top level is printed through its right-hand side (the
   C18_types clause above: an alias and its right-hand side are the same type).  That the expanded spelling can be
   WRITTEN in the target package (no type of an `internal` package, no unexported name) is Go's visibility rule, not part
   of this model: it is observed by compiling (known finding nested_alias_of_unnameable_type) *)
Theorem C18_field_types : forall L target c imps,
    (forall p n, In (p, n) imps -> n = L p) ->
    NoDup (map snd imps) ->
    forall t,
      (fx_errlit c = true \/ no_error t = true) ->
      fhas_iface_lit t = false ->
      fimported L target imps t ->
      denotes imps target (fst (field_type_lit L target c t)) t = true.
Proof. exact field_type_lit_denotes. Qed.
Print Assumptions C18_field_types.

Theorem C18_field_type_imports : forall L target c t,
    snd (field_type_lit L target c t) = filter (fun p => negb (bytes_eqb p target)) (fty_pkgs t).
Proof. exact field_type_lit_imports. Qed.
Print Assumptions C18_field_type_imports.

(* fields typed through an alias (createFieldSnippet switches on types.Unalias(f.Type())): an alias of a named type is
   treated as that named type (C18_copy_foreign_named, C18_copy_replaced_named); an alias of a slice or map type gets the
   container copy, and make(...) spells the alias's own name (the right-hand side may not be writable in the target
   package); an alias of anything else is assigned *)
Theorem C18_copy_alias_container : forall L target c b f p n r,
    f_ty f = TAlias p n r ->
    is_container (unalias r) = true ->
    exists s, field_stmt L target c b f = GOk s (snd (field_type_lit L target c (f_ty f))) /\
      (s = SCopySlice (f_name f) (fst (field_type_lit L target c (f_ty f))) \/
       s = SCopyMap (f_name f) (fst (field_type_lit L target c (f_ty f)))) /\
      fst (field_type_lit L target c (f_ty f)) = (if bytes_eqb p target then OIdent n else OSel (L p) n).
Proof. exact alias_container_copied. Qed.
Print Assumptions C18_copy_alias_container.

Theorem C18_copy_alias_field : forall L target c b f p n r,
    f_ty f = TAlias p n r ->
    (forall pkg name u ms, unalias r <> TNamed pkg name u ms) -> unalias r <> TError ->
    is_container (unalias r) = false ->
    field_stmt L target c b f = GOk (SAssign (f_name f)) [].
Proof. exact alias_field_assigned. Qed.
Print Assumptions C18_copy_alias_field.

(* before the repairs bf0d8cc (fixes/C18-replace-on-alias-field.diff) and adc5fac no alias was looked through: every
   alias-typed field was assigned - a replaced field typed by an alias of a named struct (`out.A = in.A` with the
   replacement's type on the right: does not compile), a slice or map declared through an alias (shared with the source) *)
Theorem C18_copy_alias_refuted_before_fix : forall L target c b f p n r,
    f_ty f = TAlias p n r ->
    field_stmt_gen L target c false b f = GOk (SAssign (f_name f)) [].
Proof. exact alias_assigned_before_fix. Qed.
Print Assumptions C18_copy_alias_refuted_before_fix.

(* before the repair adc955a the copy loop did not pass over the blank field: `out._ = in._` (does not compile) *)
Theorem C18_copy_blank_refuted_before_fix : forall L target c t tag,
    gen_stmts_loop L target c [] [] [mk_field blank_name (TBasic t) tag] [] [] = GOk [SAssign blank_name] [] /\
    gen_stmts_loop L target c (copy_skip []) [] [mk_field blank_name (TBasic t) tag] [] [] = GOk [] [].
Proof. intros. split; reflexivity. Qed.
Print Assumptions C18_copy_blank_refuted_before_fix.

(* non-vacuity: `Items origin.Items` with `type Items = []hid.Item` (hid below origin/internal) keeps the alias name, also in
   the make(...) of its container copy (before the repairs: assigned); an alias of a foreign struct is assigned; `Spec origin.InnerA` (alias of a struct) under a replace tag is converted by the replacement's DeepCopyIntoAs;
   below the top level (`[]origin.Item`, `type Item = hid.Item`) the right-hand side is printed - the same type *)
Example C18_example_alias_fields :
  let hid := bs "example.com/m/origin/internal/hid" in
  let items := TAlias w_origin (bs "Items") (TSlice (TNamed hid (bs "Item") UStruct [])) in
  let item := TAlias w_origin (bs "Item") (TNamed hid (bs "Item") UStruct []) in
  let innera := TAlias w_origin (bs "InnerA") (TNamed w_origin (bs "Inner") UStruct []) in
  let imps := [(w_origin, bs "origin"); (hid, bs "hid")] in
  field_type_lit last_segment w_target all_fixed items = (OSel (bs "origin") (bs "Items"), [w_origin]) /\
  field_stmt last_segment w_target all_fixed false (mk_field (bs "Items") items [])
    = GOk (SCopySlice (bs "Items") (OSel (bs "origin") (bs "Items"))) [w_origin] /\
  field_stmt_gen last_segment w_target all_fixed false false (mk_field (bs "Items") items []) = GOk (SAssign (bs "Items")) [] /\
  field_stmt last_segment w_target all_fixed false (mk_field (bs "Item") item []) = GOk (SAssign (bs "Item")) [] /\
  field_stmt last_segment w_target all_fixed true (mk_field (bs "Spec") innera [])
    = GOk (SCallInto (bs "Spec") dc_into_name) [] /\
  field_stmt_gen last_segment w_target all_fixed false true (mk_field (bs "Spec") innera []) = GOk (SAssign (bs "Spec")) [] /\
  field_type_lit last_segment w_target all_fixed (TSlice item) = (OSlice (OSel (bs "hid") (bs "Item")), [hid]) /\
  denotes imps w_target (OSel (bs "origin") (bs "Items")) items = true /\
  denotes imps w_target (OSlice (OSel (bs "hid") (bs "Item"))) items = true /\
  denotes imps w_target (OSlice (OSel (bs "hid") (bs "Item"))) (TSlice item) = true /\
  denotes imps w_target (OSlice (OSel (bs "origin") (bs "Item"))) (TSlice item) = true.
Proof. cbv zeta. repeat split; vm_compute; reflexivity. Qed.

(* known finding unnamed_method_interface_rendered_any: the guard above is needed *)
Theorem C18_types_refuted_method_interface : forall L target c imps txt,
    denotes imps target (fst (type_lit L target c (TIfaceLit txt))) (TIfaceLit txt) = false.
Proof. exact type_lit_iface_refuted. Qed.
Print Assumptions C18_types_refuted_method_interface.

(* and the paths it registers with the tracker are exactly the foreign packages the type mentions *)
Theorem C18_type_imports : forall L target c t,
    snd (type_lit L target c t) = filter (fun p => negb (bytes_eqb p target)) (ty_pkgs t).
Proof. exact type_lit_imports. Qed.
Print Assumptions C18_type_imports.

(* a struct defined from a named type always generates (no error, no panic), whatever the tags and field types *)
Theorem C18_generates : forall L target c ti fs o,
    fx_tag c = true -> fx_errnil c = true ->
    ti_enabled ti = true -> ti_name ti <> [] ->
    ti_under ti = Some fs ->
    origin_loop c (ti_name ti) (ti_group ti) None = Some o ->
    replace_modelled L target (ti_omit ti) (replace_map (ti_replace ti) []) fs ->
    exists g i, generate_type L target c ti = TGen g i.
Proof. exact generate_total. Qed.
Print Assumptions C18_generates.

(* NOTE on C18_copy (audit C1).  It is stated on the SIMPLE value model of Model/GenPartialStruct.v, in which
   (i) [deep_copy_as _ _ None := Some None] — nil gives nil by definition of the model (definitional in the model; the
   generated nil guard is checked per run by the harness, which calls DeepCopyAs on a nil receiver: c18/run.go "DeepCopyAs
   on nil does not return nil"; the statement-wise version, where the guard is a statement that is executed, is the first
   conjunct of C18_copy_unshared below), and
   (ii) [copy_container v := v] — make+copy / make+range are the identity on VALUES: this model has no addresses, so
   C18_copy says WHICH fields receive WHAT (omitted: zero; retained: the source value, converted exactly for call
   statements) and nothing about freshness.  Freshness / no sharing of the copied slices and maps is C18_copy_unshared
   (C17's heap model: copy_slice_cell / copy_map_cell allocate), instantiated in C18_witness_copy_unshared; on the real
   code C18's harness runs DeepCopyAs on filled values and compares retained / omitted / replaced fields (c18/run.go
   reflectViolations); mutation of the copy's containers is tested on the shared copy helper by C17's harness only
   (c17/prog.go mutate). *)

(* ---- DeepCopyAs: nil gives nil; otherwise omitted fields are zero and every retained field receives the source
        value — converted by [conv] exactly when the statement selected for it is a method call ---- *)

Theorem C18_copy : forall L target c ti g i fs conv,
    generate_type L target c ti = TGen g i ->
    ti_under ti = Some fs ->
    NoDup (map f_name fs) ->
    deep_copy_as conv (g_stmts g) None = Some None /\
    forall inv, exists out,
      deep_copy_as conv (g_stmts g) (Some inv) = Some (Some out) /\
      forall f, In f fs ->
        (omitted (copy_skip (ti_omit ti)) (f_name f) = true -> sget out (f_name f) = VZero) /\
        (omitted (copy_skip (ti_omit ti)) (f_name f) = false ->
           exists s j, In s (g_stmts g) /\
             field_stmt L target c (is_replaced (replace_map (ti_replace ti) []) f) f = GOk s j /\
             sget out (f_name f) = if is_call s then conv (f_name f) (sget inv (f_name f))
                                   else sget inv (f_name f)).
Proof. exact copy_semantics. Qed.
Print Assumptions C18_copy.

(* which statements are calls: none for unreplaced fields of scalar, slice, map, pointer, array, interface and
   error types … *)
Theorem C18_copy_unreplaced_plain : forall L target c f s j,
    field_stmt L target c false f = GOk s j ->
    (forall pkg name u ms, unalias (f_ty f) <> TNamed pkg name u ms) ->
    is_call s = false.
Proof. exact unreplaced_not_call. Qed.
Print Assumptions C18_copy_unreplaced_plain.

(* … none for foreign named types that have no DeepCopyAs / DeepCopyIntoAs method (time.Duration, time.Time, …) … *)
Theorem C18_copy_foreign_named : forall L target c f pkg name u ms s j,
    unalias (f_ty f) = TNamed pkg name u ms ->
    bytes_eqb pkg target = false ->
    no_as_methods ms = true ->
    field_stmt L target c false f = GOk s j ->
    s = SAssign (f_name f).
Proof. exact foreign_plain_named_assigned. Qed.
Print Assumptions C18_copy_foreign_named.

(* … and a replaced field of a named type is converted by the replacement's DeepCopyIntoAs *)
Theorem C18_copy_replaced_named : forall L target c f pkg name u ms s j,
    unalias (f_ty f) = TNamed pkg name u ms ->      (* a named type, or an alias of one *)
    field_stmt L target c true f = GOk s j ->
    s = SCallInto (f_name f) dc_into_name.
Proof. exact replaced_named_into. Qed.
Print Assumptions C18_copy_replaced_named.

(* ---- error cases: an error, and nothing rendered ---- *)

Theorem C18_errors : forall L target c ti,
    ti_enabled ti = true ->
    ti_name ti <> [] ->
    (ti_under ti = None -> generate_type L target c ti = TErr EMustStruct) /\
    (forall fs, ti_under ti = Some fs -> origin_loop c (ti_name ti) (ti_group ti) None = None ->
                generate_type L target c ti = TErr ENeedNamed).
Proof. exact generate_type_errors. Qed.
Print Assumptions C18_errors.

(* a package with such a declaration never gets a file … *)
Theorem C18_errors_no_file : forall L target c tis acc imps,
    (exists ti, In ti tis /\ decl_bad c ti) ->
    forall ts i, generate_pkg L target c tis acc imps <> OutFile ts i.
Proof. exact generate_pkg_no_file. Qed.
Print Assumptions C18_errors_no_file.

(* … and Execute returns the error unless another type of the package makes the generator panic first *)
Theorem C18_errors_reported : forall L target c tis acc imps,
    (exists ti, In ti tis /\ decl_bad c ti) ->
    (forall ti, In ti tis -> generate_type L target c ti <> TPanic /\ generate_type L target c ti <> TGeneric) ->
    exists k, generate_pkg L target c tis acc imps = OutErr k.
Proof. exact generate_pkg_error. Qed.
Print Assumptions C18_errors_reported.

(* "defined from another named type" is decided on the type's OWN spec, also inside a grouped declaration (#31) *)
Theorem C18_origin_own_spec : forall c ti,
    fx_group c = true ->
    NoDup (map fst (ti_group ti)) ->
    origin_loop c (ti_name ti) (ti_group ti) None = own_origin ti.
Proof. exact origin_own_spec. Qed.
Print Assumptions C18_origin_own_spec.

(* ---- scoping of the rendered methods (known finding import_name_shadows_template_local): outside the class no
        type expression inside a method body mentions an import name that a template local shadows ---- *)

Theorem C18_scoping_partial : forall L target c ti g i,
    (forall p, L p = last_segment p) ->
    fx_group c = true ->
    NoDup (map fst (ti_group ti)) ->
    generate_type L target c ti = TGen g i ->
    shadow_type target ti = false ->
    gtype_shadowed g = false.
Proof. exact scoping_partial. Qed.
Print Assumptions C18_scoping_partial.

Theorem C18_scoping_refuted :
    exists g i, generate_type last_segment w_target all_fixed w_shadow_ti = TGen g i /\
                gtype_shadowed g = true /\ shadow_type w_target w_shadow_ti = true.
Proof. exact scoping_refuted. Qed.
Print Assumptions C18_scoping_refuted.

(* ---- the code before the repairs ---- *)

(* #25: a tag with a dot was parsed as a type reference: the field list is not the mirror and a bogus import appears *)
Theorem C18_fields_refuted_before_fix :
    exists L g i,
      generate_type L w_target cfg_tag_unfixed w_tag_ti = TGen g i /\
      g_fields g <> [mk_gfield (bs "A") (OIdent (bs "int")) (f_tag w_tag_field)] /\
      In (of_string "json:""a") i.
Proof. exact tag_refuted_before_fix. Qed.
Print Assumptions C18_fields_refuted_before_fix.

(* #25: … or the generator panicked ("invalid type ref") on a struct defined from a named type *)
Theorem C18_generates_refuted_before_fix : forall L,
    generate_type L w_target cfg_tag_unfixed w_tag_panic_ti = TPanic.
Proof. exact tag_panic_before_fix. Qed.
Print Assumptions C18_generates_refuted_before_fix.

(* #31: in a grouped declaration the last spec's origin was taken for every type *)
Theorem C18_origin_refuted_before_fix :
    origin_loop cfg_group_unfixed (ti_name w_group_ti) (ti_group w_group_ti) None = Some (w_origin, bs "B") /\
    own_origin w_group_ti = Some (w_origin, bs "A").
Proof. exact origin_refuted_before_fix. Qed.
Print Assumptions C18_origin_refuted_before_fix.

(* #31: … and a struct literal grouped with a named spec generated code instead of being reported *)
Theorem C18_errors_refuted_before_fix : forall L,
    decl_error w_group_lit_ti = Some ENeedNamed /\
    exists g i, generate_type L w_target cfg_group_unfixed w_group_lit_ti = TGen g i.
Proof. exact group_error_refuted_before_fix. Qed.
Print Assumptions C18_errors_refuted_before_fix.

(* #23 / #15 (prerequisite repairs owned by C17 / C11): a field of type error made the helper panic, and TypeLit
   printed it as `any` *)
Theorem C18_error_field_refuted_before_prerequisites : forall L,
    generate_type L w_target (mk_cfg true true true false) w_err_ti = TPanic /\
    (forall imps, denotes imps w_target (fst (type_lit L w_target (mk_cfg true true false true) TError)) TError = false).
Proof. exact error_field_refuted_before_prerequisites. Qed.
Print Assumptions C18_error_field_refuted_before_prerequisites.

(* ---- non-vacuity: the hypotheses are satisfiable on a non-trivial instance ---- *)

Example C18_example_generated :
  generate_type last_segment w_target all_fixed ex_ti =
  TGen (mk_gtype (bs "X") (OSel (bs "origin") (bs "T"))
         [ mk_gfield (bs "A") (OIdent (bs "int")) (of_string "json:""a.b"" yaml:""x""");
           mk_gfield (bs "C") (OMap (OIdent (bs "string")) (OSel (bs "origin") (bs "Inner"))) [];
           mk_gfield (bs "D") (OPtr (OSel (bs "time") (bs "Duration"))) (bs "d");
           mk_gfield (bs "I") (OText (bs "Y")) (of_string "json:""ii"" yaml:""q.r""");
           mk_gfield (bs "E") (OIdent (bs "error")) [];
           mk_gfield (bs "G") (OIdent (bs "any")) (bs "g") ]
         [ SAssign (bs "A");
           SCopyMap (bs "C") (OMap (OIdent (bs "string")) (OSel (bs "origin") (bs "Inner")));
           SAssign (bs "D");
           SCallInto (bs "I") (bs "DeepCopyIntoAs");
           SAssign (bs "E");
           SAssign (bs "G") ])
       [w_origin; ex_time; w_origin; w_origin].
Proof. vm_compute. reflexivity. Qed.

Example C18_example_hypotheses :
  NoDup (map f_name ex_fields) /\ NoDup (map fst (ti_group ex_ti)) /\ shadow_type w_target ex_ti = false /\
  own_origin ex_ti = Some (w_origin, bs "T") /\
  (forall f t0 rest, In f ex_fields -> retained (ti_omit ex_ti) f = true ->
     lookup (f_name f) (replace_map (ti_replace ex_ti) []) = Some (t0 :: rest) -> ref_modelled last_segment w_target t0 = true).
Proof. exact example_hypotheses. Qed.

Example C18_example_copy :
  let ss := [ SAssign (bs "A"); SCopyMap (bs "C") (OIdent (bs "m")); SCallInto (bs "I") (bs "DeepCopyIntoAs") ] in
  let inv := [(bs "A", VAtom 7); (bs "B", VSlice [VAtom 1]); (bs "C", VMap [(VAtom 1, VAtom 2)]); (bs "I", VAtom 9)] in
  deep_copy_as (fun _ v => VSlice [v]) ss (Some inv) =
  Some (Some [(bs "I", VSlice [VAtom 9]); (bs "C", VMap [(VAtom 1, VAtom 2)]); (bs "A", VAtom 7)]).
Proof. vm_compute. reflexivity. Qed.

Example C18_example_errors :
  generate_pkg last_segment w_target all_fixed
    [ex_ti; mk_tinput (bs "z") true [(bs "z", ROther)] (Some ex_fields) [] []] [] [] = OutErr ENeedNamed /\
  generate_pkg last_segment w_target all_fixed
    [mk_tinput (bs "k") true [(bs "k", RIdent (Some ([], bs "int")))] None [] []; ex_ti] [] [] = OutErr EMustStruct.
Proof. split; vm_compute; reflexivity. Qed.

(* ================================================================================================================
   The copy-field helper is modelled twice (here, and in Model/DeepCopy.v for C17).  Through the adapter of
   Model/Generators.v the two models are one: same statement for every field of the common domain, partialstruct's
   Skip / FieldContext callbacks being the only difference; hence C17's heap-level theorems hold of the DeepCopyAs /
   DeepCopyIntoAs bodies generated here (C18_copy above is stated on a simple value model only).

   [fty17] translates a field type (defined on basic, any / interface, error, named types, slices and maps of scalars —
   C17's grammar; pointer and array fields and containers of non-scalars are outside it), [msig17] a method signature
   (DeepCopyAs -> DeepCopy, DeepCopyIntoAs -> DeepCopyInto: the helper is parametric in the two names), [stmt17] a
   statement; [agrees target G t]: C17's type graph G declares a same-package named type t with the kind and the
   explicit methods C18's description carries (a named interface type has none).
   ================================================================================================================ *)
Require Import Gengo.Model.Generators Gengo.Proofs.Generators.

Theorem Copy_c17_is_c18_field_stmt : forall L target c, fx_errnil c = true ->
  forall G f ft,
    fty17 L target c (f_ty f) = Some ft ->
    agrees target G (f_ty f) ->
    exists s18 i s17 dep,
      field_stmt L target c false f = GOk s18 i /\
      DC.field_stmt DC.all_fixed G [] (f_name f) ft = Ok (s17, dep) /\
      stmt17 s18 = s17.
Proof. exact field_stmt_agree. Qed.
Print Assumptions Copy_c17_is_c18_field_stmt.

(* outside the common domain the statement depends on the top-level constructor only (the Go type switch); alias types
   are not part of C17's model at all (C18_copy_alias_field, C18_copy_foreign_named, C18_copy_replaced_named say what is
   selected for them); the guard of the predeclared error's nil package is only needed for an alias of error *)
Theorem Copy_outside_common_domain : forall L target c,
    fx_errnil c = true ->
    forall f b,
    fty17 L target c (f_ty f) = None ->
    exists s i, field_stmt L target c b f = GOk s i /\
      match f_ty f with
      | TSlice _ => exists o, s = SCopySlice (f_name f) o
      | TMap _ _ => exists o, s = SCopyMap (f_name f) o
      | TAlias _ _ _ => True
      | _ => s = SAssign (f_name f)
      end.
Proof. exact outside_domain_stmt. Qed.
Print Assumptions Copy_outside_common_domain.

(* the callbacks, exactly: FieldContext is consulted inside `case *types.Named` only (error included) ... *)
Theorem Copy_callback_ignored_unless_named : forall L target c f,
    is_named_ty (f_ty f) = false -> field_stmt L target c true f = field_stmt L target c false f.
Proof. exact callback_not_named. Qed.
Print Assumptions Copy_callback_ignored_unless_named.

(* ... where the context it returns selects in.F.DeepCopyIntoAs(&out.F) whatever the type is (InSamePkg is false in it:
   no "always gen", no OnLocalDep, no map refinement); Skip removes the omitted fields before the helper sees them
   (C18_copy / gen_stmts_loop_spec).  C17's model reads the same statement off a struct whose replaced fields have the
   replacement type, a target-package struct or scalar type ([field17], [agrees_field]). *)
Theorem Copy_callback_forces_into : forall L target c f,
    is_named_ty (f_ty f) = true ->
    field_stmt L target c true f = GOk (SCallInto (f_name f) dc_into_name) [].
Proof. exact callback_named. Qed.
Print Assumptions Copy_callback_forces_into.

(* the whole body of DeepCopyIntoAs is C17's fields_copy of the struct that partialstruct emits *)
Theorem C18_stmts_are_c17_fields_copy : forall L target c, fx_errnil c = true ->
  forall ti g i fs G cfs,
    generate_type L target c ti = TGen g i ->
    ti_under ti = Some fs ->
    fields17 L target c (replace_map (ti_replace ti) []) (filter (keep (ti_omit ti)) fs) = Some cfs ->
    (forall f, In f fs -> keep (ti_omit ti) f = true -> agrees_field target G (replace_map (ti_replace ti) []) f) ->
    map fst cfs = map f_name (filter (keep (ti_omit ti)) fs) /\
    exists deps, DC.fields_copy DC.all_fixed G [] cfs = Ok (map stmt17 (g_stmts g), deps).
Proof. exact stmts_agree. Qed.
Print Assumptions C18_stmts_are_c17_fields_copy.

(* TRANSFER.  DeepCopyAs on C17's heap ([deep_copy_as_heap]: nil -> nil; out := new(Origin); the generated statements,
   executed by C17's exec_body; the origin value is represented by its retained fields — omitted ones are never
   assigned, C18_copy).  G declares the generated struct with the translated fields and lies in C17's domain; every
   method the body calls ([rec]: the replacement's or a same-package type's DeepCopyIntoAs; [ms]: the methods that
   exist) copies faithfully ([rec_spec], the assumption C18's conv_for made informally).  Then for every well-typed
   value: the result is deeply equal, every slice / map cell reachable from it is fresh, and no write through any of
   them changes the source.  Scope = C17's heap model: cells hold scalars; named non-struct types are scalars.
   nil -> nil (first conjunct): [deep_copy_as_heap] executes the statement list of DeepCopyAs ([as_body]: nil guard;
   out := new(Origin); in.DeepCopyIntoAs(out); return out — partialstruct.go:110-117) with C17's [run_ptr_copy]; the
   conjunct holds because the first statement is the guard (without it: Props/C17.v C17_nil_needs_the_guard). *)
Theorem C18_copy_unshared : forall L target c, fx_errnil c = true ->
  forall ti g i fs G ms rec bound cfs d tp,
    generate_type L target c ti = TGen g i ->
    ti_under ti = Some fs ->
    fields17 L target c (replace_map (ti_replace ti) []) (filter (keep (ti_omit ti)) fs) = Some cfs ->
    (forall f, In f fs -> keep (ti_omit ti) f = true -> agrees_field target G (replace_map (ti_replace ti) []) f) ->
    Gengo.Proofs.DeepCopySem.dom G ->
    DC.lookup G (g_name g) = Some d -> DC.d_kind d = DC.DStruct tp cfs ->
    Gengo.Proofs.DeepCopySem.rec_spec G ms rec bound ->
    callees_as_ok G ms cfs ->
    forall h,
      deep_copy_as_heap rec G ms g None h = Ok (None, h) /\
      forall fin, Gengo.Proofs.DeepCopySem.wt_fields G h cfs fin -> Gengo.Proofs.DeepCopySem.depth_fields fin < bound ->
        exists fout t,
          deep_copy_as_heap rec G ms g (Some fin) h = Ok (Some (DC.VStruct fout), h ++ t) /\
          DC.snapshot (h ++ t) (DC.VStruct fout) = DC.snapshot h (DC.VStruct fin) /\
          (forall a, In a (DC.locs (DC.VStruct fout)) -> List.length h <= a < List.length (h ++ t)) /\
          (forall a cell, In a (DC.locs (DC.VStruct fout)) ->
             DC.snapshot (DC.write (h ++ t) a cell) (DC.VStruct fin) = DC.snapshot h (DC.VStruct fin)).
Proof. exact copy_as_transfer. Qed.
Print Assumptions C18_copy_unshared.

(* ... and with NO assumption on any method when the body calls none (no replaced named field; same-package named
   field types are interfaces): assignments and make+copy / make+range only *)
Theorem C18_copy_unshared_plain : forall L target c, fx_errnil c = true ->
  forall ti g i fs G cfs d tp,
    generate_type L target c ti = TGen g i ->
    ti_under ti = Some fs ->
    fields17 L target c (replace_map (ti_replace ti) []) (filter (keep (ti_omit ti)) fs) = Some cfs ->
    (forall f, In f fs -> keep (ti_omit ti) f = true -> agrees_field target G (replace_map (ti_replace ti) []) f) ->
    Gengo.Proofs.DeepCopySem.dom G ->
    DC.lookup G (g_name g) = Some d -> DC.d_kind d = DC.DStruct tp cfs ->
    (forall f c0 args, In (f, DC.FNamed c0 args) cfs -> DC.is_iface (DC.lookup G c0) = true) ->
    forall rec h fin, Gengo.Proofs.DeepCopySem.wt_fields G h cfs fin ->
      exists fout t,
        deep_copy_as_heap rec G [] g (Some fin) h = Ok (Some (DC.VStruct fout), h ++ t) /\
        DC.snapshot (h ++ t) (DC.VStruct fout) = DC.snapshot h (DC.VStruct fin) /\
        (forall a, In a (DC.locs (DC.VStruct fout)) -> List.length h <= a < List.length (h ++ t)) /\
        (forall a cell, In a (DC.locs (DC.VStruct fout)) ->
           DC.snapshot (DC.write (h ++ t) a cell) (DC.VStruct fin) = DC.snapshot h (DC.VStruct fin)).
Proof. exact copy_as_unshared_plain. Qed.
Print Assumptions C18_copy_unshared_plain.

(* non-vacuity: scalar, omitted slice, slice, map of a foreign scalar, replaced struct field, error, same-package
   interface — generated, translated, in C17's domain, executed on a heap *)
Example C18_example_c17_view : exists g i,
  generate_type last_segment w_target all_fixed ex17_ti = TGen g i /\ g_name g = bs "X" /\
  map stmt17 (g_stmts g) =
    [ DC.SAssign (bs "A"); DC.SCopySlice (bs "S") (bs "[]string"); DC.SCopyMap (bs "M") (bs "map[string]lib.Code");
      DC.SCallInto (bs "I"); DC.SAssign (bs "E"); DC.SAssign (bs "N") ] /\
  fields17 last_segment w_target all_fixed ex17_repl ex17_kept = Some ex17_cfs /\
  helper17_body last_segment w_target all_fixed ex17_ti (bs "X") = Some (Ok (map stmt17 (g_stmts g))).
Proof. exact ex17_generated. Qed.

Example C18_example_c17_hypotheses :
  (forall f, In f ex17_fields -> keep (ti_omit ex17_ti) f = true -> agrees_field w_target ex17_G ex17_repl f) /\
  Gengo.Proofs.DeepCopySem.dom ex17_G.
Proof. split; [exact ex17_agrees|exact ex17_dom]. Qed.

Example C18_example_c17_copy :
  match generate_type last_segment w_target all_fixed ex17_ti with
  | TGen g _ =>
      match deep_copy_as_heap (fun _ v _ h => Ok (v, h)) ex17_G [] g (Some ex17_fin) ex17_heap with
      | Ok (Some v', h') =>
          DC.snapshot h' v' = DC.snapshot ex17_heap (DC.VStruct ex17_fin) /\ DC.locs v' = [2; 3] /\
          DC.snapshot (DC.write h' 2 (DC.CSlice [])) (DC.VStruct ex17_fin) = DC.snapshot ex17_heap (DC.VStruct ex17_fin)
      | _ => False
      end
  | _ => False
  end.
Proof. exact ex17_copy. Qed.

(* ---- partialstruct as an instance of the pipeline's abstract generator (Model/Generators.v): gengo.Execute's
   per-package loop is [generate_pkg] on the dispatched declarations — an error from `must be struct type` / `need to
   define type like …` is Execute's failure naming partialstruct and the package (consequence: Props/C02.v
   C02_partialstruct_error_aborts), a panic is a dead process.  [print_gtype]: the text of the template, a parameter. ---- *)
Require Gengo.Model.Pipeline Gengo.Proofs.GeneratorsPipe.

Theorem C18_is_pipeline_generator :
  forall c tracker tin print_gtype (E : Gengo.Model.Pipeline.env) p,
    let g := partialstruct_gen c tracker tin print_gtype in
    match generate_pkg (tracker p) (Gengo.Model.Pipeline.pk_path p) c
            (map (tin p) (Gengo.Proofs.GeneratorsPipe.ps_called c tracker tin print_gtype E p)) [] [] with
    | OutFile ts _ => Gengo.Model.Pipeline.go_out (Gengo.Model.Pipeline.gen_run E g p) = Gengo.Model.Pipeline.Done /\
                      Gengo.Model.Pipeline.go_body (Gengo.Model.Pipeline.gen_run E g p) = print_gtypes print_gtype ts /\
                      Gengo.Model.Pipeline.go_ignore (Gengo.Model.Pipeline.gen_run E g p) = false
    | OutErr _ => Gengo.Model.Pipeline.go_out (Gengo.Model.Pipeline.gen_run E g p)
                  = Gengo.Model.Pipeline.Failed (Gengo.Model.Pipeline.EGen (bs "partialstruct") (Gengo.Model.Pipeline.pk_path p))
    | OutCrash => Gengo.Model.Pipeline.go_out (Gengo.Model.Pipeline.gen_run E g p) = Gengo.Model.Pipeline.Died
    | OutGeneric => True
    end.
Proof. exact Gengo.Proofs.GeneratorsPipe.partialstruct_gen_run. Qed.
Print Assumptions C18_is_pipeline_generator.

(* ================================================================================================================
   C18_types / C18_type_imports read types back through THIS file's own reading of Dumper.TypeLit ([type_lit]: a fixed
   tracker function L, the expression as a tree).  It coincides with C11's model of the dumper (Model/TypeLit.v: the
   tracker state threaded through the rendering, snippet.ID -> rawNamer.Name -> processName) on the common domain:
   [view18] = what the dumper sees of a type of C18's grammar, [ast18] = C18's tree as C11's syntax tree, [wf18] =
   type and basic names are identifiers, packages non-empty.  From any tracker state with non-empty names C11's model
   returns, for EVERY L that names the mentioned foreign packages as the resulting state does, exactly C18's tree; the
   state is extended (never rewritten) and the paths registered are the old ones plus the foreign packages mentioned.
   Stated with C11's hypotheses on tracker and parser, and with both discharged (C03's tracker, C15's parser).
   ================================================================================================================ *)
Require Gengo.Model.GeneratorsTypes Gengo.Proofs.GeneratorsTypes Gengo.Proofs.TypeLit Gengo.Model.RenderStack.
Module GT := Gengo.Model.GeneratorsTypes.

Theorem C18_type_lit_is_c11 : forall pick parse_tref target can_backquote fx_tag c,
  Gengo.Proofs.TypeLit.tracker_hyps pick -> Gengo.Proofs.TypeLit.parse_hyp parse_tref ->
  forall t, GT.wf18 t = true -> forall e, GT.env_ok e ->
    exists a e' suf,
      Gengo.Model.TypeLit.type_lit pick parse_tref target can_backquote (fx_errlit c) fx_tag (GT.view18 t) e = Ok (a, e') /\
      e' = e ++ suf /\ GT.env_ok e' /\
      (forall p, In p (GT.foreign18 target t) -> Gengo.Model.TypeLit.alookup p e' <> None) /\
      (forall p, Gengo.Model.TypeLit.alookup p e' <> None ->
                 Gengo.Model.TypeLit.alookup p e <> None \/ In p (GT.foreign18 target t)) /\
      (forall L, (forall p, In p (GT.foreign18 target t) -> L p = Gengo.Model.TypeLit.local_name_of p e') ->
                 a = GT.ast18 (fst (type_lit L target c t))).
Proof. exact Gengo.Proofs.GeneratorsTypes.type_lit_agree_c11. Qed.
Print Assumptions C18_type_lit_is_c11.

Theorem C18_type_lit_is_c11_concrete : forall pre std target can_backquote fx_tag c,
  forall t, GT.wf18 t = true -> forall e, GT.env_ok e ->
    exists a e' suf,
      Gengo.Model.TypeLit.type_lit (Gengo.Model.RenderStack.pick_c03 pre std) Gengo.Model.RenderStack.parse_c15
        target can_backquote (fx_errlit c) fx_tag (GT.view18 t) e = Ok (a, e') /\
      e' = e ++ suf /\ GT.env_ok e' /\
      (forall p, In p (GT.foreign18 target t) -> Gengo.Model.TypeLit.alookup p e' <> None) /\
      (forall p, Gengo.Model.TypeLit.alookup p e' <> None ->
                 Gengo.Model.TypeLit.alookup p e <> None \/ In p (GT.foreign18 target t)) /\
      (forall L, (forall p, In p (GT.foreign18 target t) -> L p = Gengo.Model.TypeLit.local_name_of p e') ->
                 a = GT.ast18 (fst (type_lit L target c t))).
Proof. exact Gengo.Proofs.GeneratorsTypes.type_lit_agree_concrete. Qed.
Print Assumptions C18_type_lit_is_c11_concrete.

Example C18_example_type_lit_is_c11 :
  let t := TMap (TBasic (bs "string")) (TNamed (bs "example.com/m/origin") (bs "Inner") UStruct []) in
  GT.wf18 t = true /\ GT.env_ok [] /\
  exists e', Gengo.Model.TypeLit.type_lit Gengo.Model.RenderStack.the_pick Gengo.Model.RenderStack.parse_c15
               (bs "example.com/m/target") (fun _ => true) true true (GT.view18 t) []
             = Ok (GT.ast18 (OMap (OIdent (bs "string")) (OSel (bs "origin") (bs "Inner"))), e')
             /\ Gengo.Model.TypeLit.local_name_of (bs "example.com/m/origin") e' = bs "origin".
Proof. exact Gengo.Proofs.GeneratorsTypes.type_lit_agree_example. Qed.

(* ================================================================================================================
   Non-vacuity of C18_types and C18_copy_unshared (Proofs/GeneratorsWitness.v).
   ================================================================================================================ *)
Require Import Gengo.Proofs.GeneratorsWitness.

(* C18_types.  Origin T (package example.com/m/origin) with twelve fields: A int, B []int (omitted), S []string,
   M map[string]lib.Code, C map[string][]*origin.Inner, D time.Duration, P *time.Time, R [4]lib.Code, I origin.Inner
   (replaced by Y), E error, G any, N LIface (target package).  Import block of the generated file: origin, time, lib
   under their last segments.  The hypotheses hold of every field type, and the theorem gives that every rendered type
   expression denotes the origin's type; [wt_generated]: what was generated. *)
Example C18_witness_types_hypotheses :
  ((forall p n, In (p, n) wt_imps -> n = last_segment p) /\ NoDup (map snd wt_imps)) /\
  (forall f, In f wt_fields ->
     (fx_errlit all_fixed = true \/ no_error (f_ty f) = true) /\ has_iface_lit (f_ty f) = false /\
     imported last_segment w_target wt_imps (f_ty f)) /\
  generate_type last_segment w_target all_fixed wt_ti =
    TGen wt_g [wt_lib; w_origin; wt_time; wt_time; wt_lib; w_origin; wt_lib; w_origin].
Proof. exact (conj wt_imps_ok (conj wt_types_hyps wt_generated)). Qed.

Example C18_witness_types : forall f, In f wt_fields ->
  denotes wt_imps w_target (fst (type_lit last_segment w_target all_fixed (f_ty f))) (f_ty f) = true.
Proof.
  exact (fun f Hin =>
    C18_types last_segment w_target all_fixed wt_imps (proj1 wt_imps_ok) (proj2 wt_imps_ok) (f_ty f)
      (proj1 (wt_types_hyps f Hin)) (proj1 (proj2 (wt_types_hyps f Hin))) (proj2 (proj2 (wt_types_hyps f Hin)))).
Qed.

(* ... and, computed on the generated struct: every field but the omitted B is there, and the type expression of every
   field but the replaced I denotes the origin field's type *)
Example C18_witness_types_generated :
  forallb (fun f => match find (fun gf => bytes_eqb (gf_name gf) (f_name f)) (g_fields wt_g) with
                    | Some gf => bytes_eqb (f_name f) (bs "I") || denotes wt_imps w_target (gf_ty gf) (f_ty f)
                    | None => bytes_eqb (f_name f) (bs "B")
                    end) wt_fields = true.
Proof. exact wt_generated_fields_denote. Qed.

(* C18_copy_unshared with CONCRETE [rec_spec] and [callees_as_ok].  Origin with eight fields inside the common domain:
   A int, B []int (omitted), S []string, M map[string]lib.Code, D time.Duration, I origin.Inner (replaced by Y), E error,
   N LIface.  [wh_G]: the generated struct X, the replacement type Y = struct{ P []int; Q int; K map[string]int }, the
   interface LIface.  [wh_ms]: the one method the body calls — Y's DeepCopyIntoAs, with the body the copy helper gives
   for Y's fields — EXECUTED by C17's [exec_into] (so [rec_spec] is a theorem about it, not an assumption). *)
Example C18_witness_copy_unshared_hypotheses :
  (generate_type last_segment w_target all_fixed wh_ti = TGen wh_g [wt_lib; wt_time; w_origin; wt_lib] /\
   fields17 last_segment w_target all_fixed wh_repl (filter (keep (ti_omit wh_ti)) wh_fields) = Some wh_cfs /\
   DC.lookup wh_G (g_name wh_g) = Some (DC.mk_decl (bs "X") (DC.DStruct [] wh_cfs) false None [])) /\
  (forall f, In f wh_fields -> keep (ti_omit wh_ti) f = true -> agrees_field w_target wh_G wh_repl f) /\
  Gengo.Proofs.DeepCopySem.dom wh_G /\
  (forall fuel, Gengo.Proofs.DeepCopySem.rec_spec wh_G wh_ms (DC.exec_into fuel wh_G wh_ms) fuel) /\
  callees_as_ok wh_G wh_ms wh_cfs /\
  (Gengo.Proofs.DeepCopySem.wt_fields wh_G wh_heap wh_cfs wh_fin /\ Gengo.Proofs.DeepCopySem.depth_fields wh_fin < 3).
Proof. exact (conj wh_generated (conj wh_agrees (conj wh_dom (conj wh_rec_spec (conj wh_callees_as_ok wh_fin_typed))))). Qed.

Example C18_witness_copy_unshared : forall fuel h,
  deep_copy_as_heap (DC.exec_into fuel wh_G wh_ms) wh_G wh_ms wh_g None h = Ok (None, h) /\
  forall fin, Gengo.Proofs.DeepCopySem.wt_fields wh_G h wh_cfs fin -> Gengo.Proofs.DeepCopySem.depth_fields fin < fuel ->
    exists fout t,
      deep_copy_as_heap (DC.exec_into fuel wh_G wh_ms) wh_G wh_ms wh_g (Some fin) h = Ok (Some (DC.VStruct fout), h ++ t) /\
      DC.snapshot (h ++ t) (DC.VStruct fout) = DC.snapshot h (DC.VStruct fin) /\
      (forall a, In a (DC.locs (DC.VStruct fout)) -> List.length h <= a < List.length (h ++ t)) /\
      (forall a cell, In a (DC.locs (DC.VStruct fout)) ->
         DC.snapshot (DC.write (h ++ t) a cell) (DC.VStruct fin) = DC.snapshot h (DC.VStruct fin)).
Proof.
  exact (fun fuel =>
    C18_copy_unshared last_segment w_target all_fixed eq_refl wh_ti wh_g _ wh_fields wh_G wh_ms
      (DC.exec_into fuel wh_G wh_ms) fuel wh_cfs _ []
      (proj1 wh_generated) eq_refl (proj1 (proj2 wh_generated)) wh_agrees wh_dom
      (proj2 (proj2 wh_generated)) eq_refl (wh_rec_spec fuel) wh_callees_as_ok).
Qed.

(* computed on a value with a filled slice and map in X and a filled slice and map inside the replaced struct: nil gives
   nil; four fresh cells, two of them made by Y's method; a write through the copy's inner map leaves the original alone —
   the same write through the ORIGINAL's cell does not (the conclusion is not trivially true) *)
Example C18_witness_copy_unshared_computed :
  deep_copy_as_heap (DC.exec_into 3 wh_G wh_ms) wh_G wh_ms wh_g None wh_heap = Ok (None, wh_heap) /\
  match deep_copy_as_heap (DC.exec_into 3 wh_G wh_ms) wh_G wh_ms wh_g (Some wh_fin) wh_heap with
  | Ok (Some v', h') =>
      DC.snapshot h' v' = DC.snapshot wh_heap (DC.VStruct wh_fin) /\ DC.locs v' = [4; 5; 6; 7] /\ List.length h' = 8 /\
      DC.snapshot (DC.write h' 7 (DC.CMap [])) (DC.VStruct wh_fin) = DC.snapshot wh_heap (DC.VStruct wh_fin) /\
      DC.snapshot (DC.write h' 3 (DC.CMap [])) (DC.VStruct wh_fin) <> DC.snapshot wh_heap (DC.VStruct wh_fin)
  | _ => False
  end.
Proof. exact wh_computed. Qed.
