(* C06 — GenerateType is called exactly for the enabled package-level named types.
   Statements only; every proof is [exact <lemma>]. *)
Require Import Gengo.Base.Bytes Gengo.Model.Dispatch Gengo.Proofs.Dispatch.
Require Import Permutation.

(* The loop of IsGeneratorEnabled computes the rule "gengo:<g> decides by itself (disabled iff its
   value is false), otherwise any gengo:<g>:<sub> enables, otherwise not enabled" *)
Theorem C06_enabled_spec :
  forall g t, is_generator_enabled g t = enabled_spec g t.
Proof. exact enabled_is_spec. Qed.
Print Assumptions C06_enabled_spec.
