(* C06 — GenerateType is called exactly for the enabled package-level named types.
   Statements only; every proof is [exact <lemma>].

   Model: Model/Dispatch.v (IsGeneratorEnabled, merge / Context.Doc, package tags, the type table of
   newPkg, doGenerate, the defer loop, the per-package and per-run loops).  Go maps are association lists
   given in ARBITRARY order; the hypotheses [NoDup (keys _)] say "this is a map" and [Permutation]
   quantifies over iteration orders.  [fixed_all] is the repaired code: the scope test in
   pkg/types/package.go (prerequisite fix owned by C13) and the index loop over the defers
   (fixes/C06-nested-defer.diff); the last three theorems are about the code as it was found. *)
Require Import Gengo.Base.Bytes Gengo.Model.Dispatch Gengo.Proofs.Dispatch.
Require Import Permutation.

(* ---- the enablement rule ---- *)

(* The loop computes: an entry gengo:<g> decides by itself (disabled iff the concatenation of its values
   is "false"), otherwise any key gengo:<g>:… enables, otherwise not enabled. *)
Theorem C06_enabled_spec :
  forall g t,
    is_generator_enabled g t =
    match lookup (bs "gengo:" ++ g) t with
    | Some vs => negb (bytes_eqb (concat vs) (bs "false"))
    | None => existsb (fun kv => has_prefix ((bs "gengo:" ++ g) ++ bs ":") (fst kv)) t
    end.
Proof. exact enabled_is_spec. Qed.
Print Assumptions C06_enabled_spec.

(* … whatever order Go's map iteration presents the tags in *)
Theorem C06_enabled_order_independent :
  forall g t t', NoDup (keys t) -> Permutation t t' -> is_generator_enabled g t = is_generator_enabled g t'.
Proof. exact enabled_order_independent. Qed.
Print Assumptions C06_enabled_order_independent.

(* only the generator's own tags matter … *)
Theorem C06_enabled_only_own_tags :
  forall g t,
    is_generator_enabled g t =
    is_generator_enabled g (filter (fun kv => bytes_eqb (fst kv) (bs "gengo:" ++ g)
                                             || has_prefix ((bs "gengo:" ++ g) ++ bs ":") (fst kv)) t).
Proof. exact enabled_only_own_tags. Qed.
Print Assumptions C06_enabled_only_own_tags.

(* … so tags of a generator whose name merely starts with g (deepcopy vs deep) never enable g *)
Theorem C06_enabled_ignores_longer_names :
  forall g c rest t,
    c <> ":"%char ->
    (forall k, In k (keys t) -> exists tail, k = (bs "gengo:" ++ (g ++ c :: rest)) ++ tail) ->
    is_generator_enabled g t = false.
Proof. exact enabled_ignores_longer_names. Qed.
Print Assumptions C06_enabled_ignores_longer_names.

(* ---- effective tags: declaration over package over global ---- *)

Theorem C06_precedence :
  forall G P d k,
    NoDup (keys G) -> NoDup (keys P) -> NoDup (keys (td_tags d)) ->
    lookup k (doc_tags G P d) =
    match lookup k (td_tags d) with
    | Some v => Some v
    | None => match lookup k P with Some v => Some v | None => lookup k G end
    end.
Proof. exact doc_tags_lookup. Qed.
Print Assumptions C06_precedence.

(* package doc comments in several files: the later file wins, key by key *)
Theorem C06_package_tags_later_file_wins :
  forall files t k, NoDup (keys t) ->
    lookup k (pkg_tags (files ++ [t])) =
    match lookup k t with Some v => Some v | None => lookup k (pkg_tags files) end.
Proof. exact pkg_tags_lookup_snoc. Qed.
Print Assumptions C06_package_tags_later_file_wins.

(* the rule on the three levels, for every iteration order t' of the merged map *)
Theorem C06_enabled_effective :
  forall g G P d t',
    NoDup (keys G) -> NoDup (keys P) -> NoDup (keys (td_tags d)) ->
    Permutation t' (doc_tags G P d) ->
    is_generator_enabled g t' = enabled_eff_spec g G P (td_tags d).
Proof. exact enabled_effective. Qed.
Print Assumptions C06_enabled_effective.

(* ---- dispatch ---- *)

(* For EVERY order pi in which TypesInfo.Defs is ranged over and EVERY order ns in which the table's keys
   are ranged over, doGenerate makes exactly the expected calls, in name order; a generator error ends
   the loop after the failing call. *)
Theorem C06_dispatch :
  forall g G P defs pi ns,
    NoDup (keys G) -> NoDup (keys P) ->
    (forall d, In d defs -> NoDup (keys (td_tags d))) ->
    NoDup (map td_name (filter td_pkgscope defs)) ->          (* go/types: package-scope names are unique *)
    Permutation pi defs ->
    Permutation ns (keys (type_table true pi)) ->
    do_generate g G P (type_table true pi) ns = Ok (cut_err (expected_calls g G P defs)).
Proof. exact do_generate_spec. Qed.
Print Assumptions C06_dispatch.

(* exactly once: no call twice; GenerateType for d iff d is a package-scope defined type of this package
   whose effective tags enable g; GenerateAliasType iff d is a package-scope alias, enabled, and g is an
   AliasGenerator; nothing for local types, type parameters, disabled types *)
Theorem C06_exactly_once :
  forall g G P defs pi ns,
    NoDup (keys G) -> NoDup (keys P) ->
    (forall d, In d defs -> NoDup (keys (td_tags d))) ->
    NoDup (map td_name (filter td_pkgscope defs)) ->
    Permutation pi defs ->
    Permutation ns (keys (type_table true pi)) ->
    (forall d, In d defs -> td_action d <> AErr) ->
    exists cs,
      do_generate g G P (type_table true pi) ns = Ok (cs, false)
      /\ NoDup cs
      /\ forall k d, In (k, d) cs <->
           In d defs /\ td_pkgscope d = true /\ enabled_eff_spec (g_name g) G P (td_tags d) = true /\
           ((k = CT /\ td_kind d = KNamed) \/ (k = CA /\ td_kind d = KAlias /\ g_alias g = true)).
Proof. exact exactly_once. Qed.
Print Assumptions C06_exactly_once.

(* types of other packages never: in a whole run (any switches) every GenerateType / GenerateAliasType
   event belongs to a processed package and is for a declaration of that very package *)
(* (holds BY CONSTRUCTION of the model: [execute] hands each package's session only that package's own [pk_defs],
   so an event for another package's declaration cannot be formed; the theorem records this structural fact, it is
   tied to the code — doGenerate ranging over p.Types() of the package at hand — by the C06 harness only) *)
Theorem C06_other_packages_never :
  forall fx all pkgs gens G evs o,
    execute fx all pkgs gens G = Ok (evs, o) ->
    forall e i, In e evs -> ev_decl e = Some i ->
      exists p, In p pkgs /\ (all || pk_direct p = true) /\ ev_pkg e = pk_id p /\
                exists d, In d (pk_defs p) /\ td_id d = i.
Proof. exact execute_calls_own_package. Qed.
Print Assumptions C06_other_packages_never.

(* a whole run (trace and outcome) is the same for every order in which each package's TypesInfo.Defs is met *)
Theorem C06_run_independent_of_defs_order :
  forall all pkgs pkgs' gens G,
    NoDup (keys G) -> Forall pkg_wf pkgs -> Forall2 pkg_perm pkgs pkgs' ->
    execute fixed_all all pkgs gens G = execute fixed_all all pkgs' gens G.
Proof. exact execute_perm. Qed.
Print Assumptions C06_run_independent_of_defs_order.

(* ---- Defer ---- *)

(* the queue loop terminates (enough fuel exists) … *)
Theorem C06_defer_queue_terminates :
  forall fuel q, qsize q <= fuel -> exists r, run_defers_queue fuel q = Ok r.
Proof. exact run_defers_queue_total. Qed.
Print Assumptions C06_defer_queue_terminates.

(* … and runs every registered callback (also those registered by callbacks) exactly once, the
   directly registered ones first and in registration order *)
Theorem C06_defers_exactly_once :
  forall fuel q, qsize q <= fuel -> forallb no_err_tree q = true ->
    exists l, run_defers_queue fuel q = Ok (l, false)
              /\ Permutation l (ids_all q) /\ firstn (length q) l = map root_id q.
Proof. exact run_defers_queue_ok. Qed.
Print Assumptions C06_defers_exactly_once.

(* one generator on one package: the trace is the expected calls followed by the callbacks *)
Theorem C06_session :
  forall p g G P defs pi ns,
    NoDup (keys G) -> NoDup (keys P) ->
    (forall d, In d defs -> NoDup (keys (td_tags d))) ->
    NoDup (map td_name (filter td_pkgscope defs)) ->
    Permutation pi defs ->
    Permutation ns (keys (type_table true pi)) ->
    let cs := expected_calls g G P defs in
    forallb (fun c => negb (is_err (td_action (snd c)))) cs = true ->
    forallb no_err_tree (registered cs) = true ->
    exists ds,
      session fixed_all p g G P pi ns
        = Ok (map (event_of_call p g G P) cs ++ map (EDefer p (g_idx g)) ds, Done, rendered cs || negb (is_nil ds))
      /\ Permutation ds (ids_all (registered cs))
      /\ firstn (length (registered cs)) ds = map root_id (registered cs).
Proof. exact session_fixed_spec. Qed.
Print Assumptions C06_session.

(* after the package's last GenerateType (any switches, also when a generator fails) *)
Theorem C06_defers_after_calls :
  forall fx p g G P defs ns evs o b,
    session fx p g G P defs ns = Ok (evs, o, b) ->
    exists cs ds, evs = map (event_of_call p g G P) cs ++ map (EDefer p (g_idx g)) ds.
Proof. exact session_shape. Qed.
Print Assumptions C06_defers_after_calls.

(* before its file is written: the trace of a package is callbacks (calls and defers of that package,
   for its own declarations) followed by at most one write event *)
(* (the write event is SYNTHETIC: the model's [pkg_execute] appends one [EWrites] after the sessions of all generators,
   Model/Dispatch.v 261-266, so "after the callbacks" restates how the model is written; what ties it to real writes is
   C06_whole_writes_are_pipeline_writes below and, for the code, the harness) *)
Theorem C06_write_after_callbacks :
  forall fx p gens G evs o,
    pkg_execute fx p gens G = Ok (evs, o) ->
    exists cb w, evs = cb ++ w
      /\ (forall e, In e cb -> is_callback e = true /\ ev_pkg e = pk_id p /\
                    (forall i, ev_decl e = Some i -> exists d, In d (pk_defs p) /\ td_id d = i))
      /\ (w = [] \/ (o = Done /\ exists ws, w = [EWrites (pk_id p) ws])).
Proof. exact pkg_execute_shape. Qed.
Print Assumptions C06_write_after_callbacks.

(* ---- the code as it was found ---- *)

(* without the scope test the calls depend on the order of TypesInfo.Defs: type T struct{} with func F[T any] *)
Theorem C06_exactly_once_refuted_before_fix :
  exists defs pi1 pi2, Permutation pi1 defs /\ Permutation pi2 defs /\
    do_generate wit_gen wit_globals [] (type_table false pi1) (keys (type_table false pi1))
    <> do_generate wit_gen wit_globals [] (type_table false pi2) (keys (type_table false pi2)).
Proof. exact unfixed_table_order_dependent. Qed.
Print Assumptions C06_exactly_once_refuted_before_fix.

(* … and GenerateType is called for a function-local type *)
Theorem C06_local_type_called_before_fix :
  exists defs cs,
    do_generate wit_gen wit_globals [] (type_table false defs) (keys (type_table false defs)) = Ok (cs, false)
    /\ In (CT, wit_L) cs /\ td_pkgscope wit_L = false.
Proof. exact unfixed_local_type_called. Qed.
Print Assumptions C06_local_type_called_before_fix.

(* `range` over the slice as it was: a callback registered by a callback is never run *)
Theorem C06_nested_defer_dropped_before_fix :
  exists q, forallb no_err_tree q = true /\ In 502%N (ids_all q) /\ ~ In 502%N (fst (run_defers_snapshot q)).
Proof. exact snapshot_defer_loop_drops_nested. Qed.
Print Assumptions C06_nested_defer_dropped_before_fix.

(* ---- non-vacuity ---- *)

(* package p0: `type T struct{}` (one Defer callback that registers another), `type Al = int`,
   `// +gengo:deep=false` on `type Off struct{}`, `func F[T any]() { type L struct{} }`;
   global tag gengo:deep; generators deep (AliasGenerator) and deepcopy *)
Definition ex_defs : list tdef :=
  [ mk_tdef 1 (bs "T") KNamed true [] ANil [DS 501 false [DS 502 false []]];
    mk_tdef 2 (bs "Al") KAlias true [] ANil [];
    mk_tdef 3 (bs "Off") KNamed true [(bs "gengo:deep", [bs "false"])] ANil [];
    mk_tdef 4 (bs "T") KOther false [] ANil [];
    mk_tdef 5 (bs "L") KNamed false [] ANil [] ].
Definition ex_globals : tags := [(bs "gengo:deep", [[]])].

Example C06_example :
  execute fixed_all false [mk_pkg 0 true [] ex_defs]
          [mk_gen 0 (bs "deep") true; mk_gen 1 (bs "deepcopy") false] ex_globals
  = Ok ([EAlias 0 0 2 ex_globals; EType 0 0 1 ex_globals; EDefer 0 0 501; EDefer 0 0 502; EWrites 0 [0%N]], Done).
Proof. vm_compute. reflexivity. Qed.

(* the hypotheses of C06_exactly_once hold of it *)
Example C06_example_hyps :
  NoDup (keys ex_globals) /\ NoDup (map td_name (filter td_pkgscope ex_defs))
  /\ (forall d, In d ex_defs -> NoDup (keys (td_tags d))) /\ (forall d, In d ex_defs -> td_action d <> AErr).
Proof.
  split; [repeat constructor; intros []|]. split.
  - cbn. repeat constructor; cbn; intros H; repeat (destruct H as [H|H]; try discriminate); exact H.
  - split; intros d Hd; cbn in Hd; repeat (destruct Hd as [Hd|Hd]; [subst d; cbn; try discriminate; repeat constructor; intros []|]); contradiction.
Qed.

(* ---- the composed system (Model/Whole.v, Props/Whole.v): C06 holds OF the pipeline model's call log ----
   [Whole.to_world] / [Whole.disp_pkgs] derive the pipeline's world and Dispatch's packages from ONE description
   [wps]; [Whole.disp_gen] is this file's recording generator as a state machine of the pipeline; [Whole.whole_env]
   is the pipeline with the enabling rule of this file's model (is_generator_enabled on merge [G; package; declaration])
   and the byte-level gengo.sum of C08. *)
Require Gengo.Model.Pipeline Gengo.Model.Whole Gengo.Proofs.Pipeline Gengo.Proofs.WholeDispatch Gengo.Props.Whole.

(* Agreement of the two models of doGenerate / the Defer loop / pkgExecute / Execute: execute lists, position by
   position, the GenerateType / GenerateAliasType / callback events of Pipeline.exec_trace, and both end alike
   (no package skipped through gengo.sum, everything rendered parses: outside Dispatch's scope). *)
Theorem C06_whole_dispatch_is_pipeline :
  forall fmt order rank G wps fuel gens a modroot s,
    NoDup (map Whole.wp_path wps) ->
    (forall src, fmt src <> None) ->
    let E := Whole.whole_env fmt order rank G in
    let w := Whole.to_world modroot wps in
    (forall wp, In wp wps ->
       Pipeline.pkg_changed a w (Pipeline.load_prev E a w s) (Whole.to_pkginfo wp) = true) ->
    (forall wp g, In wp wps -> In g gens -> WholeDispatch.fuel_ok G fuel wp g) ->
    exists devs o,
      execute fixed_all (Pipeline.a_all a) (Whole.disp_pkgs wps) gens G = Ok (devs, o)
      /\ Forall2 (WholeDispatch.ev_match G wps gens)
                 (Pipeline.exec_trace E a w (map (Whole.disp_gen wps fuel) gens) s) (filter is_callback devs)
      /\ WholeDispatch.out_match (Pipeline.exec_outcome E a w (map (Whole.disp_gen wps fuel) gens) s) o.
Proof. exact Gengo.Props.Whole.Whole_dispatch_is_pipeline. Qed.
Print Assumptions C06_whole_dispatch_is_pipeline.

(* C06_exactly_once and C06_defers_exactly_once as statements about the log of a successful run of the pipeline *)
Theorem C06_whole_exactly_once_of_pipeline_trace :
  forall fmt order rank G wps fuel gens a modroot s wp g,
    NoDup (map Whole.wp_path wps) -> In wp wps -> In g gens ->
    NoDup (keys G) -> NoDup (keys (WholeDispatch.P_of wp)) ->
    (forall d, In d (pk_defs (Whole.wp_d wp)) -> NoDup (keys (td_tags d))) ->
    NoDup (map td_name (filter td_pkgscope (pk_defs (Whole.wp_d wp)))) ->
    (forall d, In d (pk_defs (Whole.wp_d wp)) -> td_action d <> AErr) ->
    (forall d, In d (pk_defs (Whole.wp_d wp)) -> forallb no_err_tree (td_defers d) = true) ->
    WholeDispatch.fuel_ok G fuel wp g ->
    let E := Whole.whole_env fmt order rank G in
    let w := Whole.to_world modroot wps in
    let gs := map (Whole.disp_gen wps fuel) gens in
    Pipeline.exec_outcome E a w gs s = Pipeline.Done ->
    Gengo.Proofs.Pipeline.processed E a w s (Whole.to_pkginfo wp) = true ->
    exists cs ran pre post,
      NoDup cs
      /\ (forall k d, In (k, d) cs <->
            In d (pk_defs (Whole.wp_d wp)) /\ td_pkgscope d = true
            /\ enabled_eff_spec (g_name g) G (WholeDispatch.P_of wp) (td_tags d) = true
            /\ ((k = CT /\ td_kind d = KNamed) \/ (k = CA /\ td_kind d = KAlias /\ g_alias g = true)))
      /\ Permutation (map root_id ran) (ids_all (registered cs))
      /\ Pipeline.exec_trace E a w gs s
         = pre ++ (map (WholeDispatch.tr_call wp g) cs
                   ++ map (WholeDispatch.tr_defer wp g) (combine (seq 0 (List.length ran)) ran)) ++ post.
Proof. exact Gengo.Props.Whole.Whole_exactly_once_of_pipeline_trace. Qed.
Print Assumptions C06_whole_exactly_once_of_pipeline_trace.

(* C06_write_after_callbacks, tied to the pipeline's file effects: the one write event of a package names exactly the
   generators whose destinations Pipeline.pkg_effects opens *)
Theorem C06_whole_writes_are_pipeline_writes :
  forall fmt order rank G wps fuel gens a wp,
    NoDup (map Whole.wp_path wps) -> (forall src, fmt src <> None) -> (forall p l, Permutation (order p l) l) ->
    In wp wps -> (forall g, In g gens -> WholeDispatch.fuel_ok G fuel wp g) ->
    let E := Whole.whole_env fmt order rank G in
    let gs := map (Whole.disp_gen wps fuel) gens in
    snd (Pipeline.pkg_effects E a gs (Whole.to_pkginfo wp)) = Pipeline.Done ->
    exists devs ws,
      pkg_execute fixed_all (Whole.wp_d wp) gens G
      = Ok (devs ++ (if is_nil ws then [] else [EWrites (pk_id (Whole.wp_d wp)) ws]), Done)
      /\ ws = map g_idx (filter (WholeDispatch.renders_on fmt order rank G wps fuel wp) gens)
      /\ Permutation (WholeDispatch.truncated (fst (fst (Pipeline.pkg_effects E a gs (Whole.to_pkginfo wp)))))
                     (map (fun g => Pipeline.gen_file a (Whole.to_pkginfo wp) (g_name g))
                          (filter (WholeDispatch.renders_on fmt order rank G wps fuel wp) gens)).
Proof. exact Gengo.Props.Whole.Whole_dispatch_writes_are_pipeline_writes. Qed.
Print Assumptions C06_whole_writes_are_pipeline_writes.

(* for ANY generators: what one generator is called for on one processed package is a contiguous segment of the call log
   of a successful run of the pipeline *)
Theorem C06_whole_session_is_a_segment_of_the_trace :
  forall (E : Pipeline.env) a w gens s p g,
    Pipeline.exec_outcome E a w gens s = Pipeline.Done ->
    In p (Pipeline.w_pkgs w) -> Gengo.Proofs.Pipeline.processed E a w s p = true -> In g gens ->
    exists pre post, Pipeline.exec_trace E a w gens s = pre ++ Pipeline.go_trace (Pipeline.gen_run E g p) ++ post.
Proof. exact Gengo.Props.Whole.Whole_session_is_a_segment_of_the_trace. Qed.
Print Assumptions C06_whole_session_is_a_segment_of_the_trace.

(* ---- one system, loader / tags side (Model/Tables.v, Props/Tables.v, notes/Tables.md) ----
   (a) the type table of this file's model is the type table of C13's model (Model/Universe.v), so "package-scope
       declaration" in C06_exactly_once is "entry of Types()" as C13 characterises it;
   (b) the tag maps this file takes as DATA are what C12's model of ExtractCommentTags / Package.Doc
       (Model/Comments.v) produces from the comment lines: the enabling rule stated on SOURCE COMMENT LINES. *)
Require Gengo.Model.Universe Gengo.Proofs.Universe Gengo.Model.Comments Gengo.Spec.Comments
        Gengo.Model.Tables Gengo.Props.Tables.
From Coq Require ZArith.
Module T := Gengo.Model.Tables.
Module Uni := Gengo.Model.Universe.
Module Cmt := Gengo.Model.Comments.
Module CSp := Gengo.Spec.Comments.

(* every Defs list of this model, every Defs list of C13's model (objects of all kinds) describing the same type
   names, any two orders: same set of names, same lookup *)
Theorem C06_table_is_C13_table :
  forall os ds,
    Permutation (T.types_of os) (map T.u_of_disp ds) ->
    (forall n, In n (map fst (Uni.t_types (Uni.fill_tables Uni.all_fixed os))) <-> In n (keys (type_table true ds)))
    /\ (forall n, Gengo.Proofs.Universe.unique_at os Uni.KType n ->
          Uni.lookup Uni.KType n (Uni.fill_tables Uni.all_fixed os) = option_map td_id (lookup n (type_table true ds))).
Proof. exact Gengo.Props.Tables.Tables_universe_is_dispatch. Qed.
Print Assumptions C06_table_is_C13_table.

(* C06_exactly_once speaks about exactly the types C13's Types() theorems characterise: every call is for an entry
   of C13's table (that very object), and every entry of C13's table — package scope, hence neither blank nor
   local nor a type parameter (C13_tables_only_package_scope) — is called exactly as the rule says *)
Theorem C06_exactly_once_on_C13_types :
  forall g G P defs pi ns os,
    NoDup (keys G) -> NoDup (keys P) ->
    (forall d, In d defs -> NoDup (keys (td_tags d))) ->
    NoDup (map td_name (filter td_pkgscope defs)) ->
    Permutation pi defs ->
    Permutation ns (keys (type_table true pi)) ->
    (forall d, In d defs -> td_action d <> AErr) ->
    Permutation (T.types_of os) (map T.u_of_disp defs) ->
    let Tb := Uni.fill_tables Uni.all_fixed os in
    exists cs,
      do_generate g G P (type_table true pi) ns = Ok (cs, false)
      /\ NoDup cs
      /\ (forall k d, In (k, d) cs -> In d defs /\ Uni.lookup Uni.KType (td_name d) Tb = Some (td_id d))
      /\ (forall n x, Uni.lookup Uni.KType n Tb = Some x ->
            exists d, In d defs /\ td_name d = n /\ td_id d = x
                      /\ forall k, In (k, d) cs <->
                           enabled_eff_spec (g_name g) G P (td_tags d) = true
                           /\ ((k = CT /\ td_kind d = KNamed) \/ (k = CA /\ td_kind d = KAlias /\ g_alias g = true))).
Proof. exact Gengo.Props.Tables.Tables_exactly_once_on_universe_types. Qed.
Print Assumptions C06_exactly_once_on_C13_types.

(* the rule on comment lines, for all global tags, package doc line lists and declaration doc line lists:
   [T.source_rule]: `+gengo:g[=v]` on the closest level that has it decides (off iff the values, concatenated, are
   "false"), declaration over package (later file over earlier) over global; otherwise any `+gengo:g:sub` enables *)
Theorem C06_enabled_lines_rule :
  forall g G pkgdocs lines,
    NoDup (keys G) ->
    T.enabled_from_lines g G (pkg_tags (map Gengo.Proofs.TablesB.tags_of_lines pkgdocs)) lines
    = T.source_rule g G pkgdocs lines.
Proof. exact Gengo.Props.Tables.Tables_enabled_lines_rule. Qed.
Print Assumptions C06_enabled_lines_rule.

(* end to end, all layouts satisfying C12's well-formedness: IsGeneratorEnabled(g, Context.Doc(typ)) at the line of
   declaration d = the rule on the lines of the stand-alone comment group that ends on the line above d *)
Theorem C06_enabled_from_source :
  forall g G docs evs leads d,
    NoDup (keys G) -> CSp.wf evs leads -> In d (CSp.decls_of evs) ->
    T.enabled_from_source g G docs evs (Cmt.p_file (Cmt.d_pos d)) (Cmt.p_line (Cmt.d_pos d))
    = T.source_rule g G (map Cmt.split_nl docs)
                    (CSp.doc_lines_above leads (Cmt.p_file (Cmt.d_pos d)) (Cmt.p_line (Cmt.d_pos d))).
Proof. exact Gengo.Props.Tables.Tables_enabled_from_source. Qed.
Print Assumptions C06_enabled_from_source.

(* Context.Doc asks at the NAME's position: same for every name of d when no name is on a continuation line (C12's
   known finding; a TypeSpec starts with its name, so type declarations always satisfy it) ... *)
Theorem C06_enabled_from_source_names :
  forall g G docs evs leads d l,
    NoDup (keys G) -> CSp.wf evs leads -> CSp.name_on_continuation_line evs = false ->
    In d (CSp.decls_of evs) -> In l (Cmt.d_names d) ->
    T.enabled_from_source g G docs evs (Cmt.p_file (Cmt.d_pos d)) l
    = T.source_rule g G (map Cmt.split_nl docs)
                    (CSp.doc_lines_above leads (Cmt.p_file (Cmt.d_pos d)) (Cmt.p_line (Cmt.d_pos d))).
Proof. exact Gengo.Props.Tables.Tables_enabled_from_source_names. Qed.
Print Assumptions C06_enabled_from_source_names.

(* ... and not otherwise *)
Theorem C06_enabled_from_source_names_refuted :
  exists g G docs evs leads d l,
    NoDup (keys G) /\ CSp.wf evs leads /\ In d (CSp.decls_of evs) /\ In l (Cmt.d_names d)
    /\ T.enabled_from_source g G docs evs (Cmt.p_file (Cmt.d_pos d)) l = false
    /\ T.source_rule g G (map Cmt.split_nl docs)
                     (CSp.doc_lines_above leads (Cmt.p_file (Cmt.d_pos d)) (Cmt.p_line (Cmt.d_pos d))) = true.
Proof. exact Gengo.Props.Tables.Tables_enabled_from_source_names_refuted. Qed.
Print Assumptions C06_enabled_from_source_names_refuted.

(* C06_exactly_once with the tags read from the source (what Corr/C06.v evaluates on every module case):
   [T.tdef_from_source dtext] takes a declaration's tags from Text() of the comment group above it,
   [T.pkg_tags_from_source] the package tags from Text() of the package docs; the "tag maps are maps" hypotheses are
   discharged and "enabled" is the rule on comment lines *)
Theorem C06_exactly_once_from_source :
  forall g G ftexts dtext defs pi ns,
    NoDup (keys G) ->
    NoDup (map td_name (filter td_pkgscope defs)) ->
    let sdefs := map (T.tdef_from_source dtext) defs in
    let P := T.pkg_tags_from_source ftexts in
    Permutation pi sdefs ->
    Permutation ns (keys (type_table true pi)) ->
    (forall d, In d defs -> td_action d <> AErr) ->
    exists cs,
      do_generate g G P (type_table true pi) ns = Ok (cs, false)
      /\ NoDup cs
      /\ forall k d', In (k, d') cs <->
           exists d, In d defs /\ d' = T.tdef_from_source dtext d /\ td_pkgscope d = true
             /\ T.source_rule (g_name g) G (map Cmt.split_nl ftexts) (CSp.spec_lines (dtext (td_id d))) = true
             /\ ((k = CT /\ td_kind d = KNamed) \/ (k = CA /\ td_kind d = KAlias /\ g_alias g = true)).
Proof. exact Gengo.Props.Tables.Tables_exactly_once_from_source. Qed.
Print Assumptions C06_exactly_once_from_source.
