(* C19 — Word splitting is total and lossless; case conversion never fails.
   Statements only; every proof is [exact <lemma>]. *)
Require Import Gengo.Base.Bytes Gengo.Model.CamelCase Gengo.Proofs.CamelCase.

(* Every index / slice expression of Split — runes[len(runes)-1] in the first loop,
   runes[i][0], runes[i+1][0], runes[i][len(runes[i])-1] and runes[i][:len(runes[i])-1] in the
   second — is a CHECKED operation of the model: it yields [Panic] when it would be out of range
   in Go (Model/CamelCase.v: pass1, idx0, idx_last, slice_init), and [Panic] propagates to the
   result of [split].  "Split is total" is therefore the statement that this error never comes
   out, for every rune type, EVERY classification of runes into the four classes (so no Unicode
   table is trusted) and every string. *)
Theorem C19_split_total :
  forall (rune : Type) (cls : rune -> class) (s : gostr rune),
    exists ws, split rune cls true s = Ok ws.
Proof. exact split_total. Qed.
Print Assumptions C19_split_total.

(* the same, said as "the out-of-range error (and the fuel error) is never returned" *)
Theorem C19_split_never_out_of_range :
  forall (rune : Type) (cls : rune -> class) (s : gostr rune),
    split rune cls true s <> Panic /\ split rune cls true s <> OutOfFuel.
Proof. exact split_never_panics. Qed.
Print Assumptions C19_split_never_out_of_range.

(* The invariant behind it.  (1) the groups the first loop hands over are all non-empty;
   (2) on non-empty groups every access of the second loop is in range, whatever rune was
   carried over from the previous iteration. *)
Theorem C19_first_loop_groups_nonempty :
  forall (rune : Type) (cls : rune -> class) fixed src gs,
    pass1 rune cls fixed src [] COther = Ok gs -> Forall (fun g => g <> []) (rev gs).
Proof. exact pass1_groups_nonempty. Qed.
Print Assumptions C19_first_loop_groups_nonempty.

Theorem C19_second_loop_in_range :
  forall (rune : Type) (cls : rune -> class) gs carry,
    Forall (fun g => g <> []) gs -> exists out, pass2 rune cls carry gs = Ok out.
Proof. exact pass2_in_range. Qed.
Print Assumptions C19_second_loop_in_range.

(* ... and the checks are real: an empty group in position i, or in position i+1 behind an
   upper-case group, makes the second loop panic as the Go code would — so (2) needs (1). *)
Theorem C19_second_loop_accesses_checked :
  forall (rune : Type) (cls : rune -> class),
    (forall g tl, pass2 rune cls [] ([] :: g :: tl) = Panic) /\
    (forall a g tl, r_upper rune cls a = true -> pass2 rune cls [] ((a :: g) :: [] :: tl) = Panic).
Proof.
  exact (fun rune cls => conj (pass2_empty_group_panics rune cls)
                              (pass2_empty_next_group_panics rune cls)).
Qed.
Print Assumptions C19_second_loop_accesses_checked.

(* The words concatenate to the input and none is empty (the empty string gives no words). *)
Theorem C19_split_lossless :
  forall (rune : Type) (cls : rune -> class) (s : gostr rune) ws,
    split rune cls true s = Ok ws ->
    concat ws = content s /\ (content s <> [] -> Forall (fun w => w <> []) ws).
Proof. intros rune cls. exact (split_lossless rune cls true). Qed.
Print Assumptions C19_split_lossless.

Theorem C19_split_valid_words_nonempty :
  forall (rune : Type) (cls : rune -> class) rs ws,
    split rune cls true (Valid rs) = Ok ws -> Forall (fun w => w <> []) ws.
Proof. intros rune cls. exact (split_valid_nonempty_words rune cls true). Qed.
Print Assumptions C19_split_valid_words_nonempty.

(* not valid UTF-8: the whole string as one word.  This one holds by computation: the first
   branch of the model is the Go code's  if !utf8.ValidString(src) { return []string{src} }
   (utf8.ValidString itself is in the trusted base); it records the clause, it is not a deep fact. *)
Theorem C19_split_invalid :
  forall (rune : Type) (cls : rune -> class) bs, split rune cls true (Invalid bs) = Ok [bs].
Proof. intros rune cls. exact (split_invalid rune cls true). Qed.
Print Assumptions C19_split_invalid.

(* The six converters return for every input, whatever the (total) library case functions do. *)
Theorem C19_converters_total :
  forall (rune : Type) (cls : rune -> class) blen drop1 lower upper title is_id id_word us hy
         (k : nat) (s : gostr rune),
    exists r, conv rune cls blen drop1 lower upper title is_id id_word us hy true k s = Ok r.
Proof. exact conv_total. Qed.
Print Assumptions C19_converters_total.

(* History: the loop as it was before the "fix:" commit was not total ("_id"). *)
Theorem C19_split_total_refuted_before_fix :
  exists s, split crune c_cls false s = Panic.
Proof. exact split_old_refuted. Qed.
Print Assumptions C19_split_total_refuted_before_fix.

(* non-vacuity: a concrete non-trivial input and its words *)
Example C19_example :
  split crune c_cls true
    (Valid [(80,CUpper);(68,CUpper);(70,CUpper);(76,CUpper);(111,CLower);(97,CLower);(100,CLower);(49,CDigit)]%N)
  = Ok [[(80,CUpper);(68,CUpper);(70,CUpper)];[(76,CUpper);(111,CLower);(97,CLower);(100,CLower);(49,CDigit)]]%N.
Proof. vm_compute. reflexivity. Qed.

(* non-vacuity of the second loop's move with a one-rune upper group: "aBc" -> "a","Bc"
   (runes[i] becomes empty and is dropped by the third loop, the carried rune is read as
   runes[i+1][0] by the next iteration) *)
Example C19_example_single_upper :
  split crune c_cls true (Valid [(97,CLower);(66,CUpper);(99,CLower);(68,CUpper);(101,CLower)]%N)
  = Ok [[(97,CLower)];[(66,CUpper);(99,CLower)];[(68,CUpper);(101,CLower)]]%N.
Proof. vm_compute. reflexivity. Qed.
