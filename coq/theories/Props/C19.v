(* C19 — Word splitting is total and lossless; case conversion never fails.
   Statements only; every proof is [exact <lemma>]. *)
Require Import Gengo.Base.Bytes Gengo.Model.CamelCase Gengo.Proofs.CamelCase.

(* For every rune type and EVERY classification of runes into the four classes (so no Unicode
   table is trusted), Split returns — never panics — on every string. *)
Theorem C19_split_total :
  forall (rune : Type) (cls : rune -> class) (s : gostr rune),
    exists ws, split rune cls true s = Ok ws.
Proof. exact split_total. Qed.
Print Assumptions C19_split_total.

(* The words concatenate to the input and none is empty (the empty string gives no words). *)
Theorem C19_split_lossless :
  forall (rune : Type) (cls : rune -> class) (s : gostr rune) ws,
    split rune cls true s = Ok ws ->
    concat ws = content s /\ (content s <> [] -> Forall (fun w => w <> []) ws).
Proof. intros rune cls. exact (split_lossless rune cls true). Qed.
Print Assumptions C19_split_lossless.

Theorem C19_split_valid_words_nonempty :
  forall (rune : Type) (cls : rune -> class) rs ws,
    split rune cls true (Valid rs) = Ok ws -> Forall (fun w => w <> []) ws.
Proof. intros rune cls. exact (split_valid_nonempty_words rune cls true). Qed.
Print Assumptions C19_split_valid_words_nonempty.

(* not valid UTF-8: the whole string as one word *)
Theorem C19_split_invalid :
  forall (rune : Type) (cls : rune -> class) bs, split rune cls true (Invalid bs) = Ok [bs].
Proof. intros rune cls. exact (split_invalid rune cls true). Qed.
Print Assumptions C19_split_invalid.

(* The six converters return for every input, whatever the (total) library case functions do. *)
Theorem C19_converters_total :
  forall (rune : Type) (cls : rune -> class) blen drop1 lower upper title is_id id_word us hy
         (k : nat) (s : gostr rune),
    exists r, conv rune cls blen drop1 lower upper title is_id id_word us hy true k s = Ok r.
Proof. exact conv_total. Qed.
Print Assumptions C19_converters_total.

(* History: the loop as it was before the "fix:" commit was not total ("_id"). *)
Theorem C19_split_total_refuted_before_fix :
  exists s, split crune c_cls false s = Panic.
Proof. exact split_old_refuted. Qed.
Print Assumptions C19_split_total_refuted_before_fix.

(* non-vacuity: a concrete non-trivial input and its words *)
Example C19_example :
  split crune c_cls true
    (Valid [(80,CUpper);(68,CUpper);(70,CUpper);(76,CUpper);(111,CLower);(97,CLower);(100,CLower);(49,CDigit)]%N)
  = Ok [[(80,CUpper);(68,CUpper);(70,CUpper)];[(76,CUpper);(111,CLower);(97,CLower);(100,CLower);(49,CDigit)]]%N.
Proof. vm_compute. reflexivity. Qed.
