(* C11 — specification side: Go types of the property's grammar, the view the libraries
   (reflect / go/types through github.com/octohelm/x/types) present of them, and the reading of a
   type expression back through an import block ([resolve]).  None of this mentions the printer. *)
Require Import Gengo.Base.Bytes Gengo.Model.TypeLit.

(* predeclared non-interface types; BByte / BRune are the alias spellings of uint8 / int32 *)
Inductive bk :=
| BBool | BInt | BInt8 | BInt16 | BInt32 | BInt64
| BUint | BUint8 | BUint16 | BUint32 | BUint64 | BUintptr
| BFloat32 | BFloat64 | BComplex64 | BComplex128 | BString | BByte | BRune.

Definition bk_eqb (a b : bk) : bool :=
  match a, b with
  | BBool, BBool | BInt, BInt | BInt8, BInt8 | BInt16, BInt16 | BInt32, BInt32 | BInt64, BInt64
  | BUint, BUint | BUint8, BUint8 | BUint16, BUint16 | BUint32, BUint32 | BUint64, BUint64
  | BUintptr, BUintptr | BFloat32, BFloat32 | BFloat64, BFloat64 | BComplex64, BComplex64
  | BComplex128, BComplex128 | BString, BString | BByte, BByte | BRune, BRune => true
  | _, _ => false
  end.

Definition bk_canon (k : bk) : bk :=
  match k with BByte => BUint8 | BRune => BInt32 | _ => k end.

(* reflect.Kind.String() of the canonical kind: what the view shows for a basic type *)
Definition bk_view_name (k : bk) : bytes :=
  match bk_canon k with
  | BBool => bs "bool" | BInt => bs "int" | BInt8 => bs "int8" | BInt16 => bs "int16"
  | BInt32 => bs "int32" | BInt64 => bs "int64" | BUint => bs "uint" | BUint8 => bs "uint8"
  | BUint16 => bs "uint16" | BUint32 => bs "uint32" | BUint64 => bs "uint64" | BUintptr => bs "uintptr"
  | BFloat32 => bs "float32" | BFloat64 => bs "float64" | BComplex64 => bs "complex64"
  | BComplex128 => bs "complex128" | BString => bs "string"
  | BByte => bs "uint8" | BRune => bs "int32"
  end.

Inductive gty :=
| GBasic (k : bk)
| GError
| GAny
| GNamed (pkg name : bytes) (args : gtys)     (* defined type [name] of package [pkg], instantiated with [args] *)
| GPtr (e : gty)
| GChan (e : gty)                             (* bidirectional *)
| GSlice (e : gty)
| GArray (n : N) (e : gty)
| GMap (k e : gty)
| GStruct (fs : gfields)
with gtys :=
| GNil
| GCons (g : gty) (r : gtys)
with gfields :=
| GFNil
| GFCons (name : bytes) (anon : bool) (origin : bytes) (t : gty) (tag : bytes) (rest : gfields).
(* [origin]: the package a field name that is not exported belongs to ("" for exported names) *)

Scheme gty_mind := Induction for gty Sort Prop
  with gtys_mind := Induction for gtys Sort Prop
  with gfields_mind := Induction for gfields Sort Prop.
Combined Scheme gty_mutind from gty_mind, gtys_mind, gfields_mind.

Definition exported (name : bytes) : bool :=
  match name with c :: _ => is_upper c | [] => false end.

(* ---- the predeclared type names and what they denote ---- *)
Definition predeclared : list (bytes * gty) :=
  [ (bs "bool", GBasic BBool); (bs "int", GBasic BInt); (bs "int8", GBasic BInt8); (bs "int16", GBasic BInt16);
    (bs "int32", GBasic BInt32); (bs "int64", GBasic BInt64); (bs "uint", GBasic BUint); (bs "uint8", GBasic BUint8);
    (bs "uint16", GBasic BUint16); (bs "uint32", GBasic BUint32); (bs "uint64", GBasic BUint64);
    (bs "uintptr", GBasic BUintptr); (bs "float32", GBasic BFloat32); (bs "float64", GBasic BFloat64);
    (bs "complex64", GBasic BComplex64); (bs "complex128", GBasic BComplex128); (bs "string", GBasic BString);
    (bs "byte", GBasic BUint8); (bs "rune", GBasic BInt32); (bs "error", GError); (bs "any", GAny) ].

Definition is_predeclared (n : bytes) : bool :=
  match alookup n predeclared with Some _ => true | None => false end.

(* ---- canonical form: alias spellings removed ---- *)
Fixpoint canon (g : gty) : gty :=
  match g with
  | GBasic k => GBasic (bk_canon k)
  | GError => GError
  | GAny => GAny
  | GNamed p n a => GNamed p n (canons a)
  | GPtr e => GPtr (canon e)
  | GChan e => GChan (canon e)
  | GSlice e => GSlice (canon e)
  | GArray n e => GArray n (canon e)
  | GMap k e => GMap (canon k) (canon e)
  | GStruct fs => GStruct (canon_fields fs)
  end
with canons (l : gtys) : gtys :=
  match l with GNil => GNil | GCons g r => GCons (canon g) (canons r) end
with canon_fields (fs : gfields) : gfields :=
  match fs with
  | GFNil => GFNil
  | GFCons n a o t tag r => GFCons n a o (canon t) tag (canon_fields r)
  end.

(* ---- what reflect / go/types (through x/types) show of a type ---- *)
(* type arguments as they appear inside Name(): full package paths *)
Fixpoint tref_of (g : gty) : tref :=
  match g with
  | GBasic k => TRef [] (bk_view_name k) TRNil
  | GError => TRef [] (bs "error") TRNil
  | GNamed p n a => TRef p n (trefs_of a)
  | _ => TRef [] (bs "?") TRNil          (* not a named or basic argument: outside the grammar *)
  end
with trefs_of (l : gtys) : trefs :=
  match l with GNil => TRNil | GCons g r => TRCons (tref_of g) (trefs_of r) end.

Definition name_string (name : bytes) (args : gtys) : bytes :=
  tref_string (TRef [] name (trefs_of args)).

Fixpoint view_of (g : gty) : tyview :=
  match g with
  | GBasic k => VOther (bk_view_name k)
  | GError => VIface (bs "error")
  | GAny => VIface []
  | GNamed p n a => VNamed p (name_string n a)
  | GPtr e => VPtr (view_of e)
  | GChan e => VChan (view_of e)
  | GSlice e => VSlice (view_of e)
  | GArray n e => VArray n (view_of e)
  | GMap k e => VMap (view_of k) (view_of e)
  | GStruct fs => VStruct (view_fields fs)
  end
with view_fields (fs : gfields) : vfields :=
  match fs with
  | GFNil => VFNil
  | GFCons n a _ t tag r => VFCons n a (view_of t) tag (view_fields r)
  end.

(* ---- equality ---- *)
Fixpoint gty_eqb (a b : gty) : bool :=
  match a, b with
  | GBasic x, GBasic y => bk_eqb x y
  | GError, GError => true
  | GAny, GAny => true
  | GNamed p n x, GNamed q m y => bytes_eqb p q && bytes_eqb n m && gtys_eqb x y
  | GPtr x, GPtr y => gty_eqb x y
  | GChan x, GChan y => gty_eqb x y
  | GSlice x, GSlice y => gty_eqb x y
  | GArray n x, GArray m y => N.eqb n m && gty_eqb x y
  | GMap k x, GMap l y => gty_eqb k l && gty_eqb x y
  | GStruct x, GStruct y => gfields_eqb x y
  | _, _ => false
  end
with gtys_eqb (a b : gtys) : bool :=
  match a, b with
  | GNil, GNil => true
  | GCons x r, GCons y s => gty_eqb x y && gtys_eqb r s
  | _, _ => false
  end
with gfields_eqb (a b : gfields) : bool :=
  match a, b with
  | GFNil, GFNil => true
  | GFCons n an o t tg r, GFCons m am p u th s =>
      bytes_eqb n m && Bool.eqb an am && bytes_eqb o p && gty_eqb t u && bytes_eqb tg th && gfields_eqb r s
  | _, _ => false
  end.

(* ---- reading a type expression back through the import block of the generated file ---- *)
(* value of a struct tag literal: a raw string cannot contain a backquote and drops carriage returns *)
Definition tag_value (t : atag) : option bytes :=
  match t with
  | NoTag => Some []
  | RawTag s => if existsb (Ascii.eqb backquote) s then None
                else Some (filter (fun c => negb (Ascii.eqb c cr)) s)
  | QuotedTag s => Some s
  end.

(* the field name an embedded field gets: T, *T, q.T, *q.T, T[...] *)
Definition embedded_name (a : tyast) : option bytes :=
  match a with
  | ANamed _ n _ => Some n
  | AStar (ANamed _ n _) => Some n
  | _ => None
  end.

Section Resolve.
  Variable imports : renv.       (* the import block: (path, local name) *)
  Variable self : bytes.         (* the package the expression is type-checked in *)

  Fixpoint resolve (a : tyast) : option gty :=
    match a with
    | ANamed q name args =>
        match q with
        | [] =>
            match rlookup name imports with
            | Some _ => None                          (* the identifier is an import name in this file *)
            | None =>
                match alookup name predeclared with
                | Some g => match args with ANil => Some g | _ => None end
                | None =>
                    if is_ident name then option_map (GNamed self name) (resolve_args args) else None
                end
            end
        | _ =>
            match rlookup q imports with
            | Some p =>
                if exported name && is_ident name && negb (bytes_eqb p self)
                then option_map (GNamed p name) (resolve_args args) else None
            | None => None
            end
        end
    | AStar t => option_map GPtr (resolve t)
    | AChan t => option_map GChan (resolve t)
    | AArray n t => option_map (GArray n) (resolve t)
    | ASlice t => option_map GSlice (resolve t)
    | AMap k v =>
        match resolve k, resolve v with
        | Some k', Some v' => Some (GMap k' v')
        | _, _ => None
        end
    | AStruct fs => option_map GStruct (resolve_fields fs)
    | ARaw _ => None
    end
  with resolve_args (l : tyasts) : option gtys :=
    match l with
    | ANil => Some GNil
    | ACons t r =>
        match resolve t, resolve_args r with
        | Some g, Some gs => Some (GCons g gs)
        | _, _ => None
        end
    end
  with resolve_fields (fs : afields) : option gfields :=
    match fs with
    | AFNil => Some GFNil
    | AFCons name anon t tag rest =>
        match (if anon then embedded_name t else Some name), resolve t, tag_value tag, resolve_fields rest with
        | Some fname, Some g, Some tv, Some r =>
            Some (GFCons fname anon (if exported fname then [] else self) g tv r)
        | _, _, _, _ => None
        end
    end.
End Resolve.

(* ---- packages of the named types of other packages occurring in a type (type arguments included) ---- *)
Fixpoint foreign_pkgs (self : bytes) (g : gty) : list bytes :=
  match g with
  | GBasic _ | GError | GAny => []
  | GNamed p _ a => (if bytes_eqb p self then [] else [p]) ++ foreign_pkgs_l self a
  | GPtr e | GChan e | GSlice e | GArray _ e => foreign_pkgs self e
  | GMap k e => foreign_pkgs self k ++ foreign_pkgs self e
  | GStruct fs => foreign_pkgs_f self fs
  end
with foreign_pkgs_l (self : bytes) (l : gtys) : list bytes :=
  match l with GNil => [] | GCons g r => foreign_pkgs self g ++ foreign_pkgs_l self r end
with foreign_pkgs_f (self : bytes) (fs : gfields) : list bytes :=
  match fs with GFNil => [] | GFCons _ _ _ t _ r => foreign_pkgs self t ++ foreign_pkgs_f self r end.

(* identifiers the rendered text uses without a qualifier: predeclared names and names of [self]'s types *)
Fixpoint unq_names (self : bytes) (g : gty) : list bytes :=
  match g with
  | GBasic k => [bk_view_name k]
  | GError => [bs "error"]
  | GAny => [bs "any"]
  | GNamed p n a => (if bytes_eqb p self then [n] else []) ++ unq_names_l self a
  | GPtr e | GChan e | GSlice e | GArray _ e => unq_names self e
  | GMap k e => unq_names self k ++ unq_names self e
  | GStruct fs => unq_names_f self fs
  end
with unq_names_l (self : bytes) (l : gtys) : list bytes :=
  match l with GNil => [] | GCons g r => unq_names self g ++ unq_names_l self r end
with unq_names_f (self : bytes) (fs : gfields) : list bytes :=
  match fs with GFNil => [] | GFCons _ _ _ t _ r => unq_names self t ++ unq_names_f self r end.

(* ---- the domain of the property (boolean, evaluated on every case) ---- *)
Definition pkg_ok (p : bytes) : bool :=
  negb (is_nil p) && forallb (fun c => negb (Ascii.eqb c lbrack || Ascii.eqb c rbrack || Ascii.eqb c comma)) p.

(* a type argument of the grammar: named or basic (error is a predeclared named type) *)
Definition is_arg (g : gty) : bool :=
  match g with GBasic _ | GError | GNamed _ _ _ => true | _ => false end.

(* the name an embedded field of this type gets *)
Definition emb_name (g : gty) : option bytes :=
  match g with
  | GBasic k => Some (bk_view_name k)
  | GError => Some (bs "error")
  | GAny => Some (bs "any")
  | GNamed _ n _ => Some n
  | GPtr (GNamed _ n _) => Some n
  | _ => None
  end.

Section Domain.
  Variable tag_ok : bytes -> bool.    (* tags the printer can render (before the tag fix: no backquote, no CR) *)
  Variable self : bytes.

  Fixpoint in_domain (g : gty) : bool :=
    match g with
    | GBasic _ | GError | GAny => true
    | GNamed p n a =>
        pkg_ok p && is_ident n && negb (is_predeclared n)
        && (bytes_eqb p self || exported n)
        && in_domain_args a
    | GPtr e | GChan e | GSlice e | GArray _ e => in_domain e
    | GMap k e => in_domain k && in_domain e
    | GStruct fs => in_domain_fields fs
    end
  with in_domain_args (l : gtys) : bool :=
    match l with
    | GNil => true
    | GCons g r => is_arg g && in_domain g && in_domain_args r
    end
  with in_domain_fields (fs : gfields) : bool :=
    match fs with
    | GFNil => true
    | GFCons n anon o t tag r =>
        (if anon then option_eqb bytes_eqb (emb_name t) (Some n) else true)
        && is_ident n
        && bytes_eqb o (if exported n then [] else self)
        && tag_ok tag && in_domain t && in_domain_fields r
    end.
End Domain.

(* every type of the target package that occurs is exported *)
Fixpoint locals_exported (self : bytes) (g : gty) : bool :=
  match g with
  | GBasic _ | GError | GAny => true
  | GNamed p n a => (negb (bytes_eqb p self) || exported n) && locals_exported_l self a
  | GPtr e | GChan e | GSlice e | GArray _ e => locals_exported self e
  | GMap k e => locals_exported self k && locals_exported self e
  | GStruct fs => locals_exported_f self fs
  end
with locals_exported_l (self : bytes) (l : gtys) : bool :=
  match l with GNil => true | GCons g r => locals_exported self g && locals_exported_l self r end
with locals_exported_f (self : bytes) (fs : gfields) : bool :=
  match fs with GFNil => true | GFCons _ _ _ t _ r => locals_exported self t && locals_exported_f self r end.

Definition tag_ok_raw (tag : bytes) : bool :=
  negb (existsb (fun c => Ascii.eqb c backquote || Ascii.eqb c cr) tag).
