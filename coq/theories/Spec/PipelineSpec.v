(* Specification-level readings of the generators' call log (shared by the theorems and by the property
   predicates of Corr/C07.v and Corr/C02.v; nothing here runs the model). *)
Require Import Gengo.Base.Bytes Gengo.Model.Pipeline.

(* "the generator signalled ErrIgnore": read off the call log, independent of how the code treats the signal *)
Definition ev_is_ignore (e : event) : bool :=
  match e with EvCall _ _ _ _ RIgnore => true | _ => false end.

(* What a logged call must mean for the run: ErrSkip and ErrIgnore from GenerateType / GenerateAliasType are
   the only errors swallowed; every other error aborts with an error naming generator and package; a deferred
   callback may only return nil; a process that ends inside a call is dead. *)
Definition ev_verdict (e : event) : option outcome :=
  match e with
  | EvCall g p _ _ r =>
      match r with RErr => Some (Failed (EGen g p)) | RDie => Some Died | RNil | RSkip | RIgnore => None end
  | EvDefer g p _ _ r =>
      match r with RNil => None | RDie => Some Died | RSkip | RIgnore | RErr => Some (Failed (EDefer g p)) end
  end.
