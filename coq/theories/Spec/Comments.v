(* Declarative specification for C12, independent of the model's loops.  Short enough to read
   in a minute: what a tag line is, what its key and value are, which lines a comment group
   has ([lines_of_text], a relation that uses no function of the model; [spec_lines] is its executable
   form), and which group is "the comment group that ends on the line directly above". *)
Require Import Gengo.Base.Bytes.
From Coq Require Import ZArith.
Require Import Gengo.Model.Comments.   (* only for the data types pos / group / decl / event *)

(* ---- tag lines ---- *)

Definition space : ascii := ascii_of_N 32.
Definition equals : ascii := ascii_of_N 61.

Fixpoint drop_spaces (s : bytes) : bytes :=
  match s with
  | c :: r => if Ascii.eqb c space then drop_spaces r else s
  | [] => []
  end.
(* the line with the spaces at both ends removed *)
Definition strip (s : bytes) : bytes := rev (drop_spaces (rev (drop_spaces s))).

(* a (stripped) line is a tag iff it starts with one of the markers *)
Definition is_tag (markers : bytes) (l : bytes) : bool :=
  match l with
  | c :: _ => existsb (Ascii.eqb c) markers
  | [] => false
  end.

Definition sep (c : ascii) : bool := Ascii.eqb c equals || Ascii.eqb c space.

Fixpoint upto_sep (s : bytes) : bytes :=          (* the text up to the first '=' or space *)
  match s with
  | [] => []
  | c :: r => if sep c then [] else c :: upto_sep r
  end.
Fixpoint after_sep (s : bytes) : bytes :=         (* everything after that '=' or space *)
  match s with
  | [] => []
  | c :: r => if sep c then r else after_sep r
  end.

Definition tag_key (l : bytes) : bytes := upto_sep (tl l).        (* tl: without the marker *)
Definition tag_value (l : bytes) : bytes := after_sep (tl l).

Definition markers_or_default (markers : bytes) : bytes :=
  match markers with [] => [ascii_of_N 43; ascii_of_N 64] | _ => markers end.   (* '+' '@' *)

(* the lines that are not tags, stripped, in order *)
Definition spec_others (markers : bytes) (lines : list bytes) : list bytes :=
  filter (fun l => negb (is_tag markers l)) (map strip lines).
(* the values of the tag lines whose key is k, in order *)
Definition spec_values (markers : bytes) (lines : list bytes) (k : bytes) : list bytes :=
  map tag_value (filter (fun l => is_tag markers l && bytes_eqb (tag_key l) k) (map strip lines)).
(* the keys, in order of appearance (with repetitions) *)
Definition spec_keys (markers : bytes) (lines : list bytes) : list bytes :=
  map tag_key (filter (is_tag markers) (map strip lines)).

(* ---- the lines of a comment group (given go/ast's Text()) ---- *)

(* Text() without surrounding white space, cut at newlines; an empty text has no lines;
   lines that start with "go:" are not reported *)
Definition starts_with_go (l : bytes) : bool :=
  match l with
  | a :: c :: d :: _ => Ascii.eqb a (ascii_of_N 103) && Ascii.eqb c (ascii_of_N 111) && Ascii.eqb d (ascii_of_N 58)
  | _ => false
  end.

Fixpoint cut_lines (s cur : bytes) : list bytes :=
  match s with
  | [] => [rev cur]
  | c :: r => if Ascii.eqb c (ascii_of_N 10) then rev cur :: cut_lines r [] else cut_lines r (c :: cur)
  end.

(* [spec_lines] is the EXECUTABLE form (it is evaluated on every observed case by Corr/C12.v).  It cuts lines with
   the loop above and it calls the model's [trim_space], so by itself it is no independent reading of the property.
   Its meaning is fixed by the relation [lines_of_text] below, which mentions no function of the model:
   Props/C12.v proves  lines_of_text text ls <-> spec_lines text = ls  and the same for the model's group_lines. *)
Definition spec_lines (text : bytes) : list bytes :=
  match trim_space text with
  | [] => []
  | t => filter (fun l => negb (starts_with_go l)) (cut_lines t [])
  end.

(* ---- the lines of a comment group, as a RELATION between Text() and a list of lines ---- *)

(* White space: the 25 code points with the Unicode White_Space property, each as its UTF-8 byte sequence
   (U+0009-U+000D, U+0020, U+0085, U+00A0, U+1680, U+2000-U+200A, U+2028, U+2029, U+202F, U+205F, U+3000). *)
Definition ws_codes : list (list N) :=
  [ [9]; [10]; [11]; [12]; [13]; [32]; [194; 133]; [194; 160]; [225; 154; 128];
    [226; 128; 128]; [226; 128; 129]; [226; 128; 130]; [226; 128; 131]; [226; 128; 132]; [226; 128; 133];
    [226; 128; 134]; [226; 128; 135]; [226; 128; 136]; [226; 128; 137]; [226; 128; 138];
    [226; 128; 168]; [226; 128; 169]; [226; 128; 175]; [226; 129; 159]; [227; 128; 128] ]%N.
Definition ws_chars : list bytes := map (map ascii_of_N) ws_codes.

(* a byte string that consists of white-space characters only *)
Definition blank (s : bytes) : Prop := exists ws, Forall (fun w => In w ws_chars) ws /\ s = concat ws.
Definition starts_ws (s : bytes) : Prop := exists w r, In w ws_chars /\ s = w ++ r.
Definition ends_ws (s : bytes) : Prop := exists w r, In w ws_chars /\ s = r ++ w.

Definition nl : ascii := ascii_of_N 10.
(* the lines put together again: one newline BETWEEN consecutive lines *)
Fixpoint join_nl (ls : list bytes) : bytes :=
  match ls with
  | [] => []
  | l :: r => match r with [] => l | _ :: _ => l ++ nl :: join_nl r end
  end.
Definition no_nl (l : bytes) : Prop := ~ In nl l.

(* a line that starts with "go:" (a directive) *)
Definition is_go (l : bytes) : Prop := exists r, l = ascii_of_N 103 :: ascii_of_N 111 :: ascii_of_N 58 :: r.
(* [without_go all ls]: ls is all without its directive lines, order kept *)
Inductive without_go : list bytes -> list bytes -> Prop :=
| wg_nil : without_go [] []
| wg_skip l all ls : is_go l -> without_go all ls -> without_go (l :: all) ls
| wg_keep l all ls : ~ is_go l -> without_go all ls -> without_go (l :: all) (l :: ls).

(* [ls] are the lines of a comment group whose go/ast Text() is [text]:
   text is  <white space> core <white space>  where core neither starts nor ends with a white-space character;
   an empty core has no lines; otherwise core is cut at its newlines (the pieces contain no newline and, joined
   with one newline between neighbours, give core back) and the pieces that start with "go:" are left out. *)
Definition lines_of_text (text : bytes) (ls : list bytes) : Prop :=
  exists pre core suf,
    text = pre ++ core ++ suf /\ blank pre /\ blank suf /\ ~ starts_ws core /\ ~ ends_ws core /\
    ((core = [] /\ ls = []) \/
     (core <> [] /\ exists all, Forall no_nl all /\ join_nl all = core /\ without_go all ls)).

(* ---- attribution ---- *)

(* a file layout: what the walk sees, and the comment groups that stand alone on their lines *)
Definition decls_of (evs : list event) : list decl :=
  flat_map (fun e => match e with EDecl d => [d] | EGroup _ => [] end) evs.

(* the stand-alone comment group of [file] that ends on [line] *)
Definition lead_ending (leads : list group) (file : N) (line : Z) : option group :=
  find (fun g => N.eqb (p_file (g_pos g)) file && Z.eqb (g_end g) line) leads.

(* the lines of the stand-alone comment group that ends on the line above (nothing if none) *)
Definition doc_lines_above (leads : list group) (file : N) (line : Z) : list bytes :=
  match lead_ending leads file (line - 1) with
  | Some g => spec_lines (g_text g)
  | None => []
  end.

Definition same_line (a c : pos) : Prop := p_file a = p_file c /\ p_line a = p_line c.

(* Well-formed layouts: facts about go/parser's attachment of comments and about the order in
   which ast.Inspect reaches nodes.  Every clause is re-checked on every generated file by
   [wf_b] (Corr/C12.v). *)
Record wf (evs : list event) (leads : list group) : Prop := {
  (* a comment group reached by the walk is a stand-alone group (somebody's Doc) or the
     trailing comment of a declaration reached earlier (pre-order) *)
  wf_group : forall pre g post, evs = pre ++ EGroup g :: post ->
      In g leads \/ exists d, In d (decls_of pre) /\ d_cmt d = Some g;
  (* x.Doc is the stand-alone group that ends on the line above x *)
  wf_doc : forall d g, In d (decls_of evs) -> d_doc d = Some g ->
      In g leads /\ p_file (g_pos g) = p_file (d_pos d) /\ g_end g = (p_line (d_pos d) - 1)%Z
      /\ pos_eqb (g_pos g) (d_pos d) = false;
  (* x.Comment is not a stand-alone group, and starts after x *)
  wf_cmt : forall d c, In d (decls_of evs) -> d_cmt d = Some c ->
      ~ In c leads /\ pos_eqb (g_pos c) (d_pos d) = false;
  (* at most one trailing comment among the declarations that start on one line *)
  wf_cmt_line : forall d1 d2 c1 c2, In d1 (decls_of evs) -> In d2 (decls_of evs) ->
      same_line (d_pos d1) (d_pos d2) -> d_cmt d1 = Some c1 -> d_cmt d2 = Some c2 -> c1 = c2;
  (* at most one stand-alone group ends on a given line *)
  wf_lead_unique : forall g1 g2, In g1 leads -> In g2 leads ->
      p_file (g_pos g1) = p_file (g_pos g2) -> g_end g1 = g_end g2 -> g1 = g2;
  (* the stand-alone group directly above a declaration is attached as the Doc of some node
     (the declaration itself, or the GenDecl / FuncDecl / earlier declaration that starts the line) *)
  wf_attached : forall d g, In d (decls_of evs) -> In g leads ->
      p_file (g_pos g) = p_file (d_pos d) -> g_end g = (p_line (d_pos d) - 1)%Z ->
      In (EGroup g) evs \/ exists d', In d' (decls_of evs) /\ d_doc d' = Some g
}.

(* ---- the same clauses as a boolean function, evaluated on every generated file ---- *)

Fixpoint wf_group_b (leads seen : list group) (evs : list event) : bool :=
  match evs with
  | [] => true
  | EGroup g :: r => (gmem g leads || gmem g seen) && wf_group_b leads seen r
  | EDecl d :: r => wf_group_b leads (match d_cmt d with Some c => c :: seen | None => seen end) r
  end.

Definition wf_doc_b (leads : list group) (d : decl) : bool :=
  match d_doc d with
  | None => true
  | Some g => gmem g leads && N.eqb (p_file (g_pos g)) (p_file (d_pos d))
              && Z.eqb (g_end g) (p_line (d_pos d) - 1) && negb (pos_eqb (g_pos g) (d_pos d))
  end.

Definition wf_cmt_b (leads : list group) (d : decl) : bool :=
  match d_cmt d with
  | None => true
  | Some c => negb (gmem c leads) && negb (pos_eqb (g_pos c) (d_pos d))
  end.

Definition same_line_b (a c : pos) : bool := N.eqb (p_file a) (p_file c) && Z.eqb (p_line a) (p_line c).

Definition wf_cmt_line_b (ds : list decl) : bool :=
  forallb (fun d1 => forallb (fun d2 =>
    match d_cmt d1, d_cmt d2 with
    | Some c1, Some c2 => if same_line_b (d_pos d1) (d_pos d2) then group_eqb c1 c2 else true
    | _, _ => true
    end) ds) ds.

Definition wf_lead_unique_b (leads : list group) : bool :=
  forallb (fun g1 => forallb (fun g2 =>
    if N.eqb (p_file (g_pos g1)) (p_file (g_pos g2)) && Z.eqb (g_end g1) (g_end g2)
    then group_eqb g1 g2 else true) leads) leads.

Definition visited_b (evs : list event) (g : group) : bool :=
  existsb (fun e => match e with
                    | EGroup g' => group_eqb g g'
                    | EDecl d => match d_doc d with Some g' => group_eqb g g' | None => false end
                    end) evs.

Definition wf_attached_b (evs : list event) (leads : list group) (ds : list decl) : bool :=
  forallb (fun d => forallb (fun g =>
    if N.eqb (p_file (g_pos g)) (p_file (d_pos d)) && Z.eqb (g_end g) (p_line (d_pos d) - 1)
    then visited_b evs g else true) leads) ds.

Definition wf_b (evs : list event) (leads : list group) : bool :=
  let ds := decls_of evs in
  wf_group_b leads [] evs && forallb (wf_doc_b leads) ds && forallb (wf_cmt_b leads) ds
  && wf_cmt_line_b ds && wf_lead_unique_b leads && wf_attached_b evs leads ds.

(* Known-finding class [name_on_continuation_line]: a declaration with several names of which
   one is not on the declaration's first line (`A,` newline `B int`).  Doc / Comment look the
   position of the NAME up, so such a name gets neither the declaration's doc nor its trailing
   comment.  The attribution theorems speak about the line of the declaration; this classifier is
   the negation of the guard under which they extend to every name. *)
Definition name_on_continuation_line (evs : list event) : bool :=
  existsb (fun d => existsb (fun l => negb (Z.eqb l (p_line (d_pos d)))) (d_names d)) (decls_of evs).
