(* Base definitions shared by every model: Go strings as byte lists, hex
   transport encoding for case files, and the result type with an explicit
   Panic constructor.  Definitions only plus a few tiny lemmas. *)
From Coq Require Export Ascii String NArith Bool Lia List.
Export ListNotations.

Definition byte := ascii.
Definition bytes := list ascii.

Fixpoint of_string (s : string) : bytes :=
  match s with
  | EmptyString => []
  | String c r => c :: of_string r
  end.

Fixpoint to_string (b : bytes) : string :=
  match b with
  | [] => EmptyString
  | c :: r => String c (to_string r)
  end.

(* "s" as a byte list, for readable model sources:  (bs "gengo:")  *)
Definition bs (s : string) : bytes := of_string s.

Definition byte_eqb (a b : ascii) : bool := Ascii.eqb a b.

Fixpoint bytes_eqb (a b : bytes) : bool :=
  match a, b with
  | [], [] => true
  | x :: a', y :: b' => Ascii.eqb x y && bytes_eqb a' b'
  | _, _ => false
  end.

Lemma bytes_eqb_spec : forall a b, bytes_eqb a b = true <-> a = b.
Proof.
  induction a as [|x a IH]; destruct b as [|y b]; cbn; split; intros H;
    try reflexivity; try discriminate.
  - apply andb_true_iff in H. destruct H as [H1 H2].
    apply Ascii.eqb_eq in H1. apply IH in H2. congruence.
  - inversion H; subst. apply andb_true_iff. split.
    + apply Ascii.eqb_refl.
    + apply IH. reflexivity.
Qed.

Lemma bytes_eqb_refl : forall a, bytes_eqb a a = true.
Proof. intros a. apply bytes_eqb_spec. reflexivity. Qed.

(* ---- hex transport (case files carry every string hex-encoded) ---- *)

Definition hexval (c : ascii) : N :=
  let n := N_of_ascii c in
  if N.ltb n 58 then n - 48 else if N.ltb n 71 then n - 55 else n - 87.

Fixpoint hx (s : string) : bytes :=
  match s with
  | String a (String b r) => ascii_of_N (hexval a * 16 + hexval b) :: hx r
  | _ => []
  end.

Definition hexdigit (n : N) : ascii :=
  if N.ltb n 10 then ascii_of_N (48 + n) else ascii_of_N (87 + n).

Fixpoint to_hex (b : bytes) : string :=
  match b with
  | [] => EmptyString
  | c :: r =>
      let n := N_of_ascii c in
      String (hexdigit (N.div n 16)) (String (hexdigit (N.modulo n 16)) (to_hex r))
  end.

(* ---- results of Go operations that may panic ---- *)

Inductive res (A : Type) : Type :=
| Ok (a : A)
| Panic
| OutOfFuel.
Arguments Ok {A} a.
Arguments Panic {A}.
Arguments OutOfFuel {A}.

Definition bind {A B} (r : res A) (f : A -> res B) : res B :=
  match r with
  | Ok a => f a
  | Panic => Panic
  | OutOfFuel => OutOfFuel
  end.

Notation "'let!' x ':=' r 'in' k" := (bind r (fun x => k))
  (at level 200, x pattern, r at level 100, k at level 200, right associativity).

Definition is_ok {A} (r : res A) : bool := match r with Ok _ => true | _ => false end.
Definition is_panic {A} (r : res A) : bool := match r with Panic => true | _ => false end.

(* ---- small list utilities used by several models ---- *)

Definition is_nil {A} (l : list A) : bool := match l with [] => true | _ => false end.

Fixpoint list_eqb {A} (eqb : A -> A -> bool) (a b : list A) : bool :=
  match a, b with
  | [], [] => true
  | x :: a', y :: b' => eqb x y && list_eqb eqb a' b'
  | _, _ => false
  end.

Lemma list_eqb_spec {A} (eqb : A -> A -> bool) :
  (forall x y, eqb x y = true <-> x = y) ->
  forall a b, list_eqb eqb a b = true <-> a = b.
Proof.
  intros Heq. induction a as [|x a IH]; destruct b as [|y b]; cbn; split; intros H;
    try reflexivity; try discriminate.
  - apply andb_true_iff in H. destruct H as [H1 H2].
    apply Heq in H1. apply IH in H2. congruence.
  - inversion H; subst. apply andb_true_iff. split.
    + apply Heq. reflexivity.
    + apply IH. reflexivity.
Qed.

Definition option_eqb {A} (eqb : A -> A -> bool) (a b : option A) : bool :=
  match a, b with
  | None, None => true
  | Some x, Some y => eqb x y
  | _, _ => false
  end.

(* indices (0-based) of the elements of [l] on which [bad] is true *)
Fixpoint bad_indices_from {A} (bad : A -> bool) (i : nat) (l : list A) : list nat :=
  match l with
  | [] => []
  | x :: r => if bad x then i :: bad_indices_from bad (S i) r else bad_indices_from bad (S i) r
  end.
Definition bad_indices {A} (bad : A -> bool) (l : list A) : list nat := bad_indices_from bad 0 l.

(* ASCII character classes used by the scanners *)
Definition nat_of_byte (c : ascii) : N := N_of_ascii c.
Definition is_digit (c : ascii) : bool := let n := N_of_ascii c in (N.leb 48 n) && (N.leb n 57).
Definition is_upper (c : ascii) : bool := let n := N_of_ascii c in (N.leb 65 n) && (N.leb n 90).
Definition is_lower (c : ascii) : bool := let n := N_of_ascii c in (N.leb 97 n) && (N.leb n 122).
Definition is_letter (c : ascii) : bool := is_upper c || is_lower c.
Definition to_lower (c : ascii) : ascii := if is_upper c then ascii_of_N (N_of_ascii c + 32) else c.
Definition to_upper (c : ascii) : ascii := if is_lower c then ascii_of_N (N_of_ascii c - 32) else c.
