(* Correspondence evaluators for C03.
     mismatches : the model of the (repaired) naming system, run on the same history, against what
                  the real tracker / namer / snippet writer produced;
     violations : the property's own sentence as a boolean predicate over the history and the
                  implementation's observed state — it does not mention the model. *)
Require Export Gengo.Base.Bytes Gengo.Model.CamelCase Gengo.Model.GoIdent Gengo.Model.Tracker
               Gengo.Model.TrackerSpec Gengo.Gen.StdList.

Record obs_op := mk_oo {
  oo_text : option bytes;        (* rendered text of the operation; None = it panicked *)
  oo_snap : amap                 (* Imports() right after it, sorted by path *)
}.

(* transport form of an observation: the Imports() map is sent as the difference to the previous one *)
Record obs_delta := mk_od {
  od_text : option bytes;
  od_gone : list bytes;          (* keys of the previous map that are absent or bound differently now *)
  od_added : amap                (* bindings that are new or changed *)
}.

Record imp := mk_imp {
  i_path : bytes;
  i_name : bytes;
  i_pathof : option bytes;       (* PathOf(name) *)
  i_owners : list bytes;         (* the std packages that get this name on a fresh tracker *)
  i_alone : option bytes         (* if the path is a line of std.list: the name it gets on a fresh tracker *)
}.

(* PathOf(name) returned the path itself *)
Definition mk_imp_same (p n : bytes) (owners : list bytes) (alone : option bytes) : imp :=
  mk_imp p n (Some p) owners alone.

Record case := mk_case {
  c_self : bytes;
  c_ops : list op;
  c_struct : bool;               (* every reference prints to a string that ParseTypeRef/ParseRef (C15) parse back *)
  c_cmp : bool;                  (* inside the modelled domain: c_struct and ASCII everywhere *)
  c_pipe : bool;                 (* observed in the file a real gengo run wrote: texts are the type expressions of the
                                    formatted file with white space removed, and only the final table is visible *)
  c_deltas : list obs_delta;
  c_final : list imp;            (* Imports() at the end, sorted by path *)
  c_local : list (bytes * bytes) (* LocalNameOf(p) at the end, for every path the history mentions *)
}.

(* rebuild the observed maps: drop the keys that went away, add the new bindings, keep sorted by path *)
Fixpoint undelta (prev : amap) (ds : list obs_delta) : list obs_op :=
  match ds with
  | [] => []
  | d :: r =>
      let cur := fold_right insert_key
                   (filter (fun e => negb (existsb (bytes_eqb (fst e)) (od_gone d))) prev) (od_added d) in
      mk_oo (od_text d) cur :: undelta cur r
  end.
Definition c_obs (c : case) : list obs_op := undelta [] (c_deltas c).

Definition pair_eqb (a b : bytes * bytes) : bool := bytes_eqb (fst a) (fst b) && bytes_eqb (snd a) (snd b).
Definition amap_eqb : amap -> amap -> bool := list_eqb pair_eqb.

Definition final_table (c : case) : amap := map (fun i => (i_path i, i_name i)) (c_final c).

Definition is_ws (a : ascii) : bool :=
  let n := N_of_ascii a in N.eqb n 32 || N.eqb n 9 || N.eqb n 10 || N.eqb n 13.
Definition strip_ws (b : bytes) : bytes := filter (fun a => negb (is_ws a)) b.
(* how a rendered text is seen through the observation channel of the case *)
Definition seen (c : case) (t : bytes) : bytes := if c_pipe c then strip_ws t else t.

(* ---- model vs implementation ---- *)
Definition model_fixed : bool := true.
Definition model_pre : list bytes := universe_names.     (* fixes/C03-3: bind refuses the universe's names *)

Definition mismatch (c : case) : bool :=
  if c_cmp c then
    match run model_fixed model_pre (Some std_tr) (c_self c) (c_ops c) with
    | Ok (tr, texts, snaps) =>
        negb (list_eqb (option_eqb bytes_eqb) (map (fun t => Some (seen c t)) texts) (map oo_text (c_obs c)))
        || (negb (c_pipe c) && negb (list_eqb amap_eqb (map sort_by_key snaps) (map oo_snap (c_obs c))))
        || negb (amap_eqb (sort_by_key (p2n tr)) (final_table c))
        || negb (forallb (fun i => option_eqb bytes_eqb (lookup (i_name i) (n2p tr)) (i_pathof i)) (c_final c))
        || negb (forallb (fun i => list_eqb bytes_eqb
                                     (match lookup (i_name i) (n2p std_tr) with Some p => [p] | None => [] end)
                                     (i_owners i)) (c_final c))
        || negb (forallb (fun i => option_eqb bytes_eqb (lookup (i_path i) (p2n std_tr)) (i_alone i)) (c_final c))
        || negb (forallb (fun '(p, n) => bytes_eqb (lookup_or_empty p (p2n tr)) n) (c_local c))
    | _ => true                            (* the model never panics on the repaired code *)
    end
  else false.

(* ---- the property, on what the implementation did ---- *)
Fixpoint chain_b (snaps : list amap) : bool :=           (* a name, once given, never changes *)
  match snaps with
  | a :: ((b :: _) as r) => submap_b a b && chain_b r
  | _ => true
  end.

Definition holds (c : case) : bool :=
  let tbl := final_table c in
  (* nothing panicked, every operation was observed (a reference string that does not parse is
     rejected by processName with a panic: not a naming failure) *)
  (if c_struct c then
     forallb (fun o => match oo_text o with Some _ => true | None => false end) (c_obs c)
     && Nat.eqb (length (c_obs c)) (length (c_ops c))
   else true)
  (* distinct local names, one per path; PathOf is the inverse of LocalNameOf *)
  && nodup_b (keys tbl) && nodup_b (vals tbl)
  && forallb (fun i => option_eqb bytes_eqb (i_pathof i) (Some (i_path i))) (c_final c)
  && forallb (fun '(p, n) => bytes_eqb n (lookup_or_empty p tbl)) (c_local c)
  (* each local name is a usable identifier (checked here on ASCII names; the harness checks every
     name with go/token as well) *)
  && forallb (fun i => if c_cmp c then valid_name_b (i_name i) else negb (is_nil (i_name i))) (c_final c)
  (* no_predeclared: ... that does not shadow a predeclared identifier (string, error, len, nil ...) which
     the same file may use: the universe scope of the toolchain, and at least the Go spec's list *)
  && forallb (fun i => not_predeclared_b universe_names (i_name i) && not_predeclared_b spec_predeclared (i_name i)) (c_final c)
  (* stability: the table only grows, bindings never change, and ends as the final table *)
  && chain_b (map oo_snap (c_obs c) ++ [tbl])
  (* a name std reserves is bound to its std package only *)
  && forallb (fun i => is_nil (i_owners i) || mem (i_path i) (i_owners i)) (c_final c)
  (* ... and a std package is imported under its own std name, whatever else is imported *)
  && forallb (fun i => match i_alone i with Some n => bytes_eqb n (i_name i) | None => true end) (c_final c)
  (* the imports are exactly the referenced packages *)
  && (if c_struct c then same_set_b (keys tbl) (history_paths (c_self c) (c_ops c)) else true)
  (* every reference is printed with the name its package is imported under; own package unqualified *)
  && (if c_struct c then
        list_eqb (option_eqb bytes_eqb) (map oo_text (c_obs c))
                 (map (fun o => option_map (seen c) (print_op (c_self c) tbl o)) (c_ops c))
      else true).

Definition mismatches (cs : list case) : list nat := bad_indices mismatch cs.
Definition violations (cs : list case) : list nat := bad_indices (fun c => negb (holds c)) cs.
