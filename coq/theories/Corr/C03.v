(* Correspondence evaluators for C03.
     mismatches : the model of the (repaired) naming system, run on the same history, against what
                  the real tracker / namer / snippet writer produced;
     violations : the property's own sentence as a boolean predicate over the history and the
                  implementation's observed state — it does not mention the model. *)
Require Export Gengo.Base.Bytes Gengo.Model.CamelCase Gengo.Model.GoIdent Gengo.Model.Tracker
               Gengo.Model.TrackerSpec Gengo.Gen.StdList.

Record obs_op := mk_oo {
  oo_text : option bytes;        (* rendered text of the operation; None = it panicked *)
  oo_snap : amap                 (* Imports() right after it, sorted by path *)
}.

Record imp := mk_imp {
  i_path : bytes;
  i_name : bytes;
  i_pathof : option bytes;       (* PathOf(name) *)
  i_owners : list bytes          (* the std packages that get this name on a fresh tracker *)
}.

Record case := mk_case {
  c_self : bytes;
  c_ops : list op;
  c_struct : bool;               (* every reference prints to a string that ParseTypeRef/ParseRef (C15) parse back *)
  c_cmp : bool;                  (* inside the modelled domain: c_struct and ASCII everywhere *)
  c_obs : list obs_op;
  c_final : list imp;            (* Imports() at the end, sorted by path *)
  c_local : list (bytes * bytes) (* LocalNameOf(p) at the end, for every path the history mentions *)
}.

Definition pair_eqb (a b : bytes * bytes) : bool := bytes_eqb (fst a) (fst b) && bytes_eqb (snd a) (snd b).
Definition amap_eqb : amap -> amap -> bool := list_eqb pair_eqb.

Definition final_table (c : case) : amap := map (fun i => (i_path i, i_name i)) (c_final c).

(* ---- model vs implementation ---- *)
Definition model_fixed : bool := true.

Definition mismatch (c : case) : bool :=
  if c_cmp c then
    match run model_fixed (Some std_tr) (c_self c) (c_ops c) with
    | Ok (tr, texts, snaps) =>
        negb (list_eqb (option_eqb bytes_eqb) (map Some texts) (map oo_text (c_obs c)))
        || negb (list_eqb amap_eqb (map sort_by_key snaps) (map oo_snap (c_obs c)))
        || negb (amap_eqb (sort_by_key (p2n tr)) (final_table c))
        || negb (forallb (fun i => option_eqb bytes_eqb (lookup (i_name i) (n2p tr)) (i_pathof i)) (c_final c))
        || negb (forallb (fun i => list_eqb bytes_eqb
                                     (match lookup (i_name i) (n2p std_tr) with Some p => [p] | None => [] end)
                                     (i_owners i)) (c_final c))
        || negb (forallb (fun '(p, n) => bytes_eqb (lookup_or_empty p (p2n tr)) n) (c_local c))
    | _ => true                            (* the model never panics on the repaired code *)
    end
  else false.

(* ---- the property, on what the implementation did ---- *)
Fixpoint chain_b (snaps : list amap) : bool :=           (* a name, once given, never changes *)
  match snaps with
  | a :: ((b :: _) as r) => submap_b a b && chain_b r
  | _ => true
  end.

Definition holds (c : case) : bool :=
  let tbl := final_table c in
  (* nothing panicked, every operation was observed (a reference string that does not parse is
     rejected by processName with a panic: not a naming failure) *)
  (if c_struct c then
     forallb (fun o => match oo_text o with Some _ => true | None => false end) (c_obs c)
     && Nat.eqb (length (c_obs c)) (length (c_ops c))
   else true)
  (* distinct local names, one per path; PathOf is the inverse of LocalNameOf *)
  && nodup_b (keys tbl) && nodup_b (vals tbl)
  && forallb (fun i => option_eqb bytes_eqb (i_pathof i) (Some (i_path i))) (c_final c)
  && forallb (fun '(p, n) => bytes_eqb n (lookup_or_empty p tbl)) (c_local c)
  (* each local name is a usable identifier (checked here on ASCII names; the harness checks every
     name with go/token as well) *)
  && forallb (fun i => if c_cmp c then valid_name_b (i_name i) else negb (is_nil (i_name i))) (c_final c)
  (* stability: the table only grows, bindings never change, and ends as the final table *)
  && chain_b (map oo_snap (c_obs c) ++ [tbl])
  (* a name std reserves is bound to its std package only *)
  && forallb (fun i => is_nil (i_owners i) || mem (i_path i) (i_owners i)) (c_final c)
  (* the imports are exactly the referenced packages *)
  && (if c_struct c then same_set_b (keys tbl) (history_paths (c_self c) (c_ops c)) else true)
  (* every reference is printed with the name its package is imported under; own package unqualified *)
  && (if c_struct c then
        list_eqb (option_eqb bytes_eqb) (map oo_text (c_obs c)) (map (print_op (c_self c) tbl) (c_ops c))
      else true).

Definition mismatches (cs : list case) : list nat := bad_indices mismatch cs.
Definition violations (cs : list case) : list nat := bad_indices (fun c => negb (holds c)) cs.
