(* Shared by Corr/C07.v, Corr/C05.v, Corr/C02.v: the scripted generators the harness registers with gengo
   (as state machines of the model), the instantiation of [env] from per-case tables, and the comparison of
   a model run with an observed run. *)
Require Export Gengo.Base.Bytes Gengo.Model.Pipeline Gengo.Model.Whole.
Require Gengo.Model.SumFile.

Definition mk_ty (n : bytes) (k : tykind) (t : tags) : tyinfo := {| ty_name := n; ty_kind := k; ty_tags := t |}.
Definition mk_pkg (path dir name : bytes) (files : list bytes) (tys : list tyinfo) (hash : bytes) : pkginfo :=
  {| pk_path := path; pk_dir := dir; pk_name := name; pk_files := files; pk_tags := []; pk_types := tys; pk_hash := hash |}.
(* directories are relative to the module root, so the root is "" *)
Definition mk_world (pkgs : list pkginfo) (direct : list bytes) : world :=
  {| w_modroot := []; w_pkgs := pkgs; w_direct := direct |}.
(* a run whose entrypoints name packages of ANOTHER member of a go.work workspace: directories stay relative to the
   directory the run was started in, the module of the run has its root in [root] (e.g. "lib", "../tools") *)
Definition mk_world_at (root : bytes) (pkgs : list pkginfo) (direct : list bytes) : world :=
  {| w_modroot := root; w_pkgs := pkgs; w_direct := direct |}.

(* ---------- scripted generators (harness/internal/pipe: state.call) ---------- *)

(* a scripted callback: what it renders, what it returns, the callbacks it registers itself when it runs *)
Inductive sdefer := SD (body : bytes) (res : gresult) (nested : list sdefer).
Record sstep := mk_step {
  ss_body : bytes; ss_res : gresult; ss_count : bool; ss_helper : bool; ss_defers : list sdefer }.
Record sgen := mk_sgen { sg_name : bytes; sg_alias : bool; sg_steps : list ((bytes * bytes) * sstep) }.

(* st_defers: every callback registered so far (c.defers); the model knows a callback by its index *)
Record sstate := { st_count : nat; st_helper : bool; st_defers : list sdefer }.

Definition empty_step : sstep := mk_step [] RNil false false [].

Fixpoint find_step (pkg ty : bytes) (l : list ((bytes * bytes) * sstep)) : sstep :=
  match l with
  | [] => empty_step
  | ((p, t), s) :: r => if bytes_eqb p pkg && bytes_eqb t ty then s else find_step pkg ty r
  end.

Definition nl : bytes := [ascii_of_N 10].

Definition script_gen (g : sgen) : generator := {|
  g_name := sg_name g;
  g_alias := sg_alias g;
  g_state := sstate;
  g_new := fun _ => {| st_count := 0; st_helper := false; st_defers := [] |};
  g_type := fun st p t =>
    let step := find_step (pk_path p) (ty_name t) (sg_steps g) in
    let n := S (st_count st) in
    let body :=
      ss_body step
      ++ (if ss_count step
          then bs "var N_" ++ sg_name g ++ bs "_" ++ ty_name t ++ bs "_" ++ repeat "x"%char n ++ bs " int" ++ nl
          else [])
      ++ (if ss_helper step && negb (st_helper st)
          then bs "func helper_" ++ sg_name g ++ bs "() {}" ++ nl
          else []) in
    ({| st_count := n; st_helper := st_helper st || ss_helper step; st_defers := st_defers st ++ ss_defers step |},
     {| so_body := body; so_res := ss_res step;
        so_defers := seq (List.length (st_defers st)) (List.length (ss_defers step)) |});
  g_defer := fun st _ i =>
    match nth_error (st_defers st) i with
    | Some (SD b r nested) =>
        ({| st_count := st_count st; st_helper := st_helper st; st_defers := st_defers st ++ nested |},
         {| so_body := b; so_res := r; so_defers := seq (List.length (st_defers st)) (List.length nested) |})
    | None => (st, {| so_body := []; so_res := RNil; so_defers := [] |})
    end;
  g_fuel := 1000   (* the scripted callback forests are finite and small *)
|}.

(* ---------- env from tables ---------- *)

Fixpoint tbl_fmt (tbl : list (bytes * option bytes)) (src : bytes) : option bytes :=
  match tbl with
  | [] => None
  | (k, v) :: r => if bytes_eqb k src then v else tbl_fmt r src
  end.

(* The harness dumps, for every type, the gengo:* tags of its declaration as gengo's own Package.Doc reports them
   (key, values); the modules have neither package-level nor global tags.  The decision "enabled" is taken by the
   composed model: Dispatch's IsGeneratorEnabled on merge(Globals = [], package tags = [], declaration tags). *)

Definition is_some {A} (o : option A) : bool := match o with Some _ => true | None => false end.

(* two extreme iteration orders of the sync.Map of retained genfiles: unparseable ones last / first *)
Definition order_bad (bad_last : bool) (tbl : list (bytes * option bytes)) (p : pkginfo) (gfs : list (bytes * bytes))
  : list (bytes * bytes) :=
  let good gf := is_nil (snd gf) || is_some (tbl_fmt tbl (assemble (pk_name p) (fst gf) (snd gf))) in
  let '(ok, bad) := partition good gfs in
  if bad_last then ok ++ bad else bad ++ ok.

(* THE COMPOSED MODEL (Model/Whole.v): the byte-level gengo.sum of Model/SumFile.v, the enabling rule of
   Model/Dispatch.v; the formatter is the per-case table of what the reference formatter answered *)
Definition case_env (fixed bad_last : bool) (tbl : list (bytes * option bytes)) : env :=
  whole_env_fx fixed (tbl_fmt tbl) (order_bad bad_last tbl) rank0 [].

(* The code under check is the repaired one (fix #26 applied): models run with fixed = true. *)
Definition code_fixed : bool := true.

(* ---------- observations ---------- *)

Inductive obs_outcome :=
| ODone | OGen (gen pkg : bytes) | ODefer (gen pkg : bytes) | OParse (file : path) | ODied | OOther.

Definition outcome_eqb (m : outcome) (o : obs_outcome) : bool :=
  match m, o with
  | Done, ODone => true
  | Failed (EGen g p), OGen g' p' => bytes_eqb g g' && bytes_eqb p p'
  | Failed (EDefer g p), ODefer g' p' => bytes_eqb g g' && bytes_eqb p p'
  | Failed (EParse f), OParse f' => path_eqb f f'
  | Died, ODied => true
  | _, _ => false
  end.

Definition gresult_eqb (a b : gresult) : bool :=
  match a, b with
  | RNil, RNil | RSkip, RSkip | RIgnore, RIgnore | RErr, RErr | RDie, RDie => true
  | _, _ => false
  end.

(* deferred callbacks are compared without their ids (ids are the model's own numbering) *)
Definition event_eqb (a b : event) : bool :=
  match a, b with
  | EvCall g p t body r, EvCall g' p' t' body' r' =>
      bytes_eqb g g' && bytes_eqb p p' && bytes_eqb t t' && bytes_eqb body body' && gresult_eqb r r'
  | EvDefer g p _ body r, EvDefer g' p' _ body' r' =>
      bytes_eqb g g' && bytes_eqb p p' && bytes_eqb body body' && gresult_eqb r r'
  | _, _ => false
  end.

Definition content_eqb := option_eqb bytes_eqb.

Definition all_paths (l : list fs) : list path := concat (map (map fst) l).

(* one run of the model, compared with one observed run: outcome, call log, and every file.
   Files written by siblings of an unparseable generator may or may not have been written (sync.Map order):
   there the observation must equal one of the two extreme orders. *)
Definition run_mismatch_with (fixed : bool) (a : args) (w : world) (gens : list sgen) (tbl : list (bytes * option bytes))
  (before after : fs) (tr : trace) (out : obs_outcome) : bool :=
  let gs := map script_gen gens in
  let '(s_max, m_tr, m_out) := exec (case_env fixed true tbl) a w gs before in
  let s_min := exec_fs (case_env fixed false tbl) a w gs before in
  negb (outcome_eqb m_out out)
  || negb (list_eqb event_eqb m_tr tr)
  || negb (forallb (fun q => content_eqb (fs_lookup q after) (fs_lookup q s_max)
                             || content_eqb (fs_lookup q after) (fs_lookup q s_min))
                   (all_paths [before; after; s_max; s_min])).

(* C07 owns the ErrIgnore rule: its comparison is against the repaired code only. *)
Definition run_mismatch := run_mismatch_with code_fixed.

(* C05 and C02 do not depend on how an alias generator's ErrIgnore is treated (defect #26, decided by C07): their
   comparison accepts the model of the repaired code or, failing that, of the code before that repair, so that
   they raise no alarm of their own on a tree without that fix.  (The second model is only evaluated when the first
   disagrees.) *)
Definition run_mismatch_either (a : args) (w : world) (gens : list sgen) (tbl : list (bytes * option bytes))
  (before after : fs) (tr : trace) (out : obs_outcome) : bool :=
  if run_mismatch_with true a w gens tbl before after tr out
  then run_mismatch_with false a w gens tbl before after tr out
  else false.

(* ---------- specification-level helpers (used by the [holds] predicates; they do not run the model) ---------- *)

Definition ev_gen (e : event) : bytes := match e with EvCall g _ _ _ _ | EvDefer g _ _ _ _ => g end.
Definition ev_pkg (e : event) : bytes := match e with EvCall _ p _ _ _ | EvDefer _ p _ _ _ => p end.
Definition ev_body (e : event) : bytes := match e with EvCall _ _ _ b _ | EvDefer _ _ _ b _ => b end.
Definition ev_res (e : event) : gresult := match e with EvCall _ _ _ _ r | EvDefer _ _ _ _ r => r end.
Definition ev_is_call (e : event) : bool := match e with EvCall _ _ _ _ _ => true | _ => false end.

Definition ev_of (g pkg : bytes) (e : event) : bool := bytes_eqb (ev_gen e) g && bytes_eqb (ev_pkg e) pkg.

(* what the recording generators reported *)
Definition rendered_obs (tr : trace) (g pkg : bytes) : bool :=
  existsb (fun e => ev_of g pkg e && negb (is_nil (ev_body e))) tr.
Definition ignored_obs (tr : trace) (g pkg : bytes) : bool :=
  existsb (fun e => ev_of g pkg e && ev_is_call e && gresult_eqb (ev_res e) RIgnore) tr.

Definition has_direct (w : world) : bool := existsb (is_direct w) (w_pkgs w).

(* "the packages it processes": selected, and not skipped through gengo.sum *)
Definition spec_cached (a : args) (w : world) (before : fs) (p : pkginfo) : bool :=
  a_all a && negb (a_force a) && has_direct w &&
  match fs_lookup (sum_path w) before with
  | Some b => negb (is_nil (pk_hash p))
              && bytes_eqb (SumFile.sum_sum (SumFile.sumfile_load b) (pk_path p)) (pk_hash p)
  | None => false
  end.
Definition spec_processed (a : args) (w : world) (before : fs) (p : pkginfo) : bool :=
  selected a w p && negb (spec_cached a w before p).

Definition exists_in (s : fs) (q : path) : bool := is_some (fs_lookup q s).
