(* Correspondence evaluators for C14: the model of ResultsOf (repaired code) against what the real ResultsOf
   returned in the supervised child, and the property's own sentence evaluated on the observation. *)
Require Export Gengo.Base.Bytes Gengo.Model.ResultsOf.

(* one observed alternative: Result.String(), Value != nil, types.AssignableTo(Type, declared type) *)
Record oalt := mk_oalt { o_txt : bytes; o_const : bool; o_asg : bool }.

Inductive obs :=
| OLists (n : nat) (ls : list (list oalt)) (same : bool)   (* n, the lists, "the second call rendered the same" *)
| OPanic                                                   (* a (recovered) run-time panic *)
| ODiverge                                                 (* stack exhausted / no return: the child died *)
| OMissing.                                                (* harness problem: no outcome *)

Record callcase := mk_cc { cc_entry : entry; cc_sig : list rdecl; cc_obs : obs }.

Record case := mk_case {
  c_wt : bool;            (* the generator claims the theorems' typing hypotheses for this program *)
  c_otys : otys;
  c_prog : prog;
  c_calls : list callcase
}.

(* fuel: C14_terminates says  length (nodes p) < fuel  is enough for the repaired code *)
Definition fuel_for (p : prog) : nat := S (length (nodes p)).

Definition model_obs (p : prog) (cc : callcase) : obs :=
  match results_of all_fixed p (fuel_for p) (cc_entry cc) (cc_sig cc) with
  | Ok (ls, n) => OLists n (map (map (fun a => mk_oalt (a_txt a) (a_const a) true)) ls) true
  | Panic => OPanic
  | OutOfFuel => ODiverge
  end.

Definition oalt_eqb (a b : oalt) : bool := bytes_eqb (o_txt a) (o_txt b) && Bool.eqb (o_const a) (o_const b).

Definition obs_eqb (a b : obs) : bool :=
  match a, b with
  | OLists n ls _, OLists n' ls' _ => Nat.eqb n n' && list_eqb (list_eqb oalt_eqb) ls ls'
  | OPanic, OPanic | ODiverge, ODiverge => true
  | _, _ => false
  end.

Definition mismatch (c : case) : bool :=
  existsb (fun cc => negb (obs_eqb (model_obs (c_prog c) cc) (cc_obs cc))) (c_calls c)
  || (c_wt c && negb (wt_b (c_otys c) (c_prog c)))
  || negb (forallb (fun cc => entry_ok (c_prog c) (cc_entry cc) (cc_sig cc)) (c_calls c)).

(* ---- the property, as a predicate on (input, observed); the resolver model is not mentioned ---- *)

(* a function whose return statements list only "plain" expressions: anything whose Result.Expr is not re-inspected
   (literals and operators on them are of this kind), or an identifier that no assignment of the body mentions and
   that the parser does not resolve (nil, true, false) *)
Definition lhs_objs (evs : list event) : list N :=
  flat_map (fun ev => match ev with
                      | EvAssign a => flat_map (fun l => match l with LIdent (Some o) | LSel (Some o) => [o] | _ => [] end) (as_lhs a)
                      | _ => []
                      end) evs.

Definition plain_alt (assigned : list N) (a : alt) : bool :=
  match a_x a with
  | XOther => true
  | XIdent false o => negb (existsb (N.eqb o) assigned)
  | _ => false
  end.

Definition plain_expr (assigned : list N) (e : expr) : option alt :=
  match e with
  | EVal a => if plain_alt assigned a then Some a else None
  | _ => None
  end.

Fixpoint opt_all' {A} (l : list (option A)) : option (list A) :=
  match l with
  | [] => Some []
  | Some a :: r => match opt_all' r with Some r' => Some (a :: r') | None => None end
  | None :: _ => None
  end.

(* Some rows: the function is of that kind; rows = the values of its return statements, in source order *)
Definition plain_returns (fd : fdef) : option (list (list alt)) :=
  match f_body fd with
  | None => None
  | Some body =>
      let evs := flatten_all body in
      let assigned := lhs_objs evs in
      let rows := flat_map (fun ev => match ev with
                                      | EvReturn _ (Some es) =>
                                          if Nat.eqb (length es) (nres fd) then [opt_all' (map (plain_expr assigned) es)] else [None]
                                      | EvReturn _ None => [None]
                                      | EvAssign _ => []
                                      end) evs in
      match opt_all' rows with
      | Some (r :: rs) => Some (r :: rs)
      | _ => None
      end
  end.

Definition column (rows : list (list alt)) (i : nat) : list bytes :=
  flat_map (fun row => match nth_error row i with Some a => [a_txt a] | None => [] end) rows.

Definition literal_ok (p : prog) (cc : callcase) (ls : list (list oalt)) : bool :=
  match cc_entry cc with
  | EnBody f =>
      match nth_error p f with
      | Some fd =>
          match plain_returns fd with
          | Some rows =>
              list_eqb (list_eqb bytes_eqb) (map (map o_txt) ls) (map (column rows) (seq 0 (nres fd)))
          | None => true
          end
      | None => true
      end
  | _ => true
  end.

Definition call_holds (p : prog) (cc : callcase) : bool :=
  match cc_obs cc with
  | OLists n ls same =>
      Nat.eqb n (length (cc_sig cc))
      && Nat.eqb (length ls) n
      && forallb (fun l => negb (is_nil l)) ls
      && forallb (forallb (fun a => o_const a || o_asg a)) ls
      && same
      && literal_ok p cc ls
  | _ => false
  end.

Definition holds (c : case) : bool := forallb (call_holds (c_prog c)) (c_calls c).

Definition mismatches (cs : list case) : list nat := bad_indices mismatch cs.
Definition violations (cs : list case) : list nat := bad_indices (fun c => negb (holds c)) cs.
