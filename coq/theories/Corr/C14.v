(* Correspondence evaluators for C14: the model of ResultsOf (repaired code) against what the real ResultsOf
   returned in the supervised child, and the property's own sentence evaluated on the observation. *)
Require Export Gengo.Base.Bytes Gengo.Model.ResultsOf.

(* one observed alternative: Result.String(), Value != nil, types.AssignableTo(Type, declared type) *)
Record oalt := mk_oalt { o_txt : bytes; o_const : bool; o_asg : bool }.

Inductive obs :=
| OLists (n : nat) (ls : list (list oalt)) (same : bool)   (* n, the lists, "the second call rendered the same" *)
| OPanic                                                   (* a (recovered) run-time panic *)
| ODiverge                                                 (* stack exhausted / no return: the child died *)
| OMissing.                                                (* harness problem: no outcome *)

Record callcase := mk_cc { cc_entry : entry; cc_sig : list rdecl; cc_obs : obs }.

Record case := mk_case {
  c_wt : bool;            (* the generator claims the theorems' typing hypotheses for this program *)
  c_otys : otys;
  c_prog : prog;
  c_calls : list callcase
}.

(* fuel: C14_terminates says  length (nodes p) < fuel  is enough for the repaired code *)
Definition fuel_for (p : prog) : nat := S (length (nodes p)).

Definition model_obs (p : prog) (cc : callcase) : obs :=
  match results_of all_fixed p (fuel_for p) (cc_entry cc) (cc_sig cc) with
  | Ok (ls, n) => OLists n (map (map (fun a => mk_oalt (a_txt a) (a_const a) true)) ls) true
  | Panic => OPanic
  | OutOfFuel => ODiverge
  end.

Definition oalt_eqb (a b : oalt) : bool := bytes_eqb (o_txt a) (o_txt b) && Bool.eqb (o_const a) (o_const b).

Definition obs_eqb (a b : obs) : bool :=
  match a, b with
  | OLists n ls _, OLists n' ls' _ => Nat.eqb n n' && list_eqb (list_eqb oalt_eqb) ls ls'
  | OPanic, OPanic | ODiverge, ODiverge => true
  | _, _ => false
  end.

Definition mismatch (c : case) : bool :=
  existsb (fun cc => negb (obs_eqb (model_obs (c_prog c) cc) (cc_obs cc))) (c_calls c)
  || (c_wt c && negb (wt_b (c_otys c) (c_prog c)))
  || negb (forallb (fun cc => entry_ok (c_prog c) (cc_entry cc) (cc_sig cc)) (c_calls c)).

(* ---- the property, as a predicate on (input, observed); the resolver model is not mentioned ---- *)

Definition literal_ok (p : prog) (cc : callcase) (ls : list (list oalt)) : bool :=
  match cc_entry cc with
  | EnBody f =>
      match nth_error p f with
      | Some fd =>
          match plain_returns fd with
          | Some rows =>
              list_eqb (list_eqb bytes_eqb) (map (map o_txt) ls) (map (fun i => map a_txt (column rows i)) (seq 0 (nres fd)))
          | None => true
          end
      | None => true
      end
  | _ => true
  end.

Definition call_holds (wt : bool) (p : prog) (cc : callcase) : bool :=
  match cc_obs cc with
  | OLists n ls same =>
      Nat.eqb n (length (cc_sig cc))
      && Nat.eqb (length ls) n
      && forallb (fun l => negb (is_nil l)) ls
      && (negb wt || forallb (forallb (fun a => o_const a || o_asg a)) ls)   (* ill-typed programs: not asked *)
      && same
      && literal_ok p cc ls
  | _ => false
  end.

Definition holds (c : case) : bool := forallb (call_holds (c_wt c) (c_prog c)) (c_calls c).

Definition mismatches (cs : list case) : list nat := bad_indices mismatch cs.
Definition violations (cs : list case) : list nat := bad_indices (fun c => negb (holds c)) cs.
