(* Correspondence evaluators for C11: model vs observation, and the property's own sentence
   evaluated on what the implementation rendered. *)
Require Export Gengo.Base.Bytes Gengo.Model.TypeLit Gengo.Spec.TypeLit.

Record case := mk_case {
  c_self : bytes;                          (* package the text is rendered into (rawNamer.pkgPath) *)
  c_init : renv;                           (* Imports() of the tracker before rendering *)
  c_arg : idarg;                           (* the argument of snippet.ID / %T as x/types presents it *)
  c_g : option gty;                        (* the Go type itself, when the grammar's syntax can express it *)
  c_dom : bool;                            (* harness' copy of the domain predicate *)
  c_cls : bool;                            (* harness' copy of the classifier nested_generic_arg_list *)
  c_ptab : list (bytes * option tref);     (* the real ParseTypeRef on every name of the case *)
  c_cbq : list (bytes * (bool * bytes));   (* the real strconv.CanBackquote and strconv.Quote on every tag of the case *)
  c_text : option bytes;                   (* rendered text; None = panic *)
  c_ast : option tyast;                    (* go/parser's reading of that text; None = does not parse *)
  c_imports : renv                         (* Imports() afterwards, sorted by path *)
}.

(* ---- structural equalities ---- *)
Fixpoint tref_eqb (a b : tref) : bool :=
  match a, b with
  | TRef p n x, TRef q m y => bytes_eqb p q && bytes_eqb n m && trefs_eqb x y
  end
with trefs_eqb (a b : trefs) : bool :=
  match a, b with
  | TRNil, TRNil => true
  | TRCons x r, TRCons y s => tref_eqb x y && trefs_eqb r s
  | _, _ => false
  end.

Definition atag_eqb (a b : atag) : bool :=
  match a, b with
  | NoTag, NoTag => true
  | RawTag x, RawTag y => bytes_eqb x y
  | QuotedTag x, QuotedTag y => bytes_eqb x y
  | _, _ => false
  end.

Fixpoint tyast_eqb (a b : tyast) : bool :=
  match a, b with
  | ANamed q n x, ANamed r m y => bytes_eqb q r && bytes_eqb n m && tyasts_eqb x y
  | AStar x, AStar y => tyast_eqb x y
  | AChan x, AChan y => tyast_eqb x y
  | AArray n x, AArray m y => N.eqb n m && tyast_eqb x y
  | ASlice x, ASlice y => tyast_eqb x y
  | AMap k x, AMap l y => tyast_eqb k l && tyast_eqb x y
  | AStruct x, AStruct y => afields_eqb x y
  | ARaw x, ARaw y => bytes_eqb x y
  | _, _ => false
  end
with tyasts_eqb (a b : tyasts) : bool :=
  match a, b with
  | ANil, ANil => true
  | ACons x r, ACons y s => tyast_eqb x y && tyasts_eqb r s
  | _, _ => false
  end
with afields_eqb (a b : afields) : bool :=
  match a, b with
  | AFNil, AFNil => true
  | AFCons n an t tg r, AFCons m am u th s =>
      bytes_eqb n m && Bool.eqb an am && tyast_eqb t u && atag_eqb tg th && afields_eqb r s
  | _, _ => false
  end.

Fixpoint tyview_eqb (a b : tyview) : bool :=
  match a, b with
  | VNamed p n, VNamed q m => bytes_eqb p q && bytes_eqb n m
  | VPtr x, VPtr y => tyview_eqb x y
  | VChan x, VChan y => tyview_eqb x y
  | VStruct x, VStruct y => vfields_eqb x y
  | VArray n x, VArray m y => N.eqb n m && tyview_eqb x y
  | VSlice x, VSlice y => tyview_eqb x y
  | VMap k x, VMap l y => tyview_eqb k l && tyview_eqb x y
  | VIface x, VIface y => bytes_eqb x y
  | VOther x, VOther y => bytes_eqb x y
  | _, _ => false
  end
with vfields_eqb (a b : vfields) : bool :=
  match a, b with
  | VFNil, VFNil => true
  | VFCons n an t tg r, VFCons m am u th s =>
      bytes_eqb n m && Bool.eqb an am && tyview_eqb t u && bytes_eqb tg th && vfields_eqb r s
  | _, _ => false
  end.

(* canonicalisation before comparing trees: a "name" that is not an identifier (e.g. the type argument
   interface {} inside a generic type's name) is unanalysed text for go/parser's reader as well *)
Fixpoint norm (a : tyast) : tyast :=
  match a with
  | ANamed q n args =>
      match q, args with
      | [], ANil => if is_ident n then a else ARaw n
      | _, _ => ANamed q n (norm_l args)
      end
  | AStar t => AStar (norm t)
  | AChan t => AChan (norm t)
  | AArray n t => AArray n (norm t)
  | ASlice t => ASlice (norm t)
  | AMap k v => AMap (norm k) (norm v)
  | AStruct fs => AStruct (norm_f fs)
  | ARaw s => ARaw s
  end
with norm_l (l : tyasts) : tyasts :=
  match l with ANil => ANil | ACons t r => ACons (norm t) (norm_l r) end
with norm_f (fs : afields) : afields :=
  match fs with AFNil => AFNil | AFCons n an t tg r => AFCons n an (norm t) tg (norm_f r) end.

(* ---- association lists as finite maps ---- *)
Definition pair_eqb (a b : bytes * bytes) : bool := bytes_eqb (fst a) (fst b) && bytes_eqb (snd a) (snd b).
Definition mem_pair (x : bytes * bytes) (l : renv) : bool := existsb (pair_eqb x) l.
Definition env_equiv (a b : renv) : bool :=
  forallb (fun x => mem_pair x b) a && forallb (fun x => mem_pair x a) b && Nat.eqb (length a) (length b).

Fixpoint nodup_b (l : list bytes) : bool :=
  match l with
  | [] => true
  | x :: r => negb (mem_bytes x r) && nodup_b r
  end.

(* ---- the abstract components, instantiated from the observation of the real ones ---- *)
Definition pick_of (c : case) : bytes -> renv -> option bytes := fun p _ => alookup p (c_imports c).
Definition parse_of (c : case) : bytes -> option tref :=
  fun s => match alookup s (c_ptab c) with Some r => r | None => None end.
Definition cbq_of (c : case) : bytes -> bool :=
  fun s => match alookup s (c_cbq c) with Some b => fst b | None => true end.
Definition quote_of (c : case) : bytes -> bytes :=
  fun s => match alookup s (c_cbq c) with Some b => snd b | None => s end.

(* the model of the code as it is after the two C11 fixes *)
Definition model (c : case) : res (tyast * renv) :=
  ident_frag (pick_of c) (parse_of c) (c_self c) (cbq_of c) true true (c_arg c) (c_init c).

(* ---- hypotheses about the external components, tested on the case ---- *)
(* ParseTypeRef reads the name of every generic instantiation of an in-domain type back (C15's round trip) *)
Fixpoint parse_ok (c : case) (g : gty) : bool :=
  match g with
  | GBasic _ | GError | GAny => true
  | GNamed _ n a =>
      match a with
      | GNil => true
      | _ => match alookup (name_string n a) (c_ptab c) with
             | Some (Some t) => tref_eqb t (TRef [] n (trefs_of a))
             | _ => false
             end
      end
  | GPtr e | GChan e | GSlice e | GArray _ e => parse_ok c e
  | GMap k e => parse_ok c k && parse_ok c e
  | GStruct fs => parse_ok_f c fs
  end
with parse_ok_f (c : case) (fs : gfields) : bool :=
  match fs with GFNil => true | GFCons _ _ _ t _ r => parse_ok c t && parse_ok_f c r end.

Definition cbq_ok (c : case) : bool :=
  forallb (fun x => negb (fst (snd x)) || tag_ok_raw (fst x)) (c_cbq c).

(* the tracker never hands out a predeclared identifier (hypothesis tracker_not_predeclared = C03_not_predeclared_universe,
   true of the tracker after fixes/C03-3; re-tested here on the import table of every case) *)
Definition not_predeclared_ok (c : case) : bool :=
  forallb (fun x => negb (is_predeclared (snd x))) (c_imports c).

(* ---- the classifier of the known-finding class nested_generic_arg_list (C15 defect #11) ---- *)
(* some instantiation N[.. A ..] has an argument A = L[x1..xn], n >= 2, with a generic xj, j < n *)
Definition is_generic (g : gty) : bool := match g with GNamed _ _ (GCons _ _) => true | _ => false end.

Fixpoint nonlast_generic (l : gtys) : bool :=
  match l with
  | GNil => false
  | GCons _ GNil => false
  | GCons g r => is_generic g || nonlast_generic r
  end.

Definition bad_arg (g : gty) : bool :=
  match g with GNamed _ _ a => nonlast_generic a | _ => false end.

Fixpoint nested_cls (g : gty) : bool :=
  match g with
  | GBasic _ | GError | GAny => false
  | GNamed _ _ a => nested_cls_l a
  | GPtr e | GChan e | GSlice e | GArray _ e => nested_cls e
  | GMap k e => nested_cls k || nested_cls e
  | GStruct fs => nested_cls_f fs
  end
with nested_cls_l (l : gtys) : bool :=
  match l with GNil => false | GCons g r => bad_arg g || nested_cls g || nested_cls_l r end
with nested_cls_f (fs : gfields) : bool :=
  match fs with GFNil => false | GFCons _ _ _ t _ r => nested_cls t || nested_cls_f r end.

(* ---- model vs implementation ---- *)
Definition view_of_arg (x : idarg) : option tyview :=
  match x with IdR v | IdT v => Some v | _ => None end.

Definition all_tags_ok : bytes -> bool := fun _ => true.

Definition mismatch (c : case) : bool :=
  (match model c, c_text c with
   | Ok (a, e'), Some txt =>
       negb (bytes_eqb (print (quote_of c) a) txt)
       || (c_dom c && match c_ast c with Some oa => negb (tyast_eqb (norm a) (norm oa)) | None => false end)
       || negb (env_equiv e' (c_imports c))
   | Panic, None => false
   | _, _ => true
   end)
  || (match c_g c with
      | Some g =>
          (c_dom c && match view_of_arg (c_arg c) with Some v => negb (tyview_eqb (view_of g) v) | None => false end)
          || negb (Bool.eqb (in_domain all_tags_ok (c_self c) g) (c_dom c))
          || negb (Bool.eqb (nested_cls g) (c_cls c))
          || (c_dom c && negb (c_cls c) && negb (parse_ok c g))
      | None => c_dom c
      end)
  || negb (cbq_ok c)
  || negb (not_predeclared_ok c).

(* ---- the property, as a predicate on what the implementation rendered ---- *)
Definition subset_b (a b : list bytes) : bool := forallb (fun x => mem_bytes x b) a.

Definition holds (c : case) : bool :=
  match c_g c with
  | None => true
  | Some g =>
      if negb (in_domain all_tags_ok (c_self c) g) then true else
      match c_text c, c_ast c with
      | Some _, Some a =>
          (* the text denotes, in the target package with the registered imports, the type itself *)
          option_eqb gty_eqb (resolve (c_imports c) (c_self c) a) (Some (canon g))
          (* the import table is a bijection and keeps what was there *)
          && nodup_b (map snd (c_imports c)) && nodup_b (map fst (c_imports c))
          && forallb (fun x => mem_pair x (c_imports c)) (c_init c)
          (* registered = what was there + exactly the foreign packages of the type *)
          && subset_b (map fst (c_imports c)) (map fst (c_init c) ++ foreign_pkgs (c_self c) g)
          && subset_b (foreign_pkgs (c_self c) g) (map fst (c_imports c))
      | _, _ => false
      end
  end.

Definition mismatches (cs : list case) : list nat := bad_indices mismatch cs.
Definition violations (cs : list case) : list nat := bad_indices (fun c => negb (holds c)) cs.
