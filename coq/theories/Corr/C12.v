(* Correspondence evaluators for C12: model vs observation, and the property's own sentence
   evaluated on the implementation's observed output (the predicate does not mention the model:
   it uses Spec/Comments.v only). *)
Require Export Gengo.Base.Bytes Gengo.Model.Comments Gengo.Spec.Comments.
From Coq Require Export ZArith.

(* one declared name of a generated file *)
Record query := mk_query {
  q_file : N;
  q_line : Z;                       (* line of the name *)
  q_exp_doc : option bytes;         (* Text() of the stand-alone comment the PRINTED layout has on the line above *)
  q_exp_cmt : option bytes;         (* Text() of the trailing comment the layout printed for the declaration on this line *)
  q_tags : tagmap;                  (* observed Package.Doc(pos): tag map (sorted by key) ... *)
  q_doc : list bytes;               (* ... and remaining lines *)
  q_cmt : list bytes                (* observed Package.Comment(pos) *)
}.

Inductive case :=
| CTags (markers : bytes) (lines : list bytes) (tags : tagmap) (others : list bytes)
| CLayout (evs : list event) (leads : list group) (cont : bool) (qs : list query).
(* cont: the harness' copy of the classifier name_on_continuation_line *)

Definition lines_eqb := list_eqb bytes_eqb.

(* equality of association lists as maps (keys are unique on both sides) *)
Definition tagmap_eqb (a c : tagmap) : bool :=
  Nat.eqb (length a) (length c) &&
  forallb (fun e => match tag_lookup (fst e) c with
                    | Some vs => lines_eqb (snd e) vs
                    | None => false
                    end) a.

(* ---- model vs observed ---- *)

Definition tags_mismatch (markers : bytes) (lines : list bytes) (tags : tagmap) (others : list bytes) : bool :=
  let r := extract_tags true markers lines in
  negb (tagmap_eqb (fst r) tags && lines_eqb (snd r) others).

Definition query_mismatch (ix : index) (q : query) : bool :=
  let d := doc_of true true ix (q_file q) (q_line q) in
  negb (tagmap_eqb (fst d) (q_tags q) && lines_eqb (snd d) (q_doc q)
        && lines_eqb (comment_of true ix (q_file q) (q_line q)) (q_cmt q)).

Definition mismatch (c : case) : bool :=
  match c with
  | CTags ms ls tags others => tags_mismatch ms ls tags others
  | CLayout evs leads cont qs =>
      negb (wf_b evs leads)                          (* the assumed go/parser + ast.Inspect facts *)
      || negb (Bool.eqb cont (name_on_continuation_line evs))   (* both copies of the classifier agree *)
      || (let ix := build true evs in existsb (query_mismatch ix) qs)
  end.

(* ---- the property, on input + observed ---- *)

Definition obs_values (k : bytes) (tags : tagmap) : list bytes :=
  match tag_lookup k tags with Some vs => vs | None => [] end.

(* every line classified exactly once: the non-tag lines, stripped and in order; per key the
   values of the tag lines with that key, in order; no key without a value *)
Definition tags_hold (markers : bytes) (lines : list bytes) (tags : tagmap) (others : list bytes) : bool :=
  let ms := markers_or_default markers in
  lines_eqb others (spec_others ms lines)
  && forallb (fun k => lines_eqb (obs_values k tags) (spec_values ms lines k))
             (map fst tags ++ spec_keys ms lines)
  && forallb (fun e => negb (is_nil (snd e))) tags.

Definition exp_lines (t : option bytes) : list bytes :=
  match t with None => [] | Some t => spec_lines t end.

Definition query_holds (q : query) : bool :=
  tags_hold [] (exp_lines (q_exp_doc q)) (q_tags q) (q_doc q)
  && lines_eqb (q_cmt q) (exp_lines (q_exp_cmt q)).

Definition holds (c : case) : bool :=
  match c with
  | CTags ms ls tags others => tags_hold ms ls tags others
  | CLayout _ _ _ qs => forallb query_holds qs
  end.

Definition mismatches (cs : list case) : list nat := bad_indices mismatch cs.
Definition violations (cs : list case) : list nat := bad_indices (fun c => negb (holds c)) cs.
